/-! Spike: flat-array Merkle tree (FullMerkleTree) — update_nodes restores the invariant. Core Lean only. -/
namespace FullSpike
variable {α : Type} [Inhabited α]

def par (i : Nat) : Nat := (i + 1) / 2 - 1

/-- for parent in ps..=pe: nodes[parent] = H(nodes[2p+1], nodes[2p+2]) -/
def recompute (H : α → α → α) (a : Array α) (ps : Nat) : Nat → Array α
  | 0 => a
  | n+1 =>
    let a' := recompute H a ps n
    let p := ps + n
    a'.setIfInBounds p (H a'[2*p+1]! a'[2*p+2]!)

/-- update_nodes(start,end) with fuel = level of start -/
def updateNodes (H : α → α → α) : Nat → Array α → Nat → Nat → Array α
  | 0, a, _, _ => a
  | L+1, a, s, e =>
    let ps := par s; let pe := par e
    updateNodes H L (recompute H a ps (pe + 1 - ps)) ps pe

def OnLevel (L i : Nat) : Prop := 2^L - 1 ≤ i ∧ i ≤ 2^(L+1) - 2

def Touched : Nat → Nat → Nat → Nat → Prop
  | 0, _, _, _ => False
  | L+1, s, e, j => (par s ≤ j ∧ j ≤ par e) ∨ Touched L (par s) (par e) j

def Cons (H : α → α → α) (a : Array α) (j : Nat) : Prop := a[j]! = H a[2*j+1]! a[2*j+2]!

theorem two_pow_pos' (L : Nat) : 0 < 2^L := Nat.pos_of_ne_zero (by simp)

theorem par_onLevel {L i : Nat} (h : OnLevel (L+1) i) : OnLevel L (par i) := by
  unfold OnLevel par at *
  have h1 : 2^(L+1) = 2 * 2^L := by rw [Nat.pow_succ]; omega
  have h2 : 2^(L+1+1) = 2 * 2^(L+1) := by rw [Nat.pow_succ]; omega
  have := two_pow_pos' L
  omega

theorem par_mono {i j : Nat} (h : i ≤ j) : par i ≤ par j := by unfold par; omega

theorem getElem!_setIfInBounds (a : Array α) (i j : Nat) (v : α) :
    (a.setIfInBounds i v)[j]! = if i = j ∧ i < a.size then v else a[j]! := by
  simp only [Array.getElem!_eq_getD, Array.getD_eq_getD_getElem?, Array.getElem?_setIfInBounds]
  by_cases hij : i = j
  · subst hij
    by_cases hi : i < a.size <;> simp [hi]
  · simp [hij]

/-- recompute touches exactly [ps, ps+n) and leaves each such j consistent, given children are above the range -/
theorem recompute_spec (H : α → α → α) (a : Array α) (ps n : Nat)
    (hsz : ps + n ≤ a.size) (hch : ∀ p, ps ≤ p → p < ps + n → ps + n ≤ 2*p+1) :
    (recompute H a ps n).size = a.size ∧
    (∀ j, (j < ps ∨ ps + n ≤ j) → (recompute H a ps n)[j]! = a[j]!) ∧
    (∀ j, ps ≤ j → j < ps + n → (recompute H a ps n)[j]! = H a[2*j+1]! a[2*j+2]!) := by
  induction n with
  | zero => simp [recompute]; intro j h1 h2; omega
  | succ n ih =>
    have ih' := ih (by omega) (fun p h1 h2 => by have := hch p h1 (by omega); omega)
    obtain ⟨hs, hout, hin⟩ := ih'
    simp only [recompute]
    refine ⟨by simp [hs], ?_, ?_⟩
    · intro j hj
      rw [getElem!_setIfInBounds]
      have : ¬ (ps + n = j ∧ ps + n < (recompute H a ps n).size) := by omega
      simp only [this, if_false]
      exact hout j (by omega)
    · intro j h1 h2
      rw [getElem!_setIfInBounds]
      by_cases hj : ps + n = j
      · subst hj
        have hlt : ps + n < (recompute H a ps n).size := by omega
        simp only [hlt, and_self, if_true]
        have c1 := hch (ps+n) (by omega) (by omega)
        rw [hout (2*(ps+n)+1) (by omega), hout (2*(ps+n)+2) (by omega)]
      · have : ¬ (ps + n = j ∧ ps + n < (recompute H a ps n).size) := by omega
        simp only [this, if_false]
        exact hin j h1 (by omega)

theorem touched_lt {L s e j : Nat} (hs : OnLevel L s) (he : OnLevel L e) (h : Touched L s e j) : j < 2^L - 1 := by
  induction L generalizing s e with
  | zero => exact absurd h (by simp [Touched])
  | succ L ih =>
    simp only [Touched] at h
    have hps := par_onLevel hs; have hpe := par_onLevel he
    have h1 : 2^(L+1) = 2 * 2^L := by rw [Nat.pow_succ]; omega
    have := two_pow_pos' L
    rcases h with ⟨_, h2⟩ | h
    · unfold OnLevel at hpe; omega
    · have := ih hps hpe h; omega

/-- Main lemma: update_nodes leaves untouched cells unchanged and makes every touched cell consistent. -/
theorem updateNodes_spec (H : α → α → α) (L : Nat) : ∀ (a : Array α) (s e : Nat),
    OnLevel L s → OnLevel L e → s ≤ e → 2^(L+1) - 1 ≤ a.size →
    (updateNodes H L a s e).size = a.size ∧
    (∀ j, ¬ Touched L s e j → (updateNodes H L a s e)[j]! = a[j]!) ∧
    (∀ j, Touched L s e j → Cons H (updateNodes H L a s e) j) := by
  induction L with
  | zero => intro a s e _ _ _ _; simp [updateNodes, Touched]
  | succ L ih =>
    intro a s e hs he hse hsz
    have hps := par_onLevel hs; have hpe := par_onLevel he
    have hpse := par_mono hse
    have h1 : 2^(L+1) = 2 * 2^L := by rw [Nat.pow_succ]; omega
    have h2 : 2^(L+1+1) = 2 * 2^(L+1) := by rw [Nat.pow_succ]; omega
    have hpos := two_pow_pos' L
    have hr := recompute_spec H a (par s) (par e + 1 - par s)
      (by unfold OnLevel at hpe; omega)
      (by intro p hp1 hp2; unfold OnLevel at hps hpe; omega)
    obtain ⟨rs, rout, rin⟩ := hr
    have ih' := ih (recompute H a (par s) (par e + 1 - par s)) (par s) (par e) hps hpe hpse (by omega)
    obtain ⟨us, uout, uin⟩ := ih'
    simp only [updateNodes]
    refine ⟨by omega, ?_, ?_⟩
    · intro j hj
      simp only [Touched, not_or] at hj
      rw [uout j hj.2]
      exact rout j (by omega)
    · intro j hj
      simp only [Touched] at hj
      rcases hj with hj | hj
      · -- j in the recomputed range of this level: not touched deeper; its children are on level L+1: not touched deeper
        have hnt : ∀ k, 2^L - 1 ≤ k → ¬ Touched L (par s) (par e) k := by
          intro k hk ht; have := touched_lt hps hpe ht; omega
        unfold Cons
        unfold OnLevel at hps hpe
        rw [uout j (hnt j (by omega)), uout (2*j+1) (hnt _ (by omega)), uout (2*j+2) (hnt _ (by omega))]
        rw [rin j (by omega) (by omega), rout (2*j+1) (by omega), rout (2*j+2) (by omega)]
      · exact uin j hj

end FullSpike

#print axioms FullSpike.updateNodes_spec
#print axioms FullSpike.recompute_spec
