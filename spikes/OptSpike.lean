/-! Spike: faithful model of OptimalMerkleTree::update_hashes over an assoc-list map; kernel-checked negation at a witness. -/
namespace OptSpike

abbrev Key := Nat × Nat
structure T where
  depth : Nat
  cached : List Nat          -- cached_nodes[0..depth], index = level (0 = root)
  nodes : List (Key × Nat)   -- most recent binding first

def H (a b : Nat) : Nat := 2^(2^a * (2*b+1)) % 1000003 + 7 * a + 13 * b + 1   -- some concrete mixing function
def H' (a b : Nat) : Nat := (a * 1000003 + b * 7919 + 17) % 2147483647

def T.getNode (t : T) (d i : Nat) : Nat :=
  match t.nodes.lookup (d, i) with
  | some v => v
  | none => t.cached.getD d 0

def T.hashCouple (t : T) (d i : Nat) : Nat :=
  let b := i - i % 2
  H' (t.getNode d b) (t.getNode d (b+1))

def mkCached (depth dflt : Nat) : List Nat :=
  -- leaf default at index depth, parents above
  let rec go : Nat → Nat → List Nat → List Nat
    | 0, _, acc => acc
    | n+1, cur, acc => go n (H' cur cur) (H' cur cur :: acc)
  go depth dflt [dflt]

def T.new (depth : Nat) : T := { depth, cached := mkCached depth 0, nodes := [] }

structure LoopSt where
  t : T
  parentDepth : Nat
  parentIndex : Nat
  parentIndexBak : Nat
  parentMaxIndex : Nat
  currentDepth : Nat
  currentIndex : Nat
  currentIndexBak : Nat

/-- one iteration of the `loop` body; returns none when it breaks -/
def loopStep (s : LoopSt) : Option LoopSt :=
  let n := s.t.hashCouple s.currentDepth s.currentIndex
  let t' := { s.t with nodes := ((s.parentDepth, s.parentIndex), n) :: s.t.nodes }
  if s.parentDepth = 0 then none else
  let pi := s.parentIndex + 1
  let ci := s.currentIndex + 2
  if pi ≥ s.parentMaxIndex then
    some { t := t', parentDepth := s.parentDepth - 1, parentIndex := s.parentIndexBak / 2, parentIndexBak := s.parentIndexBak / 2,
           parentMaxIndex := s.parentMaxIndex / 2, currentDepth := s.currentDepth - 1,
           currentIndex := s.currentIndexBak / 2, currentIndexBak := s.currentIndexBak / 2 }
  else some { s with t := t', parentIndex := pi, currentIndex := ci }

def loopRun : Nat → LoopSt → T
  | 0, s => s.t
  | f+1, s =>
    let n := s.t.hashCouple s.currentDepth s.currentIndex
    let t' := { s.t with nodes := ((s.parentDepth, s.parentIndex), n) :: s.t.nodes }
    match loopStep s with
    | none => t'
    | some s' => loopRun f s'

def T.updateHashes (t : T) (index length : Nat) : T :=
  let parentDepth := t.depth - 1
  let parentIndex := index / 2
  let pmax0 := 2^parentDepth / 2
  let cim := if (index + length) % 2 = 0 then index + length + 2 else index + length + 1
  let pmax := min (cim / 2) pmax0
  let ci := if index % 2 = 0 then index else index - 1
  loopRun (2^(t.depth+1)) ⟨t, parentDepth, parentIndex, parentIndex, pmax, t.depth, ci, ci⟩

def T.setRange (t : T) (start : Nat) (vs : List Nat) : T :=
  let t1 : T := { t with nodes := (vs.zipIdx.map (fun (p : Nat × Nat) => ((t.depth, start + p.2), p.1))).reverse ++ t.nodes }
  t1.updateHashes start vs.length

def T.root (t : T) : Nat := t.getNode 0 0

def idealRoot : Nat → List Nat → Nat
  | 0, l => l.headD 0
  | d+1, l =>
    let rec pairs : List Nat → List Nat
      | a :: b :: r => H' a b :: pairs r
      | _ => []
    idealRoot d (pairs l)

-- witness from the probe: depth 3, set_range(4, [1,2,3,4])
set_option maxRecDepth 100000 in
theorem optimal_range_write_wrong :
    ((T.new 3).setRange 4 [1,2,3,4]).root ≠ idealRoot 3 [0,0,0,0,1,2,3,4] := by decide +kernel

-- single set is fine on the same tree
set_option maxRecDepth 100000 in
theorem optimal_single_set_ok :
    ((T.new 3).setRange 6 [9]).root = idealRoot 3 [0,0,0,0,0,0,9,0] := by decide +kernel

#print axioms optimal_range_write_wrong
end OptSpike
