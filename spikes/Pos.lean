def P : Nat := 21888242871839275222246405745257275088548364400416034343698204186575808495617

structure Lfsr where
  st : Array Bool   -- 80 bits, st[0] is the oldest
deriving Inhabited

def Lfsr.step (l : Lfsr) : Lfsr × Bool :=
  let s := l.st
  let nb := xor (xor (xor (xor (xor s[62]! s[51]!) s[38]!) s[23]!) s[13]!) s[0]!
  ({ st := (s.extract 1 80).push nb }, nb)

def bitsBE (v n : Nat) : List Bool := (List.range n).reverse.map (fun i => v.testBit i)

def Lfsr.init (nbits t rf rp : Nat) : Lfsr := Id.run do
  let bits := bitsBE 1 2 ++ bitsBE 0 4 ++ bitsBE nbits 12 ++ bitsBE t 12 ++ bitsBE rf 10 ++ bitsBE rp 10 ++ List.replicate 30 true
  let mut l : Lfsr := { st := bits.toArray }
  for _ in [0:160] do l := (l.step).1
  return l

partial def Lfsr.nextBit (l : Lfsr) : Lfsr × Bool :=
  let (l1, b1) := l.step
  let (l2, b2) := l1.step
  if b1 then (l2, b2) else l2.nextBit

def Lfsr.getBitsNat (l : Lfsr) (n : Nat) : Lfsr × Nat := Id.run do
  let mut l := l; let mut v := 0
  for _ in [0:n] do
    let (l', b) := l.nextBit
    l := l'; v := 2*v + (if b then 1 else 0)
  return (l, v)

partial def Lfsr.fieldRej (l : Lfsr) : Lfsr × Nat :=
  let (l', v) := l.getBitsNat 254
  if v < P then (l', v) else l'.fieldRej

def Lfsr.fieldMod (l : Lfsr) : Lfsr × Nat :=
  let (l', v) := l.getBitsNat 254
  (l', v % P)

def powMod (b e : Nat) : Nat := Id.run do
  let mut r := 1; let mut b := b % P; let mut e := e
  while e > 0 do
    if e % 2 == 1 then r := r*b % P
    b := b*b % P; e := e/2
  return r

structure Params where
  t : Nat
  rf : Nat
  rp : Nat
  c : Array Nat
  m : Array (Array Nat)

def mkParams (t rf rp : Nat) : Params := Id.run do
  let mut l := Lfsr.init 254 t rf rp
  let mut c : Array Nat := #[]
  for _ in [0:(rf+rp)*t] do
    let (l', v) := l.fieldRej; l := l'; c := c.push v
  let mut xs : Array Nat := #[]; let mut ys : Array Nat := #[]
  for _ in [0:t] do let (l', v) := l.fieldMod; l := l'; xs := xs.push v
  for _ in [0:t] do let (l', v) := l.fieldMod; l := l'; ys := ys.push v
  let m := xs.map (fun x => ys.map (fun y => powMod ((x+y)%P) (P-2)))
  return { t, rf, rp, c, m }

def pow5 (x : Nat) : Nat := let x2 := x*x % P; let x4 := x2*x2 % P; x4*x % P

def hash (pr : Params) (inp : Array Nat) : Nat := Id.run do
  let mut st : Array Nat := #[0] ++ inp
  for r in [0:pr.rf+pr.rp] do
    st := st.mapIdx (fun i v => (v + pr.c[r*pr.t+i]!) % P)
    if r < pr.rf/2 || r >= pr.rf/2 + pr.rp then st := st.map pow5
    else st := st.set! 0 (pow5 st[0]!)
    st := pr.m.map (fun row => (List.range pr.t).foldl (fun acc j => (acc + row[j]! * st[j]!) % P) 0)
  return st[0]!

def main : IO Unit := do
  let t0 ← IO.monoMsNow
  let p3 := mkParams 3 8 57
  let t1 ← IO.monoMsNow
  IO.println s!"params t=3 in {t1-t0} ms; H(1,2) = {hash p3 #[1,2]}"
  let mut acc := 0
  for i in [0:10000] do acc := hash p3 #[acc, i]
  let t2 ← IO.monoMsNow
  IO.println s!"10000 hashes in {t2-t1} ms acc={acc}"
  let p9 := mkParams 9 8 63
  let t3 ← IO.monoMsNow
  IO.println s!"params t=9 in {t3-t2} ms; H(1..8) = {hash p9 #[1,2,3,4,5,6,7,8]}"
