// Probe for C16: pmtree over an in-memory Database with fail-after-N injection (no hook needed at this level).
use zerokit_utils::pmtree::{self, Database, DBKey, Value, PmtreeResult, PmtreeErrorKind, TreeErrorKind, Hasher};
use std::collections::HashMap;
use std::sync::{Arc, Mutex};
use std::sync::atomic::{AtomicI64, Ordering};

static FAIL_AT: AtomicI64 = AtomicI64::new(-1);
static WRITES: AtomicI64 = AtomicI64::new(0);
lazy_static::lazy_static! { static ref STORE: Arc<Mutex<HashMap<DBKey, Value>>> = Arc::new(Mutex::new(HashMap::new())); }
fn tick() -> bool { let n = WRITES.fetch_add(1, Ordering::SeqCst); n == FAIL_AT.load(Ordering::SeqCst) }

struct MemDb;
#[derive(Default)] struct Cfg;
impl Database for MemDb {
    type Config = Cfg;
    fn new(_: Cfg) -> PmtreeResult<Self> { STORE.lock().unwrap().clear(); Ok(MemDb) }
    fn load(_: Cfg) -> PmtreeResult<Self> { Ok(MemDb) }
    fn get(&self, k: DBKey) -> PmtreeResult<Option<Value>> { Ok(STORE.lock().unwrap().get(&k).cloned()) }
    fn put(&mut self, k: DBKey, v: Value) -> PmtreeResult<()> { if tick() { return Err(PmtreeErrorKind::TreeError(TreeErrorKind::InvalidKey)); } STORE.lock().unwrap().insert(k, v); Ok(()) }
    fn put_batch(&mut self, m: HashMap<DBKey, Value>) -> PmtreeResult<()> { if tick() { return Err(PmtreeErrorKind::TreeError(TreeErrorKind::InvalidKey)); } STORE.lock().unwrap().extend(m); Ok(()) }
    fn close(&mut self) -> PmtreeResult<()> { if tick() { return Err(PmtreeErrorKind::TreeError(TreeErrorKind::InvalidKey)); } Ok(()) }
}
#[derive(Clone, Copy, PartialEq, Eq)] struct Hh;
impl Hasher for Hh { type Fr = u64; fn serialize(v: u64) -> Value { v.to_le_bytes().to_vec() } fn deserialize(v: Value) -> u64 { u64::from_le_bytes(v.try_into().unwrap()) }
  fn hash(i: &[u64]) -> u64 { i[0].wrapping_mul(0x9E3779B97F4A7C15).rotate_left(17) ^ i[1].wrapping_mul(0xC2B2AE3D27D4EB4F).wrapping_add(0x165667B19E3779F9) } }
type T = pmtree::MerkleTree<MemDb, Hh>;
fn ideal_root(l: &[u64]) -> u64 { let mut v = l.to_vec(); while v.len() > 1 { v = v.chunks(2).map(|c| Hh::hash(&[c[0], c[1]])).collect(); } v[0] }

fn main() {
    let depth = 3usize; let cap = 1usize << depth;
    // history: 3 acked ops, then a 4th op during which write #k fails
    let ops: Vec<Box<dyn Fn(&mut T) -> PmtreeResult<()>>> = vec![
        Box::new(|t| t.set(1, 11)), Box::new(|t| t.update_next(22)), Box::new(|t| t.set_range(4, vec![44u64, 55, 66])),
    ];
    let finals: Vec<(&str, Box<dyn Fn(&mut T) -> PmtreeResult<()>>)> = vec![
        ("set(1,99)", Box::new(|t| t.set(1, 99))), ("set_range(0,[7,8,9])", Box::new(|t| t.set_range(0, vec![7u64,8,9]))), ("delete(2)", Box::new(|t| t.delete(2))),
    ];
    for (name, fin) in finals.iter() {
        // count writes of the final op
        FAIL_AT.store(-1, Ordering::SeqCst);
        let mut t = T::new(depth, Cfg).unwrap(); for o in &ops { o(&mut t).unwrap(); }
        let w0 = WRITES.load(Ordering::SeqCst); fin(&mut t).unwrap(); let w1 = WRITES.load(Ordering::SeqCst);
        let nwrites = w1 - w0;
        let mut summary = vec![];
        for k in 0..nwrites {
            FAIL_AT.store(-1, Ordering::SeqCst);
            let mut t = T::new(depth, Cfg).unwrap(); for o in &ops { o(&mut t).unwrap(); }
            let acked: Vec<u64> = (0..cap).map(|i| t.get(i).unwrap()).collect(); let acked_next = t.leaves_set();
            FAIL_AT.store(WRITES.load(Ordering::SeqCst) + k, Ordering::SeqCst);
            let r = fin(&mut t);
            FAIL_AT.store(-1, Ordering::SeqCst);
            let mem_root = t.root();
            drop(t);
            let t2 = T::load(Cfg).unwrap();
            let after: Vec<u64> = (0..cap).map(|i| t2.get(i).unwrap()).collect();
            let changed: Vec<usize> = (0..cap).filter(|&i| after[i] != acked[i]).collect();
            summary.push(format!("k={} err={} changed_leaves={:?} next {}->{} root_consistent_after_reopen={} memroot==dbroot {}", k, r.is_err(), changed, acked_next, t2.leaves_set(), t2.root() == ideal_root(&after), mem_root == t2.root()));
        }
        println!("{} ({} storage writes):", name, nwrites); for s in summary { println!("   {}", s); }
    }
}
