use rln::circuit::Fr;
use rln::hashers::{poseidon_hash, hash_to_field};
use rln::protocol::*;
use rln::public::RLN;
use rln::utils::*;
use std::io::Cursor;
use std::panic::{catch_unwind, AssertUnwindSafe};
use ark_ff::{PrimeField, BigInteger};
use std::time::Instant;

fn main() {
    std::panic::set_hook(Box::new(|_| {}));
    let mut rln = RLN::new(20, Cursor::new("{}".to_string())).unwrap();
    let pm1 = -Fr::from(1u64);
    let cases: Vec<(&str, Fr, usize, u64, u64, Fr, Vec<u8>)> = vec![
        ("idx max, limit 2^16, mid 2^16-1, e=p-1, empty signal", Fr::from(0u64), (1<<20)-1, 65536, 65535, pm1, vec![]),
        ("idx 2^19, limit 1, mid 0, e=0, long signal", pm1, 1<<19, 1, 0, Fr::from(0u64), vec![7u8; 10000]),
        ("idx 0, limit 2^16+5, mid 7 (limit above 2^16 but satisfiable)", Fr::from(1u64), 0, 65541, 7, Fr::from(1u64), vec![1,2,3]),
        ("idx 5, limit 70000, mid 1 (unsat per reference)", Fr::from(2u64), 5, 70000, 1, Fr::from(1u64), vec![1]),
        ("idx 6, limit p-1-ish, mid 65536 (unsat)", Fr::from(3u64), 6, 65537, 65536, Fr::from(1u64), vec![1]),
    ];
    for (name, s, idx, lim, mid, e, sig) in cases {
        let limf = Fr::from(lim);
        let rc = poseidon_hash(&[poseidon_hash(&[s]), limf]);
        rln.set_leaf(idx, Cursor::new(fr_to_bytes_le(&rc))).unwrap();
        let inp = prepare_prove_input(s, idx, limf, Fr::from(mid), e, &sig);
        let t = Instant::now();
        let mut out = Cursor::new(Vec::new());
        let r = catch_unwind(AssertUnwindSafe(|| rln.generate_rln_proof(Cursor::new(inp), &mut out).map_err(|e| e.to_string())));
        let el = t.elapsed();
        match r { Err(_) => println!("{name}: PANIC"), Ok(Err(e)) => println!("{name}: Err {e}"), Ok(Ok(())) => {
            let pd = out.into_inner();
            let vi = prepare_verify_input(pd.clone(), &sig);
            let v = rln.verify_rln_proof(Cursor::new(vi.clone())).map_err(|e| e.to_string());
            let mut roots = Cursor::new(Vec::new()); rln.get_root(&mut roots).unwrap();
            let v2 = rln.verify_with_roots(Cursor::new(vi.clone()), Cursor::new(roots.into_inner())).map_err(|e| e.to_string());
            println!("{name}: ok in {:?}; verify={:?} with_roots={:?}", el, v, v2);
        } }
    }
    // tamper matrix on a valid message
    let s = Fr::from(42u64); let limf = Fr::from(10u64);
    let rc = poseidon_hash(&[poseidon_hash(&[s]), limf]);
    rln.set_leaf(9, Cursor::new(fr_to_bytes_le(&rc))).unwrap();
    let sig = b"signal".to_vec();
    let inp = prepare_prove_input(s, 9, limf, Fr::from(3u64), Fr::from(5u64), &sig);
    let mut out = Cursor::new(Vec::new()); rln.generate_rln_proof(Cursor::new(inp), &mut out).unwrap();
    let pd = out.into_inner(); let vi = prepare_verify_input(pd.clone(), &sig);
    let names = ["root","ext","x","y","nullifier"];
    for (k, n) in names.iter().enumerate() {
        let mut t = vi.clone(); t[128 + 32*k] ^= 1;
        let r = catch_unwind(AssertUnwindSafe(|| rln.verify_rln_proof(Cursor::new(t.clone())).map_err(|e| e.to_string())));
        println!("flip {} -> {:?}", n, r.map_err(|_| "PANIC"));
    }
    for bit in [0usize, 7, 255, 256+3, 511, 1023] {
        let mut t = vi.clone(); t[bit/8] ^= 1 << (bit%8);
        let r = catch_unwind(AssertUnwindSafe(|| rln.verify_rln_proof(Cursor::new(t.clone())).map_err(|e| e.to_string())));
        println!("flip proof bit {} -> {:?}", bit, r.map_err(|_| "PANIC"));
    }
    let mut t = vi.clone(); let l = t.len(); t[l-1] ^= 1; println!("flip signal byte -> {:?}", rln.verify_rln_proof(Cursor::new(t)).map_err(|e| e.to_string()));
    let mut t = vi.clone(); t[288] = 5; println!("declared len 5 (of 6) -> {:?}", rln.verify_rln_proof(Cursor::new(t)).map_err(|e| e.to_string()));
    let mut t = vi.clone(); t.push(0); println!("trailing byte -> {:?}", rln.verify_rln_proof(Cursor::new(t)).map_err(|e| e.to_string()));
    // roots buffers
    let mut rb = Cursor::new(Vec::new()); rln.get_root(&mut rb).unwrap(); let root = rb.into_inner();
    println!("roots 31 bytes -> {:?}", rln.verify_with_roots(Cursor::new(vi.clone()), Cursor::new(vec![9u8;31])).map_err(|e| e.to_string()));
    let mut doc = 1u64.to_le_bytes().to_vec(); doc.extend(&root);
    println!("roots per doc comment [count|root] -> {:?}", rln.verify_with_roots(Cursor::new(vi.clone()), Cursor::new(doc)).map_err(|e| e.to_string()));
    let mut wrong = fr_to_bytes_le(&Fr::from(1u64)); println!("roots [1] -> {:?}", rln.verify_with_roots(Cursor::new(vi.clone()), Cursor::new(wrong.clone())).map_err(|e| e.to_string()));
    wrong.extend(&root); println!("roots [1, root] -> {:?}", rln.verify_with_roots(Cursor::new(vi.clone()), Cursor::new(wrong)).map_err(|e| e.to_string()));
    // tree change after proving
    rln.set_leaf(100, Cursor::new(fr_to_bytes_le(&Fr::from(1u64)))).unwrap();
    println!("after tree change -> {:?}", rln.verify_rln_proof(Cursor::new(vi.clone())).map_err(|e| e.to_string()));
    // with_witness: path index 2
    let ws = rln.get_serialized_rln_witness(Cursor::new(prepare_prove_input(s, 9, limf, Fr::from(3u64), Fr::from(5u64), &sig))).unwrap();
    let mut w2 = ws.clone(); let off = 96 + 8 + 20*32 + 8; println!("path idx bytes {:?}", &ws[off..off+20]);
    w2[off+3] = 2;
    let mut out = Cursor::new(Vec::new());
    let r = catch_unwind(AssertUnwindSafe(|| rln.generate_rln_proof_with_witness(Cursor::new(w2), &mut out).map_err(|e| e.to_string())));
    println!("with_witness path idx 2 -> {:?}", r.as_ref().map_err(|_| "PANIC"));
    if let Ok(Ok(())) = r { let mut roots = Cursor::new(Vec::new()); let v = rln.verify_with_roots(Cursor::new(prepare_verify_input(out.into_inner(), &sig)), roots.clone()); println!("   verify_with_roots(empty) -> {:?}", v.map_err(|e| e.to_string())); let _ = &mut roots; }
    // wrong path length
    let mut w3 = ws[..96].to_vec(); w3.extend(19u64.to_le_bytes()); w3.extend(&ws[104..104+19*32]); w3.extend(19u64.to_le_bytes()); w3.extend(&ws[off..off+19]); w3.extend(&ws[off+20..]);
    let mut out = Cursor::new(Vec::new());
    let r = catch_unwind(AssertUnwindSafe(|| rln.generate_rln_proof_with_witness(Cursor::new(w3), &mut out).map_err(|e| e.to_string())));
    println!("with_witness path len 19 -> {:?}", r.map_err(|_| "PANIC"));
}
