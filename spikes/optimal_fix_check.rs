use zerokit_utils::*;
#[derive(Clone, Copy, PartialEq, Eq)] struct Hh;
impl Hasher for Hh { type Fr = u64; fn default_leaf() -> u64 { 0 } fn hash(i: &[u64]) -> u64 { i[0].wrapping_mul(0x9E3779B97F4A7C15).rotate_left(17) ^ i[1].wrapping_mul(0xC2B2AE3D27D4EB4F).wrapping_add(0x165667B19E3779F9) } }
fn main() {
    let mut seed = 12345u64; let mut rnd = move || { seed ^= seed << 13; seed ^= seed >> 7; seed ^= seed << 17; seed };
    let mut bad = 0; let mut n = 0;
    for depth in 1..=7usize { for _ in 0..3000 {
        let cap = 1usize << depth;
        let mut f = FullMerkleTree::<Hh>::default(depth).unwrap(); let mut o = OptimalMerkleTree::<Hh>::default(depth).unwrap();
        for _ in 0..4 {
            let start = (rnd() as usize) % cap; let len = (rnd() as usize) % (cap - start + 1);
            let vals: Vec<u64> = (0..len).map(|_| rnd()).collect();
            f.set_range(start, vals.clone().into_iter()).unwrap(); o.set_range(start, vals.into_iter()).unwrap();
            n += 1;
            let mut same = f.root() == o.root();
            for l in 0..=depth { for i in 0..cap { same &= f.get_subtree_root(l, i).unwrap() == o.get_subtree_root(l, i).unwrap(); } }
            if !same { bad += 1; }
        }
    } }
    println!("range writes {} mismatches {}", n, bad);
}
