import struct, sys
data = open('/repo/rln/resources/tree_height_20/graph.bin','rb').read()
assert data[:14] == b'wtns.graph.001'
pos = 14
n, = struct.unpack_from('<Q', data, pos); pos += 8
def varint(buf, p):
    r = 0; s = 0
    while True:
        b = buf[p]; p += 1
        r |= (b & 0x7f) << s; s += 7
        if not b & 0x80: return r, p
def fields(buf):
    p = 0; out = []
    while p < len(buf):
        k, p = varint(buf, p)
        f, wt = k >> 3, k & 7
        if wt == 0:
            v, p = varint(buf, p)
        elif wt == 2:
            l, p = varint(buf, p); v = buf[p:p+l]; p += l
        else: raise Exception(wt)
        out.append((f, wt, v))
    return out
nodes = []
DUO = ["Mul","Div","Add","Sub","Pow","Idiv","Mod","Eq","Neq","Lt","Gt","Leq","Geq","Land","Lor","Shl","Shr","Bor","Band","Bxor"]
for _ in range(n):
    l, pos = varint(data, pos); body = data[pos:pos+l]; pos += l
    (f, wt, v), = fields(body)
    d = {ff: vv for ff, _, vv in fields(v)}
    if f == 1: nodes.append(('inp', d.get(1, 0)))
    elif f == 2:
        inner = {ff: vv for ff, _, vv in fields(d[1])}
        nodes.append(('const', int.from_bytes(inner.get(1, b''), 'little')))
    elif f == 3: nodes.append(('uno', d.get(1,0), d.get(2,0)))
    elif f == 4: nodes.append(('duo', DUO[d.get(1,0)], d.get(2,0), d.get(3,0)))
    elif f == 5: nodes.append(('tres', d.get(1,0), d.get(2,0), d.get(3,0), d.get(4,0)))
l, pos = varint(data, pos); md = data[pos:pos+l]; pos += l
off, = struct.unpack_from('<Q', data, pos)
print(len(nodes), 'nodes; metadata len', l, 'trailing offset', off, 'remaining', len(data)-pos-8, file=sys.stderr)
sigs = []
for f, wt, v in fields(md):
    if f == 1:
        p = 0
        while p < len(v):
            x, p = varint(v, p); sigs.append(x)
print('signals', len(sigs), sigs[:8], file=sys.stderr)
# emit Lean
CH = 500
with open('Bundled.lean','w') as o:
    o.write("inductive Nd | inp (i : Nat) | const (v : Nat) | duo (op : Nat) (a b : Nat)\nderiving Repr, DecidableEq\nnamespace Bundled\n")
    chunks = []
    for c in range(0, len(nodes), CH):
        name = f"c{c//CH}"
        chunks.append(name)
        o.write(f"def {name} : List Nd := [\n")
        items = []
        for nd in nodes[c:c+CH]:
            if nd[0]=='inp': items.append(f".inp {nd[1]}")
            elif nd[0]=='const': items.append(f".const {nd[1]}")
            elif nd[0]=='duo': items.append(f".duo {DUO.index(nd[1])} {nd[2]} {nd[3]}")
            else: raise Exception(nd)
        o.write(",\n".join(items)); o.write("]\n")
    o.write("def nodes : List Nd := " + " ++ ".join(chunks) + "\n")
    o.write("def signals : List Nat := [" + ",".join(map(str,sigs)) + "]\n")
    o.write("end Bundled\n")
    o.write("""
def wfAux : List Nd → Nat → Bool
  | [], _ => true
  | .inp i :: r, k => decide (i < 46) && wfAux r (k+1)
  | .const v :: r, k => decide (v < 21888242871839275222246405745257275088548364400416034343698204186575808495617) && wfAux r (k+1)
  | .duo op a b :: r, k => decide (a < k) && decide (b < k) && (op == 0 || op == 2 || op == 3 || op == 16 || op == 18) && wfAux r (k+1)
theorem bundled_wf : wfAux Bundled.nodes 0 = true := by decide +kernel
theorem bundled_len : Bundled.nodes.length = 23414 := by decide +kernel
theorem sig_ok : Bundled.signals.all (· < 23414) = true := by decide +kernel
""")
