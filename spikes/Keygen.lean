/-! Spike: Keccak-256 + ChaCha20 (rand_chacha) + ark-ff Fr::rand, checks zerokit's seeded_keygen test vector. -/
def P : Nat := 21888242871839275222246405745257275088548364400416034343698204186575808495617

namespace Keccak
def RC : Array UInt64 := #[
  0x0000000000000001, 0x0000000000008082, 0x800000000000808A, 0x8000000080008000,
  0x000000000000808B, 0x0000000080000001, 0x8000000080008081, 0x8000000000008009,
  0x000000000000008A, 0x0000000000000088, 0x0000000080008009, 0x000000008000000A,
  0x000000008000808B, 0x800000000000008B, 0x8000000000008089, 0x8000000000008003,
  0x8000000000008002, 0x8000000000000080, 0x000000000000800A, 0x800000008000000A,
  0x8000000080008081, 0x8000000000008080, 0x0000000080000001, 0x8000000080008008]
-- rotation offsets r[x][y] indexed by x + 5*y
def ROT : Array Nat := #[0,1,62,28,27, 36,44,6,55,20, 3,10,43,25,39, 41,45,15,21,8, 18,2,61,56,14]
def rotl (x : UInt64) (n : Nat) : UInt64 := if n % 64 = 0 then x else (x <<< (n % 64).toUInt64) ||| (x >>> (64 - n % 64).toUInt64)
def round (a : Array UInt64) (rc : UInt64) : Array UInt64 := Id.run do
  -- theta
  let c := (Array.range 5).map fun x => a[x]! ^^^ a[x+5]! ^^^ a[x+10]! ^^^ a[x+15]! ^^^ a[x+20]!
  let d := (Array.range 5).map fun x => c[(x+4)%5]! ^^^ rotl c[(x+1)%5]! 1
  let a1 := (Array.range 25).map fun i => a[i]! ^^^ d[i%5]!
  -- rho + pi : B[y, 2x+3y] = rot(A[x,y])
  let mut b : Array UInt64 := Array.replicate 25 0
  for x in [0:5] do
    for y in [0:5] do
      b := b.set! (y + 5*((2*x+3*y)%5)) (rotl a1[x+5*y]! ROT[x+5*y]!)
  -- chi
  let a2 := (Array.range 25).map fun i => let x := i%5; let y := i/5
    b[i]! ^^^ ((~~~ b[(x+1)%5 + 5*y]!) &&& b[(x+2)%5 + 5*y]!)
  return a2.set! 0 (a2[0]! ^^^ rc)
def f1600 (a : Array UInt64) : Array UInt64 := RC.foldl round a
def absorbBlock (st : Array UInt64) (blk : List UInt8) : Array UInt64 := Id.run do
  let b := blk.toArray
  let mut st := st
  for i in [0:17] do
    let mut w : UInt64 := 0
    for j in [0:8] do w := w ||| ((b[8*i+j]!).toUInt64 <<< (8*j).toUInt64)
    st := st.set! i (st[i]! ^^^ w)
  return f1600 st
def pad (msg : List UInt8) : List UInt8 :=
  let q := 136 - msg.length % 136
  if q = 1 then msg ++ [0x81] else msg ++ [0x01] ++ List.replicate (q-2) 0 ++ [0x80]
partial def chunks (l : List UInt8) : List (List UInt8) := if l.isEmpty then [] else l.take 136 :: chunks (l.drop 136)
def keccak256 (msg : List UInt8) : List UInt8 :=
  let st := (chunks (pad msg)).foldl absorbBlock (Array.replicate 25 (0:UInt64))
  (List.range 32).map fun k => ((st[k/8]! >>> (8*(k%8)).toUInt64) &&& 0xff).toUInt8
end Keccak

namespace ChaCha
def rotl (x : UInt32) (n : UInt32) : UInt32 := (x <<< n) ||| (x >>> (32 - n))
def qr (s : Array UInt32) (a b c d : Nat) : Array UInt32 := Id.run do
  let mut s := s
  s := s.set! a (s[a]! + s[b]!); s := s.set! d (rotl (s[d]! ^^^ s[a]!) 16)
  s := s.set! c (s[c]! + s[d]!); s := s.set! b (rotl (s[b]! ^^^ s[c]!) 12)
  s := s.set! a (s[a]! + s[b]!); s := s.set! d (rotl (s[d]! ^^^ s[a]!) 8)
  s := s.set! c (s[c]! + s[d]!); s := s.set! b (rotl (s[b]! ^^^ s[c]!) 7)
  return s
def block (key : Array UInt32) (ctr : Nat) : Array UInt32 := Id.run do
  let init : Array UInt32 := #[0x61707865, 0x3320646e, 0x79622d32, 0x6b206574] ++ key ++
     #[(ctr % 2^32).toUInt32, (ctr / 2^32).toUInt32, 0, 0]
  let mut s := init
  for _ in [0:10] do
    s := qr s 0 4 8 12; s := qr s 1 5 9 13; s := qr s 2 6 10 14; s := qr s 3 7 11 15
    s := qr s 0 5 10 15; s := qr s 1 6 11 12; s := qr s 2 7 8 13; s := qr s 3 4 9 14
  return (Array.range 16).map fun i => s[i]! + init[i]!
def keyOfSeed (seed : List UInt8) : Array UInt32 :=
  let b := seed.toArray
  (Array.range 8).map fun i => (b[4*i]!).toUInt32 ||| ((b[4*i+1]!).toUInt32 <<< 8) ||| ((b[4*i+2]!).toUInt32 <<< 16) ||| ((b[4*i+3]!).toUInt32 <<< 24)
/-- k-th u64 of the stream (k counts u64s from 0) -/
def u64At (key : Array UInt32) (k : Nat) : Nat :=
  let w := 2*k
  let blk := block key (w / 16)
  (blk[w % 16]!).toNat + (blk[w % 16 + 1]!).toNat * 2^32
end ChaCha

def powMod (b e : Nat) : Nat := Id.run do
  let mut r := 1; let mut b := b % P; let mut e := e
  while e > 0 do
    if e % 2 == 1 then r := r*b % P
    b := b*b % P; e := e/2
  return r
def rInv : Nat := powMod (2^256 % P) (P-2)

/-- ark-ff Fr::rand: returns (value, number of u64 consumed) starting at u64 index k -/
partial def frRand (key : Array UInt32) (k : Nat) : Nat × Nat :=
  let l0 := ChaCha.u64At key k; let l1 := ChaCha.u64At key (k+1); let l2 := ChaCha.u64At key (k+2)
  let l3 := ChaCha.u64At key (k+3) % 2^62
  let v := l0 + l1 * 2^64 + l2 * 2^128 + l3 * 2^192
  if v < P then (v * rInv % P, k+4) else frRand key (k+4)

def hex (n : Nat) : String := String.ofList (Nat.toDigits 16 n)

def main : IO Unit := do
  IO.println s!"keccak('') = {hex ((Keccak.keccak256 []).foldr (fun b acc => acc*256 + b.toNat) 0)} (LE int)"
  let be := (Keccak.keccak256 []).foldl (fun acc b => acc*256 + b.toNat) 0
  IO.println s!"keccak('') BE = {hex be}  expect c5d2460186f7233c927e7db2dcc703c0e500b653ca82273b7bfad8045d85a470"
  let seed : List UInt8 := [0,1,2,3,4,5,6,7,8,9]
  let key := ChaCha.keyOfSeed (Keccak.keccak256 seed)
  let (s, _) := frRand key 0
  IO.println s!"seeded secret = 0x{hex s}"
  IO.println  "expected      = 0x766ce6c7e7a01bdf5b3f257616f603918c30946fa23480f2859c597817e6716"
  let key2 := ChaCha.keyOfSeed (Keccak.keccak256 "A seed phrase example".toUTF8.toList)
  IO.println s!"phrase secret = 0x{hex (frRand key2 0).1}"
  IO.println  "expected      = 0x20df38f3f00496f19fe7c6535492543b21798ed7cb91aebe4af8012db884eda3"
