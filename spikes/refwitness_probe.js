const fs = require('fs');
const builder = require('/repo/rln-wasm/resources/witness_calculator.js');
(async () => {
  const code = fs.readFileSync('/repo/rln/resources/tree_height_20/rln.wasm');
  const wc = await builder(code, true);
  console.log("witnessSize", wc.witnessSize, "prime", wc.prime.toString(), "version", wc.version);
  const input = {
    identitySecret: "5", userMessageLimit: "100", messageId: "1",
    pathElements: Array(20).fill("7"), identityPathIndex: Array(20).fill("0"),
    x: "9", externalNullifier: "11"
  };
  const t0 = Date.now();
  const w = await wc.calculateWitness(input, true);
  console.log("ms", Date.now()-t0, "len", w.length, "w[0..6]", w.slice(0,6).map(String));
  // unsat: messageId == limit
  try { input.messageId = "100"; const w2 = await wc.calculateWitness(input, true); console.log("msgid==limit accepted", w2.length); }
  catch (e) { console.log("msgid==limit rejected:", String(e.message).trim()); }
  try { input.messageId = "1"; input.userMessageLimit = "70000"; const w2 = await wc.calculateWitness(input, true); console.log("limit 70000 accepted"); }
  catch (e) { console.log("limit 70000 rejected:", String(e.message).trim()); }
  try { input.messageId = "65536"; input.userMessageLimit = "65537"; const w2 = await wc.calculateWitness(input, true); console.log("msgid 65536 accepted"); }
  catch (e) { console.log("msgid 65536 rejected:", String(e.message).trim()); }
  try { input.messageId = "1"; input.userMessageLimit = "2"; input.identityPathIndex = Array(20).fill("0"); input.identityPathIndex[3]="2"; const w2 = await wc.calculateWitness(input, true); console.log("pathidx 2 accepted"); }
  catch (e) { console.log("pathidx 2 rejected:", String(e.message).trim()); }
})();
