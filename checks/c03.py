"""C03 — double-signalling always exposes the identity secret."""
from lib import core, rlngen
from lib.gen import P, le, rand_fr
from lib.rlngen import hx


def check(run):
    run.level = "proof"
    from checks import _proto_theorems
    run.prove(_proto_theorems.C03)
    rng = run.rng
    quick = run.tier == "quick"
    zkh = run.harness()
    seqs = []
    FB = [0, 1, 2, P - 1, P - 2, (P - 1) // 2, (P + 1) // 2]
    # ---- the interpolation itself on boundary and random shares
    for _ in range(400 if quick else 5000):
        s, a = rng.choice(FB + [rand_fr(rng)] * 4), rng.choice(FB + [rand_fr(rng)] * 4)
        x1, x2 = rng.choice(FB + [rand_fr(rng)] * 4), rng.choice(FB + [rand_fr(rng)] * 4)
        y1, y2 = (s + x1 * a) % P, (s + x2 * a) % P
        seqs.append([f"idsecret {hex(x1)} {hex(y1)} {hex(x2)} {hex(y2)}"])
    for x in FB:
        seqs.append([f"idsecret {hex(x)} 0x5 {hex(x)} 0x5"])       # identical shares
        seqs.append([f"idsecret {hex(x)} 0x5 {hex(x)} 0x6"])       # same x, different y
    # ---- on message encodings: values from proof_values_from_witness (the real Poseidon), thousands of pairs
    wl = []
    cases = []
    for _ in range(120 if quick else 1200):
        s = rng.choice(FB + [rand_fr(rng)] * 4)
        e = rng.choice(FB + [rand_fr(rng)] * 4)
        m = rng.choice([0, 1, 5, 2**16 - 1])
        lim = 2**16
        path = [rand_fr(rng) for _ in range(20)]
        idx = [rng.getrandbits(1) for _ in range(20)]
        kind = rng.choice(["double", "double", "double", "samex", "diff_e", "diff_m", "boundary_x"])
        x1 = rng.choice(FB) if kind == "boundary_x" else rand_fr(rng)
        x2 = x1 if kind == "samex" else (rng.choice(FB) if kind == "boundary_x" else rand_fr(rng))
        e2 = (e + 1) % P if kind == "diff_e" else e
        m2 = (m + 1) % lim if kind == "diff_m" else m
        cases.append((kind, s))
        for (xx, ee, mm) in ((x1, e, m), (x2, e2, m2)):
            wl.append(f"witness {hex(s)} {hex(lim)} {hex(mm)} {','.join(hex(p) for p in path)} {hx(bytes(idx))} {hex(xx)} {hex(ee)}")
    out = core.run_impl(zkh, wl)

    def pv_bytes(o):
        d = dict(kv.split("=") for kv in o.split(" pv=")[1].split(" "))
        v = {k: int(x, 16) for k, x in d.items()}
        return bytes(128) + le(v["root"], 32) + le(v["e"], 32) + le(v["x"], 32) + le(v["y"], 32) + le(v["n"], 32), v
    null_same, null_diff = 0, 0
    for k, (kind, s) in enumerate(cases):
        (b1, v1), (b2, v2) = pv_bytes(out[2 * k]), pv_bytes(out[2 * k + 1])
        seqs.append([f"rln recover {hx(b1)} {hx(b2)}"])
        seqs.append([f"rln recover {hx(b2)} {hx(b1)}"])
        if k % 5 == 0:
            # readers that deliver the bytes in pieces (a socket, a chained reader): `Read::read` may return less than asked for
            seqs.append([f"rln chunk {hex(rng.choice([1, 7, 100, 287, 288]))}", f"rln recover {hx(b1)} {hx(b2)}", "rln chunk 0x0"])
        if k % 3 == 0:
            # the messages in the shape verify_rln_proof takes them: with `signal_len<8> | signal` attached (one, the other, both);
            # the tail is not part of the shares and must not change the outcome
            t1 = le(rng.choice([0, 1, 5, 24, 40]), 8)
            t1 += bytes(rng.getrandbits(8) for _ in range(int.from_bytes(t1, "little")))
            t2 = le(3, 8) + b"\xff\xff\xff"
            for (a, b) in ((b1 + t1, b2 + t2), (b1 + t1, b2), (b1, b2 + t2)):
                seqs.append([f"rln recover {hx(a)} {hx(b)}"])
        # property oracle on the implementation's own values: same (s,e,m) => same nullifier; different (e,m) => different
        if kind in ("double", "samex", "boundary_x"):
            null_same += 1
            if v1["n"] != v2["n"]:
                run.violation({"property": run.pid, "kind": "impl-vs-spec", "stream": "nullifier", "ops": wl[2 * k:2 * k + 2],
                               "detail": "two messages with the same (secret, external nullifier, message id) carry different nullifiers"})
        else:
            null_diff += 1
            if v1["n"] == v2["n"]:
                run.violation({"property": run.pid, "kind": "impl-vs-spec", "stream": "nullifier", "ops": wl[2 * k:2 * k + 2],
                               "detail": "messages differing in external nullifier / message id carry the same nullifier"})
    run.cov["nullifier_pairs_same_epoch"] = null_same
    run.cov["nullifier_pairs_different_epoch_or_id"] = null_diff
    # ---- a few pairs of really proved messages (end to end)
    msgs = rlngen.make_messages(run, 1 if quick else 4, rng)
    for M in msgs:
        if M["msg"] is None:
            continue
        sig2 = M["signal"] + b"!"
        req2 = rlngen.prove_request(M["member"].secret, M["member"].index, M["member"].limit, M["mid"], M["ext"], sig2)
        m2 = rlngen.run_prove(zkh, M["setup"], "prove_req", req2)
        if m2 is not None:
            seqs.append([f"rln recover {hx(M['msg'])} {hx(m2)}"])
            seqs.append([f"rln recover {hx(M['msg'])} {hx(M['msg'])}"])            # the same message twice: degenerate
            # recovered secret must be the registered one (the spec side computes it from the shares)
            got = core.run_impl(zkh, [f"rln recover {hx(M['msg'])} {hx(m2)}"])[0]
            exp = "ok " + le(M["member"].secret, 32).hex()
            if got != exp:
                run.violation({"property": run.pid, "kind": "impl-vs-spec", "stream": "recover-real", "ops": [f"rln recover {hx(M['msg'])} {hx(m2)}"],
                               "detail": f"recovered {got[:80]} expected {exp[:80]}"})
    # ---- through the C interface the way a C caller does it: two messages are produced, BOTH output buffers are kept (not copied),
    #      then handed to recover_id_secret — an output buffer belongs to the caller and must still hold its message after later calls
    for M in msgs[:1]:
        if M["msg"] is None:
            continue
        req1 = rlngen.prove_request(M["member"].secret, M["member"].index, M["member"].limit, M["mid"], M["ext"], b"first signal")
        req2 = rlngen.prove_request(M["member"].secret, M["member"].index, M["member"].limit, M["mid"], M["ext"], b"second signal")
        setup = ["lock new"] + [l.replace("rln set_leaf", "lock set_leaf") for l in M["setup"][1:]]
        seqs.append(setup + [f"lock prove_req {hx(req1)}", f"lock prove_req {hx(req2)}", "lock root", f"lock get_leaf {hex(M['member'].index)}", "lock root"])
    run.rules.append("interpolation on boundary/random shares incl. x1 = x2 with equal and different y; pairs of message encodings built from proof_values_from_witness for the same and for different (external nullifier, message id), boundary x, identical messages, both argument orders, messages with their signal attached (one / the other / both); a few pairs of really proved messages; distinct = distinct op line")
    from lib import gen as _gen
    seqs = seqs + _gen.neighbours(seqs, run.rng, 30 if run.tier == "quick" else 300)      # purity across calls: L, near-duplicate of L, L again
    run.differential("recover", seqs, shrink=False, canon=lambda l, x: x[5:] if x.startswith("same ") else x)     # lockstep lines answer `same <result>`
