"""theorem lists of the codec / protocol properties (audited with #print axioms on every run)"""
C01 = {'ZkProofs.C01': ['Zk.C01_prove_then_verify', 'Zk.C01_registered_identity_proves_and_verifies']}
C02 = {'ZkProofs.C02': ['Zk.C02_verify_sound', 'Zk.C02_verifyRln_sound', 'Zk.C02_verifyRoots_sound', 'Zk.C02_verifyRln_exact', 'Zk.C02_verifyRoots_exact', 'Zk.C02_wrong_signal_rejected', 'Zk.C02_wrong_root_rejected', 'Zk.C02_root_not_in_nonempty_set_rejected', 'Zk.C02_invalid_proof_rejected']}
C03 = {'ZkProofs.C03': ['Zk.C03_field_is_a_field', 'Zk.C03_inverse_is_inverse', 'Zk.C03_recover_secret', 'Zk.C03_recover_degenerate_is_error', 'Zk.C03_nullifier_independent_of_signal', 'Zk.C03_recover_from_messages', 'Zk.C03_different_external_nullifier_recovers_nothing', 'Zk.C03_distinct_nullifiers_or_collision']}
C04 = {'ZkProofs.C04': ['Zk.C04_proof_values_spec', 'Zk.C04_proof_values_reject', 'Zk.C04_root_is_ideal_path_fold']}
C10 = {'ZkProofs.C10': ['Zk.C10_fr_roundtrip', 'Zk.C10_fr_decode_canonical', 'Zk.C10_vecFr_roundtrip', 'Zk.C10_vecU8_roundtrip', 'Zk.C10_vecUsize_roundtrip', 'Zk.C10_witness_roundtrip', 'Zk.C10_witness_exact_length', 'Zk.C10_witness_no_trailing_or_missing_bytes', 'Zk.C10_witness_decode_total', 'Zk.C10_proofValues_roundtrip', 'Zk.C10_proveInput_roundtrip'], 'ZkProofs.C10Layouts': ['Zk.C10_witness_layout', 'Zk.C10_proof_values_layout', 'Zk.C10_prove_input_layout', 'Zk.C10_verify_input_layout', 'Zk.C10_public_input_order', 'Zk.C10_model_public_inputs']}
C12 = {'ZkProofs.C12': ['Zk.C12_ok_implies_satisfiable_partial', 'Zk.C12_only_crash_is_length_assertion_partial', 'Zk.C12_open_shape_example', 'Zk.C12_range_check_boundary', 'Zk.C12_range_check_exact']}
C13 = {'ZkProofs.C13': ['Zk.C13_verify_total', 'Zk.C13_accepted_canonical', 'Zk.C13_unique_encoding', 'Zk.C13_alias_rejected']}
C01['ZkProofs.C01Backends'] = ['Zk.C01_of_observables', 'Zk.C01_full_history', 'Zk.C01_optimal_history', 'Zk.C01_pm_history', 'Zk.C01_all_backends']

C10['ZkProofs.C10Json'] = ['Zk.C10_json_roundtrip', 'Zk.C10_json_encode_err', 'Zk.C10_json_decode_canonical', 'Zk.C10_json_encode_injective', 'Zk.C10_json_matches_bytes', 'Zk.C10_bigint_json', 'Zk.C10_json_decoder_ignores_trailing']
