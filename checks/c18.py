"""C18 — results do not depend on thread count or interleaving."""
import os, subprocess, tempfile
from lib import core, rlngen, treegen
from lib.gen import P, le, rand_fr
from lib.rlngen import hx


def check(run):
    run.level = "proof"
    from checks import _c18_theorems
    run.prove(_c18_theorems.THEOREMS)
    rng = run.rng
    quick = run.tier == "quick"
    zkh = run.harness()
    msgs = [m for m in rlngen.make_messages(run, 2 if quick else 6, rng) if m["msg"]]
    # ---------------------------------------------------------------- (1) one workload, worker pools of 1 / 2 / 4 / 16 threads
    W = []
    for depth in (4, 7, 10):
        W.append(f"tree new pm {depth}")
        for _ in range(4 if quick else 20):
            start = rng.randrange(1 << (depth - 1))
            n = rng.randint(1, min(40, (1 << depth) - start))
            W.append(f"range {hex(start)} {treegen.vlist([rng.randint(1, 1 << 60) for _ in range(n)])}")
            W += ["root", f"sub {rng.randint(0, depth)} {hex(rng.randrange(1 << depth))}"]
    for M in msgs:
        W += M["setup"]
        W.append("rln set_leaves_from 0x10 " + treegen.vlist([rand_fr(rng) for _ in range(12)]))
        W.append("rln root")
        full = rlngen.verify_input(M["msg"], M["signal"])
        W += rlngen.with_oracle(zkh, [(f"rln verify_rln {hx(full)}", M["msg"]), (f"rln verify_roots {hx(full)} {hx(le(M['root'], 32))}", M["msg"]),
                                      (f"rln verify {hx(M['msg'])}", M["msg"])])
    # proofs are generated under every pool size as well: the proof bytes are randomised, the published values and the verdict are not
    for M in msgs:
        W += M["setup"] + [f"rln prove_verify {hx(M['req'])} {hx(M['signal'])}"]
    for _ in range(3 if quick else 20):
        path = [rand_fr(rng) for _ in range(20)]
        idx = bytes(rng.getrandbits(1) for _ in range(20))
        args = f"{hex(rand_fr(rng))} 0x64 0x3 {','.join(hex(p) for p in path)} {hx(idx)} {hex(rand_fr(rng))} {hex(rand_fr(rng))}"
        W += ["calcwit " + args, "witmap " + args, "witness " + args]
    transcripts = {}
    for nt in (1, 2, 3, 4, 16):
        transcripts[nt] = core.run_impl(zkh, W, env={"RAYON_NUM_THREADS": str(nt)})
    base = transcripts[1]
    for nt in (2, 3, 4, 16):
        if transcripts[nt] != base:
            k = next(i for i, (a, b) in enumerate(zip(base, transcripts[nt])) if a != b)
            run.violation({"property": run.pid, "kind": "impl-vs-spec", "stream": "worker-pool", "ops": W[max(0, k - 6):k + 1],
                           "detail": f"line differs between RAYON_NUM_THREADS=1 and {nt}: {base[k][:120]} vs {transcripts[nt][k][:120]}"})
    run.cov["worker_pool_sizes"] = [1, 2, 3, 4, 16]
    run.cov["workload_lines"] = len(W)
    # the single-thread transcript against the model and the specification
    run.differential("workload-vs-model", [W], canon=lambda l, x: x.split("]")[0] + "]" if l.startswith("calcwit ") and x.startswith("[") else x,
                     spec_canon=rlngen.spec_verdict, shrink=False, env={"RAYON_NUM_THREADS": "1"})
    # ---------------------------------------------------------------- (1b) the data-parallel witness map on generated matrices
    # `CircomReduction::witness_map_from_matrices` (qap.rs:26-103) on small constraint systems, under 1 and 4 worker threads, against
    # the model (the code's pipeline over the DFT written out, ZkModel/Qap.lean) and the specification (the doc comment's sentence:
    # (A·B − C) at the odd points of the doubled domain, by Lagrange interpolation). Domain sizes 1 … 32, rows shorter / longer than
    # the declared constraint count, empty rows, boundary coefficients, assignment indices outside the assignment (a panic).
    FV = [0, 1, 2, P - 1, P - 2, (P - 1) // 2, 1 << 64, (1 << 253) + 5]
    def qrow(nw, bad):
        k = rng.choice([0, 1, 1, 2, 3, 5])
        if k == 0:
            return "_"
        return ",".join(f"{hex(rng.choice(FV + [rand_fr(rng)]))}:{hex(nw + rng.randrange(3) if bad and rng.random() < 0.3 else rng.randrange(nw))}" for _ in range(k))
    qlines = []
    for i in range(60 if quick else 600):
        nc = rng.choice([0, 1, 2, 3, 4, 5, 7, 8, 12, 15] + ([] if quick else [16, 27]))
        ni = rng.choice([0, 1, 1, 2, 4])
        nw = max(1, ni + rng.choice([0, 1, 3, 6]))
        bad = i % 9 == 8
        na = nc if i % 5 else max(0, nc + rng.choice([-2, -1, 1, 3]))
        nb = nc if i % 7 else max(0, nc + rng.choice([-1, 2]))
        A = ";".join(qrow(nw, bad) for _ in range(na)) or "-"
        B = ";".join(qrow(nw, bad) for _ in range(nb)) or "-"
        wv = [1] + [rng.choice(FV + [rand_fr(rng), rand_fr(rng)]) for _ in range(nw - 1)]
        if i % 11 == 10:
            ni = nw + rng.choice([1, 2])                # more public inputs than assignment values: the copy panics
        qlines.append(f"qap {A} {B} {hex(ni)} {hex(nc)} {','.join(hex(v) for v in wv)}")
    # whether an ill-formed system is refused by an error value or by a panic is not part of the property: one class (counted)
    qmodel = dict(zip(qlines, core.run_lean("model", qlines)))
    qdiff = [0]
    def qcanon(line, x):
        m = qmodel.get(line)
        if x in ("err", "panic") and m in ("err", "panic"):
            if x != m:
                qdiff[0] += 1
            return m
        return x
    for nt in ("1", "4"):
        run.differential(f"qap-witness-map-threads-{nt}", [[l] for l in qlines], shrink=False, env={"RAYON_NUM_THREADS": nt}, canon=qcanon)
    run.cov["qap_refusal_kind_differs_from_model"] = qdiff[0]
    # ---------------------------------------------------------------- (2) N concurrent read-only callers on one shared instance
    M = msgs[0]
    setup = M["setup"] + ["rln set_leaves_from 0x20 " + treegen.vlist([rand_fr(rng) for _ in range(8)]), "rln root"]
    root2 = int(core.run_impl(zkh, setup)[-1], 16)
    # the message was made before the extra leaves: the stateful check must reject it, the root-set check accept it
    full = rlngen.verify_input(M["msg"], M["signal"])
    proof, vals = rlngen.split_msg(M["msg"])
    v2 = list(vals); v2[3] = (v2[3] + 1) % P
    ops = []
    for _ in range(6 if quick else 40):
        ops += [f"verify_rln {hx(full)}", f"verify_roots {hx(full)} {hx(le(M['root'], 32))}", f"verify_roots {hx(full)} {hx(le(root2, 32))}",
                f"verify {hx(M['msg'])}", f"verify {hx(rlngen.join_msg(proof, v2))}", "root", f"get_leaf {hex(M['member'].index)}",
                f"get_proof {hex(rng.choice([0, 1, 0x20, 0x27, (1 << 20) - 1]))}", f"sub_root {rng.randint(0, 20)} {hex(rng.randrange(1 << 20))}",
                "empty", "meta_get", f"seeded_key_gen {hx(bytes(rng.getrandbits(8) for _ in range(8)))}",
                f"hash {hx(bytes(rng.getrandbits(8) for _ in range(rng.choice([0, 5, 200]))))}",
                f"poseidon {(le(2, 8) + le(rand_fr(rng), 32) + le(rand_fr(rng), 32)).hex()}", f"recover {hx(M['msg'])} {hx(M['msg'])}"]
    # a hot loop of CHEAP read-only calls with different arguments (membership proofs / leaves / subtree roots of different
    # positions): the expensive calls above overlap rarely, a race on per-instance state needs thousands of overlapping calls
    hot = []
    positions = [0, 1, 0x20, 0x21, 0x23, 0x27, M["member"].index, (1 << 20) - 1]
    for _ in range(500 if quick else 5000):
        hot += [f"get_proof {hex(rng.choice(positions))}", f"get_leaf {hex(rng.choice(positions))}", f"get_proof {hex(rng.choice(positions))}",
                f"sub_root {rng.randint(0, 20)} {hex(rng.choice(positions))}", "root"]
    with tempfile.TemporaryDirectory(dir=core.VERIF) as td:
        sp, op, hp = os.path.join(td, "setup.ops"), os.path.join(td, "ops.ops"), os.path.join(td, "hot.ops")
        open(sp, "w").write("\n".join(setup) + "\n")
        open(op, "w").write("\n".join(ops) + "\n")
        open(hp, "w").write("\n".join(hot) + "\n")
        # the same once more on an instance built by `RLN::new_with_params` (caller-supplied key and graph): what `RLN::new` prepares at
        # construction such an instance may prepare on first use — here the first use is the concurrent one
        sp2 = os.path.join(td, "setup2.ops")
        open(sp2, "w").write("\n".join(["rln new_params"] + setup[1:]) + "\n")
        runs = [(n, sp, op, ops) for n in ((8,) if quick else (2, 8, 32))] + [(n, sp, hp, hot) for n in ((8,) if quick else (3, 8, 16))] + [(8, sp2, op, ops)]
        for n, sp, op, ops in runs:
            try:
                p = subprocess.run([zkh, "shared", str(n), sp, op], stdout=subprocess.PIPE, stderr=subprocess.PIPE, timeout=900)
                out = p.stdout.decode().splitlines()
                ok = p.returncode == 0 and "CONCURRENT-MISMATCH" not in out and len(out) == len(ops)
                detail = f"exit {p.returncode}; {len(out)} lines for {len(ops)} calls"
            except subprocess.TimeoutExpired:
                ok, detail = False, "no answer within 900 s (deadlock?)"
            run.cov.setdefault("shared_instance_threads", []).append(n)
            run.cov["evaluations"] += len(ops) * n
            if not ok:
                run.violation({"property": run.pid, "kind": "impl-vs-spec", "stream": "shared-instance", "ops": setup + ops[:15],
                               "detail": f"{n} concurrent read-only callers on one instance disagree with the sequential results or crashed: {detail}",
                               "impl_args": ["shared", str(n)]})
    # ---------------------------------------------------------------- (3) drop and re-create on the same location
    p = subprocess.run([zkh, "reopen_loop", "300" if quick else "3000"], stdout=subprocess.PIPE, stderr=subprocess.PIPE, timeout=1800)
    line = p.stdout.decode().strip()
    run.cov["reopen_loop"] = line
    try:
        d = dict(kv.split("=") for kv in line.split(" "))
        if int(d["failures"]) != 0 or int(d.get("lost_after_reopen", 0)) != 0 or int(d["worst_ms"]) > 30000:
            run.violation({"property": run.pid, "kind": "impl-vs-spec", "stream": "reopen-loop", "ops": ["reopen_loop"],
                           "detail": "re-creating a tree right after dropping the previous one failed, lost flushed data, or took more than 30 s: " + line})
    except Exception:
        run.violation({"property": run.pid, "kind": "impl-vs-spec", "stream": "reopen-loop", "ops": ["reopen_loop"], "detail": "no result: " + line[:200]})
    # ---------------------------------------------------------------- (4) opening is not serialised behind a thread that waits for a busy location
    try:
        p = subprocess.run([zkh, "open_contention"], stdout=subprocess.PIPE, stderr=subprocess.PIPE, timeout=300)
        line = p.stdout.decode().strip()
    except subprocess.TimeoutExpired:
        line = "no answer within 300 s"
    run.cov["open_contention"] = line
    run.count_case("open_contention")
    d = dict(kv.split("=") for kv in line.split(" ") if "=" in kv and kv.count("=") == 1)
    if "p2_worst_ms" not in d or int(d["p2_worst_ms"]) > 10000 or d.get("p2_failures") != "0" or d.get("waiter_opened") != "true":
        run.violation({"property": run.pid, "kind": "impl-vs-spec", "stream": "open-contention", "ops": ["open_contention"], "impl_args": ["open_contention"],
                       "detail": "with a live tree on location P1 and a thread waiting to open P1, ten drop + re-create cycles on an unrelated location P2 must each finish at once, and the waiter must get P1 once it is released: " + line[:200]})
    run.rules.append("(4) three parties in one process: a live tree on P1, a thread waiting to open P1, and drop + re-create cycles on an unrelated P2 with a 30 s watchdog; (1b) `witness_map_from_matrices` on generated small constraint systems (domain 1 … 32, short / long matrices, empty rows, boundary coefficients, out-of-range assignment indices) under 1 and 4 worker threads against the model (ZkModel/Qap.lean, the code's pipeline) and the specification (Lagrange form of the doc comment); (1) one fixed workload (batch range writes on persistent trees of depth 4/7/10 with roots and subtree roots, batch API writes, verification of real messages, full witnesses, the QAP witness map's h vector, proof values) under RAYON_NUM_THREADS = 1, 2, 4, 16: transcripts must be bit-identical, and the single-thread transcript equals model and specification; (2) 8 (thorough: 2/8/32) threads issuing the same read-only calls (three verification entry points on valid / tampered / stale-root messages, root, leaves, proofs, subtree roots, empty list, metadata, key derivation, hashing, recovery) at different offsets on ONE shared instance vs the sequential results, plus a hot loop of thousands of cheap read-only calls (membership proofs, leaves, subtree roots of different positions) per thread, with a 900 s watchdog; (3) drop + re-create on the same storage location in a loop; distinct = distinct workload line")
