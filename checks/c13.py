"""C13 — untrusted verification inputs are rejected without crashing, in one encoding."""
from lib import core, rlngen
from lib.gen import P, le, rand_fr
from lib.rlngen import hx


def check(run):
    run.level = "proof"
    from checks import _proto_theorems
    run.prove(_proto_theorems.C13)
    rng = run.rng
    quick = run.tier == "quick"
    zkh = run.harness()
    msgs = rlngen.make_messages(run, 2 if quick else 8, rng)
    seqs = []
    for M in msgs:
        msg, sig = M["msg"], M["signal"]
        if msg is None:
            run.violation({"property": run.pid, "kind": "impl-vs-spec", "stream": "prove", "ops": M["setup"] + [f"rln prove_req {hx(M['req'])}"],
                           "detail": "a valid request did not prove"})
            continue
        full = rlngen.verify_input(msg, sig)
        cases = []      # (op, bytes, second arg or None)
        # every truncation length of the three kinds of input
        step = 1 if not quick else 7
        for n in sorted(set(list(range(0, len(full) + 1, step)) + [0, 1, 127, 128, 129, 287, 288, 289, 295, 296, 297, len(full) - 1, len(full)])):
            if 0 <= n <= len(full):
                cases.append(("verify_rln", full[:n], None))
                cases.append(("verify_roots", full[:n], le(M["root"], 32)))
                cases.append(("verify", full[:n], None))
                cases.append(("recover", full[:n], msg))
                cases.append(("recover", msg, full[:n]))
        # over-long
        for extra in (1, 8, 32):
            cases.append(("verify_rln", full + bytes(extra), None))
            cases.append(("verify", msg + bytes(extra), None))
            cases.append(("verify_roots", full + bytes(extra), b""))
        # declared signal length
        for d in [0, len(sig) - 1, len(sig) + 1, 2**32, 2**63, 2**64 - 1, 2**64 - 296, 2**64 - 295] + [len(sig) + (1 << k) for k in (8, 16, 31, 32, 33, 40, 48, 56, 63)]:   # also lengths congruent to the true one modulo a narrower integer width
            if d >= 0:
                cases.append(("verify_rln", rlngen.verify_input(msg, sig, d), None))
                cases.append(("verify_roots", rlngen.verify_input(msg, sig, d), b""))
        # random content per field
        proof, vals = rlngen.split_msg(msg)
        for k in range(5):
            v2 = list(vals); v2[k] = rand_fr(rng)
            cases.append(("verify_rln", rlngen.verify_input(rlngen.join_msg(proof, v2), sig), None))
        for _ in range(3 if quick else 20):
            rp = bytes(rng.getrandbits(8) for _ in range(128))
            cases.append(("verify_rln", rlngen.verify_input(rp + msg[128:], sig), None))
            cases.append(("verify", rp + msg[128:], None))
        cases.append(("verify_rln", bytes(rng.getrandbits(8) for _ in range(400)), None))
        cases.append(("verify_rln", bytes(400), None))
        cases.append(("verify", bytes(288), None))
        # v + k*p aliases of each public value that still fit in 32 bytes
        for k in range(5):
            for mult in range(1, 6):
                a = vals[k] + mult * P
                if a < 2**256:
                    v2 = list(vals); v2[k] = a
                    al = rlngen.join_msg(proof, v2)
                    cases.append(("verify_rln", rlngen.verify_input(al, sig), None))
                    cases.append(("verify", al, None))
                    cases.append(("verify_roots", rlngen.verify_input(al, sig), le(M["root"], 32)))
                    cases.append(("verify_roots", rlngen.verify_input(al, sig), b""))
        # roots buffers of every length mod 32, zero roots, aliases of the root inside the set
        for n in list(range(0, 70, 1 if not quick else 5)) + [31, 32, 33, 63, 64, 65]:
            rb = (le(M["root"], 32) * 3)[:n]
            cases.append(("verify_roots", full, rb))
        cases.append(("verify_roots", full, bytes(32)))
        cases.append(("verify_roots", full, bytes(64) + le(M["root"], 32)))
        if M["root"] + P < 2**256:
            cases.append(("verify_roots", full, le(M["root"] + P, 32)))
            # correlated arguments: the message carries the ALIAS bytes of its root and the caller's root set carries the very same bytes
            v2 = list(vals); v2[0] = M["root"] + P
            al_full = rlngen.verify_input(rlngen.join_msg(proof, v2), sig)
            for rb in (le(M["root"] + P, 32), le(M["root"], 32) + le(M["root"] + P, 32), le(M["root"] + P, 32) + le(M["root"], 32)):
                cases.append(("verify_roots", al_full, rb))
                cases.append(("verify_roots", full, rb))
        lm = []
        for op, b, second in cases:
            if op == "recover":
                lm.append((f"rln recover {hx(b)} {hx(second)}", None))
            elif op == "verify_roots":
                lm.append((f"rln verify_roots {hx(b)} {hx(second)}", b if len(b) >= 288 else bytes(288)))
            else:
                lm.append((f"rln {op} {hx(b)}", b if len(b) >= 288 else bytes(288)))
        lines = rlngen.with_oracle(zkh, lm)
        # a caller whose reader fails after delivering the message (or whose output takes nothing): an error, no crash, and the
        # next ordinary call answers as if nothing had happened
        tail = rlngen.with_oracle(zkh, [(f"rln verify_rln {hx(full)}", msg), (f"rln verify {hx(msg)}", msg)])
        io = [f"rln io r verify_rln {hx(full)}", tail[0], f"rln io r verify {hx(msg)}", tail[1],
              f"rln io r recover {hx(msg)} {hx(msg)}", f"rln io w recover {hx(msg)} {hx(msg)}", tail[0]]
        chunked = ["rln chunk 0x9", tail[0], tail[1], f"rln recover {hx(msg)} {hx(msg)}", "rln chunk 0x0"]      # the same calls from readers that deliver 9 bytes at a time
        seqs.append(M["setup"] + lines + io + chunked)
    run.rules.append("from real messages: every truncation length of verify / verify_rln_proof / verify_with_roots / recover_id_secret inputs, over-long inputs, declared signal lengths {0,len-1,len+1,2^32,2^63,2^64-1,…}, random content per field and in the proof, every v+k*p alias of the five public values that fits 32 bytes, roots buffers of every length; distinct = distinct input line")
    # ---- a message of exactly 1 MiB (signal of 1 048 280 bytes), the same with bytes appended, and a longer valid one: reading
    #      limits / buffer sizes inside the verifier must not cut a message short silently
    big_sig = bytes(rng.getrandbits(8) for _ in range(1024)) * 1023 + bytes(rng.getrandbits(8) for _ in range(1048280 - 1024 * 1023))
    Mb = rlngen.Member(zkh, rand_fr(rng), 100, 5)
    bsetup = Mb.setup([(1, rand_fr(rng))])
    ext_b = rand_fr(rng)
    bseq = list(bsetup)
    for sg in ([big_sig] if quick else [big_sig, big_sig + b"longer than a mebibyte", big_sig[:-1]]):
        mb = rlngen.run_prove(zkh, bsetup, "prove_req", rlngen.prove_request(Mb.secret, Mb.index, Mb.limit, 1, ext_b, sg))
        if mb is None:
            run.violation({"property": run.pid, "kind": "impl-vs-spec", "stream": "big-message", "ops": bsetup, "detail": "a valid request with a 1 MiB signal did not prove"})
            continue
        fullb = rlngen.verify_input(mb, sg)
        bl = [(f"rln verify_rln {hx(fullb)}", mb), (f"rln verify_rln {hx(fullb + b'!')}", mb), (f"rln verify_rln {hx(fullb + bytes(100))}", mb),
              (f"rln verify_roots {hx(fullb + b'!')} -", mb), (f"rln verify_roots {hx(fullb)} -", mb), (f"rln recover {hx(fullb)} {hx(fullb + b'!')}", None)]
        bseq += rlngen.with_oracle(zkh, bl)
    run.differential("big-message", [bseq], spec_canon=rlngen.spec_verdict, shrink=False)
    # the canonicity test itself, at limb granularity around the modulus (every branch of a limb-by-limb comparison), short inputs
    from lib import gen as _gen
    cl = [[f"is_canonical {le(v, 32).hex()}"] for v in _gen.NEAR_MODULUS + _gen.ABOVE_MODULUS + [0, 1, P - 1, P, P + 1, 2**256 - 1]]
    cl += [[f"is_canonical {le(P - 1, 32)[:n].hex() or '-'}"] for n in (0, 1, 31)] + [[f"is_canonical {(le(P - 1, 32) + b'zz').hex()}"]]
    run.differential("canonical-check", cl, shrink=False)
    run.differential("untrusted-input", seqs, spec_canon=rlngen.spec_verdict, shrink=False)
    # a roots buffer containing only an alias of the root: the verifier's own set, reduced silently (documented as such)
