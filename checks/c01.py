"""C01 — every proof generated for a valid membership and message verifies."""
from lib import core, rlngen
from lib.gen import P, le, rand_fr
from lib.rlngen import hx, CAP
from checks.c12 import parse_proof_bytes


def check(run):
    run.level = "proof"
    from checks import _proto_theorems
    run.prove(_proto_theorems.C01)
    rng = run.rng
    quick = run.tier == "quick"
    zkh = run.harness()
    indices = [0, 1, CAP // 2 - 1, CAP // 2, CAP - 1, rng.randrange(CAP)]
    limits = [1, 2, 2**16, 100]
    n = 8 if quick else 80
    seqs = []
    proved = 0
    for k in range(n):
        secret = rng.choice([0, 1, P - 1, rand_fr(rng)])
        limit = limits[k % len(limits)]
        index = indices[k % len(indices)]
        mid = rng.choice([0, limit - 1])
        ext = rng.choice([0, 1, P - 1, rand_fr(rng)])
        if k % 4 == 3:
            from lib import gen as _gen
            ext = rng.choice(_gen.NEAR_MODULUS)        # canonical values just below p at limb granularity (the verifier's canonicity check must pass them)
        signal = bytes(rng.getrandbits(8) for _ in range(rng.choice([0, 1, 136, 10000 if not quick else 1000])))
        M = rlngen.Member(zkh, secret, limit, index)
        others = [(rng.randrange(CAP), rand_fr(rng)) for _ in range(rng.randint(0, 4))]
        others = [(i, v) for i, v in others if i != index]
        setup = M.setup(others)
        root = int(core.run_impl(zkh, setup + ["rln root"])[-1], 16)
        req = rlngen.prove_request(secret, index, limit, mid, ext, signal)
        entry = ["prove_req", "prove_wit", "prove_raw", "prove_ext"][k % 4]
        x = int(core.run_impl(zkh, [f"h2f {hx(signal)}"])[0], 16)
        if entry == "prove_req":
            payload = req
        else:
            wb = core.run_impl(zkh, setup + [f"rln witness_req {hx(req)}"])[-1]
            if not wb.startswith("ok "):
                run.violation({"property": run.pid, "kind": "impl-vs-spec", "stream": "witness_req", "ops": setup + [f"rln witness_req {hx(req)}"],
                               "detail": "no witness for a valid request: " + wb[:60]})
                continue
            payload = bytes.fromhex(wb[3:])
        msg = rlngen.run_prove(zkh, setup, entry, payload)
        line = f"rln {entry} {hx(payload)}"
        if msg is None:
            seqs.append(setup + [line])      # the differential run will report it (spec: ok)
            continue
        proved += 1
        if entry == "prove_raw":
            # the raw prove/verify pair: the caller assembles the message from the proof and the published values
            pv = core.run_impl(zkh, [f"de_witness {hx(payload)}"])[0]
            vals = core.run_impl(zkh, ["witness " + " ".join([kv.split("=")[1] for kv in pv[3:].split(" ")[:7]]).replace("[", "").replace("]", "")])[0] if False else None
            gp = core.run_impl(zkh, setup + [f"rln prove_wit {hx(payload)}"])[-1]
            msg = msg + bytes.fromhex(gp[3:])[128:]
        full = rlngen.verify_input(msg, signal)
        lm = [(f"rln verify_rln {hx(full)}", msg), (f"rln verify_roots {hx(full)} {hx(le(root, 32))}", msg),
              (f"rln verify_roots {hx(full)} -", msg), (f"rln verify {hx(msg)}", msg),
              (f"rln verify_roots {hx(full)} {hx(le(rand_fr(rng), 32) + le(root, 32))}", msg)]
        seqs.append(setup + [line] + rlngen.with_oracle(zkh, lm))
    run.cov["proofs_generated"] = proved
    run.rules.append("real end-to-end runs: leaf positions {0, 1, 2^19-1, 2^19, 2^20-1, random}, limits {1, 2, 100, 2^16}, message ids {0, limit-1}, secrets / external nullifiers in {0, 1, p-1, random}, signals of length 0/1/136/1000+, other leaves arbitrary, through generate_rln_proof, generate_rln_proof_with_witness (witness from get_serialized_rln_witness), prove + assembled message, and an externally computed witness vector fed to generate_proof_with_witness; each message then through verify, verify_rln_proof and verify_with_roots (with the root, with a set containing it, with the empty set); distinct = distinct request")
    run.differential("prove-then-verify", seqs, canon=rlngen.canon_prove, spec_canon=rlngen.spec_verdict, shrink=False)
    # ---- a member stays a member: prove + verify on the same instance, then the tree changes around the member through every
    #      mutator of the API (single writes, appends, deletions, range writes, batches with removals — contiguous removal
    #      indices, for which the persistent backend's open batch finding has no effect), then the SAME member proves again.
    #      Anything remembered from the first proof (a cached path, a cached root) must not survive the update.
    hseqs = []
    for k in range(4 if quick else 40):
        secret, limit = rand_fr(rng), rng.choice([2, 100])
        index = rng.choice([5, 6, 9, 40])
        M = rlngen.Member(zkh, secret, limit, index)
        others = [(i, rand_fr(rng)) for i in range(0, 12) if i != index]
        seq = M.setup(others)
        if k % 2:
            seq[0] = "rln new_params"        # an instance built from caller-supplied key and graph bytes behaves like the default one
        loc = None
        if k % 4 in (2, 3):
            # a persistent location: the object is dropped and re-created on it between two proofs (flushed before)
            import os, tempfile, shutil
            loc = tempfile.mkdtemp(prefix="zkrln-", dir=os.environ.get("TMPDIR")); shutil.rmtree(loc)
            seq[0] = f"rln {'new_at' if k % 4 == 2 else 'new_params_at'} {loc}"
        ext, signal = rand_fr(rng), bytes(rng.getrandbits(8) for _ in range(5))
        muts = [f"rln atomic 0x0 - 0x1,0x2", f"rln atomic 0x0 - 0x3", f"rln set_leaf 0x1 {hex(rand_fr(rng))}", f"rln delete 0x2",
                f"rln set_next {hex(rand_fr(rng))}", f"rln set_leaves_from 0xc {hex(rand_fr(rng))},{hex(rand_fr(rng))}",
                f"rln atomic 0xc {hex(rand_fr(rng))} -", f"rln atomic 0x0 - 0xa,0xb"]
        rng.shuffle(muts)
        if loc:
            muts = [muts[0], f"rln flush|{seq[0]}"] + muts[1:]
        for j, mu in enumerate(muts[: (3 if quick else 6)]):
            if "|" in mu:
                a_, b_ = mu.split("|")
                req = rlngen.prove_request(secret, index, limit, j % limit, ext, signal)
                seq += [f"rln prove_verify {hx(req)} {hx(signal)}", a_, b_, "rln root", "rln leaves_set"]
                continue
            req = rlngen.prove_request(secret, index, limit, j % limit, ext, signal)
            seq += [f"rln prove_verify {hx(req)} {hx(signal)}", mu, "rln root"]
        req = rlngen.prove_request(secret, index, limit, (limit - 1), ext, signal)
        seq += [f"rln prove_verify {hx(req)} {hx(signal)}", f"rln get_proof {hex(index)}"]
        hseqs.append(seq)
    run.rules.append("membership histories: the same registered member proves and verifies on one instance before and after every kind of tree update around it (single write, append, deletion, range write, batch with one or two removal indices, flush + drop + re-creation of the object on a persistent location through both constructors); distinct = distinct history")
    run.differential("member-stays-member", hseqs, canon=lambda l, x: x, spec_canon=lambda l, x: x, shrink=False)
