"""C11 — the C FFI is behaviourally identical to the Rust API."""
from lib import core, rlngen, treegen
from lib.gen import P, le, rand_fr
from lib.rlngen import hx

THEOREMS = {"ZkProofs.C11": ["Zk.C11_every_function_forwards_its_own_arguments", "Zk.C11_exported_functions", "Zk.C11_kinds_known",
                             "Zk.C11_seq_batch_starts_at_leaf_count", "Zk.C11_flag_iff_ok", "Zk.C11_verdict_iff_ok", "Zk.C11_call_flag_iff_ok"]}


def canon(line, x):
    # `same <api result>`: both instances agreed; anything else is reported verbatim (and differs from model and spec)
    if x.startswith("same "):
        x = x[5:]
        w = line.split(" ")
        if w[1] in ("prove_req", "prove_wit", "prove_raw"):
            return x
        return x
    return x


def pm_defect(line):
    from checks.c08 import pm_defect_shape
    w = line.split(" ")
    if w[:2] == ["lock", "atomic"]:
        return pm_defect_shape("batch " + " ".join(w[2:]))
    if w[:2] == ["lock", "seq_atomic"]:
        return pm_defect_shape("batch 0x0 " + " ".join(w[2:]))
    return False


def classify(seq, i, impl, spec):
    if impl.startswith("DIFF"):
        return None
    return "C08-pm-batch" if any(pm_defect(l) for l in seq[: i + 1]) else None


def check(run):
    run.level = "proof"
    run.prove(THEOREMS)
    rng = run.rng
    quick = run.tier == "quick"
    zkh = run.harness()
    seqs = []
    for k in range(10 if quick else 120):
        seq = ["lock new"]
        for _ in range(rng.randint(4, 14)):
            r = rng.random()
            pos = rng.choice([0, 1, 2, 3, 7, 255, (1 << 20) - 1, 1 << 20, (1 << 20) + 5, 2**32, 2**64 - 1])
            if r < 0.18:
                seq.append(f"lock set_leaf {hex(pos)} {hex(treegen.val(rng))}")
            elif r < 0.28:
                seq.append(f"lock set_next {hex(treegen.val(rng))}")
            elif r < 0.36:
                seq.append(f"lock delete {hex(pos)}")
            elif r < 0.46:
                seq.append(f"lock set_leaves_from {hex(rng.choice([0, 1, 2, 5, 1 << 20]))} {treegen.vlist([treegen.val(rng) for _ in range(rng.choice([0, 1, 2, 3]))])}")
            elif r < 0.52:
                seq.append("lock init_leaves " + treegen.vlist([treegen.val(rng) for _ in range(rng.choice([0, 1, 3]))]))
            elif r < 0.62:
                rem = rng.sample([0, 1, 2, 3, 4, 5], rng.choice([0, 0, 1, 2]))
                seq.append(f"lock atomic {hex(rng.choice([0, 1, 2, 5]))} {treegen.vlist([treegen.val(rng) for _ in range(rng.choice([0, 1, 2]))])} {','.join(hex(x) for x in rem) or '-'}")
            elif r < 0.74:
                rem = rng.sample([0, 1, 2, 3], rng.choice([0, 0, 0, 1]))
                seq.append(f"lock seq_atomic {treegen.vlist([treegen.val(rng) for _ in range(rng.choice([0, 1, 2, 3]))])} {','.join(hex(x) for x in rem) or '-'}")
            elif r < 0.8:
                seq.append("lock meta_set " + bytes(rng.getrandbits(8) for _ in range(rng.choice([1, 5, 64]))).hex())
                seq.append("lock meta_get")
            elif r < 0.82:
                seq.append("lock flush")
            elif r < 0.84:
                seq.append("lock set_tree 20")
            elif r < 0.9:
                seq.append(f"lock set_leaf_raw {hex(rng.choice([0, 3, 1 << 20]))} {bytes(rng.getrandbits(8) for _ in range(rng.choice([32, 33, 64]))).hex()}")
            else:
                seq.append(f"lock hash {hx(bytes(rng.getrandbits(8) for _ in range(rng.choice([0, 1, 136]))))}")
                n = rng.choice([1, 2, 3])
                seq.append(f"lock poseidon {(le(n, 8) + b''.join(le(rand_fr(rng), 32) for _ in range(n))).hex()}")
            seq += ["lock root", "lock leaves_set", f"lock get_leaf {hex(rng.choice([0, 1, 2, 3, 5, (1 << 20) - 1, 1 << 20]))}"]
            if rng.random() < 0.35:
                seq.append("lock meta_get")          # metadata is state too: observed after any call, not only after meta_set
            if rng.random() < 0.2:
                seq.append(f"lock get_proof {hex(rng.choice([0, 3, (1 << 20) - 1, 1 << 20]))}")
            if rng.random() < 0.15:
                seq.append(f"lock seeded_key_gen {hx(bytes(rng.getrandbits(8) for _ in range(rng.choice([0, 3, 40]))))}")
                seq.append(f"lock seeded_ext_key_gen {hx(bytes(rng.getrandbits(8) for _ in range(rng.choice([0, 3, 40]))))}")
        seqs.append(seq)
    # directed: calls that REPLACE the tree object (init_tree_with_leaves, set_tree) after state that lives beside the leaves
    # (metadata) was written, on instances with and without leaves
    for k in range(4 if quick else 30):
        seq = ["lock new"]
        if k % 2:
            seq.append(f"lock set_next {hex(treegen.val(rng))}")
        seq += ["lock meta_set " + bytes(rng.getrandbits(8) for _ in range(rng.choice([1, 24]))).hex(), "lock meta_get",
                rng.choice(["lock init_leaves " + treegen.vlist([treegen.val(rng) for _ in range(rng.choice([0, 1, 3]))]), "lock set_tree 20"]),
                "lock meta_get", "lock root", "lock leaves_set", "lock get_leaf 0x0",
                f"lock set_leaves_from 0x1 {treegen.vlist([treegen.val(rng) for _ in range(2)])}", "lock meta_get", "lock root", "lock leaves_set"]
        seqs.append(seq)
    # the constructors on configuration buffers: documents with trailing NULs / whitespace / a BOM, empty and broken ones
    import json as _json
    cfgs = [b"{}", b"{}\x00", b"{}\x00\x00", b"{} ", b" {}", b"{}\n", b"", b"\x00", b"{", b"null", b"[]", b'{"tree_config":{}}', b'{"tree_config":{}}\x00',
            b"\xef\xbb\xbf{}", b"{}}", b'{"a":1}', b"\xff\xfe"]
    for c in cfgs:
        try:
            _json.loads(c.decode("utf-8")); exp = "ok"
        except Exception:
            exp = "err"
        seqs.append([f"lock newcfg {c.hex() or '-'} {exp}", "lock root", "lock leaves_set", f"lock set_next {hex(treegen.val(rng))}", "lock root"])
    clean = [[l for l in s if not pm_defect(l)] for s in seqs]
    run.differential("ffi-lockstep-tree", clean, canon=canon)
    run.differential("ffi-lockstep-tree-defect-region", seqs, canon=canon, classify=classify)
    # ---- proving / verification / recovery through both interfaces
    pv = []
    for M in rlngen.make_messages(run, 2 if quick else 10, rng):
        setup = ["lock new"] + [l.replace("rln set_leaf", "lock set_leaf") for l in M["setup"][1:]]
        msg, sig = M["msg"], M["signal"]
        if msg is None:
            continue
        full = rlngen.verify_input(msg, sig)
        proof, vals = rlngen.split_msg(msg)
        v2 = list(vals); v2[0] = (v2[0] + 1) % P
        tam = rlngen.verify_input(rlngen.join_msg(proof, v2), sig)
        wb = core.run_impl(zkh, M["setup"] + [f"rln witness_req {hx(M['req'])}"])[-1]
        lm = [(f"lock prove_req {hx(M['req'])}", None), (f"lock prove_req {hx(M['req'][:100])}", None),
              (f"lock prove_wit {wb[3:]}", None), (f"lock prove_raw {wb[3:]}", None),
              (f"lock verify_rln {hx(full)}", msg), (f"lock verify_rln {hx(tam)}", tam[:288]), (f"lock verify_rln {hx(full[:200])}", bytes(288)),
              (f"lock verify {hx(msg)}", msg), (f"lock verify_roots {hx(full)} {hx(le(M['root'], 32))}", msg),
              (f"lock verify_roots {hx(full)} {hx(le(5, 32))}", msg), (f"lock verify_roots {hx(full)} {'00' * 31}", msg),
              (f"lock recover {hx(msg)} {hx(msg)}", None), (f"lock recover {hx(msg)} {hx(msg[:100])}", None),
              (f"lock root", None), (f"lock leaves_set", None)]
        pv.append(setup + rlngen.with_oracle(zkh, lm))
    run.differential("ffi-lockstep-proofs", pv, canon=canon, spec_canon=rlngen.spec_verdict, shrink=False)
    run.rules.append("two RLN instances in lockstep, one driven through every exported C function, one through the Rust API: random call sequences (single writes at positions up to 2^64-1, appends, deletions, set_leaves_from, init_tree_with_leaves, atomic and sequential batches, metadata, flush, raw leaf buffers, hashing, seeded key generation, proving through three entry points with cross-verification, verification of valid / tampered / truncated messages, root sets, secret recovery); after every call the flags, the output buffers read back through their pointers, the verdicts and the tree state (root, leaf count) of both instances are compared, and the API result is compared with the model and the specification; distinct = distinct call sequence")
    run.confirm_witnesses(canon=canon)
