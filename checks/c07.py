"""C07 — membership proofs are complete, binding and in the circuit's format."""
from lib import core, treegen
from lib.gen import rand_fr


def check(run):
    run.level = "proof"
    from checks import _tree_theorems
    run.prove(_tree_theorems.C07)
    rng = run.rng
    treegen.init_special(run.harness())      # empty-subtree roots as leaf values
    quick = run.tier == "quick"
    nseq = 40 if quick else 400
    kinds = ["set", "set", "del", "app", "app", "range"]

    def mk(backend, depth, nops):
        cap = 1 << depth
        seq = treegen.gen_seq(rng, backend, depth, nops, kinds, observe="some")
        if rng.random() < 0.5 and depth >= 2:
            # a range written twice with ONE element changed (first / middle / last), and a batch that replaces part of it: the
            # rewrite must reach the root whichever position changed (early exits on "this parent did not change")
            n = rng.randint(2, min(cap, 8))
            st = rng.randrange(0, cap - n + 1)
            vs = [rng.randint(1, 1 << 40) for _ in range(n)]
            v2 = list(vs); v2[rng.choice([0, n // 2, n - 1])] = rng.randint(1, 1 << 40)
            seq += [f"range {hex(st)} {treegen.vlist(vs)}", "root", f"range {hex(st)} {treegen.vlist(v2)}", "root"]
            if backend != "pm" and n >= 3:
                seq += [f"batch {hex(st + 1)} {treegen.vlist([rng.randint(1, 99)] + v2[2:])} {hex(st)}", "root"]
        # proofs of every position on small trees, of boundary and random positions on deep ones
        positions = list(range(cap)) if depth <= 4 else sorted({0, 1, cap - 1, cap // 2, cap // 2 - 1} | {rng.randrange(cap) for _ in range(6)})
        if depth > 8:
            positions = sorted({0, cap - 1, rng.randrange(cap), rng.randrange(min(cap, 64))})
        for i in positions:
            seq.append(f"proof {hex(i)}")
        seq.append(f"proof {hex(cap)}")          # outside the tree: an error, never a crash
        # alterations: every sibling, every direction bit, another leaf value
        deep = depth > 8
        for i in positions[: (3 if deep else 6 if quick else 16)]:
            for k in ([0, depth // 2, depth - 1] if deep else range(depth)):
                seq.append(f"pverify {hex(i)} sib {k} {hex(rand_fr(rng))}")
                seq.append(f"pverify {hex(i)} dir {k} 0x0")
            seq.append(f"pverify {hex(i)} leaf 0 {hex(rand_fr(rng))}")
            seq.append(f"pverify {hex(i)} cut 0 0x0")                        # a path one element short / one element long never opens the root
            seq.append(f"pverify {hex(i)} ext 0 {hex(rand_fr(rng))}")
        return seq
    for backend in treegen.BACKENDS:
        seqs = []
        for k in range(nseq):
            depth = rng.choice([1, 2, 3, 4, 5] if quick else [1, 2, 3, 4, 5, 6, 7])
            seqs.append(mk(backend, depth, rng.randint(0, 10 if quick else 30)))
        for k in range(1 if quick else 12):
            seqs.append(mk(backend, rng.choice([10, 20]), rng.randint(2, 5)))
        run.differential(f"proof-{backend}", seqs)
    # ---- after ONE range write longer than every internal batching threshold (2^14+5 leaves; thorough also 120000, more than 8 MiB of
    #      node entries): proofs of a stride of positions and a digest of every node (implementation vs model)
    bigp = []
    for backend in (["pm"] if quick else treegen.BACKENDS):
        for depth, n in ([(15, 2**14 + 5)] if quick else [(15, 2**14 + 5), (17, 120000)]):
            seq = [f"tree new {backend} {depth}", f"range 0x1 gen:{hex(n)}:0x77", "root", "digest"]
            seq += [f"proof {hex(i)}" for i in sorted({0, 1, n // 2, n - 1, n, n + 1} | {rng.randrange(n) for _ in range(12 if quick else 60)})]
            bigp.append(seq)
    run.differential("proof-after-long-range", bigp, spec=False, shrink=False)
    zkh = run.harness()
    if quick:
        # one write of 106 496 leaves (more than 8 MiB of node entries in one storage batch) on the persistent tree, compared with the
        # sparse in-memory tree on the same lines — the model takes a minute for this size and runs it in the thorough tier
        n = 106496
        lines = ["range 0x1 gen:%s:0x77" % hex(n), "root", "next", "digest"] + [f"proof {hex(i)}" for i in sorted({0, 1, n // 2, n, n + 1} | {rng.randrange(n) for _ in range(40)})]
        outs = {b: core.run_impl(zkh, [f"tree new {b} 17"] + lines, timeout=3000)[1:] for b in ("pm", "opt")}
        run.count_case(("long-range-impl", n))
        run.cov["traces_validated_against_impl"] += 1
        for j, l in enumerate(lines):
            a, b = outs["pm"][j], outs["opt"][j]
            if a != b or (l.startswith("proof ") and ("recomputes=true" not in a or not a.endswith("accepted"))):
                run.violation({"property": run.pid, "kind": "impl-vs-spec", "stream": "long-range-pm-vs-opt", "ops": ["tree new pm|opt 17"] + lines[: j + 1],
                               "detail": f"after one range write of {n} leaves the persistent and the sparse tree differ on `{l}` (or a proof does not recompute the root): pm={a[-90:]} opt={b[-90:]}"})
                break
    # ---- trees created with an initial leaf value other than the hasher's default leaf (`ZerokitMerkleTree::new(depth, initial, …)`):
    #      deletions write the default leaf, never-written positions hold the initial one. No model instance exists for this
    #      configuration; the oracle is the property itself (every proof recomputes the tree's root from the stored leaf and passes the
    #      tree's own check) plus agreement of the two in-memory backends on every line.
    zkh = run.harness()
    bad = 0
    for k in range(20 if quick else 200):
        depth = rng.choice([2, 3, 4, 5])
        cap = 1 << depth
        init = rng.choice([1, 7, rand_fr(rng)])
        ops = []
        for _ in range(rng.randint(1, 8)):
            ops.append(treegen.gen_mutator(rng, cap, ["set", "set", "del", "del", "app", "range"]))
            ops += [f"proof {hex(i)}" for i in range(cap)] + ["root", "next"]
        outs = {}
        for backend in ("full", "opt"):
            outs[backend] = core.run_impl(zkh, [f"tree newinit {backend} {depth} {hex(init)}"] + ops)[1:]
        run.count_case(("newinit", depth, init, tuple(ops)))
        run.cov["traces_validated_against_impl"] += 1
        for j, l in enumerate(ops):
            a, b = outs["full"][j], outs["opt"][j]
            broken = next((x for x in (a, b) if l.startswith("proof ") and x != "err" and ("recomputes=true" not in x or not x.endswith("accepted"))), None)
            # the result code of deleting an unset position is backend-specific (C06); everything else must agree
            if broken or (a != b and not (l.startswith("del ") and {a, b} <= {"ok", "err"})):
                bad += 1
                if bad <= 2:
                    run.violation({"property": run.pid, "kind": "impl-vs-spec", "stream": "custom-initial-leaf", "ops": [f"tree newinit full|opt {depth} {hex(init)}"] + ops[: j + 1],
                                   "detail": (f"a proof does not recompute the root / is rejected by its own tree: {broken[-60:]}" if broken else f"the in-memory backends disagree on `{l}`: full={a[:80]} opt={b[:80]}")})
                break
    run.cov["custom_initial_leaf_histories"] = 20 if quick else 200
    run.rules.append("trees created with an initial leaf other than the default leaf (both in-memory backends, depth 2..5): after every mutator every position's proof must recompute the root and pass the tree's own check, and the two backends must agree; random histories, then for every position (depth <= 4) or boundary+random positions: the proof's siblings, direction bits, length, decoded index, recomputed root, own check; then every single-sibling replacement, every direction-bit flip and a foreign leaf value must be rejected unless the ideal tree says the altered path still recomputes the root; distinct = distinct op sequence")
