"""C07 — membership proofs are complete, binding and in the circuit's format."""
from lib import core, treegen
from lib.gen import rand_fr


def check(run):
    run.level = "proof"
    from checks import _tree_theorems
    run.prove(_tree_theorems.C07)
    rng = run.rng
    quick = run.tier == "quick"
    nseq = 40 if quick else 400
    kinds = ["set", "set", "del", "app", "app", "range"]

    def mk(backend, depth, nops):
        cap = 1 << depth
        seq = treegen.gen_seq(rng, backend, depth, nops, kinds, observe="some")
        # proofs of every position on small trees, of boundary and random positions on deep ones
        positions = list(range(cap)) if depth <= 4 else sorted({0, 1, cap - 1, cap // 2, cap // 2 - 1} | {rng.randrange(cap) for _ in range(6)})
        if depth > 8:
            positions = sorted({0, cap - 1, rng.randrange(cap), rng.randrange(min(cap, 64))})
        for i in positions:
            seq.append(f"proof {hex(i)}")
        seq.append(f"proof {hex(cap)}")          # outside the tree: an error, never a crash
        # alterations: every sibling, every direction bit, another leaf value
        deep = depth > 8
        for i in positions[: (3 if deep else 6 if quick else 16)]:
            for k in ([0, depth // 2, depth - 1] if deep else range(depth)):
                seq.append(f"pverify {hex(i)} sib {k} {hex(rand_fr(rng))}")
                seq.append(f"pverify {hex(i)} dir {k} 0x0")
            seq.append(f"pverify {hex(i)} leaf 0 {hex(rand_fr(rng))}")
        return seq
    for backend in treegen.BACKENDS:
        seqs = []
        for k in range(nseq):
            depth = rng.choice([1, 2, 3, 4, 5] if quick else [1, 2, 3, 4, 5, 6, 7])
            seqs.append(mk(backend, depth, rng.randint(0, 10 if quick else 30)))
        for k in range(1 if quick else 12):
            seqs.append(mk(backend, rng.choice([10, 20]), rng.randint(2, 5)))
        run.differential(f"proof-{backend}", seqs)
    run.rules.append("random histories, then for every position (depth <= 4) or boundary+random positions: the proof's siblings, direction bits, length, decoded index, recomputed root, own check; then every single-sibling replacement, every direction-bit flip and a foreign leaf value must be rejected unless the ideal tree says the altered path still recomputes the root; distinct = distinct op sequence")
