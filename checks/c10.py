"""C10 — byte encodings round-trip and match the documented layouts."""
from lib import core, gen, rlngen
from lib.gen import P, le, rand_fr

FB = [0, 1, 2, P - 1, P - 2, (P - 1) // 2, 2**64 - 1, 2**64, 2**128, 2**253, 2**254 - 1 - P]


JKEYS = ["identity_secret", "user_message_limit", "message_id", "path_elements", "identity_path_index", "x", "external_nullifier"]


def json_from_line(rng, s, lim, mid, path, idx, x, e, mutate):
    """a `json_from` line: the object `rln_witness_to_json` would build for these values, field by field, optionally with ONE
    deviation an independent producer could make (value >= p in a field, element that is not a byte, short / long array,
    wrong declared count, missing key, key of the decimal export, unknown key, string instead of array, null)"""
    f = {"identity_secret": list(le(s, 32)), "user_message_limit": list(le(lim, 32)), "message_id": list(le(mid, 32)),
         "path_elements": list(le(len(path), 8) + b"".join(le(v, 32) for v in path)), "identity_path_index": list(idx),
         "x": list(le(x, 32)), "external_nullifier": list(le(e, 32))}
    toks = {k: "n:" + (",".join(str(b) for b in v) or "-") for k, v in f.items()}
    if mutate:
        k = rng.choice(JKEYS)
        m = rng.randrange(14)
        v = list(f[k])
        if m == 0:
            del toks[k]                                                      # missing key
        elif m == 1:
            toks[k] = "o"                                                    # null
        elif m == 2:
            toks[k] = "s:" + b"12345".hex()                                  # a decimal string where bytes are expected
        elif m == 3:
            toks[k] = "t:" + ",".join(str(b).encode().hex() for b in (v or [1]))   # array of strings
        elif m == 4 and v:
            v[rng.randrange(len(v))] = rng.choice([256, 257, 65535, 2**32, 2**64 - 1])   # not a byte
            toks[k] = "n:" + ",".join(str(b) for b in v)
        elif m == 5:
            v = v + [rng.getrandbits(8) for _ in range(rng.choice([1, 2, 31, 32, 33]))]   # trailing bytes inside a field
            toks[k] = "n:" + ",".join(str(b) for b in v)
        elif m == 6 and v:
            v = v[:rng.randrange(len(v))]                                    # short array
            toks[k] = "n:" + (",".join(str(b) for b in v) or "-")
        elif m == 7 and k not in ("path_elements", "identity_path_index"):
            big = rng.choice([P, P + 1, P + rng.getrandbits(200), 2**256 - 1, 2**254, 2**255])   # not below the modulus
            toks[k] = "n:" + ",".join(str(b) for b in le(big, 32))
        elif m == 8:
            n = len(path)
            cnt = rng.choice([n + 1, max(n - 1, 0), 0, 2**32, 2**63, 2**64 - 1])              # wrong declared count
            toks["path_elements"] = "n:" + ",".join(str(b) for b in list(le(cnt, 8)) + f["path_elements"][8:])
        elif m == 9 and path:
            i = rng.randrange(len(path))
            pe = list(f["path_elements"])
            pe[8 + 32 * i: 8 + 32 * (i + 1)] = list(le(rng.choice([P, P + 5, 2**256 - 1]), 32))  # one element not below the modulus
            toks["path_elements"] = "n:" + ",".join(str(b) for b in pe)
        elif m == 10:
            toks["identitySecret"] = "s:" + str(s).encode().hex()            # a key of the decimal export next to the regular ones
        elif m == 11:
            toks["zz_unknown"] = rng.choice(["o", "n:1,2,3", "s:" + b"abc".hex()])
        elif m == 12:
            camel = {"identity_secret": "identitySecret", "user_message_limit": "userMessageLimit", "message_id": "messageId",
                     "path_elements": "pathElements", "identity_path_index": "identityPathIndex", "x": "X", "external_nullifier": "externalNullifier"}
            toks[camel[k]] = toks.pop(k)                                     # the decimal export's spelling of a key
        else:
            toks["identity_path_index"] = "n:" + (",".join(str(rng.choice([0, 1, 2, 255])) for _ in range(rng.randrange(0, 25))) or "-")
    items = list(toks.items())
    rng.shuffle(items)                                                       # a map: the order of insertion must not matter
    return "json_from " + " ".join(f"{k}={v}" for k, v in items)


def check(run):
    run.level = "proof"
    from checks import _proto_theorems
    run.prove(_proto_theorems.C10)
    rng = run.rng
    quick = run.tier == "quick"
    N = 200 if quick else 1500
    seqs = []
    # field elements: encode with zerokit / decode by the documented layout and vice versa
    for v in FB + [rand_fr(rng) for _ in range(N)]:
        seqs.append([f"ser_fr {hex(v)}"])
        seqs.append([f"de_fr {le(v, 32).hex()}"])
    for v in [P, P + 1, 2**256 - 1, 2**255]:          # decoders reduce values >= p (C13 is about acceptance, not decoding)
        seqs.append([f"de_fr {le(v, 32).hex()}"])
    seqs.append([f"de_fr {le(5, 32).hex()}aabb"])       # trailing bytes are ignored by the element decoder
    # vectors of every length 0..n
    for n in list(range(0, 6)) + [20, 33] + ([] if quick else [64, 100, 255, 256]):
        vs = [rand_fr(rng) for _ in range(n)]
        seqs.append(["ser_vecfr " + (",".join(hex(v) for v in vs) or "-")])
        enc = le(n, 8) + b"".join(le(v, 32) for v in vs)
        seqs.append([f"de_vecfr {enc.hex()}"])
        seqs.append([f"de_vecfr {(enc + b'zz').hex()}"])                    # trailing bytes after the declared elements
        if n:
            seqs.append([f"de_vecfr {enc[:-1].hex()}"])                     # one byte short
            seqs.append([f"de_vecfr {(le(n + 1, 8) + enc[8:]).hex()}"])     # declares one element more
        bs = bytes(rng.getrandbits(8) for _ in range(n))
        seqs.append([f"ser_vecu8 {rlngen.hx(bs)}"])
        seqs.append([f"de_vecu8 {(le(n, 8) + bs).hex()}"])
        seqs.append([f"de_vecu8 {(le(n + 1, 8) + bs).hex()}"])
        us = [rng.choice([0, 1, 2**32 - 1, 2**32, 2**32 + 1, 2**63, 2**64 - 1, rng.getrandbits(20)]) for _ in range(n)]
        seqs.append(["ser_usize " + (",".join(hex(v) for v in us) or "-")])
        seqs.append([f"de_usize {(le(n, 8) + b''.join(le(u, 8) for u in us)).hex()}"])
    for hdr in ["", "00", "01000000000000", "ffffffffffffffff", "0000000000000080" + "00" * 32]:
        for op in ("de_vecfr", "de_vecu8"):
            seqs.append([f"{op} {hdr or '-'}"])
    # witness: values -> bytes (zerokit) vs the documented layout, and bytes -> values
    for k in range(N):
        n = rng.choice([0, 1, 2, 19, 20, 20, 20, 21])
        m = n if rng.random() < 0.8 else rng.choice([0, max(n - 1, 0)])     # index lists longer than the path: C12
        lim = rng.choice([1, 2, 100, 2**16, 2**16 + 1, P - 1, rand_fr(rng)])
        mid = rng.choice([0, 1, max(lim - 1, 0), lim, (lim + 1) % P, rand_fr(rng)])
        path = [rand_fr(rng) for _ in range(n)]
        idx = bytes(rng.choice([0, 1, 0, 1, 2, 255]) if rng.random() < 0.1 else rng.getrandbits(1) for _ in range(m))
        s, x, e = rand_fr(rng), rand_fr(rng), rand_fr(rng)
        if k % 4 == 1:
            # values special in the decimal representation (seed C10g: a chunked decimal printer that drops all-zero 19-digit groups)
            s, x, e = gen.decimal_special(rng), gen.decimal_special(rng), gen.decimal_special(rng)
            path = [gen.decimal_special(rng) for _ in range(n)]
            lim = max(gen.decimal_special(rng), 1)
            mid = rng.choice([0, 10**19 % lim, gen.decimal_special(rng) % lim, lim - 1])
        seqs.append([f"witness {hex(s)} {hex(lim)} {hex(mid)} {','.join(hex(p) for p in path) or '-'} {rlngen.hx(idx)} {hex(x)} {hex(e)}"])
        enc = rlngen.witness_bytes(s, lim, mid, path, idx, x, e)
        seqs.append([f"de_witness {enc.hex()}"])
        seqs.append([f"json_rt {enc.hex()}"])
        seqs.append([f"json_text {enc.hex()}"])                # the JSON text itself against `Json.render (witnessToJson w)` of the model
        seqs.append([f"bigint_text {enc.hex()}"])              # the circom input file against `witnessToBigintJson`
        seqs.append(json_from_line(rng, s, lim, mid, path, idx, x, e, mutate=(k % 3 != 0)))
        seqs.append([f"rln_wit_bigint {enc.hex()}"])           # the RLN-level exports of the same witness (JSON entry points)
        seqs.append([f"rln_wit_json {enc.hex()}"])
        r = rng.random()
        if r < 0.5:
            cut = rng.choice([0, 1, 31, 32, 95, 96, 103, 104, len(enc) - 65, len(enc) - 64, len(enc) - 1])
            seqs.append([f"de_witness {rlngen.hx(enc[:max(cut, 0)])}"])                      # missing bytes
            seqs.append([f"de_witness {(enc + bytes(rng.randint(1, 40))).hex()}"])             # trailing bytes
        elif n and m:
            # inconsistent length prefixes with the total length of a regular witness
            k2 = rng.randint(1, min(m, 3))
            bad = bytearray(enc)
            off = 96 + 8 + 32 * n
            bad[off:off + 8] = le(m - k2, 8)
            seqs.append([f"de_witness {bytes(bad).hex()}"])
            bad[off:off + 8] = le(m + k2, 8)
            seqs.append([f"de_witness {bytes(bad).hex()}"])
            bad2 = bytearray(enc)
            bad2[96:104] = le(n + 1, 8)
            seqs.append([f"de_witness {bytes(bad2).hex()}"])
    # proof values, requests, identity tuples
    for k in range(N):
        vals = [rng.choice(FB + [rand_fr(rng)]) % P for _ in range(5)]
        seqs.append(["pv_ser " + " ".join(hex(v) for v in vals)])
        seqs.append(["pv_de " + b"".join(le(v, 32) for v in vals).hex()])
        sig = bytes(rng.getrandbits(8) for _ in range(rng.choice([0, 1, 31, 32, 33, 136, 300])))
        seqs.append([f"prep_prove {hex(vals[0])} {hex(rng.choice([0, 1, 2**20 - 1, 2**32, 2**64 - 1]))} {hex(vals[1])} {hex(vals[2])} {hex(vals[3])} {rlngen.hx(sig)}"])
        seqs.append([f"prep_verify {bytes(rng.getrandbits(8) for _ in range(288)).hex()} {rlngen.hx(sig)}"])
        seqs.append(["id_pair_de " + b"".join(le(v, 32) for v in vals[:2]).hex()])
        seqs.append(["id_tuple_de " + b"".join(le(v, 32) for v in vals[:4]).hex()])
        # the readers on buffers of every length class (shorter than needed: panic in the slice, exactly below 64 / 128 / 32 bytes;
        # longer: trailing bytes unread) and on values not below the modulus (reduced)
        raw = bytes(rng.getrandbits(8) for _ in range(rng.choice([0, 1, 31, 32, 33, 63, 64, 65, 95, 96, 127, 128, 129, 160])))
        seqs.append(["id_pair_de " + rlngen.hx(raw)])
        seqs.append(["id_tuple_de " + rlngen.hx(raw)])
        seqs.append(["fe_de " + rlngen.hx(raw)])
        seqs.append(["fe_de " + le(rng.choice(FB + [P, P + 1, 2**256 - 1]), 32).hex()])
    run.rules.append("each codec in both directions against an encoder/decoder written from the documented layouts: field elements (boundary + random), vectors of length 0..n and long generated vectors (65535 / 65536 / 65537 / 70001 elements; thorough up to 2^20+1), usize lists with 2^32/2^63/2^64-1 entries, witnesses with path lengths 0..21 and boundary limits/ids, with missing / trailing bytes and inconsistent length prefixes, proof values, requests, the JSON witness codec (exact JSON text of both exports against the model's rendering; rln_witness_from_json on objects with one deviation each: missing / unknown / camelCase key, null, string, element that is not a byte, short and over-long field, value not below the modulus, wrong declared count), identity tuples (seeded and unseeded, RLN and FFI entry points, checked through the relations their fields satisfy in the documented order); distinct = distinct op line")
    # vectors longer than any internal chunking threshold, with lengths that are NOT multiples of small powers of two
    for n in ([0, 1, 65535, 65536, 65537, 70001] if run.tier == "quick" else [0, 1, 2, 1000, 16383, 16384, 16385, 65535, 65536, 65537, 70001, 131071, 131073, 262147, 1048577]):
        seqs.append([f"bigvec fr {hex(n)} {hex(rng.getrandbits(40))}"])
        seqs.append([f"bigvec u8 {hex(n)} {hex(rng.getrandbits(8))}"])
    from lib import gen as _gen
    def _wit_ok(line):
        # stay inside this stream's domain: a witness line with more direction bytes than path elements makes
        # proof_values_from_witness panic, which is C12's open finding, not a codec matter (see DESIGN §15)
        w = line.split(" ")
        if w[0] != "witness" or len(w) < 6:
            return True
        npath = 0 if w[4] == "-" else len(w[4].split(","))
        nidx = 0 if w[5] == "-" else len(w[5]) // 2
        return nidx <= npath
    seqs = seqs + _gen.neighbours(seqs, run.rng, 60 if run.tier == "quick" else 600, valid=_wit_ok)      # purity across calls: L, near-duplicate of L, L again
    run.differential("codecs", seqs, shrink=False)
    # ---- every byte-producing API call into a sink that takes a few bytes per `write()` call, and from readers that deliver a few
    #      bytes per `read()`: the documented encoding must arrive complete (`write_all`, `read_to_end`), whatever the sink / source
    io = []
    for n in (1, 3, 100):
        io.append(["rln new", "rln set_leaf 0x5 0x9", "rln set_leaf 0x1 0x7", "rln delete 0x1", f"rln chunk {hex(n)}", "rln empty", "rln get_proof 0x5",
                   "rln root", "rln get_leaf 0x5", "rln seeded_key_gen 0a0b", "rln seeded_ext_key_gen 0a0b", "rln set_leaves_from 0x6 0x1,0x2,0x3", "rln empty",
                   "rln atomic 0x9 0x4 -", "rln empty", "rln chunk 0x0", "rln empty"])
    run.differential("api-partial-io", io, shrink=False)
    # ---- the documented identity layouts on EVERY entry point that writes one, also the unseeded ones (random output: the layout
    #      is checked through the relations its fields must satisfy IN THE DOCUMENTED ORDER):
    #      [ secret<32> | commitment<32> ] with commitment = H(secret); [ trapdoor | nullifier | secret | commitment ] with
    #      secret = H(trapdoor, nullifier), commitment = H(secret)
    from lib import rlngen as _rg
    zkh = run.harness()
    sd = bytes(range(7)).hex()
    ops = ["rln key_gen", "ffi_key_gen", "rln ext_key_gen", "ffi_ext_key_gen", f"rln seeded_key_gen {sd}", f"ffi_seeded_key_gen {sd}",
           f"rln seeded_ext_key_gen {sd}", f"ffi_seeded_ext_key_gen {sd}"] * (3 if run.tier == "quick" else 30)
    outs = core.run_impl(zkh, ops)
    want = []
    for op, o in zip(ops, outs):
        b = bytes.fromhex(o[3:]) if o.startswith("ok ") else b""
        n = 4 if "ext" in op else 2
        if len(b) != 32 * n:
            run.violation({"property": run.pid, "kind": "impl-vs-spec", "stream": "identity-layout", "ops": [op], "detail": f"{len(b)} bytes where the documented layout has {32 * n}: {o[:80]}"})
            continue
        v = [int.from_bytes(b[32 * k:32 * k + 32], "little") for k in range(n)]
        want += [([v[0]], v[1], op)] if n == 2 else [([v[0], v[1]], v[2], op), ([v[2]], v[3], op)]
    hs = _rg.poseidon(zkh, [w[0] for w in want])
    sp = [int(x, 16) for x in core.run_lean("spec", ["poseidon " + " ".join(hex(v) for v in w[0]) for w in want])]
    for (inp, val, op), h, g in zip(want, hs, sp):
        run.cov["evaluations"] += 1
        if h != val or g != val:
            run.violation({"property": run.pid, "kind": "impl-vs-spec", "stream": "identity-layout", "ops": [op],
                           "detail": f"fields read in the documented order do not satisfy the identity relation: H({[hex(x) for x in inp]}) = {hex(g)}, the field holds {hex(val)}"})
