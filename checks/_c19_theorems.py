THEOREMS = {"ZkProofs.C19": ["Zk.C19_consts", "Zk.C19_signed_comparisons", "Zk.C19_shr_limbs", "Zk.C19_limbwise",
    "Zk.C19_evalFr_sem_partial", "Zk.C19_evalFr_no_panic", "Zk.C19_uno", "Zk.C19_tres", "Zk.C19_evaluators_agree_partial",
    "Zk.C19_uno_agree", "Zk.C19_shl_above_half_differs", "Zk.C19_shr_above_half_differs", "Zk.C19_pow_unimplemented",
    "Zk.C19_int_shl_unreduced", "Zk.C19_int_bor_unreduced", "Zk.C19_int_div_zero_panics"]}
