"""C06 — each Merkle tree backend is observationally equal to the ideal hash tree."""
from lib import core, treegen

THEOREMS = []   # filled in below once the proof modules exist


def check(run):
    run.level = "proof"
    from checks import _tree_theorems
    run.prove(_tree_theorems.C06)
    rng = run.rng
    treegen.init_special(run.harness())      # empty-subtree roots as leaf values
    quick = run.tier == "quick"
    nseq = 100 if quick else 1000
    kinds = ["set", "set", "del", "app", "app", "range", "range"]
    for backend in treegen.BACKENDS + treegen.GENERIC:
        seqs = []
        for k in range(nseq):
            depth = rng.choice([1, 2, 3, 3, 4, 4, 5] if quick else [1, 2, 3, 4, 5, 6, 7])
            nops = rng.randint(1, 14 if quick else 40)
            seqs.append(treegen.gen_seq(rng, backend, depth, nops, kinds, observe="obs"))
        # directed: a leaf whose value is the root of an EMPTY subtree of some height (incl. the empty root of this very tree), written,
        # observed, deleted, observed — values a "this subtree is empty anyway" shortcut would confuse with emptiness
        if treegen.SPECIAL and backend in treegen.BACKENDS:
            for depth in ([1, 3] if quick else [1, 2, 3, 4, 5]):
                cap = 1 << depth
                for hgt in sorted({1, depth, min(depth + 1, 20)}):
                    i = rng.randrange(cap)
                    seqs.append([f"tree new {backend} {depth}", f"set {hex(i)} {hex(treegen.SPECIAL[hgt - 1])}", "obs", f"del {hex(i)}", "obs",
                                 f"range 0x0 {hex(treegen.SPECIAL[depth - 1])}", "obs", "del 0x0", "obs"])
        # deeper trees, partial observation
        for k in range(3 if quick else 20):
            depth = rng.choice([10, 16, 20])
            seqs.append(treegen.gen_seq(rng, backend, depth, rng.randint(3, 10 if quick else 40), kinds, observe="some"))
        run.differential(f"tree-{backend}", seqs)
    # ---- sizes beyond every internal batching threshold: ONE range write of more than 2^14 leaves (thorough: also 2^16+1) at an
    #      unaligned start, then ordinary operations next to its tail and a second overlapping long range. The list is given as
    #      `gen:<n>:<seed>`; the model executes the same writes (the ideal tree would need a minute per sequence: the model is proved to
    #      refine it, C06_*_refines), and the three backends must agree with each other through the model.
    big = []
    for backend in treegen.BACKENDS:
        for depth, n in ([(15, 2**14 + 5)] if quick else [(15, 2**14 + 5), (17, 2**16 + 1), (16, 40000), (17, 120000)]):
            st = 3
            tail = [st + 2**14 - 1, st + 2**14, st + n - 1, st + n]
            seq = [f"tree new {backend} {depth}", f"range {hex(st)} gen:{hex(n)}:0x10", "root", "next", "empty", "digest"]
            seq += [f"get {hex(i)}" for i in tail] + [f"sub {l} {hex(tail[1])}" for l in (1, depth - 3, depth - 1, depth)]
            seq += [f"set {hex(tail[1] + 1)} 0x77", "root", f"del {hex(tail[2])}", "root", f"get {hex(tail[2])}", "empty"]
            seq += [f"range {hex(n // 2)} gen:{hex(2**14 + 1)}:0x99999", "root", "next", f"get {hex(n // 2 + 2**14)}", f"app 0x5", "root", "next", "digest"]
            big.append(seq)
    run.differential("tree-long-ranges", big, spec=False, shrink=False)
    run.rules.append("one range write of 2^14+5 leaves (thorough: also 2^16+1, 40000 and 120000 — beyond 8 MiB of node entries) at an unaligned start on each backend, followed by writes / deletions at its tail, a second overlapping long range and an append, with root, leaf count, empty list, tail leaves, subtree roots and a digest of every node of every level observed (implementation vs model); random op sequences over {set, delete, append, write_range, reset} with positions inside / at / beyond capacity (incl. 2^32, 2^63, 2^64-1), depths 1..7 with EVERY observable (root, all subtree roots, all leaves, high-water mark, empty list) compared after every op, depths 10/16/20 with sampled observables; each of the three backends; distinct = distinct op sequence")
