"""C06 — each Merkle tree backend is observationally equal to the ideal hash tree."""
from lib import core, treegen

THEOREMS = []   # filled in below once the proof modules exist


def check(run):
    run.level = "proof"
    from checks import _tree_theorems
    run.prove(_tree_theorems.C06)
    rng = run.rng
    quick = run.tier == "quick"
    nseq = 100 if quick else 1000
    kinds = ["set", "set", "del", "app", "app", "range", "range"]
    for backend in treegen.BACKENDS:
        seqs = []
        for k in range(nseq):
            depth = rng.choice([1, 2, 3, 3, 4, 4, 5] if quick else [1, 2, 3, 4, 5, 6, 7])
            nops = rng.randint(1, 14 if quick else 40)
            seqs.append(treegen.gen_seq(rng, backend, depth, nops, kinds, observe="obs"))
        # deeper trees, partial observation
        for k in range(3 if quick else 20):
            depth = rng.choice([10, 16, 20])
            seqs.append(treegen.gen_seq(rng, backend, depth, rng.randint(3, 10 if quick else 40), kinds, observe="some"))
        run.differential(f"tree-{backend}", seqs)
    run.rules.append("random op sequences over {set, delete, append, write_range, reset} with positions inside / at / beyond capacity (incl. 2^32, 2^63, 2^64-1), depths 1..7 with EVERY observable (root, all subtree roots, all leaves, high-water mark, empty list) compared after every op, depths 10/16/20 with sampled observables; each of the three backends; distinct = distinct op sequence")
