"""C15 — the reported empty positions are exactly the unset or deleted ones."""
from lib import core, treegen
from checks.c08 import pm_defect_shape, classify_pm


def check(run):
    run.level = "proof"
    from checks import _tree_theorems
    run.prove(_tree_theorems.C15)
    rng = run.rng
    quick = run.tier == "quick"
    nseq = 120 if quick else 1200
    kinds = ["set", "set", "del", "del", "app", "app", "range", "batch"]

    def extra(rng, cap, depth):
        return ["empty", "next"]
    for backend in treegen.BACKENDS:
        seqs = []
        for k in range(nseq):
            depth = rng.choice([2, 3, 4, 5, 6] if quick else [2, 3, 4, 5, 6, 7, 8])
            s = treegen.gen_seq(rng, backend, depth, rng.randint(2, 16 if quick else 50), kinds, observe="some", extra_obs=extra)
            if backend == "pm":
                s = [l for l in s if not pm_defect_shape(l)]
            seqs.append(s)
        for k in range(3 if quick else 30):
            s = treegen.gen_seq(rng, backend, rng.choice([10, 16, 20]), rng.randint(3, 12 if quick else 60), kinds, observe="some", extra_obs=extra)
            if backend == "pm":
                s = [l for l in s if not pm_defect_shape(l)]
            seqs.append(s)
        # directed: every dispatch arm of the batch update that stays outside the open C08 shapes, on occupied positions
        # (removal-only with ONE index, leaves-only, both empty), each followed by `empty`
        for depth in ([2, 3, 4] if quick else [2, 3, 4, 5, 6, 10]):
            cap = 1 << depth
            fill = min(cap, 24)
            s = [f"tree new {backend} {depth}", "range 0x0 " + treegen.vlist([rng.randint(1, 1 << 30) for _ in range(fill)]), "empty", "next"]
            for i in rng.sample(range(fill), min(fill, 4)) + [0, fill - 1]:
                s += [f"batch 0x0 - {hex(i)}", "empty", "next", f"get {hex(i)}"]
                if rng.random() < 0.5:
                    s += [f"batch {hex(i)} {hex(rng.randint(1, 99))} -", "empty"]
                if rng.random() < 0.3:
                    s += [f"batch {hex(rng.randrange(cap))} - {hex(i)}", "empty"]     # the start position is irrelevant for a removal-only batch
            s += ["batch 0x0 - -", "empty", "root"]
            seqs.append(s)
        run.differential(f"empty-{backend}", seqs)
    # one range write longer than any internal batch (2^14 leaves) at an unaligned start: every written position is occupied, also the tail
    big = []
    for backend in (["pm", "opt"] if quick else treegen.BACKENDS):
        n = 2**14 + 5
        big.append([f"tree new {backend} 15", f"range 0x3 gen:{hex(n)}:0x10", "empty", "next", f"del {hex(3 + 2**14)}", "empty",
                    f"batch {hex(3 + n)} gen:{hex(2**14 + 2)}:0x5000 -", "empty", "next"])
    run.differential("empty-long-ranges", big, spec=False, shrink=False)
    # persistent backend: close / reopen (open finding C15-pm-reopen-flags: the flag cache is not persisted)
    seqs = []
    for k in range(20 if quick else 200):
        depth = rng.choice([2, 3, 4, 5])
        s = treegen.gen_seq(rng, "pmdisk", depth, rng.randint(1, 10), ["set", "del", "app", "range"], observe="some", extra_obs=extra)
        s += ["close", "reopen", "empty", "next", "root"]
        s += [treegen.gen_mutator(rng, 1 << depth, ["set", "app", "del"]), "empty", "next"]
        seqs.append(s)

    def classify_reopen(seq, idx, impl, spec):
        if "reopen" in seq[: idx + 1] and seq[idx] in ("empty", "obs"):
            return "C15-pm-reopen-flags"
        return None
    run.differential("empty-pm-reopen", seqs, classify=classify_reopen)
    run.rules.append("random histories over every mutator (single write, append, delete, range write, batch update outside the open C08 shapes) on each backend, depths 2..8 and 10/16/20; `empty` and the high-water mark observed after every op; directed sequences through every batch-update dispatch arm (one removal only, leaves only, nothing) on occupied positions; persistent backend additionally across close/reopen; distinct = distinct op sequence")

    run.confirm_witnesses()
