"""C15 — the reported empty positions are exactly the unset or deleted ones."""
from lib import core, treegen
from checks.c08 import pm_defect_shape, classify_pm


def check(run):
    run.level = "proof"
    from checks import _tree_theorems
    run.prove(_tree_theorems.C15)
    rng = run.rng
    treegen.init_special(run.harness())      # empty-subtree roots as leaf values
    quick = run.tier == "quick"
    nseq = 120 if quick else 1200
    kinds = ["set", "set", "del", "del", "app", "app", "range", "batch"]

    def extra(rng, cap, depth):
        return ["empty", "next"]
    for backend in treegen.BACKENDS + treegen.GENERIC:
        seqs = []
        for k in range(nseq):
            depth = rng.choice([2, 3, 4, 5, 6] if quick else [2, 3, 4, 5, 6, 7, 8])
            s = treegen.gen_seq(rng, backend, depth, rng.randint(2, 16 if quick else 50), kinds, observe="some", extra_obs=extra)
            if backend == "pm":
                s = [l for l in s if not pm_defect_shape(l)]
            seqs.append(s)
        for k in range(3 if quick else 30):
            s = treegen.gen_seq(rng, backend, rng.choice([10, 16, 20]), rng.randint(3, 12 if quick else 60), kinds, observe="some", extra_obs=extra)
            if backend == "pm":
                s = [l for l in s if not pm_defect_shape(l)]
            seqs.append(s)
        # directed: every dispatch arm of the batch update that stays outside the open C08 shapes, on occupied positions
        # (removal-only with ONE index, leaves-only, both empty), each followed by `empty`
        for depth in ([2, 3, 4] if quick else [2, 3, 4, 5, 6, 10]):
            cap = 1 << depth
            fill = min(cap, 24)
            s = [f"tree new {backend} {depth}", "range 0x0 " + treegen.vlist([rng.randint(1, 1 << 30) for _ in range(fill)]), "empty", "next"]
            for i in rng.sample(range(fill), min(fill, 4)) + [0, fill - 1]:
                s += [f"batch 0x0 - {hex(i)}", "empty", "next", f"get {hex(i)}"]
                if rng.random() < 0.5:
                    s += [f"batch {hex(i)} {hex(rng.randint(1, 99))} -", "empty"]
                if rng.random() < 0.3:
                    s += [f"batch {hex(rng.randrange(cap))} - {hex(i)}", "empty"]     # the start position is irrelevant for a removal-only batch
            s += ["batch 0x0 - -", "empty", "root"]
            seqs.append(s)
        run.differential(f"empty-{backend}", seqs)
    # ---- trees created with an initial leaf other than the hasher's default leaf (no model instance for this configuration): the
    #      listing depends on what was DONE to a position, not on the value it holds — also when the value written is the initial leaf
    #      itself or the default leaf. Oracle: the specification's bookkeeping (ops below are replayed in Python), Full = Optimal.
    zkh = run.harness()
    bad = 0
    for k in range(30 if quick else 300):
        depth = rng.choice([2, 3, 4])
        cap = 1 << depth
        init = rng.choice([1, 7, rng.getrandbits(100) + 2])
        ops, nxt, flag = [], 0, {}
        expect = []
        for _ in range(rng.randint(2, 10)):
            r = rng.random()
            v = rng.choice([init, init, 0, rng.randint(1, 50)])
            if r < 0.4:
                i = rng.randrange(cap); ops.append(f"set {hex(i)} {hex(v)}"); flag[i] = 1; nxt = max(nxt, i + 1)
            elif r < 0.6:
                i = rng.randrange(cap); ops.append(f"del {hex(i)}")
                if i < nxt:
                    flag[i] = 0
            elif r < 0.8:
                if nxt < cap:
                    ops.append(f"app {hex(v)}"); flag[nxt] = 1; nxt += 1
                else:
                    continue
            else:
                st = rng.randrange(cap); n = rng.randint(1, min(3, cap - st))
                ops.append(f"range {hex(st)} {','.join(hex(rng.choice([init, 0, 9])) for _ in range(n))}")
                for j in range(st, st + n):
                    flag[j] = 1
                nxt = max(nxt, st + n)
            ops += ["empty", "next"]
            expect.append(("[" + ",".join(str(i) for i in range(nxt) if flag.get(i, 0) != 1) + "]", str(nxt)))
        for backend in ("full", "opt"):
            out = core.run_impl(zkh, [f"tree newinit {backend} {depth} {hex(init)}"] + ops)[1:]
            obs = [(out[j], out[j + 1]) for j in range(len(out) - 1) if ops[j] == "empty"]
            run.count_case(("newinit-empty", backend, depth, init, tuple(ops)))
            run.cov["traces_validated_against_impl"] += 1
            for t, (got, want) in enumerate(zip(obs, expect)):
                if got != want:
                    bad += 1
                    if bad <= 2:
                        cut = [j for j in range(len(ops)) if ops[j] == "empty"][t] + 2
                        run.violation({"property": run.pid, "kind": "impl-vs-spec", "stream": "custom-initial-leaf", "ops": [f"tree newinit {backend} {depth} {hex(init)}"] + ops[:cut],
                                       "observed_impl": list(got), "expected_spec": list(want),
                                       "detail": "the empty list / leaf count of a tree created with a non-default initial leaf differs from the bookkeeping of the operations performed"})
                    break
    # one range write longer than any internal batch (2^14 leaves) at an unaligned start: every written position is occupied, also the tail
    big = []
    for backend in (["pm", "opt"] if quick else treegen.BACKENDS):
        n = 2**14 + 5
        big.append([f"tree new {backend} 15", f"range 0x3 gen:{hex(n)}:0x10", "empty", "next", f"del {hex(3 + 2**14)}", "empty",
                    f"batch {hex(3 + n)} gen:{hex(2**14 + 2)}:0x5000 -", "empty", "next"])
    run.differential("empty-long-ranges", big, spec=False, shrink=False)
    # persistent backend: close / reopen (open finding C15-pm-reopen-flags: the flag cache is not persisted)
    seqs = []
    for k in range(20 if quick else 200):
        depth = rng.choice([2, 3, 4, 5])
        s = treegen.gen_seq(rng, "pmdisk", depth, rng.randint(1, 10), ["set", "del", "app", "range"], observe="some", extra_obs=extra)
        s += ["close", "reopen", "empty", "next", "root"]
        s += [treegen.gen_mutator(rng, 1 << depth, ["set", "app", "del"]), "empty", "next"]
        seqs.append(s)

    def classify_reopen(seq, idx, impl, spec):
        if "reopen" in seq[: idx + 1] and seq[idx] in ("empty", "obs"):
            return "C15-pm-reopen-flags"
        return None
    run.differential("empty-pm-reopen", seqs, classify=classify_reopen)
    run.rules.append("trees created with a non-default initial leaf (Full, Optimal; writes of the initial leaf itself and of the default leaf) against the operation bookkeeping; the two in-memory trees over a second hasher whose default leaf is not zero; random histories over every mutator (single write, append, delete, range write, batch update outside the open C08 shapes) on each backend, depths 2..8 and 10/16/20; `empty` and the high-water mark observed after every op; directed sequences through every batch-update dispatch arm (one removal only, leaves only, nothing) on occupied positions; persistent backend additionally across close/reopen; distinct = distinct op sequence")

    run.confirm_witnesses()
