"""C19 — witness-graph operators follow circom's field semantics on every operand."""
from lib import core, gen
from lib.gen import P

OPS = ["Mul", "Div", "Add", "Sub", "Pow", "Idiv", "Mod", "Eq", "Neq", "Lt", "Gt", "Leq", "Geq", "Land", "Lor",
       "Shl", "Shr", "Bor", "Band", "Bxor"]
THEOREMS = []


def grid(ks):
    g = {0, 1, 2, (P - 1) // 2, (P + 1) // 2, P - 2, P - 1, (P - 1) // 2 - 1, (P + 1) // 2 + 1}
    for k in ks:
        for d in (-1, 0, 1):
            v = 2 ** k + d
            if 0 <= v < P:
                g.add(v)
    return sorted(g)


def shift_counts():
    return [0, 1, 2, 63, 64, 65, 127, 128, 129, 191, 192, 193, 252, 253, 254, 255, 256, 257, 2 ** 32, 2 ** 64]


def parse(line):
    w = line.split(" ")
    return w[0], w[1], [int(x, 16) for x in w[2:]]


def classify(seq, idx, impl, spec):
    kind, name, args = parse(seq[idx])
    if kind in ("op", "opu") and name in ("Shl", "Shr") and args[1] > P // 2:
        return "C19-shift-count-above-half"          # circom shifts the other way by p - b
    if kind == "op" and name == "Pow":
        return "C19-montgomery-unimplemented"
    if kind == "uno" and name == "Id":
        return "C19-montgomery-unimplemented"
    if kind == "opu":
        a, b = args
        if name == "Shl" and (a << (b % 2 ** 64 if b % 2 ** 64 < 256 else 256)) % 2 ** 256 != spec_int(spec):
            return "C19-integer-evaluator"            # unmasked, unreduced
        if name == "Shr" and b >= 256:
            return "C19-integer-evaluator"            # only the low limb of the count is used
        if name in ("Bor", "Bxor") and ((a | b) if name == "Bor" else (a ^ b)) >= P:
            return "C19-integer-evaluator"            # result not reduced
        if name in ("Idiv", "Mod") and b == 0:
            return "C19-integer-evaluator"            # division by zero panics
    return None


def spec_int(s):
    try:
        return int(s, 16)
    except Exception:
        return -1


def check(run):
    run.level = "proof"
    from checks import _c19_theorems
    run.prove(_c19_theorems.THEOREMS)
    rng = run.rng
    quick = run.tier == "quick"
    ks = [8, 16, 31, 32, 63, 64, 65, 127, 128, 129, 191, 192, 193, 252, 253] if quick else list(range(8, 255))
    G = grid(ks)
    lines = []
    # full grid x grid for every operator would be |G|^2 * 20 lines: quick takes a seeded slice, thorough all of it
    pairs = [(a, b) for a in G for b in G]
    if quick:
        must = [(a, b) for a in [0, 1, 2, (P - 1) // 2, (P + 1) // 2, P - 2, P - 1] for b in [0, 1, 2, (P - 1) // 2, (P + 1) // 2, P - 2, P - 1]]
        pairs = must + rng.sample(pairs, 1200)
    elif len(pairs) > 60000:
        pairs = rng.sample(pairs, 60000)
    # operands that are special in the evaluator's INTERNAL representation (k * R^-1: a tiny Montgomery form) or sit on a limb
    # boundary of the modulus — ordinary-looking 254-bit numbers on which a fast path keyed on raw limbs would fire
    special = gen.MONTGOMERY_SMALL + gen.NEAR_MODULUS[:: (7 if quick else 1)]
    pairs += [(a, b) for a in special for b in special] + [(a, b) for a in special for b in (1, 2, 3, P - 1)] + [(a, b) for b in special for a in (1, 7, P - 1)]
    # carry chains: limb sums of exactly 2^64 - 1 with an incoming carry, in the canonical and in the Montgomery representation
    pairs += gen.carry_pairs(rng, 6 if quick else 40)
    for name in OPS:
        for a, b in pairs:
            if name == "Pow" and b > 2 ** 64:
                continue
            lines.append(f"op {name} {hex(a)} {hex(b)}")
            lines.append(f"opu {name} {hex(a)} {hex(b)}")
        for _ in range(300 if quick else 4000):
            a, b = gen.rand_fr(rng, 0.1), gen.rand_fr(rng, 0.1)
            lines.append(f"op {name} {hex(a)} {hex(b)}")
            lines.append(f"opu {name} {hex(a)} {hex(b)}")
    # shifts: every count class x value grid (counts are tiny compared with the grid's powers of two)
    for name in ("Shl", "Shr"):
        for n in shift_counts() + list(range(0, 260, 7 if quick else 1)):
            for a in (G if not quick else rng.sample(G, 12) + [1, P - 1, (P - 1) // 2]):
                lines.append(f"op {name} {hex(a)} {hex(n)}")
                lines.append(f"opu {name} {hex(a)} {hex(n)}")
    for a in G:
        lines.append(f"uno Neg {hex(a)}")
        lines.append(f"unou Neg {hex(a)}")
        lines.append(f"unou Id {hex(a)}")
    lines.append("uno Id 0x5")
    for _ in range(40 if quick else 400):
        a, b, c = rng.choice([0, 0, 1, P - 1, gen.rand_fr(rng)]), gen.rand_fr(rng), gen.rand_fr(rng)
        lines.append(f"tres {hex(a)} {hex(b)} {hex(c)}")
        lines.append(f"tresu {hex(a)} {hex(b)} {hex(c)}")
    lines = list(dict.fromkeys(lines))
    run.rules.append("every operator (Montgomery evaluator `op`, integer evaluator `opu`) on the boundary grid {0,1,2,2^k-1,2^k,2^k+1,(p-1)/2-1,(p-1)/2,(p+1)/2,(p+1)/2+1,p-2,p-1}^2 (k over the tier's set; quick: all 49 pairs of the 7 extreme values plus a seeded slice), operands that are small in Montgomery form (k/R) or on a limb boundary of p, random operands, every shift count class; distinct = distinct (operator, operands) line")
    # chunks: a crash of the harness process would lose the rest of a chunk
    seqs = [[l] for l in lines]
    from lib import gen as _gen
    seqs = seqs + _gen.neighbours(seqs, run.rng, 200 if run.tier == "quick" else 2000)      # purity across calls: L, near-duplicate of L, L again
    run.differential("graph-ops", seqs, classify=classify, shrink=False)

    run.confirm_witnesses()
