"""theorem lists of the tree properties (audited with #print axioms on every run)"""
C06 = {
    "ZkProofs.C06": ["Zk.C06_full_refines", "Zk.C06_full_observables", "Zk.C06_full_accepts_iff", "Zk.C06_full_rejected_changes_nothing",
                     "Zk.C06_optimal_refines", "Zk.C06_optimal_observables", "Zk.C06_optimal_accepts_iff",
                     "Zk.C06_optimal_rejected_changes_nothing", "Zk.C06_rejected_changes_nothing", "Zk.C06_backends_agree"],
    "ZkProofs.C06Pm": ["Zk.C06_pm_refines", "Zk.C06_pm_observables"],
    "ZkProofs.Lemmas.IdealProofs": ["Zk.Tree.Ideal.nodeFast_eq", "Zk.Tree.Ideal.levels_eq"],
}
C07 = {
    "ZkProofs.C07": ["Zk.C07_full_proof_complete", "Zk.C07_optimal_proof_complete", "Zk.C07_paths_agree", "Zk.C07_computeRoot_agree",
                     "Zk.C07_binding", "Zk.C07_dir_flip"],
    "ZkProofs.C06Pm": ["Zk.C07_pm_proof_complete"],
}
C08 = {
    "ZkProofs.C08": ["Zk.C08_full_batch", "Zk.C08_full_never_panics", "Zk.C08_optimal_batch", "Zk.C08_optimal_never_panics",
                     "Zk.C08_never_panics", "Zk.C08_init_is_fresh_batch", "Zk.C08_init_spec_leaves", "Zk.C08_full_init_leaves",
                     "Zk.C08_optimal_init_leaves"],
    "ZkProofs.Lemmas.PmProofs": ["Zk.Tree.Pm.batch_rel_partial"],
}
C15 = {
    "ZkProofs.C15": ["Zk.C15_full_empties", "Zk.C15_optimal_empties", "Zk.C15_spec_characterisation", "Zk.C15_spec_sorted"],
    "ZkProofs.C06Pm": ["Zk.C15_pm_empties"],
}
C08["ZkProofs.C08Pm"] = ['Zk.C08_pm_batch_wrong_offset', 'Zk.C08_pm_batch_wrong_offset_leaves', 'Zk.C08_pm_batch_wrong_offset_root', 'Zk.C08_pm_remove_indices_collateral', 'Zk.C08_pm_remove_indices_collateral_leaves', 'Zk.C08_pm_remove_indices_collateral_empties', 'Zk.C08_pm_batch_panics', 'Zk.C08_pm_batch_refinement_fails', 'Zk.C08_pm_batch_refinement_fails_panic', 'Zk.C08_pm_history_statement_fails']
C15["ZkProofs.C15Pm"] = ['Zk.C15_pm_reopen_loses_flags', 'Zk.C15_pm_reopen_keeps_leaves', 'Zk.C15_pm_reopen_statement_fails', 'Zk.C15_pm_no_reopen_agrees', 'Zk.C15_pm_reopen_not_rel']
