"""theorem lists of the witness-graph properties"""
C20 = {"ZkProofs.C20": ['Zk.C20_single_pass_is_reference_interpretation', 'Zk.C20_outputs_are_reference_interpretation', 'Zk.C20_wellformed_never_crashes', 'Zk.C20_input_order_irrelevant', 'Zk.C20_inputs_at_declared_offsets', 'Zk.C20_varint_roundtrip', 'Zk.C20_pushback_reader_in_order', 'Zk.C20_container_framing_roundtrip', 'Zk.C20_node_conversion_roundtrip', 'Zk.C20_inputs_size_stops_at_first_run', 'Zk.C20_unknown_input_name_panics']}
C20["ZkProofs.C20Tables"] = ["Zk.C20_enum_numbering", "Zk.C20_opCode_inverse", "Zk.C20_operator_tables_identity"]
C05 = {"ZkProofs.C05": ['Zk.C05_bundled_graph_wellformed', 'Zk.C05_evaluator_total_deterministic_order_independent']}
