"""C14 — identities satisfy the commitment relations; seeded ones are reproducible."""
import os, subprocess, tempfile
from lib import core, rlngen
from lib.gen import P, le
from lib.rlngen import hx


def check(run):
    run.level = "proof"
    from checks import _c14_theorems
    run.prove(_c14_theorems.THEOREMS)
    rng = run.rng
    quick = run.tier == "quick"
    zkh = run.harness()
    seeds = [b"", b"\x00", bytes(range(10)), b"A seed phrase example", bytes(135), bytes(136), bytes(137), bytes(272), bytes([0xff]) * 33]
    # seeds that LOOK like framed data: an 8-byte little-endian count followed by exactly that many bytes (the framing other byte
    # vectors use), 32-byte encodings of small numbers, C strings with their terminator — a seed is opaque bytes, nothing is stripped
    seeds += [le(3, 8) + b"abc", le(24, 32), le(1, 8) + b"\xff", le(0, 8), le(8, 8) + le(5, 8), le(56, 64), b"seed\x00", b"\x00seed", le(32, 8) + bytes(range(32))]
    seeds += [bytes(rng.getrandbits(8) for _ in range(rng.choice([1, 2, 31, 32, 33, 64, 100, 200]))) for _ in range(60 if quick else 600)]
    if not quick:
        seeds.append(bytes(rng.getrandbits(8) for _ in range(10000)))
    # ---- the rarely taken branch of the sampler: `Fr::rand` is rejection sampling (a 254-bit candidate is refused with probability
    #      0.244), so a seed whose ChaCha20 stream STARTS WITH k refused candidates has probability 0.244^k — no random seed reaches
    #      k = 12 (4e-8). Such seeds are searched from the specification alone (`zkh find_rej`: Keccak-256, ChaCha20, four u64 per
    #      candidate, top two bits cleared, compare with p; nothing of /repo is called): a committed corpus with 12..14 refusals
    #      (seed C14f: the sampler gives up after 12 rounds) and fresh ones with >= 9 (thorough: >= 11) refusals on every run
    from lib import rejseeds
    deep = [sd.encode() for _, sd in rejseeds.CORPUS]
    start = (int(run.seed) * 7919 + 13) * 1000003 % 10**9
    rc, out = core.sh([zkh, "find_rej", "9" if quick else "11", "8" if quick else "12", str(start), str(start + (10**7 if quick else 4 * 10**8))], timeout=900)
    fresh = [ln.split(" ")[1].encode() for ln in out.splitlines() if ln[:1].isdigit() and " " in ln]
    if not fresh:
        raise core.Abort("zkh find_rej returned no seed:\n" + out[-500:])
    seeds += deep + fresh
    run.rules.append(f"seeded generation on seeds whose stream starts with many refused candidates: corpus depths {sorted(d for d, _ in rejseeds.CORPUS)}, fresh this run: {len(fresh)}")
    seqs = []
    for sd in seeds:
        for op in ("keygen_seeded", "keygen_ext_seeded", "rln seeded_key_gen", "rln seeded_ext_key_gen", "ffi_seeded_key_gen", "ffi_seeded_ext_key_gen"):
            seqs.append([f"{op} {hx(sd)}"])
    run.rules.append("seeds: empty, one byte, the two documented reference seeds, block-boundary lengths 135/136/137/272, random lengths (thorough: 10 kB), each through protocol::*, RLN::* and ffi::*; the model recomputes Keccak-256 -> ChaCha20 -> Fr::rand -> Poseidon byte for byte; unseeded generation after seeded generation, replayed within and across processes, must never repeat; distinct = distinct (entry point, seed)")
    from lib import gen as _gen
    seqs = seqs + _gen.neighbours(seqs, run.rng, 20 if run.tier == "quick" else 200)      # purity across calls: L, near-duplicate of L, L again
    run.differential("seeded-keygen", seqs, shrink=False)
    # documented reference identities (rln/tests/protocol.rs)
    ref = core.run_impl(zkh, [f"keygen_seeded {bytes(range(10)).hex()}", f"keygen_seeded {b'A seed phrase example'.hex()}"])
    exp = ["0x766ce6c7e7a01bdf5b3f257616f603918c30946fa23480f2859c597817e6716 0xbf16d2b5c0d6f9d9d561e05bfca16a81b4b873bb063508fae360d8c74cef51f",
           None]
    if ref[0] != exp[0]:
        run.violation({"property": run.pid, "kind": "impl-vs-spec", "stream": "reference-seed", "ops": [f"keygen_seeded {bytes(range(10)).hex()}"],
                       "detail": f"documented identity {exp[0]} but got {ref[0]}"})
    # ---- unseeded generation: relations, canonical encodings, distinctness (implementation-side oracle)
    n = 20 if quick else 300
    ops = ["keygen", "keygen_ext", "rln key_gen", "rln ext_key_gen", "ffi_key_gen", "ffi_ext_key_gen"] * n
    out = core.run_impl(zkh, ops)
    ids = []
    hashes = []
    for op, o in zip(ops, out):
        if o.startswith("ok "):
            b = bytes.fromhex(o[3:])
            vals = [int.from_bytes(b[32 * k:32 * k + 32], "little") for k in range(len(b) // 32)]
            if any(v >= P for v in vals) or len(b) % 32:
                run.violation({"property": run.pid, "kind": "impl-vs-spec", "stream": "unseeded", "ops": [op], "detail": "non-canonical identity bytes " + o[:100]})
        else:
            vals = [int(x, 16) for x in o.split(" ")] if not o.startswith(("err", "panic")) else []
        if len(vals) == 2:
            hashes.append(([vals[0]], vals[1], op))
        elif len(vals) == 4:
            hashes.append(([vals[0], vals[1]], vals[2], op))
            hashes.append(([vals[2]], vals[3], op))
        else:
            run.violation({"property": run.pid, "kind": "impl-vs-spec", "stream": "unseeded", "ops": [op], "detail": "unexpected output " + o[:100]})
        ids.append(tuple(vals))
    hs = rlngen.poseidon(zkh, [h[0] for h in hashes])
    spec_h = [int(x, 16) for x in core.run_lean("spec", ["poseidon " + " ".join(hex(v) for v in h[0]) for h in hashes])]
    for (inp, want, op), got, sg in zip(hashes, hs, spec_h):
        if got != want or sg != want:
            run.violation({"property": run.pid, "kind": "impl-vs-spec", "stream": "unseeded", "ops": [op],
                           "detail": f"commitment relation fails: H({[hex(x) for x in inp]}) = {hex(sg)} but the identity carries {hex(want)}"})
    if len(set(ids)) != len(ids):
        run.violation({"property": run.pid, "kind": "impl-vs-spec", "stream": "unseeded", "ops": ["keygen"], "detail": "two unseeded calls returned the same identity"})
    # unseeded identities must stay fresh whatever was generated before: the same history (seeded calls interleaved with
    # unseeded ones, every entry point) replayed twice in one process and once more in another process — no unseeded output may
    # repeat anywhere (a generator re-keyed by a seeded call would make them a function of the seed)
    sd = bytes(range(10)).hex()
    hist = []
    for a, b in [("keygen_seeded", "keygen"), ("keygen_ext_seeded", "keygen_ext"), ("rln seeded_key_gen", "rln key_gen"),
                 ("rln seeded_ext_key_gen", "rln ext_key_gen"), ("ffi_seeded_key_gen", "ffi_key_gen"), ("ffi_seeded_ext_key_gen", "ffi_ext_key_gen"),
                 ("keygen_seeded", "rln key_gen"), ("rln seeded_key_gen", "keygen_ext")]:
        hist += [f"{a} {sd}", b, b]
    runs = [core.run_impl(zkh, hist + hist), core.run_impl(zkh, hist)]
    fresh = [o for r in runs for l, o in zip((hist + hist), r) if " " not in l.replace("rln ", "rln_")]
    run.cov["unseeded_after_seeded_checked"] = len(fresh)
    if len(set(fresh)) != len(fresh) or any(o.startswith(("err", "panic", "abort")) for o in fresh):
        dup = next((o for o in fresh if fresh.count(o) > 1), fresh[0] if fresh else "")
        run.violation({"property": run.pid, "kind": "impl-vs-spec", "stream": "unseeded-after-seeded", "ops": hist,
                       "detail": "an unseeded identity repeats after seeded generations (same history replayed in one process and in a second process): " + dup[:140]})
    run.cov["unseeded_identities_checked"] = len(ids)
    run.cov["evaluations"] += len(ids)
    # distinct seeds -> distinct identities (sampled)
    outs = core.run_impl(zkh, [f"keygen_seeded {hx(sd)}" for sd in dict.fromkeys(seeds)])
    if len(set(outs)) != len(outs):
        run.violation({"property": run.pid, "kind": "impl-vs-spec", "stream": "seeded-distinct", "ops": ["keygen_seeded"], "detail": "two distinct seeds gave the same identity"})
    # ---- determinism across threads and repeated calls in one process
    flat = [s[0] for s in seqs[:: (3 if quick else 1)]]
    with tempfile.NamedTemporaryFile("w", suffix=".ops", delete=False, dir=core.VERIF) as f:
        f.write("\n".join(flat + flat) + "\n")
        path = f.name
    try:
        p = subprocess.run([zkh, "threads", "8", path], stdout=subprocess.PIPE, stderr=subprocess.PIPE, timeout=1200)
        single = core.run_impl(zkh, flat)
        multi = p.stdout.decode().splitlines()
        okk = p.returncode == 0 and multi[: len(single)] == single and multi[len(single): 2 * len(single)] == single
        run.cov["threads8_and_repeat_transcript_equal"] = okk
        if not okk:
            run.violation({"property": run.pid, "kind": "impl-vs-spec", "stream": "threads", "ops": flat[:1],
                           "detail": "seeded generation differs between a single-threaded run, a repeated run and 8 concurrent threads"})
    finally:
        os.remove(path)
