THEOREMS = {"ZkProofs.C18": ['Zk.C18_batch_recalculate_schedule_free', 'Zk.C18_tasks_write_disjoint_keys', 'Zk.C18_cellwise_fill_order_free', 'Zk.C18_cellwise_fill_spec', 'Zk.C18_retry_bounded'],
            "ZkProofs.C16Reopen": ['Zk.C16_current_source_opens_through_retry', 'Zk.C16_current_source_reopen_keeps_tree'],
            "ZkProofs.C18Qap": ['Zk.C18_qap_outcomes_agree', 'Zk.C18_qap_length', 'Zk.C18_qap_only_error_is_domain', 'Zk.C18_qap_row_evaluation']}
