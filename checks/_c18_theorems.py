THEOREMS = {"ZkProofs.C18": ['Zk.C18_batch_recalculate_schedule_free', 'Zk.C18_tasks_write_disjoint_keys', 'Zk.C18_cellwise_fill_order_free', 'Zk.C18_cellwise_fill_spec', 'Zk.C18_retry_bounded']}
