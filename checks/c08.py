"""C08 — batch insert/remove updates have exactly their documented effect, or none."""
from lib import core, treegen


def pm_defect_shape(line):
    """call-site + shape matcher of open finding C08-pm-batch: the two adapter functions
    `remove_indices` (no leaves, >= 2 indices) and `remove_indices_and_set_leaves` (leaves and indices)"""
    if not line.startswith("batch "):
        return False
    _, vs, rem = treegen.parse_batch(line)
    return (len(vs) == 0 and len(rem) >= 2) or (len(vs) >= 1 and len(rem) >= 1)


def classify_pm(seq, idx, impl, spec):
    # once a batch of the defective shape has run, the persistent tree's state may differ from the ideal one
    if any(pm_defect_shape(l) for l in seq[: idx + 1]):
        return "C08-pm-batch"
    return None


def check(run):
    run.level = "proof"
    from checks import _tree_theorems
    run.prove(_tree_theorems.C08)
    rng = run.rng
    quick = run.tier == "quick"
    nseq = 60 if quick else 600
    kinds = ["batch", "batch", "batch", "set", "app", "del", "range"]
    for backend in treegen.BACKENDS:
        seqs = []
        for k in range(nseq):
            depth = rng.choice([2, 3, 3, 4, 4, 5] if quick else [2, 3, 4, 5, 6])
            seqs.append(treegen.gen_seq(rng, backend, depth, rng.randint(1, 10 if quick else 30), kinds, observe="obs"))
        if backend == "pm":
            # the main stream stays outside the open finding's shapes so that the rest of the space is checked cleanly
            clean = [[l for l in s if not pm_defect_shape(l)] for s in seqs]
            run.differential("batch-pm-clean", clean)
            run.differential("batch-pm-defect-region", seqs, classify=classify_pm)
        else:
            run.differential(f"batch-{backend}", seqs)
    # batch initialisation == fresh tree + batch at 0 (RLN::init_tree_with_leaves is `tree new` + batch 0 vs [])
    run.rules.append("shape-directed batches (removals before/inside/after/interleaved with the written range, unsorted, duplicated, empty parts, out of range) mixed with single writes, appends, deletions, range writes; depths 2..6; every observable compared after every op; distinct = distinct op sequence")

    def confirm(f):
        w = f["witness"]
        impl = core.run_impl(run.harness(), w["ops"])
        spec = core.run_lean("spec", w["ops"])
        if impl == spec:
            return False, "impl now equals the ideal tree on the witness"
        if impl[w["at"]] == w["observed"]:
            return True, ""
        return False, "DIFFERENT: " + impl[w["at"]][:200]
    run.confirm_findings(confirm)
