"""C08 — batch insert/remove updates have exactly their documented effect, or none."""
from lib import core, treegen


def pm_defect_shape(line):
    """call-site + shape matcher of open finding C08-pm-batch: the two adapter functions
    `remove_indices` (no leaves, >= 2 indices) and `remove_indices_and_set_leaves` (leaves and indices)"""
    if not line.startswith("batch "):
        return False
    _, vs, rem = treegen.parse_batch(line)
    return (len(vs) == 0 and len(rem) >= 2) or (len(vs) >= 1 and len(rem) >= 1)


def classify_pm(seq, idx, impl, spec):
    # once a batch of the defective shape has run, the persistent tree's state may differ from the ideal one
    if any(pm_defect_shape(l) for l in seq[: idx + 1]):
        return "C08-pm-batch"
    return None


def check(run):
    run.level = "proof"
    from checks import _tree_theorems
    run.prove(_tree_theorems.C08)
    rng = run.rng
    treegen.init_special(run.harness())      # empty-subtree roots as leaf values
    quick = run.tier == "quick"
    nseq = 100 if quick else 1000
    kinds = ["batch", "batch", "batch", "set", "app", "del", "range"]
    for backend in treegen.BACKENDS + treegen.GENERIC:
        seqs = []
        for k in range(nseq):
            depth = rng.choice([2, 3, 3, 4, 4, 5] if quick else [2, 3, 4, 5, 6])
            seqs.append(treegen.gen_seq(rng, backend, depth, rng.randint(1, 10 if quick else 30), kinds, observe="obs", prefill=0.6))
        if backend == "pm":
            # the main stream stays outside the open finding's shapes so that the rest of the space is checked cleanly
            clean = [[l for l in s if not pm_defect_shape(l)] for s in seqs]
            run.differential("batch-pm-clean", clean)
            run.differential("batch-pm-defect-region", seqs, classify=classify_pm)
        else:
            run.differential(f"batch-{backend}", seqs)
    # ---- batches on a persistent tree that was closed and opened again: leaves written in an earlier session are removed / replaced by
    #      every batch arm (removal lists are contiguous pairs, on which the open batch finding has no effect). Anything the adapter
    #      keeps only in memory (the occupancy flags: open finding C15-pm-reopen-flags) must not decide whether a batch is carried out.
    ro = []
    for k in range(6 if quick else 60):
        depth = rng.choice([3, 4, 5])
        cap = 1 << depth
        fill = rng.randint(cap // 2, cap)
        a = rng.randrange(0, fill - 1)
        seq = [f"tree new pmdisk {depth}", "range 0x0 " + treegen.vlist([rng.randint(1, 1 << 30) for _ in range(fill)]), "close", f"reopen {depth}", "root", "next"]
        seq += [rng.choice([f"batch 0x0 - {hex(a)},{hex(a + 1)}", f"batch 0x0 - {hex(a)}", f"batch {hex(a)} {hex(rng.randint(1, 99))} -", f"batch 0x0 - {hex(a + 1)},{hex(a)}"]),
                "root", "next"] + [f"get {hex(i)}" for i in range(fill)]
        seq += ["close", f"reopen {depth}", f"batch 0x0 - {hex(fill - 2)},{hex(fill - 1)}", "root"] + [f"get {hex(i)}" for i in (fill - 2, fill - 1, 0)]
        ro.append(seq)
    run.differential("batch-after-reopen", ro, shrink=False)
    # ---- the RLN API glue: set_leaves_from / init_tree_with_leaves / atomic_operation (u8 index list) on the default backend
    def rln_shape(line):
        w = line.split(" ")
        if w[:2] == ["rln", "atomic"]:
            return pm_defect_shape("batch " + " ".join(w[2:]))
        return False

    def classify_rln(seq, idx, impl, spec):
        return "C08-pm-batch" if any(rln_shape(l) for l in seq[: idx + 1]) else None
    rs = []
    for k in range(12 if quick else 120):
        seq = ["rln new"]
        if rng.random() < 0.7:
            seq.append("rln init_leaves " + treegen.vlist([rng.randint(1, 1 << 40) for _ in range(rng.choice([1, 2, 5, 9]))]))
        for _ in range(rng.randint(1, 5)):
            r = rng.random()
            # (pmtree's fill_nodes walks everything left of the range inside the subtrees it enters: keep deep ranges
            #  at the left edge of a subtree, and single leaves elsewhere)
            start = rng.choice([0, 1, 2, 5, 8, 255, 256, 1 << 20, (1 << 20) + 1])      # the empty list is observed: keep the high-water mark small
            nv = rng.choice([0, 1, 2, 3])
            vs = treegen.vlist([treegen.val(rng) for _ in range(nv)])
            if r < 0.35:
                seq.append(f"rln set_leaves_from {hex(start)} {vs}")
            elif r < 0.5:
                seq.append("rln init_leaves " + treegen.vlist([treegen.val(rng) for _ in range(rng.choice([0, 1, 3]))]))
            else:
                rem = [rng.choice([0, 1, 2, 3, 4, 5, 6, 8, 9, 254, 255, start % 256, (start + 1) % 256]) for _ in range(rng.choice([0, 0, 1, 1, 2, 3, 4]))]
                seq.append(f"rln atomic {hex(start)} {vs} {','.join(hex(x) for x in rem) or '-'}")
            seq += ["rln root", "rln leaves_set", "rln empty", f"rln get_leaf {hex(rng.choice([0, 1, 2, 3, 5, 8]))}", f"rln get_leaf {hex(start % (1 << 20))}"]
            if rng.random() < 0.35:
                # "or none": the same batch calls from a caller whose reader fails after delivering its bytes — an error, and
                # every observable as before
                v2 = treegen.vlist([treegen.val(rng) for _ in range(rng.choice([1, 2]))])
                seq += [rng.choice([f"rln io r set_leaves_from {hex(start)} {v2}", f"rln io r atomic {hex(start)} {v2} 0x1", f"rln io r1 atomic {hex(start)} {v2} -",
                                    f"rln io r init_leaves {v2}", f"rln io r set_leaf 0x1 {hex(treegen.val(rng))}", "rln io w empty", "rln io w root"]),
                        "rln root", "rln leaves_set", "rln empty", "rln get_leaf 0x1"]
        if k % 4 == 0:
            seq = seq[:1] + [f"rln chunk {hex(rng.choice([1, 5, 33]))}"] + seq[1:] + ["rln chunk 0x0"]     # the whole history through readers that deliver a few bytes per read()
        rs.append(seq)
    # directed: every batch entry point rejected for a reason that only shows while its input is read (a reader that fails after
    # delivering its bytes) on a POPULATED tree — the tree must be exactly as before, whichever call it was
    for call in ("init_leaves 0x9,0x8", "set_leaves_from 0x1 0x9,0x8", "atomic 0x1 0x9 0x2", "set_leaf 0x1 0x9", "set_next 0x9"):
        for mode in (("r", "r1") if call.startswith("atomic") else ("r",)):
            rs.append(["rln new", "rln init_leaves 0x11,0x12,0x13,0x14", "rln root", f"rln io {mode} {call}", "rln root", "rln leaves_set", "rln empty",
                       "rln get_leaf 0x0", "rln get_leaf 0x1", "rln get_leaf 0x3", "rln set_next 0x15", "rln root", "rln leaves_set"])
    run.differential("rln-batch-api-clean", [[l for l in s2 if not rln_shape(l)] for s2 in rs])
    run.differential("rln-batch-api-defect-region", rs, classify=classify_rln)
    # ---- the same API glue over the in-memory backends (builds of rln with --features fullmerkletree / --no-default-features):
    #      implementation against the specification (the model side of the RLN object is the default backend)
    bins = core.build_cfgh(["full", "optimal"])
    for cfg, (b, err) in bins.items():
        if b is None:
            raise core.Abort(f"configuration harness `{cfg}` does not build: {err[-400:]}")
        api = []
        for k in range(12 if quick else 120):
            seq = ["reset"]
            if rng.random() < 0.8:
                seq.append("init_leaves " + treegen.vlist([rng.randint(1, 1 << 40) for _ in range(rng.choice([2, 5, 9, 12]))]))
            for _ in range(rng.randint(1, 5)):
                start = rng.choice([0, 1, 2, 4, 5, 8, 255, 256, 1 << 20])
                n = rng.choice([0, 1, 2, 3, 4])
                vs = treegen.vlist([treegen.val(rng) for _ in range(n)])
                r = rng.random()
                if r < 0.25:
                    seq.append(f"set_leaves_from {hex(start)} {vs}")
                else:
                    # removal lists of up to five entries, unsorted, duplicated, inside / at the edges of / outside the written range
                    pool = [start, start + 1, max(start - 1, 0), start + n - 1 if n else start, start + n, start + n + 1, 0, 1, 3, 9, 11, 254, 255]
                    rem = [min(x, 255) for x in (rng.choice(pool) for _ in range(rng.choice([0, 1, 2, 3, 3, 4, 5])))]
                    seq.append(f"atomic {hex(start)} {vs} {','.join(hex(x) for x in rem) or '-'}")
                seq += ["root", "count", "empty"] + [f"leaf {hex(i)}" for i in sorted({0, 1, 2, 3, 4, 5, 6, 7, 8, 9, 10, 11, start % (1 << 20)})]
            api.append(seq)
        flat = [l for s2 in api for l in s2]
        impl = core.run_bin(b, flat)
        tr = {"reset": "rln new", "root": "lock root", "count": "rln leaves_set", "empty": "rln empty"}
        sl = []
        for l in flat:
            w = l.split(" ")
            sl.append(tr.get(l) or ("lock get_leaf " + w[1] if w[0] == "leaf" else "rln init_leaves " + w[1] if w[0] == "init_leaves" else "rln " + l))
        spec = core.run_lean("spec", sl)
        pos = 0
        for seq in api:
            I, S = impl[pos:pos + len(seq)], spec[pos:pos + len(seq)]
            pos += len(seq)
            run.count_case((cfg, tuple(seq)))
            run.cov["traces_validated_against_impl"] += 1
            bad = next((t for t in range(len(seq)) if "n/a" not in (I[t], S[t]) and I[t] != S[t]), None)
            if bad is not None:
                run.cov["impl_vs_spec_failures"] += 1
                if len(run.violations) < 3:
                    run.violation({"property": run.pid, "kind": "impl-vs-spec", "stream": f"rln-batch-api-{cfg}", "ops": seq[:bad + 1],
                                   "detail": f"RLN built with the `{cfg}` backend: `{seq[bad]}` -> {I[bad][:120]} but the specification says {S[bad][:120]}",
                                   "observed_impl": I[:bad + 1], "expected_spec": S[:bad + 1], "impl_args": ["cfgh", cfg]})
        run.cov.setdefault("streams", {})[f"rln-batch-api-{cfg}"] = {"sequences": len(api), "ops": len(flat)}
    # batch initialisation == fresh tree + batch at 0 (RLN::init_tree_with_leaves is `tree new` + batch 0 vs [])
    run.rules.append("shape-directed batches (removals before/inside/after/interleaved with the written range, unsorted, duplicated, empty parts, out of range) mixed with single writes, appends, deletions, range writes; depths 2..6; every observable compared after every op; distinct = distinct op sequence")

    run.confirm_witnesses()
