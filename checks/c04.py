"""C04 — published proof values equal the RLN formulas and the circuit's outputs."""
from lib import core, rlngen
from lib.gen import P, le, rand_fr
from lib.rlngen import hx


def canon(line, x):
    if line.startswith("calcwit ") and x.startswith("["):
        return x.split("]")[0] + "]"
    return rlngen.canon_prove(line, x)


def check(run):
    run.level = "proof"
    from checks import _proto_theorems
    run.prove(_proto_theorems.C04)
    rng = run.rng
    quick = run.tier == "quick"
    zkh = run.harness()
    seqs = []
    FB = [0, 1, 2, P - 1, P - 2, (P - 1) // 2, 2**64 - 1, 2**128, 2**253]

    def wline(op, s, lim, mid, path, idx, x, e):
        return f"{op} {hex(s)} {hex(lim)} {hex(mid)} {','.join(hex(p) for p in path) or '-'} {hx(bytes(idx))} {hex(x)} {hex(e)}"
    N = 240 if quick else 3000
    for k in range(N):
        s = rng.choice(FB + [rand_fr(rng)] * 3)
        lim = rng.choice([1, 2, 100, 2**16, rand_fr(rng) or 1])
        mid = rng.choice([0, lim - 1, rng.randrange(lim)])
        x = rng.choice(FB + [rand_fr(rng)] * 3)
        e = rng.choice(FB + [rand_fr(rng)] * 3)
        path = [rng.choice([0, 1, P - 1, rand_fr(rng), rand_fr(rng)]) for _ in range(20)]
        r = rng.random()
        if r < 0.15:
            idx = [0] * 20
        elif r < 0.3:
            idx = [1] * 20
        elif r < 0.5:
            idx = [0] * 20; idx[rng.randrange(20)] = 1            # one-hot: every single level
        else:
            idx = [rng.getrandbits(1) for _ in range(20)]
        seqs.append([wline("witness", s, lim, mid, path, idx, x, e)])
        if k % (4 if quick else 2) == 0:
            seqs.append([wline("calcwit", s, lim, mid, path, idx, x, e)])
    # the same identity in the same epoch with different message ids / signals, consecutively in one process: each line's values are a
    # function of that line alone (a memo keyed on fewer fields than the formula reads shows only in such histories)
    for k in range(6 if quick else 60):
        s, e = rng.choice(FB + [rand_fr(rng)] * 3), rng.choice(FB + [rand_fr(rng)] * 3)
        path = [rand_fr(rng) for _ in range(20)]
        idx = [rng.getrandbits(1) for _ in range(20)]
        seq = []
        for mid in rng.sample(range(0, 50), 3):
            seq.append(wline(rng.choice(["witness", "witness", "calcwit"]), s, 100, mid, path, idx, rng.choice([1, rand_fr(rng)]), e))
        seq.append(wline("witness", s, 100, 7, path, idx, 5, (e + 1) % P))          # other epoch, same identity
        seq.append(wline("witness", (s + 1) % P, 100, 7, path, idx, 5, e))          # other identity, same epoch
        seq.append(wline("witness", s, 101, 7, path, idx, 5, e))                    # other limit
        seqs.append(seq)
    # values that zero a lane of the native Poseidon state after the first constant addition: sibling / running hash position of
    # H(left, right) (width 3), the secret / external nullifier position of a1 = H(s, e, m) (width 4), the secret of H(s) (width 2)
    c2, c3, c4 = (rlngen.round1_constants(zkh, t) for t in (2, 3, 4))
    for lvl in ([0, 7, 19] if quick else range(20)):
        for bit, cv in ((1, c3[1]), (0, c3[2])):          # direction 1: the sibling is the LEFT input (lane 1); direction 0: the RIGHT input (lane 2)
            path = [rand_fr(rng) for _ in range(20)]
            idx = [rng.getrandbits(1) for _ in range(20)]
            path[lvl], idx[lvl] = (P - cv) % P, bit
            seqs.append([wline("witness", rand_fr(rng), 100, 3, path, idx, rand_fr(rng), rand_fr(rng))])
            seqs.append([wline("calcwit", rand_fr(rng), 100, 3, path, idx, rand_fr(rng), rand_fr(rng))])
    path0, idx0 = [rand_fr(rng) for _ in range(20)], [rng.getrandbits(1) for _ in range(20)]
    for (sv, ev) in (((P - c4[1]) % P, rand_fr(rng)), (rand_fr(rng), (P - c4[2]) % P), ((P - c4[1]) % P, (P - c4[2]) % P), ((P - c2[1]) % P, rand_fr(rng)), ((P - c3[1]) % P, rand_fr(rng))):
        for op in ("witness", "calcwit"):
            seqs.append([wline(op, sv, 100, 3, path0, idx0, rand_fr(rng), ev)])
            seqs.append([wline(op, sv, 100, 4, path0, idx0, rand_fr(rng), ev)])      # another message id: a1 must still depend on it
    # the sibling at level j EQUALS the running node (two identical subtrees side by side: the same member registered twice) or is
    # its successor / predecessor: a coincidence between a witness value and an intermediate value of the fold
    spec_w = []
    for j in ([0, 1, 19] if quick else [0, 1, 2, 5, 10, 18, 19]):
        for d in (0, 1, P - 1):
            for bit in (0, 1):
                idx = [rng.getrandbits(1) for _ in range(20)]; idx[j] = bit
                spec_w.append(dict(s=rand_fr(rng), lim=100, mid=3, path=[rand_fr(rng) for _ in range(20)], idx=idx, x=rand_fr(rng), e=rand_fr(rng), j=j, d=d))
    hs = rlngen.poseidon(zkh, [[w_["s"]] for w_ in spec_w])
    hs = rlngen.poseidon(zkh, [[h, w_["lim"]] for h, w_ in zip(hs, spec_w)])
    for lvl in range(20):
        for h, w_ in zip(hs, spec_w):
            if w_["j"] == lvl:
                w_["path"][lvl] = (h + w_["d"]) % P
        hs = rlngen.poseidon(zkh, [([h, w_["path"][lvl]] if w_["idx"][lvl] == 0 else [w_["path"][lvl], h]) for h, w_ in zip(hs, spec_w)])
    for w_ in spec_w:
        seqs.append([wline("witness", w_["s"], w_["lim"], w_["mid"], w_["path"], w_["idx"], w_["x"], w_["e"])])
        if w_["d"] == 0:
            seqs.append([wline("calcwit", w_["s"], w_["lim"], w_["mid"], w_["path"], w_["idx"], w_["x"], w_["e"])])
    # all 2^k direction patterns on a short prefix (the remaining levels fixed)
    base = [rand_fr(rng) for _ in range(20)]
    for pat in range(0, 1 << (5 if quick else 10)):
        idx = [(pat >> b) & 1 for b in range(20)]
        seqs.append([wline("witness", 7, 100, 3, base, idx, 11, 13)])
    # a direction byte other than 0 is treated as 1 by the native computation (stated in the model); the circuit rejects it (C12)
    for bad in (2, 255):
        idx = [0] * 20; idx[3] = bad
        seqs.append([wline("witness", 7, 100, 3, base, idx, 11, 13)])
    # shorter paths (the native computation folds what it is given)
    for n in (0, 1, 19):
        seqs.append([wline("witness", 7, 100, 3, base[:n], [1] * n, 11, 13)])
    # bytes 128..288 of generate_rln_proof on real requests
    for M in rlngen.make_messages(run, 2 if quick else 10, rng):
        seqs.append(M["setup"] + [f"rln prove_req {hx(M['req'])}"])
        # requests whose (secret, limit) is NOT what the leaf at that position commits to: the published root must still be
        # the fold of H(H(s), limit) along the path read from the tree (the circuit's root output), not the tree's own root
        m = M["member"]
        lim2 = m.limit + 1 if m.limit < 2**16 else m.limit - 1      # stays inside the circuit's 16-bit range (beyond it: C12's open finding)
        for (sec, idx_, lim, pre) in [(m.secret, m.index, lim2, []),                               # another limit than the registered one
                                     (m.secret, m.index ^ 1, m.limit, []),                         # neighbouring (empty or foreign) position
                                     ((m.secret + 1) % P, m.index, m.limit, []),                   # another secret
                                     (m.secret, m.index, m.limit, [f"rln set_leaf {hex(m.index)} {hex(rand_fr(rng))}"]),   # leaf replaced after registration
                                     (m.secret, m.index, m.limit, [f"rln delete {hex(m.index)}"])]:                     # leaf deleted
            rq = rlngen.prove_request(sec, idx_, lim, min(M["mid"], lim - 1), M["ext"], M["signal"])
            seqs.append(M["setup"] + pre + [f"rln prove_req {hx(rq)}"])
    run.rules.append("witnesses with boundary / random field values in every position, all-zero / all-one / one-hot / random direction patterns, all 2^k patterns on a prefix, a sibling equal to (or one off) the running node of the fold at several levels, values equal to negated first-round Poseidon constants in the sibling / secret / external-nullifier positions (a zero state lane inside the native hash), consecutive lines that share all but one field (same identity and epoch, other message id / epoch / identity / limit), through proof_values_from_witness (formulas vs the ideal path fold), calculate_rln_witness()[0..6] and bytes 128..288 of generate_rln_proof (registered members and requests that do not match the stored leaf: other limit, other secret, neighbouring position, replaced / deleted leaf); distinct = distinct witness")
    run.differential("proof-values", seqs, canon=canon, shrink=False)
