"""C02 — verification accepts only untampered messages bound to signal and root."""
from lib import core, rlngen
from lib.gen import P, le, rand_fr
from lib.rlngen import hx


def check(run):
    run.level = "proof"
    from checks import _proto_theorems
    run.prove(_proto_theorems.C02)
    rng = run.rng
    quick = run.tier == "quick"
    zkh = run.harness()
    msgs = rlngen.make_messages(run, 3 if quick else 10, rng)
    seqs = []
    nmods = 0
    for M in msgs:
        msg, sig, root = M["msg"], M["signal"], M["root"]
        if msg is None:
            run.violation({"property": run.pid, "kind": "impl-vs-spec", "stream": "prove", "ops": M["setup"] + [f"rln prove_req {hx(M['req'])}"],
                           "detail": "a valid request did not prove"})
            continue
        proof, vals = rlngen.split_msg(msg)
        full = rlngen.verify_input(msg, sig)
        lm = []      # (line, message for the oracle)

        def rln(b):
            lm.append((f"rln verify_rln {hx(b)}", b[:288]))

        def roots(b, rb):
            lm.append((f"rln verify_roots {hx(b)} {hx(rb)}", b[:288]))

        def raw(b):
            lm.append((f"rln verify {hx(b)}", b[:288]))
        # the untampered message
        rln(full); raw(msg); roots(full, b""); roots(full, le(root, 32))
        # every single-field modification of the decoded fields
        for k in range(5):
            for nv in [(vals[k] + 1) % P, (vals[k] - 1) % P, 0, 1, P - 1, rand_fr(rng), vals[(k + 1) % 5]]:
                if nv == vals[k]:
                    continue
                v2 = list(vals); v2[k] = nv
                m2 = rlngen.join_msg(proof, v2)
                rln(rlngen.verify_input(m2, sig)); raw(m2); roots(rlngen.verify_input(m2, sig), le(root, 32)); roots(rlngen.verify_input(m2, sig), b"")
                nmods += 1
        # swapped fields
        for a, b in [(0, 1), (2, 3), (3, 4), (0, 4)]:
            v2 = list(vals); v2[a], v2[b] = v2[b], v2[a]
            rln(rlngen.verify_input(rlngen.join_msg(proof, v2), sig))
        # single-bit flips of the proof part
        bits = list(range(0, 1024, 37 if quick else 5)) + [0, 7, 255, 256, 511, 512, 767, 768, 1022, 1023]
        for bit in bits:
            p2 = bytearray(proof); p2[bit // 8] ^= 1 << (bit % 8)
            m2 = bytes(p2) + msg[128:]
            rln(rlngen.verify_input(m2, sig)); raw(m2)
        # signal and declared length changes
        for s2 in [sig + b"\x00", sig[:-1] if sig else b"x", bytes(len(sig)), sig[::-1] if sig[::-1] != sig else sig + b"a", b""]:
            if s2 != sig:
                rln(rlngen.verify_input(msg, s2)); roots(rlngen.verify_input(msg, s2), le(root, 32))
        for d in [len(sig) + 1, max(len(sig) - 1, 0)] + [len(sig) + (1 << k) for k in (8, 16, 32, 40, 63)]:     # also lengths congruent to the true one modulo a narrower width
            if d != len(sig):
                rln(rlngen.verify_input(msg, sig, d))
        # root sets containing / not containing / empty / zero entries / many entries
        others = [rand_fr(rng) for _ in range(4)]
        sets = [[], [root], [others[0]], others, others + [root], [root] + others, [0], [0, 0, 0], [0, root], [0] + others,
                [(root + 1) % P], [root] * 3]
        for st in sets:
            roots(full, b"".join(le(r, 32) for r in st))
        # the untampered message once more, after all its altered copies (a verdict remembered for the proof bytes, in either
        # direction, shows on one side of this sandwich)
        rln(full); raw(msg); roots(full, le(root, 32))
        lines = rlngen.with_oracle(zkh, lm)
        seq = M["setup"] + lines
        # verifier trees with and without the root after further updates
        upd = [f"rln set_next {hex(rand_fr(rng))}"] if M["member"].index != 0 else [f"rln set_leaf 0x7 {hex(rand_fr(rng))}"]
        l2 = rlngen.with_oracle(zkh, [(f"rln verify_rln {hx(full)}", msg), (f"rln verify_roots {hx(full)} {hx(le(root, 32))}", msg)])
        seq += [f"rln set_leaf 0x9 {hex(rand_fr(rng))}"] + l2            # tree changed: stateful check must now reject, root-set check still accepts
        seq += [f"rln delete 0x9"] + l2                                    # back to the producer's root
        seqs.append(seq)
        # the same verdicts through the C interface, reusing ONE verdict flag the way a C caller does (the lockstep presets the flag
        # to true and to false and requires the same answer): accepted, altered (must come back false, not "untouched"), accepted
        v2 = list(vals); v2[4] = (v2[4] + 1) % P
        tam = rlngen.verify_input(rlngen.join_msg(proof, v2), sig)
        ll = rlngen.with_oracle(zkh, [(f"lock verify_rln {hx(full)}", msg), (f"lock verify_rln {hx(tam)}", tam[:288]), (f"lock verify_rln {hx(rlngen.verify_input(msg, sig + b'!'))}", msg),
                                      (f"lock verify {hx(tam[:288])}", tam[:288]), (f"lock verify_roots {hx(full)} {hx(le(rand_fr(rng), 32))}", msg), (f"lock verify_rln {hx(full)}", msg)])
        seqs.append(["lock new"] + [l.replace("rln set_leaf", "lock set_leaf") for l in M["setup"][1:]] + ll)
    run.cov["field_modifications"] = nmods
    run.rules.append("from real messages: the untampered message through verify / verify_rln_proof / verify_with_roots, every single-field modification of root, external nullifier, x, y, nullifier (+-1, 0, 1, p-1, random, neighbour field), field swaps, single-bit flips of the proof, signal and declared-length changes, verifier tree before/after further updates, root sets containing / not containing / empty / with zero entries; the raw Groth16 verdict of each altered message comes from arkworks directly (oracle), so the exact verdict of all three entry points is predicted; distinct = distinct input line")
    run.differential("tamper", seqs, spec_canon=rlngen.spec_verdict, shrink=False, canon=lambda l, x: x[5:] if x.startswith("same ") else x)
