"""C17 — all build configurations implement the same protocol."""
from lib import core, rlngen
from lib.gen import P, le, rand_fr
from lib.rlngen import hx
from lib import zkeygen

THEOREMS = {"ZkProofs.C17": ["Zk.C17_all_backends_same_roots_and_paths", "Zk.C17_paths_in_circuit_format"],
            "ZkProofs.C17Protocol": ["Zk.C17_stateless_verifier_agrees", "Zk.C17_stateless_prover_agrees"],
            "ZkProofs.C17Zkey": ["Zk.C17_zkey_cursor_reads", "Zk.C17_zkey_cursor_original_statement_false", "Zk.C17_zkey_first_section_wins",
                                 "Zk.C17_zkey_missing_section_panics", "Zk.C17_zkey_section_order_irrelevant", "Zk.C17_zkey_matrix_rows",
                                 "Zk.C17_zkey_coefficient_value", "Zk.C17_zkey_coefficient_canonical", "Zk.C17_zkey_matrices"]}
TREE_CONFIGS = ["pm", "full", "optimal", "ark"]


def check(run):
    _v = run.violation
    run.violation = lambda obj, no_input=False: _v(obj, no_input) if len(run.violations) < 4 else None
    run.level = "proof"
    run.prove(THEOREMS)
    rng = run.rng
    quick = run.tier == "quick"
    zkh = run.harness()
    bins = core.build_cfgh(["pm", "full", "optimal", "ark", "stateless"])
    for c, (b, err) in bins.items():
        if b is None:
            run.violation({"property": run.pid, "kind": "impl-vs-spec", "stream": "build", "ops": [f"cargo build (configuration {c})"],
                           "detail": f"the configuration `{c}` does not build: {err[-600:]}"})
    if any(b is None for b, _ in bins.values()):
        return
    B = {c: b for c, (b, _) in bins.items()}
    # ---- key material: the snarkjs key file and the arkworks key file
    ke = core.run_bin(B["ark"], ["keys_equal"])[0]
    run.cov["zkey_vs_arkzkey"] = ke
    if ke != "proving_key_equal=true matrices_equal=true":
        run.violation({"property": run.pid, "kind": "impl-vs-spec", "stream": "key-files", "ops": ["keys_equal"],
                       "detail": "read_zkey(ZKEY_BYTES) and read_arkzkey_from_bytes_uncompressed(ARKZKEY_BYTES) differ: " + ke})
    digests = {c: core.run_bin(B[c], ["key_digest"])[0] for c in B}
    run.cov["key_digests"] = digests
    if len(set(digests.values())) != 1:
        run.violation({"property": run.pid, "kind": "impl-vs-spec", "stream": "key-files", "ops": ["key_digest"],
                       "detail": "the configurations load different proving keys / constraint matrices: " + str(digests)})
    # ---- the snarkjs key-file reader against its model (ZkModel/Zkey.lean): the bundled file, the key the default build actually
    #      loaded, and generated files (sections in any order, duplicated / unknown / missing sections, wrong length fields,
    #      truncation, records outside the matrices, points off the curve, header numbers that make the subtractions wrap)
    zl, zkinds = zkeygen.lines(rng, 150 if quick else 3000)
    bundled = core.REPO + "/rln/resources/tree_height_20/rln_final.zkey"
    # every file also through readers that hand out a few bytes per read() call (read_zkey is generic in `Read + Seek`)
    chunked = [[f"zkey_chunk {hex(rng.choice([1, 2, 3, 5, 7, 31, 33, 100]))} {l.split(' ')[1]}"] for l in zl[::2]]
    files = [[f"zkeyfile {bundled}"], [f"zkeyfile_buf {bundled}"], [f"zkeyfile_chunk 0x2000 {bundled}"], [f"zkeyfile_chunk {hex(rng.choice([1000, 4096, 65536, 1 << 20]))} {bundled}"]]
    # HOW a malformed file is refused (error value or panic) is not part of C17 and a hardening change may turn one into the other:
    # the two kinds of refusal are compared as one class (the difference is counted in the evidence, never an alarm); a file the
    # model reads must be read with the same digest, and a file the model refuses must be refused
    zall = files + [[l] for l in zl] + chunked
    zmodel = dict(zip([q[0] for q in zall], core.run_lean("model", [q[0] for q in zall])))
    kinds_differ = [0]
    def zcanon(line, x):
        m = zmodel.get(line)
        if x in ("err", "panic") and m in ("err", "panic"):
            if x != m:
                kinds_differ[0] += 1
            return m
        # header numbers that make `max_constraint_index - n_public` / `n_vars - n_public` wrap: the model gives what the release
        # profile computes; refusing such a file instead (checked arithmetic) is just as good for C17
        if x in ("err", "panic") and m and m.startswith("ok ") and any(int(f.split("=")[1]) >= 1 << 63 for f in m.split(" ")[1:4]):
            kinds_differ[0] += 1
            return m
        return x
    st = run.differential("zkey-reader", zall, shrink=False, canon=zcanon)
    run.cov["zkey_reader_refusal_kind_differs_from_model"] = kinds_differ[0]
    run.cov["zkey_reader_kinds"] = zkinds
    loaded = core.run_impl(zkh, ["zkey_loaded"], ("run",))[0]
    from_file = core.run_lean("model", [f"zkeyfile {bundled}"])[0]
    run.cov["zkey_loaded_equals_model_reading_of_bundled_file"] = (loaded == from_file)
    if loaded != from_file or not loaded.startswith("ok "):
        run.violation({"property": run.pid, "kind": "impl-vs-model", "stream": "zkey-reader", "ops": ["zkey_loaded", f"zkeyfile {bundled}"],
                       "detail": "the proving key and matrices the build loaded differ from the model's reading of the bundled snarkjs key file",
                       "impl": loaded, "model": from_file})
    # ---- tree-only histories (cheap, many): every mutator of the RLN API incl. the batch calls, write-then-delete patterns that
    #      empty whole aligned blocks again, explicit zero leaves; observables after EVERY call, compared across the four tree builds
    ncheap = 40 if quick else 400
    mseqs = []
    for h in range(ncheap):
        near = rng.choice([0, 0, 1024, 2048, 4096, 5000, 1023, 3 * 1024])
        posn = lambda: rng.choice([near, near, near + 1, near + rng.randrange(8), 0, 1, 2, 3, 7, 100, 1023, 1024, 2047])
        val = lambda: rng.choice([0, 0, 1, rand_fr(rng), rand_fr(rng), rand_fr(rng)])
        written = []
        ops = []
        for _ in range(rng.randint(2, 9)):
            r = rng.random()
            if r < 0.3:
                i = posn(); written.append(i); ops.append(f"set {hex(i)} {hex(val())}")
            elif r < 0.45:
                ops.append(f"app {hex(val())}")
            elif r < 0.75 and written:
                i = rng.choice(written)                                     # delete / zero what this history wrote itself
                ops.append(rng.choice([f"del {hex(i)}", f"del {hex(i)}", f"set {hex(i)} 0x0", f"atomic 0x0 - {hex(i)}" if i < 256 else f"del {hex(i)}"]))
            elif r < 0.85:
                i = posn(); n = rng.choice([1, 2, 3]); written += list(range(i, i + n))
                ops.append(f"set_leaves_from {hex(i)} {','.join(hex(val()) for _ in range(n))}")
            elif r < 0.9:
                i = posn(); n = rng.choice([1, 2]); written += list(range(i, i + n))
                ops.append(f"atomic {hex(i)} {','.join(hex(val()) for _ in range(n))} -")
            elif r < 0.93:
                n = rng.choice([0, 1, 3]); written = list(range(n))
                ops.append("init_leaves " + (",".join(hex(val()) for _ in range(n)) or "-"))
            else:
                ops.append(f"del {hex(posn())}")
        lines = []
        for o in ops:
            lines += [o, "root", "count"]
        lines += [f"path {hex(i)}" for i in sorted(set(rng.sample(written, min(len(written), 2)) + [0, near]))] + [f"leaf {hex(near)}", "empty"]
        outs = {c: core.run_bin(B[c], lines) for c in TREE_CONFIGS}
        run.count_case(tuple(lines))
        run.cov["traces_validated_against_impl"] += 1
        for c in TREE_CONFIGS[1:]:
            for k, (a, b) in enumerate(zip(outs["pm"], outs[c])):
                if lines[k].startswith("del ") and {a, b} <= {"ok", "err"}:
                    continue
                if a != b:
                    run.violation({"property": run.pid, "kind": "impl-vs-spec", "stream": "same-tree-history", "ops": lines[:k + 1],
                                   "detail": f"configurations pm and {c} disagree on `{lines[k]}`: {a[:100]} vs {b[:100]}"})
                    break
        tr = {"set": "rln set_leaf", "app": "rln set_next", "del": "rln delete", "set_leaves_from": "rln set_leaves_from", "atomic": "rln atomic",
              "init_leaves": "rln init_leaves", "root": "rln root", "count": "rln leaves_set", "path": "rln get_proof", "leaf": "rln get_leaf", "empty": "rln empty"}
        mseqs.append(["rln new"] + [" ".join([tr[l.split(" ")[0]]] + l.split(" ")[1:]) for l in lines])
    run.differential("tree-histories-vs-model", mseqs, shrink=False)
    # ---- a DENSE random workload on the full-size tree: tens of thousands of single-leaf writes at uniformly random positions of the
    #      depth-20 tree, root after every 500 writes and paths of written positions at the end — what shows aliasing between nodes
    #      (a storage key that is not injective on big trees) or any other defect that needs many populated subtrees
    nw = 30000 if quick else 150000
    wl, written = [], []
    for j in range(nw):
        i = rng.randrange(1 << 20)
        written.append(i)
        wl.append(f"set {hex(i)} {hex(rng.getrandbits(64) + 1)}")
        if j % 500 == 499:
            wl.append("root")
    wl += ["root", "count"] + [f"path {hex(i)}" for i in rng.sample(written, 40)] + [f"leaf {hex(i)}" for i in rng.sample(written, 40)]
    douts = {c: core.run_bin(B[c], wl, timeout=6000) for c in ("full", "optimal")}
    if not quick:
        douts["pm"] = core.run_bin(B["pm"], wl, timeout=12000)
    else:
        # the persistent backend is an order of magnitude slower per write: a prefix of the same workload
        cut = next(k for k, l in enumerate(wl) if l == "root" and k > 6000)
        douts["pm"] = core.run_bin(B["pm"], wl[:cut + 1], timeout=6000)
    run.count_case(("dense", nw))
    run.cov["traces_validated_against_impl"] += 1
    run.cov["dense_workload_writes"] = nw
    ref = douts["full"]
    for c in ("optimal", "pm"):
        o = douts[c]
        k = next((k for k in range(min(len(o), len(ref))) if o[k] != ref[k] and not wl[k].startswith("set ")), None)
        if k is not None:
            run.violation({"property": run.pid, "kind": "impl-vs-spec", "stream": "dense-workload", "ops": wl[:k + 1] if k < 400 else wl[:3] + [f"… ({k} lines of this seeded workload; re-run the check)"] + [wl[k]],
                           "detail": f"configurations full and {c} disagree on line {k} `{wl[k]}` of the dense workload: {ref[k][:80]} vs {o[k][:80]}", "impl_args": ["dense"]})
    # ---- same history under every tree backend: roots, leaf counts, membership paths; then messages exchanged
    nhist = 4 if quick else 30
    for h in range(nhist):
        secret, limit = rand_fr(rng), rng.choice([1, 100, 2**16])
        index = rng.choice([0, 1, 5, (1 << 19), (1 << 20) - 1])
        leaf = rlngen.rate_commitment(zkh, secret, limit)
        hist = []
        val = lambda: rng.choice([0, 0, 1, rand_fr(rng), rand_fr(rng), rand_fr(rng)])      # the default (zero) leaf written explicitly is a leaf like any other
        for _ in range(rng.randint(2, 10)):
            r = rng.random()
            if r < 0.45:
                hist.append(f"set {hex(rng.choice([0, 1, 2, 3, 7, 100, (1 << 20) - 2, rng.randrange(1 << 20)]))} {hex(val())}")
            elif r < 0.8:
                hist.append(f"app {hex(val())}")
            else:
                hist.append(f"del {hex(rng.choice([0, 1, 2, 3, 5]))}")
        hist.append(f"set {hex(index)} {hex(leaf)}")
        hist += [f"app {hex(rand_fr(rng))}"] if rng.random() < 0.5 else []
        obs = ["root", "count", f"path {hex(index)}", f"path {hex(rng.choice([0, 1, 2, 3, (1 << 20) - 1]))}", f"leaf {hex(index)}"]
        mid, ext, sig = rng.randrange(limit), rand_fr(rng), bytes(rng.getrandbits(8) for _ in range(rng.choice([0, 5, 40])))
        req = rlngen.prove_request(secret, index, limit, mid, ext, sig)
        lines = hist + obs + [f"witness {hx(req)}", f"prove {hx(req)}"]
        outs = {c: core.run_bin(B[c], lines) for c in TREE_CONFIGS}
        run.count_case(tuple(lines))
        run.cov["traces_validated_against_impl"] += 1
        k0 = len(hist)
        ref = outs["pm"]
        for c in TREE_CONFIGS[1:]:
            for k in range(0, k0 + len(obs) + 1):          # results of the history, observables, serialized witness
                a, b = ref[k], outs[c][k]
                if lines[k].startswith("del ") and {a, b} <= {"ok", "err"}:
                    continue                                 # the result code of a no-op deletion is backend-specific (C06)
                if a != b:
                    run.violation({"property": run.pid, "kind": "impl-vs-spec", "stream": "same-history", "ops": lines[:k + 1],
                                   "detail": f"configurations pm and {c} disagree on `{lines[k]}`: {a[:100]} vs {b[:100]}"})
                    break
        # the same history on the model and the specification (tree part)
        seq = ["rln new"] + [("rln set_leaf " + l[4:]) if l.startswith("set ") else ("rln set_next " + l[4:]) if l.startswith("app ") else ("rln delete " + l[4:]) for l in hist]
        seq += ["rln root", "rln leaves_set", f"rln get_proof {hex(index)}"]
        run.differential(f"history-{h}-vs-model", [seq], shrink=False)
        # messages: produced under each configuration, accepted under every other one with the same history,
        # and by the stateless verifier given the producer's root; the stateless prover works from the exported witness
        msgs = {}
        for c in TREE_CONFIGS:
            o = outs[c][-1]
            if o.startswith("ok "):
                msgs[c] = bytes.fromhex(o[3:])
            else:
                run.violation({"property": run.pid, "kind": "impl-vs-spec", "stream": "prove", "ops": lines, "detail": f"configuration {c} cannot prove a valid request: {o[:80]}"})
        wit = ref[k0 + len(obs)]
        if wit.startswith("ok "):
            o = core.run_bin(B["stateless"], [f"prove_wit {wit[3:]}"])[0]
            if o.startswith("ok "):
                msgs["stateless"] = bytes.fromhex(o[3:])
            else:
                run.violation({"property": run.pid, "kind": "impl-vs-spec", "stream": "prove", "ops": [f"prove_wit {wit[3:]}"], "detail": "the stateless configuration cannot prove from the exported witness: " + o[:80]})
        root = bytes.fromhex(ref[k0][3:]) if ref[k0].startswith("ok ") else b""
        for producer, m in msgs.items():
            full = rlngen.verify_input(m, sig)
            for verifier in TREE_CONFIGS:
                o = core.run_bin(B[verifier], hist + [f"verify_rln {hx(full)}", f"verify_roots {hx(full)} {hx(root)}", f"verify {hx(m)}"])[-3:]
                run.cov["evaluations"] += 3
                if o != ["accept", "accept", "accept"]:
                    run.violation({"property": run.pid, "kind": "impl-vs-spec", "stream": "cross-verify", "ops": hist + [f"verify_rln {hx(full)}"],
                                   "detail": f"a message produced under `{producer}` is not accepted under `{verifier}`: {o}"})
            o = core.run_bin(B["stateless"], [f"verify_roots {hx(full)} {hx(root)}", f"verify {hx(m)}", f"verify_roots {hx(full)} {hx(le(rand_fr(rng), 32))}"])
            run.cov["evaluations"] += 3
            if o != ["accept", "accept", "reject-false"]:
                run.violation({"property": run.pid, "kind": "impl-vs-spec", "stream": "cross-verify", "ops": [f"verify_roots {hx(full)} {hx(root)}"],
                               "detail": f"the stateless verifier, given the producer's root, answers {o} for a message produced under `{producer}`"})
    run.sample({"history": hist[:6], "configs": list(B)})
    run.rules.append("five builds of one small program (features: default/pmtree, fullmerkletree, none/optimal, arkzkey, stateless) against the current /repo: zkey vs arkzkey compared with == inside the arkzkey build and by digest across builds; a dense workload of 30 000 (thorough 150 000) single-leaf writes at uniformly random positions of the depth-20 tree with the root after every 500 writes and 40 paths / leaves at the end, compared across the tree builds; many tree-only histories through every mutator of the RLN API (single writes, appends, deletions, set_leaves_from, init_tree_with_leaves, atomic batches outside the open C08 shapes; write-then-delete patterns around 1024-aligned blocks, explicit zero leaves) with root and leaf count after every call, paths, leaves and the empty list at the end, compared across the four tree builds and with model and specification; random histories of single-leaf writes, appends and deletions replayed under every tree backend with roots, leaf counts, membership paths and the exported witness compared byte for byte (and against model and specification); a message proved under each configuration (the stateless one from the exported witness) verified under every other with the same history, and by the stateless verifier given the producer's root; distinct = distinct history")
