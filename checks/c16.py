"""C16 — acknowledged tree updates survive reopen; storage failures are reported."""
from lib import core, treegen
from lib.gen import P


def addressed(line, nxt):
    w = line.split(" ")
    if w[0] in ("set", "del"):
        return {int(w[1], 16)}
    if w[0] == "app":
        return {nxt}
    if w[0] == "range":
        s = int(w[1], 16)
        n = 0 if w[2] == "-" else len(w[2].split(","))
        return set(range(s, s + n))
    return set()


def check(run):
    run.level = "proof"
    from checks import _c16_theorems
    run.prove(_c16_theorems.THEOREMS)
    rng = run.rng
    treegen.init_special(run.harness())      # empty-subtree roots as leaf values
    quick = run.tier == "quick"
    zkh = run.harness()
    kinds = ["set", "set", "del", "app", "app", "range"]
    # ---------------------------------------------------------------- (a) flush, reopen, continue
    seqs = []
    for k in range(60 if quick else 600):
        depth = rng.choice([1, 2, 3, 4, 5])
        cap = 1 << depth
        seq = [f"tree new pmdisk {depth}"]          # the harness cycles through five storage configurations
        for _ in range(rng.randint(0, 8)):
            seq.append(treegen.gen_mutator(rng, cap, kinds))
        if rng.random() < 0.6:
            seq.append("meta set " + bytes(rng.getrandbits(8) for _ in range(rng.choice([1, 8, 40]))).hex())
        seq += ["close", f"reopen {rng.choice([depth, depth, 1, 7])}", "root", "next", "meta get"]
        seq += [f"get {hex(i)}" for i in range(cap)] + [f"sub {l} {hex(rng.randrange(cap))}" for l in range(depth + 1)]
        seq += [f"proof {hex(rng.randrange(cap))}"]
        # the reopened tree continues to behave like the ideal tree (reopened with the SAME depth: the flag vector is sized by the argument)
        if seq[-(cap + depth + 5)].endswith(f" {depth}"):
            for _ in range(rng.randint(1, 4)):
                seq.append(treegen.gen_mutator(rng, cap, ["set", "app", "range"]))
                seq += ["root", "next", f"get {hex(rng.randrange(cap))}"]
            seq += ["close", f"reopen {depth}", "root", "next"]
        seqs.append(seq)
    run.differential("reopen", seqs)
    # ---------------------------------------------------------------- (b) every failure position of every operation
    fired_total, cases = 0, 0
    impl_all, lines_all, meta = [], [], []
    for k in range(16 if quick else 160):
        depth = rng.choice([2, 3, 4])
        cap = 1 << depth
        hist = [treegen.gen_mutator(rng, cap, kinds) for _ in range(rng.randint(1, 5))]
        hist = [h for h in hist if int(h.split(" ")[1], 16) < 2 * cap or h.startswith("app")]
        for j in range(len(hist)):
            for fail_at in range(0, 3 * depth + 6):
                # the property promises persistence after a successful flush: flush (unarmed) before reopening
                seq = [f"tree new pmdisk {depth}"] + hist[:j] + ["next", f"arm {fail_at}", hist[j], "fired", "close", f"reopen {depth}", "next"]
                seq += [f"get {hex(i)}" for i in range(cap)]
                lines_all.append(seq)
                meta.append((depth, j, fail_at))
    flat = [l for s in lines_all for l in s]
    impl = core.run_impl(zkh, flat)
    model = core.run_lean("model", flat)
    # spec pass: a failed operation is rejected as a whole; the positions it addressed are unspecified afterwards
    spec_lines, pos = [], 0
    info = []
    for seq in lines_all:
        out = impl[pos:pos + len(seq)]
        j = seq.index("fired")
        fired = out[j] == "true"
        nxt = int(out[j - 3]) if out[j - 3].isdigit() else 0
        addr = addressed(seq[j - 1], nxt) if fired else set()
        s2 = list(seq)
        if fired:
            s2[j - 1] = "next"
        for t in range(j + 4, len(seq)):
            if int(seq[t].split(" ")[1], 16) in addr:
                s2[t] = "next"
        spec_lines.append(s2)
        info.append((fired, j, addr))
        pos += len(seq)
    spec = core.run_lean("spec", [l for s in spec_lines for l in s])
    pos = 0
    for seq, (fired, j, addr), (depth, jj, fail_at) in zip(lines_all, info, meta):
        n = len(seq)
        I, M, S = impl[pos:pos + n], model[pos:pos + n], spec[pos:pos + n]
        pos += n
        cases += 1
        fired_total += fired
        run.count_case((tuple(seq), fail_at))
        run.cov["traces_validated_against_impl"] += 1
        bad = None
        if fired and I[j - 1] != "err":
            bad = f"storage write {fail_at} failed inside `{seq[j - 1]}` but the operation reported {I[j - 1]}"
        elif not fired and I[j - 1] != S[j - 1] and "n/a" not in (S[j - 1],):
            bad = f"`{seq[j - 1]}` without a failure: {I[j - 1]} but the ideal tree says {S[j - 1]}"
        else:
            for t in range(j + 4, n):
                if int(seq[t].split(" ")[1], 16) not in addr and I[t] != S[t]:
                    bad = f"after a reported failure and reopen, `{seq[t]}` = {I[t]} but the last acknowledged value is {S[t]}"
                    break
            if not bad and not fired and I[j + 3] != S[j + 3]:
                bad = f"leaf count after reopen {I[j + 3]} but the ideal tree says {S[j + 3]}"
        if bad:
            run.cov["impl_vs_spec_failures"] += 1
            if len(run.violations) < 3:
                run.violation({"property": run.pid, "kind": "impl-vs-spec", "stream": "fault-injection", "ops": seq, "detail": bad,
                               "observed_impl": I, "expected_spec": S, "model": M})
        if I != M:
            run.cov["impl_vs_model_disagreements"] += 1
            run._corr = getattr(run, "_corr", [])
            if len(run._corr) < 3:
                t = next(t for t in range(n) if I[t] != M[t])
                run._corr.append({"stream": "fault-injection", "sequence": seq[:t + 1], "impl": I[t], "model": M[t]})
    # ---------------------------------------------------------------- (c) metadata: set / clear / retry after a failed write / reopen cycles
    mseqs = []
    for k in range(30 if quick else 300):
        seq = ["tree new pmdisk 3"]
        for _ in range(rng.randint(2, 9)):
            r = rng.random()
            val = rng.choice(["-", "-", "aa", "aabb", bytes(rng.getrandbits(8) for _ in range(rng.choice([1, 9, 70]))).hex()])
            if r < 0.4:
                seq += [f"meta set {val}", "meta get"]
            elif r < 0.6:
                # a failed write, then the caller retries the same value
                seq += [f"arm {rng.choice([0, 0, 1])}", f"meta set {val}", "fired", "meta get", f"meta set {val}", "meta get"]
            elif r < 0.85:
                seq += ["close", "reopen 3", "meta get"]
            else:
                seq += [treegen.gen_mutator(rng, 8, ["set", "app"]), "meta get"]
        seq += ["close", "reopen 3", "meta get"]
        mseqs.append(seq)
    mflat = [l for s2 in mseqs for l in s2]
    mi = core.run_impl(zkh, mflat)
    mm = core.run_lean("model", mflat)
    pos = 0
    for seq in mseqs:
        I, Mo = mi[pos:pos + len(seq)], mm[pos:pos + len(seq)]
        pos += len(seq)
        run.count_case(("meta", tuple(seq)))
        run.cov["traces_validated_against_impl"] += 1
        expected, bad = "-", None
        for t, (l, a) in enumerate(zip(seq, I)):
            if l.startswith("meta set "):
                armed = t > 0 and seq[t - 1].startswith("arm ")
                fired = armed and I[t + 1] == "true"
                if fired and a != "err":
                    bad = f"the storage write of `{l}` failed but the call reported {a}"
                    break
                if a == "ok":
                    expected = l.split(" ")[2]          # acknowledged
                elif a != "err":
                    bad = f"`{l}` -> {a}"
                    break
            elif l == "meta get" and a != expected:
                bad = f"metadata reads {a} but the last acknowledged value is {expected} (line {t})"
                break
        if bad:
            run.cov["impl_vs_spec_failures"] += 1
            if len(run.violations) < 3:
                run.violation({"property": run.pid, "kind": "impl-vs-spec", "stream": "metadata", "ops": seq, "detail": bad, "observed_impl": I, "model": Mo})
        if I != Mo:
            run.cov["impl_vs_model_disagreements"] += 1
            run._corr = getattr(run, "_corr", [])
            if len(run._corr) < 3:
                t = next(t for t in range(len(seq)) if I[t] != Mo[t])
                run._corr.append({"stream": "metadata", "sequence": seq[:t + 1], "impl": I[t], "model": Mo[t]})
    # (f) the RLN object itself on a persistent location, through BOTH constructors (`RLN::new` with a "tree_config" member,
    #     `RLN::new_with_params` with the bare tree configuration): write, flush, drop, construct again on the same location
    import os as _os, shutil as _sh, tempfile as _tf2
    pseqs = []
    for k in range(4 if quick else 40):
        loc = _tf2.mkdtemp(prefix="zkrlnp-", dir=_os.environ.get("TMPDIR")); _sh.rmtree(loc)
        ctor = f"rln {'new_at' if k % 2 == 0 else 'new_params_at'} {loc}"
        seq = [ctor]
        for _ in range(rng.randint(1, 4)):
            seq.append(rng.choice([f"rln set_leaf {hex(rng.randrange(20))} {hex(rng.randint(1, 1 << 60))}", f"rln set_next {hex(rng.randint(1, 1 << 60))}",
                                   f"rln set_leaves_from {hex(rng.randrange(10))} {hex(rng.randint(1, 99))},{hex(rng.randint(1, 99))}", f"rln delete {hex(rng.randrange(6))}"]))
        seq += ["rln root", "rln leaves_set", "rln flush", ctor, "rln root", "rln leaves_set", "rln get_leaf 0x0", "rln get_leaf 0x1", "rln get_proof 0x1",
                f"rln set_next {hex(rng.randint(1, 99))}", "rln root", "rln flush", ctor, "rln root", "rln leaves_set"]
        pseqs.append(seq)
    run.differential("rln-object-persistence", pseqs, shrink=False)
    # (e) write, flush, DIE (abort: nothing is dropped, no destructor runs), then another process opens the location: everything
    #     acknowledged before the successful flush must be there — every mutator, including the batch arms, and sequences whose
    #     only writes after the previous flush are batch calls
    import os, shutil, tempfile as _tf
    crash_cases, crash_bad = 0, 0
    for k in range(16 if quick else 120):
        depth = rng.choice([3, 4, 5])
        cap = 1 << depth
        loc = _tf.mkdtemp(prefix="zkcrash-", dir=os.environ.get("TMPDIR"))
        shutil.rmtree(loc)
        pre = [treegen.gen_mutator(rng, cap, ["set", "app", "range"]) for _ in range(rng.randint(1, 4))]
        last = (lambda opts: opts[k % len(opts)])([f"batch 0x0 - {hex(rng.randrange(cap // 2))},{hex(rng.randrange(cap // 2, cap))}",      # every kind of last write in turn           # removal-only batch (two indices)
                           f"batch 0x0 - {hex(rng.randrange(cap))}", f"batch {hex(rng.randrange(cap))} {hex(rng.randint(1, 99))} -",
                           f"set {hex(rng.randrange(cap))} {hex(rng.randint(1, 99))}", f"del {hex(rng.randrange(cap))}", f"app {hex(rng.randint(1, 99))}",
                           f"range {hex(rng.randrange(cap - 1))} {hex(rng.randint(1, 99))},{hex(rng.randint(1, 99))}", "meta set c0ffee"])
        if last.startswith("batch 0x0 - ") and "," in last:
            a_, b_ = sorted(int(x, 16) for x in last.split(" ")[3].split(","))
            last = f"batch 0x0 - {hex(a_)},{hex(a_ + 1)}"        # contiguous pair: outside the effect of the open batch finding
        obs = ["root", "next"] + [f"get {hex(i)}" for i in range(cap)] + ["meta get"]
        first = [f"tree at {loc} {depth}"] + pre + ["close", last, "close", "crash"]
        out1 = core.run_impl(zkh, first)
        second = core.run_impl(zkh, [f"tree at {loc} {depth}"] + obs)
        expect = core.run_lean("model", [f"tree new pmdisk {depth}"] + pre + ["close", last, "close"] + obs)
        shutil.rmtree(loc, ignore_errors=True)
        crash_cases += 1
        run.count_case(("crash", tuple(first)))
        run.cov["traces_validated_against_impl"] += 1
        flushed_ok = len(out1) >= len(first) - 1 and out1[len(first) - 2] == "ok" and out1[len(first) - 4] == "ok"
        acked = expect[1:len(pre) + 4]
        if flushed_ok and out1[1:len(pre) + 4] == acked and second[1:] != expect[len(pre) + 4:]:
            crash_bad += 1
            j = next(i for i in range(len(obs)) if second[1 + i] != expect[len(pre) + 4 + i])
            if crash_bad <= 2:
                run.violation({"property": run.pid, "kind": "impl-vs-spec", "stream": "crash-after-flush", "ops": first + ["(new process)", f"tree at {loc} {depth}"] + obs[: j + 1],
                               "detail": f"after write, successful flush and process death, a new process reads `{obs[j]}` = {second[1 + j][:70]}; acknowledged and flushed: {expect[len(pre) + 4 + j][:70]}",
                               "impl_args": ["crash"]})
    run.cov["crash_after_flush_cases"] = crash_cases
    # (d) flush, drop, re-create on the same location at once, in a loop: the file lock of the dropped instance is released
    #     asynchronously, so this is the history in which `load` meets a busy lock (theorems: ZkProofs.C16Reopen)
    import subprocess
    # when the reopen theorems no longer check (e.g. `load` stopped going through the retry loop) the search for the failing
    # history is deepened: the race is rare (about one cycle in a thousand on the pinned code)
    reopen_broken = any("C16Reopen" in b.get("theorem_or_module", "") for b in getattr(run, "_broken", []))
    cycles = "400" if (run.tier == "quick" and not reopen_broken) else ("6000" if not reopen_broken else "20000")
    p = subprocess.run([zkh, "reopen_loop", cycles], stdout=subprocess.PIPE, stderr=subprocess.PIPE, timeout=6000)
    line = p.stdout.decode().strip()
    run.cov["reopen_loop"] = line
    try:
        d = dict(kv.split("=") for kv in line.split(" "))
        lost, fails = int(d["lost_after_reopen"]), int(d["failures"])
    except Exception:
        lost, fails = -1, -1
    run.cov["traces_validated_against_impl"] += 1
    if lost != 0 or fails != 0:
        run.violation({"property": run.pid, "kind": "impl-vs-spec", "stream": "reopen-loop", "ops": ["reopen_loop"], "impl_args": ["reopen_loop"],
                       "detail": "flushed, acknowledged leaves were lost (or the tree could not be re-created) when the tree was re-opened right after dropping the previous instance: " + line[:200] + " | " + p.stderr.decode()[:400]})
    run.cov["metadata_sequences"] = len(mseqs)
    run.cov["fault_sequences"] = cases
    run.cov["fault_sequences_where_the_failure_fired"] = fired_total
    run.sample({"fault_sequence": lines_all[0][:10], "impl": impl[:10]})
    run.rules.append("(f) the RLN object on a persistent location through RLN::new and RLN::new_with_params: write, flush, drop, construct again; (e) write / flush / abort the process / open the location from a new process: everything acknowledged before the successful flush must be read back (every mutator incl. batch arms as the only write since the previous flush); (d) 400 (thorough 6000) cycles of write, flush, drop, re-create on the same location at once, each checking that the flushed leaf and leaf count are still there; (c) metadata set / cleared / re-set after an injected write failure (the caller's retry) across close-reopen cycles, read back against the last acknowledged value; (a) random histories on an on-disk tree under five storage configurations (cache size, flush period, mode, compression), metadata, close, reopen with the same or a different depth argument, every leaf / subtree root / proof / metadata compared, then further operations and a second reopen; (b) for every operation of every history and EVERY storage-write position k inside it (hook H1 fails the k-th put / put_batch / flush): the operation must report an error, and after reopening every position it did not address must hold the last acknowledged value; the model predicts the exact stored state; distinct = distinct (history, operation, k)")
    run.confirm_witnesses()
