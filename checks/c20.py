"""C20 — any well-formed witness graph evaluates as specified and survives storage."""
from lib import core
from lib.gen import P, rand_fr

OPS = ["Mul", "Div", "Add", "Sub", "Idiv", "Mod", "Eq", "Neq", "Lt", "Gt", "Leq", "Geq", "Land", "Lor", "Shl", "Shr", "Bor", "Band", "Bxor"]


def gen_graph(rng, n_inputs, n_nodes, late_inputs=False, small_shift=True):
    """inputs first (indices 0..n_inputs-1, index 0 is the constant one), then random nodes with backward references"""
    nodes = [f"I:{hex(i)}" for i in range(n_inputs)]
    for k in range(n_nodes):
        i = len(nodes)
        r = rng.random()
        if r < 0.12:
            nodes.append(f"M:{hex(rng.choice([0, 1, 2, 5, 64, 253, 254, P - 1, rand_fr(rng)]))}")
        elif r < 0.2:
            nodes.append(f"U:Neg:{hex(rng.randrange(i))}")
        elif r < 0.27:
            nodes.append(f"T:{hex(rng.randrange(i))}:{hex(rng.randrange(i))}:{hex(rng.randrange(i))}")
        elif late_inputs and r < 0.32:
            nodes.append(f"I:{hex(rng.randrange(n_inputs + 3))}")
        else:
            op = rng.choice(OPS)
            a, b = rng.randrange(i), rng.randrange(i)
            nodes.append(f"D:{op}:{hex(a)}:{hex(b)}")
    return nodes


def late_input_shape(line):
    """open finding C20-inputs-size: an input node after the first run of input nodes whose index is not below the size
    computed from that first run"""
    w = line.split(" ")
    if len(w) < 3 or w[0] != "graph" or w[1] != "calc":
        return False
    ns = w[2].split(";")
    first, k = 0, 0
    while k < len(ns) and ns[k].startswith("I:"):
        first = max(first, int(ns[k][2:], 16)); k += 1
    size = first + 1
    return any(t.startswith("I:") and int(t[2:], 16) >= size for t in ns[k:])


def classify(seq, i, impl, spec):
    return "C20-inputs-size" if late_input_shape(seq[i]) else None


def check(run):
    run.level = "proof"
    from checks import _graph_theorems
    run.prove(_graph_theorems.C20)
    rng = run.rng
    quick = run.tier == "quick"
    zkh = run.harness()
    seqs, stores = [], []
    N = 600 if quick else 6000
    for k in range(N):
        n_inputs = rng.randint(1, 8)
        n_nodes = rng.choice([1, 3, 8, 20, 20, 60] + ([] if quick else [150, 400]))
        late = rng.random() < 0.1
        nodes = gen_graph(rng, n_inputs, n_nodes, late_inputs=late)
        total = len(nodes)
        outs = [rng.randrange(total) for _ in range(rng.randint(1, 6))] + [total - 1]
        # ---- graph::evaluate on an explicit buffer
        if not late:
            buf = [1] + [rng.choice([0, 1, P - 1, rand_fr(rng)]) for _ in range(n_inputs - 1)]
            seqs.append([f"graph eval {';'.join(nodes)} {','.join(hex(v) for v in buf)} {','.join(hex(o) for o in outs)}"])
        # ---- declared layout + named inputs through the container and calc_witness
        free = list(range(1, n_inputs))
        rng.shuffle(free)
        info, ins = [], []
        names = ["alpha", "b", "gamma_vec", "d", "e5"]
        pos = 1
        contiguous = rng.random() < 0.5
        cuts = sorted(rng.sample(range(1, n_inputs), min(rng.randint(0, 3), max(n_inputs - 1, 0)))) if n_inputs > 1 else []
        bounds = [1] + cuts + [n_inputs]
        ranges = [(bounds[j], bounds[j + 1] - bounds[j]) for j in range(len(bounds) - 1) if bounds[j + 1] > bounds[j]]
        if not contiguous and len(ranges) > 1:
            ranges = ranges[:-1]           # leave a gap: not every input position is declared
        for j, (off, ln) in enumerate(ranges):
            info.append(f"{names[j]}:{hex(off)}:{hex(ln)}")
            ins.append(f"{names[j]}=" + ",".join(hex(rng.choice([0, 1, P - 1, rand_fr(rng)])) for _ in range(ln)))
        rng.shuffle(ins)                   # the supplied order is arbitrary
        line = f"{';'.join(nodes)} {','.join(hex(o) for o in outs)} {','.join(info) or '-'} {';'.join(ins) or '-'}"
        seqs.append(["graph calc " + line])
        if not late:
            stores.append(["graph store " + line])
        # a twin graph of the SAME encoded length (one operator exchanged), evaluated between two evaluations of the original from a
        # serialization buffer the harness reuses: the result must not depend on what was evaluated before (purity across calls)
        duo = [j for j, t in enumerate(nodes) if t.startswith("D:")]
        if not late and duo and k % 7 == 0:
            j = rng.choice(duo)
            f = nodes[j].split(":")
            f[1] = rng.choice([o for o in ["Add", "Mul", "Sub"] if o != f[1]])
            twin = nodes[:j] + [":".join(f)] + nodes[j + 1:]
            tline = f"{';'.join(twin)} {','.join(hex(o) for o in outs)} {','.join(info) or '-'} {';'.join(ins) or '-'}"
            seqs.append(["graph calc " + line, "graph calc " + tline, "graph calc " + line])
    run.rules.append("random DAGs over every supported node kind (inputs, Montgomery constants incl. 0/1/253/254/p-1, all duo operators but Pow, Neg, ternary), 1..60 (thorough: 400) nodes, random declared input layouts (contiguous or with gaps, 0..4 named vectors, shuffled supply order), boundary/random input values, random output lists; evaluated by graph::evaluate, by calc_witness through serialize/deserialize_witnesscalc_graph, by the model's single pass and by the recursive reference interpretation; every seventh graph is re-evaluated after a twin of equal encoded length from the same (reused) buffer; containers written by the implementation are re-read and re-framed by the model; distinct = distinct op line")
    run.differential("graph-eval", seqs, classify=classify, shrink=False)
    run.differential("graph-store", stores, canon=lambda l, x: x.split(" bytes=")[0], shrink=False)
    # containers produced by the implementation, read by the model's framing code and written back
    outs = core.run_impl(zkh, [s[0] for s in stores])
    refr = []
    for s, o in zip(stores, outs):
        if " bytes=" in o:
            n = len(s[0].split(" ")[2].split(";"))
            refr.append([f"reframe {o.split(' bytes=')[1]} {n}"])
    run.differential("container-framing", refr, shrink=False)
    run.confirm_witnesses()
