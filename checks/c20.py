"""C20 — any well-formed witness graph evaluates as specified and survives storage."""
from lib import core
from lib.gen import P, rand_fr

OPS = ["Mul", "Div", "Add", "Sub", "Idiv", "Mod", "Eq", "Neq", "Lt", "Gt", "Leq", "Geq", "Land", "Lor", "Shl", "Shr", "Bor", "Band", "Bxor"]


def gen_graph(rng, n_inputs, n_nodes, late_inputs=False, small_shift=True):
    """inputs first (indices 0..n_inputs-1, index 0 is the constant one), then random nodes with backward references"""
    nodes = [f"I:{hex(i)}" for i in range(n_inputs)]
    for k in range(n_nodes):
        i = len(nodes)
        r = rng.random()
        if r < 0.12:
            nodes.append(f"M:{hex(rng.choice([0, 1, 2, 5, 64, 253, 254, P - 1, rand_fr(rng)]))}")
        elif r < 0.2:
            nodes.append(f"U:Neg:{hex(rng.randrange(i))}")
        elif r < 0.27:
            nodes.append(f"T:{hex(rng.randrange(i))}:{hex(rng.randrange(i))}:{hex(rng.randrange(i))}")
        elif late_inputs and r < 0.32:
            nodes.append(f"I:{hex(rng.randrange(n_inputs + 3))}")
        else:
            op = rng.choice(OPS)
            a, b = rng.randrange(i), rng.randrange(i)
            nodes.append(f"D:{op}:{hex(a)}:{hex(b)}")
    return nodes


def late_input_shape(line):
    """open finding C20-inputs-size: an input node after the first run of input nodes whose index is not below the size
    computed from that first run"""
    w = line.split(" ")
    if len(w) < 3 or w[0] != "graph" or w[1] != "calc":
        return False
    ns = w[2].split(";")
    first, k = 0, 0
    while k < len(ns) and ns[k].startswith("I:"):
        first = max(first, int(ns[k][2:], 16)); k += 1
    size = first + 1
    return any(t.startswith("I:") and int(t[2:], 16) >= size for t in ns[k:])


def classify(seq, i, impl, spec):
    return "C20-inputs-size" if late_input_shape(seq[i]) else None


def check(run):
    run.level = "proof"
    from checks import _graph_theorems
    run.prove(_graph_theorems.C20)
    rng = run.rng
    quick = run.tier == "quick"
    zkh = run.harness()
    seqs, stores = [], []
    N = 600 if quick else 6000
    for k in range(N):
        n_inputs = rng.randint(1, 8)
        n_nodes = rng.choice([1, 3, 8, 20, 20, 60] + ([] if quick else [150, 400]))
        late = rng.random() < 0.1
        nodes = gen_graph(rng, n_inputs, n_nodes, late_inputs=late)
        total = len(nodes)
        outs = [rng.randrange(total) for _ in range(rng.randint(1, 6))] + [total - 1]
        # ---- graph::evaluate on an explicit buffer
        if not late:
            buf = [1] + [rng.choice([0, 1, P - 1, rand_fr(rng)]) for _ in range(n_inputs - 1)]
            seqs.append([f"graph eval {';'.join(nodes)} {','.join(hex(v) for v in buf)} {','.join(hex(o) for o in outs)}"])
        # ---- declared layout + named inputs through the container and calc_witness
        free = list(range(1, n_inputs))
        rng.shuffle(free)
        info, ins = [], []
        names = ["alpha", "b", "gamma_vec", "d", "e5"]
        pos = 1
        contiguous = rng.random() < 0.5
        cuts = sorted(rng.sample(range(1, n_inputs), min(rng.randint(0, 3), max(n_inputs - 1, 0)))) if n_inputs > 1 else []
        bounds = [1] + cuts + [n_inputs]
        ranges = [(bounds[j], bounds[j + 1] - bounds[j]) for j in range(len(bounds) - 1) if bounds[j + 1] > bounds[j]]
        if not contiguous and len(ranges) > 1:
            ranges = ranges[:-1]           # leave a gap: not every input position is declared
        for j, (off, ln) in enumerate(ranges):
            info.append(f"{names[j]}:{hex(off)}:{hex(ln)}")
            ins.append(f"{names[j]}=" + ",".join(hex(rng.choice([0, 1, P - 1, rand_fr(rng)])) for _ in range(ln)))
        rng.shuffle(ins)                   # the supplied order is arbitrary
        if len(ins) >= 2 and rng.random() < 0.25:
            ins.pop(rng.randrange(len(ins)))       # a declared input that is not supplied stays zero; the others must still arrive
        line = f"{';'.join(nodes)} {','.join(hex(o) for o in outs)} {','.join(info) or '-'} {';'.join(ins) or '-'}"
        seqs.append(["graph calc " + line])
        if not late:
            stores.append(["graph store " + line])
            # containers whose trailing metadata message needs a two- or three-byte length prefix (long signal lists), read back
            # through Cursor AND through readers that hand out 1, 2, 3, 7, 64, 129 bytes per read() call (harness `store`)
            if k % 12 == 0:
                many = [rng.randrange(total) for _ in range(rng.choice([70, 130, 200, 1000] + ([9000] if k % 120 == 0 else [])))]
                stores.append([f"graph store {';'.join(nodes)} {','.join(hex(o) for o in many)} {','.join(info) or '-'} -"])
        # a twin graph of the SAME encoded length (one operator exchanged), evaluated between two evaluations of the original from a
        # serialization buffer the harness reuses: the result must not depend on what was evaluated before (purity across calls)
        duo = [j for j, t in enumerate(nodes) if t.startswith("D:")]
        if not late and duo and k % 7 == 0:
            j = rng.choice(duo)
            f = nodes[j].split(":")
            f[1] = rng.choice([o for o in ["Add", "Mul", "Sub"] if o != f[1]])
            twin = nodes[:j] + [":".join(f)] + nodes[j + 1:]
            tline = f"{';'.join(twin)} {','.join(hex(o) for o in outs)} {','.join(info) or '-'} {';'.join(ins) or '-'}"
            seqs.append(["graph calc " + line, "graph calc " + tline, "graph calc " + line])
    # ---- every operator inside a graph on boundary operands (not only at random): tiny graphs `in1 op in2`, `in1 op const`, shifts
    #      by every limb-boundary count of large operands — through graph::evaluate and through the container + calc_witness
    from lib import gen as _gen
    vals = [0, 1, 2, P - 1, (P - 1) // 2, (P + 1) // 2, 2**64, 2**130 + 5, 2**200 + 2**100 + 1] + _gen.MONTGOMERY_SMALL[:3]
    for op in OPS:
        pairs = [(a, b) for a in vals for b in vals] if not quick else [(rng.choice(vals), rng.choice(vals)) for _ in range(8)] + [(P - 1, P - 1), (2**200 + 2**100 + 1, 2)]
        if op in ("Shl", "Shr"):
            pairs = [(a, n) for a in (2**130 + 5, 2**200 + 2**100 + 1, P - 1, rand_fr(rng)) for n in (0, 1, 63, 64, 65, 127, 128, 129, 191, 192, 193, 252, 253, 254)]
        for a, b in pairs:
            nodes = ["I:0x0", "I:0x1", "I:0x2", f"D:{op}:0x1:0x2", f"M:{hex(b)}", f"D:{op}:0x1:0x4"]
            seqs.append([f"graph eval {';'.join(nodes)} 0x1,{hex(a)},{hex(b)} 0x3,0x5"])
            seqs.append([f"graph calc {';'.join(nodes)} 0x3,0x5 a:0x1:0x1,b:0x2:0x1 a={hex(a)};b={hex(b)}"])
    # ---- input blocks that are not the dense list 0..n-1: gaps, other orders, repeated indices (the buffer must be sized by the largest
    #      index, and every declared position must be reachable)
    for blk in ([0, 2, 1], [0, 3], [0, 1, 1], [2, 0], [0, 1, 5, 2], [3], [0, 4, 4, 1]):
        m = max(blk)
        nodes = [f"I:{hex(i)}" for i in blk] + [f"D:Add:0x0:{hex(len(blk) - 1)}", f"D:Mul:{hex(len(blk))}:{hex(len(blk) - 1)}"]
        total = len(nodes)
        vals = [rng.choice([1, 2, P - 1, rand_fr(rng)]) for _ in range(m + 1)]
        seqs.append([f"graph eval {';'.join(nodes)} {','.join(hex(v) for v in [1] + vals[1:])} {hex(total - 1)},{hex(total - 2)}"])
        if m >= 1:
            seqs.append([f"graph calc {';'.join(nodes)} {hex(total - 1)},{hex(total - 2)} v:0x1:{hex(m)} v={','.join(hex(v) for v in vals[1:])}"])
    run.rules.append("input blocks with gaps / other orders / repeated indices; every operator inside tiny graphs on boundary operand pairs and every limb-boundary shift count of large operands; random DAGs over every supported node kind (inputs, Montgomery constants incl. 0/1/253/254/p-1, all duo operators but Pow, Neg, ternary), 1..60 (thorough: 400) nodes, random declared input layouts (contiguous or with gaps, 0..4 named vectors, shuffled supply order, sometimes one declared vector not supplied), boundary/random input values, random output lists; evaluated by graph::evaluate, by calc_witness through serialize/deserialize_witnesscalc_graph, by the model's single pass and by the recursive reference interpretation; every seventh graph is re-evaluated after a twin of equal encoded length from the same (reused) buffer; chains of up to 2^20+3 (thorough 2^21+5) nodes through the container and calc_witness against the closed form; containers written by the implementation are re-read and re-framed by the model; distinct = distinct op line")
    run.differential("graph-eval", seqs, classify=classify, shrink=False)
    run.differential("graph-store", stores, canon=lambda l, x: x.split(" bytes=")[0], shrink=False)
    # containers produced by the implementation, read by the model's framing code and written back
    outs = core.run_impl(zkh, [s[0] for s in stores])
    refr = []
    for s, o in zip(stores, outs):
        if " bytes=" in o:
            n = len(s[0].split(" ")[2].split(";"))
            refr.append([f"reframe {o.split(' bytes=')[1]} {n}"])
    run.differential("container-framing", refr, shrink=False)
    # ---- very long graphs (more nodes than any pre-allocation or batching threshold): a chain of n-2 additions through the container
    #      and calc_witness; the expected value is the closed form x + (n - 2) (input 0 is the constant one)
    for n in ([65537, (1 << 20) + 3] if quick else [3, 65535, 65536, 65537, (1 << 20) - 1, 1 << 20, (1 << 20) + 1, (1 << 20) + 3, (1 << 21) + 5]):
        x = rand_fr(rng)
        line = f"graph bigchain {hex(n)} {hex(x)}"
        got = core.run_impl(zkh, [line])[0]
        want = f"nodes={n} same=true out={hex((x + n - 2) % P)}"
        run.count_case(line)
        run.cov["traces_validated_against_impl"] += 1
        if got != want:
            run.violation({"property": run.pid, "kind": "impl-vs-spec", "stream": "long-graph", "ops": [line], "observed_impl": [got[:200]], "expected_spec": [want]})
    run.confirm_witnesses()
