"""C09 — Poseidon and hash-to-field conform to their specifications for all inputs."""
from lib import core, gen
from lib.gen import P, fr_hex, bytes_hex, vec_fr_bytes

THEOREMS = [
    "Zk.poseidon_impl_eq_spec", "Zk.implHash_ok", "Zk.implHash_empty", "Zk.rlnPoseidonHash_empty_panics",
    "Zk.grain_impl_eq_spec", "Zk.round_params_circomlib", "Zk.round_params_rows",
    "Zk.hash_to_field_spec", "Zk.hash_to_field_canonical",
]


def check(run):
    run.level = "proof"
    run.assumptions += [
        "tiny-keccak is modelled by the Keccak-256 specification and tied by the correspondence stream only",
        "arkworks field arithmetic is modelled as arithmetic modulo p on canonical representatives",
    ]
    run.prove("ZkProofs.C09", THEOREMS)
    rng = run.rng
    quick = run.tier == "quick"

    # ---- typed Poseidon: boundary vectors per arity, equal elements, random
    typed = []
    for n in range(1, 9):
        for b in [0, 1, P - 1, (P - 1) // 2]:
            typed.append([b] * n)
        typed.append(list(range(1, n + 1)))
        typed.append([P - 1 - i for i in range(n)])
        for k in range(n):  # one boundary value in each position
            v = [rng.getrandbits(254) % P for _ in range(n)]
            v[k] = rng.choice([0, 1, P - 1])
            typed.append(v)
        for _ in range(12 if quick else 150):
            typed.append([gen.rand_fr(rng) for _ in range(n)])
    typed += [[], [1] * 9, [0] * 12]      # outside the supported arities: all three sides must still agree
    seqs = [["poseidon " + " ".join(fr_hex(x) for x in v)] for v in typed]
    run.rules.append("poseidon: every arity 1..8 x {all-0, all-1, all-(p-1), all-(p-1)/2, 1..n, descending from p-1, one boundary value per position, random mixes of boundary/limb-sized/full-width values}; distinct = distinct op line")
    seqs = seqs + gen.neighbours(seqs, rng, 40 if quick else 400)      # purity across calls: L, near-duplicate of L, L again
    # inputs that make a state lane exactly ZERO after the first constant addition (input k = -c[k]): the value a
    # "skip the zero terms" shortcut in the S-box or in the matrix product would meet; one lane at a time, pairs, all lanes
    from lib import rlngen as _rg
    for n in range(1, 9):
        c = _rg.round1_constants(run.harness(), n + 1)
        for k in range(1, n + 1):
            v = [rng.getrandbits(250) for _ in range(n)]
            v[k - 1] = (P - c[k]) % P
            seqs.append(["poseidon " + " ".join(hex(x) for x in v)])
        seqs.append(["poseidon " + " ".join(hex((P - c[k]) % P) for k in range(1, n + 1))])
        if n >= 2:
            v = [rng.getrandbits(250) for _ in range(n)]
            v[0], v[-1] = (P - c[1]) % P, (P - c[n]) % P
            seqs.append(["poseidon " + " ".join(hex(x) for x in v)])
    run.differential("poseidon-typed", seqs)

    # ---- generic parameter records (the theorem quantifies over every record)
    ups = []
    for _ in range(10 if quick else 80):
        t = rng.randint(2, 6)
        rf = rng.choice([2, 4, 6, 8])
        rp = rng.randint(0, 12)
        sk = rng.randint(0, 2)
        for _ in range(3):
            ups.append([f"uposeidon {t} {rf} {rp} {sk} " + " ".join(fr_hex(gen.rand_fr(rng)) for _ in range(t - 1))])
    ups.append(["uposeidon 3 8 57 0"])                 # empty input: Err
    ups.append(["uposeidon 3 8 57 0 0x1"])             # width without parameters: Err
    run.rules.append("poseidon: also inputs equal to the negated first-round constants (a zero state lane after the first addition), one lane / two lanes / all lanes per arity; uposeidon: random (t in 2..6, RF in {2,4,6,8}, RP in 0..12, skip in 0..2) parameter records through zerokit_utils::Poseidon::from")
    # parameter TABLES (the public constructor takes any list of rows): the standard rows in descending order, a table with gaps,
    # a shuffled one, one with a repeated width — the row that matches the input count must be found wherever it stands
    STD = [(2, 8, 56, 0), (3, 8, 57, 0), (4, 8, 56, 0), (5, 8, 60, 0), (6, 8, 60, 0)]
    tabs = [list(reversed(STD)), [STD[0], STD[2], STD[3]], [STD[3], STD[0], STD[4], STD[1]], [STD[1]], [STD[2], STD[2]]]
    for tab in tabs:
        rows = ",".join(":".join(map(str, r)) for r in tab)
        for n in range(1, 6):
            ups.append([f"uposeidon_rows {rows} " + " ".join(hex(rng.getrandbits(200)) for _ in range(n))])
    run.differential("poseidon-generic-params", ups)

    # ---- byte-level and FFI entry points
    bl = []
    for v in typed[:: (6 if quick else 2)]:
        if 1 <= len(v) <= 8:
            enc = vec_fr_bytes(v)
            bl.append([f"pub_poseidon {bytes_hex(enc)}"])
            bl.append([f"ffi_poseidon {bytes_hex(enc)}"])
    # trailing bytes are ignored, encodings >= p are reduced: both sides of the contract agree on that
    bl.append([f"pub_poseidon {bytes_hex(vec_fr_bytes([1, 2]) + b'xyz')}"])
    bl.append([f"pub_poseidon {bytes_hex(gen.le(2, 8) + gen.le(P + 1, 32) + gen.le(2, 32))}"])
    bl = bl + gen.neighbours(bl, rng, 40 if quick else 400)      # purity across calls: L, near-duplicate of L, L again
    run.differential("poseidon-bytes-ffi", bl)

    # ---- hash to field
    lens = list(range(0, 40)) + [63, 64, 65, 127, 128, 129, 134, 135, 136, 137, 138, 271, 272, 273, 300, 407, 408, 409]
    if not quick:
        lens = list(range(0, 301)) + [407, 408, 409, 1000, 4096, 10000]
    hs = []
    for n in lens:
        b = bytes(rng.getrandbits(8) for _ in range(n))
        hs.append([f"h2f {bytes_hex(b)}"])
        if n % 7 == 0:
            hs.append([f"pub_hash {bytes_hex(b)}"])
            hs.append([f"ffi_hash {bytes_hex(b)}"])
    # an error path must leave nothing behind: a call whose reader or writer fails, then ordinary calls on the same thread
    for _ in range(6 if quick else 60):
        a = bytes(rng.getrandbits(8) for _ in range(rng.choice([1, 5, 32, 136, 200])))
        b = bytes(rng.getrandbits(8) for _ in range(rng.choice([0, 1, 7, 137])))
        pv = bytes_hex(vec_fr_bytes([rng.getrandbits(200), rng.getrandbits(200)]))
        hs.append([f"pub_hash {bytes_hex(b)}", f"pub_hash_{rng.choice(['wfail', 'rfail'])} {bytes_hex(a)}", f"pub_hash {bytes_hex(b)}", f"ffi_hash {bytes_hex(b)}",
                   f"h2f {bytes_hex(b)}", f"pub_poseidon_{rng.choice(['wfail', 'rfail'])} {pv}", f"pub_poseidon {pv}", f"pub_hash {bytes_hex(a)}"])
    hs.append(["h2f " + "00" * 136])
    hs.append(["h2f " + "ff" * 135])
    run.rules.append("hash_to_field: byte strings of every length in the listed set (block boundaries 135/136/137, 271/272/273, ...) with random content, through typed, byte-level and FFI entry points")
    hs = hs + gen.neighbours(hs, rng, 40 if quick else 400)      # purity across calls: L, near-duplicate of L, L again
    run.differential("hash-to-field", hs)

    # ---- purity: same ops from 8 threads at once must give the single-thread transcript
    flat = [s[0] for s in seqs[:: (4 if quick else 1)]] + [s[0] for s in hs[::3]]
    zkh = run.harness()
    import tempfile, os, subprocess
    with tempfile.NamedTemporaryFile("w", suffix=".ops", delete=False, dir=core.VERIF) as f:
        f.write("\n".join(flat) + "\n")
        path = f.name
    try:
        p = subprocess.run([zkh, "threads", "8", path], stdout=subprocess.PIPE, stderr=subprocess.PIPE, timeout=1200)
        single = core.run_impl(zkh, flat)
        multi = p.stdout.decode().splitlines()
        run.cov["threads8_transcript_equal"] = (p.returncode == 0 and multi[: len(single)] == single)
        if not run.cov["threads8_transcript_equal"]:
            k = next((i for i, (a, b) in enumerate(zip(single, multi)) if a != b), 0)
            run.violation({"property": run.pid, "kind": "impl-vs-spec", "stream": "threads", "ops": [flat[k]],
                           "detail": "result differs between a single-threaded run and 8 concurrent threads",
                           "impl_args": ["run"]})
        run.cov["evaluations"] += len(flat)
    finally:
        os.remove(path)
