"""C05 — the witness-graph evaluator computes the circuit's witness for every input."""
import json, subprocess, os
from lib import core
from lib.gen import P, rand_fr

NAMES = ["identitySecret", "userMessageLimit", "messageId", "pathElements", "identityPathIndex", "x", "externalNullifier"]


def reference(assignments):
    """run the reference circom generator (rln.wasm under node) on each assignment"""
    data = "\n".join(json.dumps({k: ([str(v) for v in a[k]] if len(a[k]) > 1 else str(a[k][0])) for k in NAMES}) for a in assignments) + "\n"
    p = subprocess.run(["node", os.path.join(core.VERIF, "tools", "refwitness.js")], input=data.encode(), stdout=subprocess.PIPE,
                       stderr=subprocess.PIPE, env=dict(os.environ, ZK_REPO=core.REPO), timeout=3000)
    out = p.stdout.decode().splitlines()
    out += ["reference-crash"] * (len(assignments) - len(out))
    return out


def line_of(a, order):
    return "bundled " + ";".join(f"{k}=" + ",".join(hex(v) for v in a[k]) for k in order)


def check(run):
    run.level = "proof"
    from checks import _graph_theorems
    run.prove(_graph_theorems.C05)
    rng = run.rng
    quick = run.tier == "quick"
    zkh = run.harness()
    B = [0, 1, 2, 2**64 - 1, 2**64, 2**128 - 1, 2**128, 2**192, 2**253, (P - 1) // 2, (P + 1) // 2, P - 2, P - 1]

    def base():
        lim = rng.choice([1, 2, 100, 2**16])
        return {"identitySecret": [rand_fr(rng)], "userMessageLimit": [lim], "messageId": [rng.choice([0, lim - 1, rng.randrange(lim)])],
                "pathElements": [rand_fr(rng) for _ in range(20)], "identityPathIndex": [rng.getrandbits(1) for _ in range(20)],
                "x": [rand_fr(rng)], "externalNullifier": [rand_fr(rng)]}
    A = []
    # limb-boundary and near-modulus values in every one of the 46 positions (the two range-checked ones within their range)
    for name in ["identitySecret", "x", "externalNullifier"]:
        for v in (B if not quick else rng.sample(B, 4)):
            a = base(); a[name] = [v]; A.append(a)
    for j in (range(20) if not quick else rng.sample(range(20), 3)):
        for v in (B if not quick else rng.sample(B, 2)):
            a = base(); a["pathElements"][j] = v; A.append(a)
    for j in (range(20) if not quick else rng.sample(range(20), 3)):
        a = base(); a["identityPathIndex"] = [0] * 20; a["identityPathIndex"][j] = 1; A.append(a)
    for pat in ([0] * 20, [1] * 20):
        a = base(); a["identityPathIndex"] = list(pat); A.append(a)
    # (the circuit's 16-bit range check accepts every limit in (messageId, messageId + 2^16]: limits ABOVE 2^16 are valid for large ids)
    for lim, mid in [(1, 0), (2, 1), (2**16, 0), (2**16, 2**16 - 1), (100, 99), (65535, 65534), (65537, 65535), (65537, 1), (100000, 40000), (131071, 65535), (65536 + 7, 7)]:
        a = base(); a["userMessageLimit"] = [lim]; a["messageId"] = [mid]; A.append(a)
    # every bit of the 16-bit range check: message ids with exactly one bit set / cleared, and limits just above them
    for k in (range(16) if not quick else rng.sample(range(16), 6)):
        for mid in (1 << k, (1 << 16) - 1 - (1 << k)):
            a = base(); a["userMessageLimit"] = [2**16]; a["messageId"] = [mid]; A.append(a)
        a = base(); a["messageId"] = [1 << k]; a["userMessageLimit"] = [(1 << k) + 1]; A.append(a)
    a = base()
    for k in ("identitySecret", "x", "externalNullifier"):
        a[k] = [0]
    a["pathElements"] = [0] * 20; A.append(a)
    a = base()
    for k in ("identitySecret", "x", "externalNullifier"):
        a[k] = [P - 1]
    a["pathElements"] = [P - 1] * 20; A.append(a)
    for _ in range(6 if quick else 200):
        A.append(base())
    # algebraically special INTERNAL values: the sibling at level j equals the running node hash + d (d = 0, 1, -1, 2), so that the
    # difference feeding the Merkle multiplexer's multiplication is exactly 0 / 1 / -1 in either operand order; likewise x = 1, 0
    # (second operand of a1 * x) — shortcuts in an operator for operands 0 / 1 show only here
    from lib import rlngen
    special = []
    levels = [0, 1, 19] if quick else [0, 1, 2, 5, 10, 18, 19]
    for j in levels:
        for d in ([1, P - 1] if quick else [0, 1, P - 1, 2]):
            for bit in (0, 1):
                a = base(); a["identityPathIndex"][j] = bit
                special.append((a, j, d))
    hs = rlngen.poseidon(zkh, [[a["identitySecret"][0]] for a, _, _ in special])
    hs = rlngen.poseidon(zkh, [[h, a["userMessageLimit"][0]] for h, (a, _, _) in zip(hs, special)])
    for lvl in range(20):
        for h, (a, j, d) in zip(hs, special):
            if j == lvl:
                a["pathElements"][lvl] = (h + d) % P
        hs = rlngen.poseidon(zkh, [([h, a["pathElements"][lvl]] if a["identityPathIndex"][lvl] == 0 else [a["pathElements"][lvl], h])
                                   for h, (a, _, _) in zip(hs, special)])
    A += [a for a, _, _ in special]
    for v in (0, 1):
        a = base(); a["x"] = [v]; A.append(a)
    # inputs whose INTERNAL (Montgomery) limbs complement those of the constant the graph adds to them directly (limb 0 sums to 2^64,
    # limb 1 to 2^64 - 1 with that carry coming in): the carry chain of a multi-limb addition, read off the current graph.bin
    try:
        import sys as _sys
        _sys.path.insert(0, os.path.join(core.VERIF, "tools"))
        import extract as _ex
        gnodes, _, ginfo, _, _ = _ex.parse_graph_bin(open(os.path.join(core.REPO, "rln/resources/tree_height_20/graph.bin"), "rb").read())
        g_inp = {k: int(n.split()[1]) for k, n in enumerate(gnodes) if n.startswith(".input")}
        g_const = {k: int(n.split()[1]) for k, n in enumerate(gnodes) if n.startswith(".montConstant")}
        by_off = {}
        for nm, off, ln in ginfo:
            for j in range(ln):
                by_off[off + j] = (nm, j)
        Rinv = pow(pow(2, 256, P), P - 2, P)
        made = 0
        for n in gnodes:
            if not n.startswith(".duo .Add"):
                continue
            _, _, u, w = n.split(); u, w = int(u), int(w)
            for (i_, c_) in ((u, w), (w, u)):
                if i_ in g_inp and c_ in g_const and g_inp[i_] in by_off and made < (3 if quick else 12):
                    nm, j = by_off[g_inp[i_]]
                    if nm in ("messageId", "userMessageLimit", "identityPathIndex"):
                        continue
                    c = (g_const[c_] * pow(2, 256, P)) % P        # the container stores canonical values; arkworks adds their Montgomery forms
                    c0, c1 = c & (2**64 - 1), (c >> 64) & (2**64 - 1)
                    xm = ((2**64 - c0) % 2**64) + (((2**64 - 1 - c1) % 2**64) << 64)
                    a = base(); a[nm][j] = (xm * Rinv) % P
                    A.append(a); made += 1
        run.cov["carry_chain_inputs"] = made
    except Exception as e:
        run.note("carry-chain inputs not generated: " + repr(e)[:120])
    # assignments the reference generator must reject (the partition of C12): they are NOT compared, only counted
    U = []
    for lim, mid in [(100, 100), (70000, 1), (2**17, 2**16), (0, 0)]:
        a = base(); a["userMessageLimit"] = [lim]; a["messageId"] = [mid]; U.append(a)
    a = base(); a["identityPathIndex"][5] = 2; U.append(a)
    ref = reference(A + U)
    refA, refU = ref[:len(A)], ref[len(A):]
    run.cov["reference_accepts"] = sum(1 for r in refA if r.startswith("ok"))
    run.cov["reference_rejects_of_unsatisfiable"] = sum(1 for r in refU if r.startswith("reject"))
    if any(r == "reference-crash" for r in ref):
        raise core.Abort("the reference generator (node + rln.wasm) did not run")
    seqs = []
    for a, r in zip(A, refA):
        order = list(NAMES)
        l1 = line_of(a, order)
        rng.shuffle(order)
        l2 = line_of(a, order)           # the same assignment supplied in another order
        seqs.append([l1, l2])
        if not r.startswith("ok"):
            run.note("reference generator rejects an assignment believed valid: " + r[:80])
            continue
    # impl vs model (complete 5844-element vectors) — the spec stream here is the reference generator
    flat = [l for s in seqs for l in s]
    impl = core.run_impl(zkh, flat)
    model = core.run_lean("model", flat)
    bad = 0
    for k, (a, r) in enumerate(zip(A, refA)):
        i1, i2 = impl[2 * k], impl[2 * k + 1]
        run.count_case(flat[2 * k])
        run.cov["traces_validated_against_impl"] += 1
        want = "[" + r[3:] + "]" if r.startswith("ok") else None
        if i1 != i2:
            run.violation({"property": run.pid, "kind": "impl-vs-spec", "stream": "input-order", "ops": [flat[2 * k], flat[2 * k + 1]],
                           "detail": "the witness depends on the order in which the named inputs are supplied"})
            bad += 1
        elif want is not None and i1 != want:
            iv, wv = i1.strip("[]").split(","), want.strip("[]").split(",")
            pos = next((j for j, (x, y) in enumerate(zip(iv, wv)) if x != y), min(len(iv), len(wv)))
            run.violation({"property": run.pid, "kind": "impl-vs-spec", "stream": "reference", "ops": [flat[2 * k]],
                           "detail": f"witness differs from the reference generator's at position {pos} (lengths {len(iv)} / {len(wv)})",
                           "expected_spec": [want[:400]], "observed_impl": [i1[:400]]})
            bad += 1
        if model[2 * k] != i1:
            run.cov["impl_vs_model_disagreements"] += 1
            run._corr = getattr(run, "_corr", [])
            if len(run._corr) < 3:
                run._corr.append({"stream": "bundled", "sequence": [flat[2 * k][:300]], "impl": i1[:200], "model": model[2 * k][:200]})
    run.cov["impl_vs_spec_failures"] += bad
    # ---- purity across calls: the same graph bytes must give the same witness whatever was evaluated before — from a caller-owned
    #      buffer that is refilled in place (another well-formed graph of the same length at the same address in between), and from
    #      the static copy after that. The patched evaluation itself is not compared (another graph), only the calls around it.
    def bline(a, patch):
        return "bundled_buf " + line_of(a, NAMES)[len("bundled "):] + " " + patch
    PATCHES = ["244990:0xf2", "244990:0xf5", "-"]          # a same-length variant of graph.bin (one node reference changed), the original byte, nothing
    pseqs = []
    sens = base(); sens["userMessageLimit"] = [2**16]; sens["messageId"] = [0x2000]      # an assignment on which the variant graph's witness differs
    for a in [sens] + A[:2] + A[-2:]:
        for pt in PATCHES[:1] if quick else PATCHES:
            pseqs.append([bline(a, "-"), bline(a, pt), bline(a, "-"), line_of(a, NAMES), bline(A[0], pt), bline(a, "-")])
    run.differential("bundled-buffer-reuse", pseqs, shrink=False)
    run.sample({"assignment": {k: [hex(v) for v in A[0][k]][:3] for k in NAMES}, "witness_prefix": impl[0][:160]})
    run.rules.append("assignments of the 46 inputs: limb-boundary and near-modulus values in each field position (sampled positions in quick), one-hot / all-zero / all-one direction patterns, message ids 0 / limit-1 for limits 1, 2, 2^16, all-zero and all-(p-1) vectors, random ones, and assignments chosen so that an INTERNAL multiplication operand is exactly 0 / 1 / -1 (sibling = running hash + d at a level, both directions; x in {0,1}; an input whose Montgomery limbs complement those of the constant the graph adds to it); for each the COMPLETE 5844-element witness of calculate_rln_witness is compared with the reference generator rln.wasm (node) and with the Lean model's evaluation of the regenerated graph, and recomputed with the named inputs in a shuffled order; the same evaluation repeated from a caller-owned buffer that is refilled in place with another graph of equal length in between (purity across calls); distinct = distinct assignment")
    run.cov["distinct_nontrivial"] = run.cov["distinct_nontrivial"]
