"""C12 — proving never returns an unverifiable proof and never crashes."""
from lib import core, rlngen
from lib.gen import P, le, rand_fr
from lib.rlngen import hx, CAP


def parse_proof_bytes(b):
    n = int.from_bytes(b[:8], "little")
    path = [int.from_bytes(b[8 + 32 * k:40 + 32 * k], "little") for k in range(n)]
    off = 8 + 32 * n
    m = int.from_bytes(b[off:off + 8], "little")
    return path, list(b[off + 8:off + 8 + m])


def shape(line):
    """decode the request of a proving line far enough to match the open findings"""
    w = line.split(" ")
    if len(w) < 3 or w[0] != "rln" or w[1] not in ("prove_req", "prove_wit", "prove_raw"):
        return None
    try:
        b = bytes.fromhex(w[2]) if w[2] != "-" else b""
    except ValueError:
        return None
    f = lambda o: int.from_bytes(b[o:o + 32], "little") % P
    if w[1] == "prove_req":
        if len(b) < 144:
            return None
        return dict(kind="req", lim=f(40), mid=f(72))
    if len(b) < 104:
        return None
    n = int.from_bytes(b[96:104], "little")
    if len(b) < 104 + 32 * n + 8:
        return None
    m = int.from_bytes(b[104 + 32 * n:112 + 32 * n], "little")
    idx = list(b[112 + 32 * n:112 + 32 * n + m])
    return dict(kind="wit", lim=f(32), mid=f(64), n=n, m=m, idx=idx)


def classify(seq, i, impl, spec):
    s = shape(seq[i])
    if not s:
        return None
    if s["kind"] == "wit" and (s["n"] != 20 or s["m"] != 20) and impl == "panic":
        return "C12-path-length-panic"
    if impl.startswith("ok") and spec == "err" and s["mid"] < s["lim"]:
        if s["mid"] >= 2**16 or s["lim"] > s["mid"] + 2**16 or (s["kind"] == "wit" and any(x not in (0, 1) for x in s["idx"])):
            if s["kind"] == "req" or (s["n"] == 20 and s["m"] == 20):
                return "C12-unsat-accepted"
    return None


def check(run):
    run.level = "proof"
    from checks import _proto_theorems
    run.prove(_proto_theorems.C12)
    rng = run.rng
    quick = run.tier == "quick"
    zkh = run.harness()
    secret, limit, index = rand_fr(rng), 100, 3
    M = rlngen.Member(zkh, secret, limit, index)
    setup = M.setup([(0, rand_fr(rng)), (7, rand_fr(rng))])
    gp = core.run_impl(zkh, setup + [f"rln get_proof {hex(index)}"])[-1]
    path, idx = parse_proof_bytes(bytes.fromhex(gp[3:]))
    ext, sig = rand_fr(rng), b"signal"
    seqs = []

    def req(**kw):
        a = dict(secret=secret, index=index, limit=limit, mid=1, ext=ext, signal=sig)
        a.update(kw)
        return rlngen.prove_request(a["secret"], a["index"], a["limit"], a["mid"], a["ext"], a["signal"], a.get("declared"))

    def add(op, b, su=setup):
        seqs.append(su + [f"rln {op} {hx(b)}"])
    # ---- request entry point: message ids and limits across the boundaries (the leaf commits to `limit`,
    #      so a different limit needs its own registered leaf)
    lims = [0, 1, 2, 100, 2**16, 2**16 + 1, 70000, P - 1]
    for lim in (lims if not quick else [0, 1, 100, 2**16, 2**16 + 1, P - 1]):
        Ml = rlngen.Member(zkh, secret, lim, index)
        su = Ml.setup([(7, 5)])
        mids = sorted({0, 1, max(lim - 1, 0), lim, (lim + 1) % P, 2**16 - 1, 2**16, max(lim - 2**16, 0), max(lim - 2**16 - 1, 0)} )
        for mid in (mids if not quick else mids[:6]):
            b = rlngen.prove_request(secret, index, lim, mid, ext, sig)
            add("prove_req", b, su)
    # positions
    for pos in [0, index, CAP - 1, CAP, CAP + 1, 2**32, 2**63, 2**64 - 1]:
        add("prove_req", req(index=pos))
    # truncated / over-long / inconsistent lengths
    full = req()
    for n in sorted(set(list(range(0, len(full) + 1, 13 if quick else 1)) + [0, 31, 32, 39, 40, 135, 136, 143, 144, 145, len(full) - 1])):
        add("prove_req", full[:n])
    for d in [0, len(sig) - 1, len(sig) + 1, 2**32, 2**63, 2**64 - 1, 2**64 - 144, 2**64 - 145, 2**64 - 143]:
        add("prove_req", req(declared=d))
    add("prove_req", full + b"trailing")
    # a caller whose output takes nothing / whose reader fails after delivering the request: an error (never a crash, never a
    # half-written message), and the next ordinary request proves as before
    seqs.append(setup + [f"rln io w prove_req {hx(full)}", f"rln io r prove_req {hx(full)}", f"rln prove_req {hx(full)}", "rln root", "rln leaves_set",
                         "rln chunk 0xd", f"rln prove_req {hx(full)}", "rln chunk 0x0"])         # and from a reader that delivers 13 bytes at a time
    # ---- the same member proves again after the tree changed around it (every mutator, incl. batch removals of OTHER members):
    #      whatever the prover remembers from its first run must not make the second message unverifiable
    for mu in ["rln atomic 0x0 - 0x5,0x6", "rln atomic 0x8 - 0x7", "rln set_leaf 0x5 0x77", "rln delete 0x7", "rln set_leaves_from 0x8 0x1,0x2"][: (3 if quick else 5)]:
        hist = M.setup([(i, rand_fr(rng)) for i in range(0, 8) if i != index])
        hist += [f"rln prove_verify {hx(req(mid=1))} {hx(sig)}", mu, "rln root", f"rln prove_verify {hx(req(mid=2))} {hx(sig)}", f"rln get_proof {hex(index)}"]
        seqs.append(hist)
    # ---- the typed layer called directly (`proof_inputs_to_rln_witness` -> `generate_proof` -> `proof_values_from_witness` ->
    #      `verify_proof`): in range and verifiable, or an error — also for message ids at / above the limit, which the typed prover
    #      must refuse by itself (the request parser does not check the range)
    for lim, mid in ([(100, 1), (100, 99), (100, 100), (100, 101), (1, 0), (1, 1), (2**16, 2**16 - 1), (2**16, 2**16)] if not quick else [(100, 1), (100, 100), (100, 101), (1, 1)]):
        leaf = rlngen.rate_commitment(zkh, secret, lim)
        seqs.append([f"typed_prove {hex(index)} {hex(leaf)} {hx(rlngen.prove_request(secret, index, lim, mid, ext, sig))}"])
    # ---- witness entry points
    x = rand_fr(rng)

    def wit(**kw):
        a = dict(secret=secret, limit=limit, mid=1, path=path, idx=idx, x=x, ext=ext)
        a.update(kw)
        return rlngen.witness_bytes(a["secret"], a["limit"], a["mid"], a["path"], a["idx"], a["x"], a["ext"])
    for op in ("prove_wit", "prove_raw"):
        add(op, wit())
        for mid in [0, 99, 100, 101, 2**16]:
            add(op, wit(mid=mid))
        for lim, mid in [(70000, 1), (2**16 + 5, 7), (2**16 + 1, 0), (2**16, 0), (P - 1, 5), (2**17, 2**16 - 1), (2**17, 2**16)]:
            add(op, wit(limit=lim, mid=mid))       # a wrong limit for this leaf: satisfiable (the root is an output), unless the range check fails
        # path of wrong length, index list of wrong length, non-binary direction values
        add(op, wit(path=path[:19], idx=idx[:19]))
        add(op, wit(path=path + [5], idx=idx + [0]))
        add(op, wit(path=path, idx=idx[:19]))
        add(op, wit(path=path[:19], idx=idx))
        add(op, wit(path=[], idx=[]))
        for bad in (2, 255):
            i2 = list(idx); i2[rng.randrange(20)] = bad
            add(op, wit(idx=i2))
        w0 = wit()
        for n in sorted(set(list(range(0, len(w0) + 1, 97 if quick else 7)) + [0, 95, 96, 103, 104, len(w0) - 65, len(w0) - 64, len(w0) - 1])):
            add(op, w0[:n])
        add(op, w0 + b"\x00")
        bad = bytearray(w0); bad[96:104] = le(2**61, 8); add(op, bytes(bad))
        bad = bytearray(w0); bad[96 + 8 + 640:96 + 16 + 640] = le(2**64 - 1, 8); add(op, bytes(bad))
    # ---- the partition satisfiable / unsatisfiable is the reference generator's: the specification's circuit relation
    #      (Lean `CircuitSat`) must agree with rln.wasm accepting / failing an assert on the same assignments
    from checks.c05 import reference
    part = []
    mids_lims = [(1, 100), (0, 1), (99, 100), (100, 100), (101, 100), (0, 0), (2**16 - 1, 2**16), (2**16, 2**16 + 1), (2**16, 2**17),
                 (1, 70000), (7, 2**16 + 5), (0, 2**16), (0, 2**16 + 1), (5, P - 1), (P - 1, 5), (2**16 - 1, 2**17 - 1), (2**16 - 1, 2**17)]
    for mid, lim in (mids_lims if not quick else mids_lims[:9]):
        part.append(dict(identitySecret=[secret], userMessageLimit=[lim], messageId=[mid], pathElements=path, identityPathIndex=list(idx), x=[x], externalNullifier=[ext]))
    for bad in (2, 255, P - 1):
        i2 = list(idx); i2[7] = bad
        part.append(dict(identitySecret=[secret], userMessageLimit=[100], messageId=[1], pathElements=path, identityPathIndex=i2, x=[x], externalNullifier=[ext]))
    ref = reference(part)
    sat_lines = []
    for a in part:
        ib = bytes(v if v < 256 else 255 for v in a["identityPathIndex"])
        sat_lines.append(f"sat {hex(a['identitySecret'][0])} {hex(a['userMessageLimit'][0])} {hex(a['messageId'][0])} {','.join(hex(p) for p in a['pathElements'])} {hx(ib)} {hex(x)} {hex(ext)}")
    lean_sat = core.run_lean("spec", sat_lines)
    disagree = 0
    for a, r, ls, line in zip(part, ref, lean_sat, sat_lines):
        if any(v >= 256 for v in a["identityPathIndex"]):
            ls = "false" if not r.startswith("ok") else ls      # a direction value that is not even a byte: outside the byte API, reference must reject
        if (r.startswith("ok")) != (ls == "true"):
            disagree += 1
            run.broken_obligation("Protocol.CircuitSat vs rln.wasm", f"the specification's circuit relation says {ls} but the reference generator answers `{r[:40]}` on message_id={a['messageId'][0]}, limit={a['userMessageLimit'][0]}, directions={a['identityPathIndex'][:8]}…")
    run.cov["circuit_relation_vs_reference_generator"] = {"assignments": len(part), "reference_accepts": sum(1 for r in ref if r.startswith("ok")), "disagreements": disagree}
    run.rules.append("proving requests over the full domain: message ids {0,1,limit-1,limit,limit+1,2^16-1,2^16,limit-2^16,…} x limits {0,1,2,100,2^16,2^16+1,70000,p-1}, positions {inside, cap-1, cap, 2^32, 2^63, 2^64-1}, every truncation class, declared lengths up to 2^64-1, witnesses with path/index lists of length 0/19/20/21, direction bytes 2/255, huge declared counts; each through generate_rln_proof / generate_rln_proof_with_witness / prove; the specification answers ok exactly when the circuit relation is satisfiable; distinct = distinct request")
    run.differential("prove-domain", seqs, canon=rlngen.canon_prove, classify=classify, shrink=False)
    # every message the prover returned must verify (the prover's own claim), outside the open shapes
    last = run._last
    checks = []
    for line, out in zip(last["flat"], core.run_impl(zkh, last["flat"])):
        pass
    run.cov["note"] = "messages returned for satisfiable requests are verified under C01's check"

    run.confirm_witnesses(canon=rlngen.canon_prove)
