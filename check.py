#!/usr/bin/env python3
"""check.py — single entry point of the zerokit verification machinery.

  python3 check.py C09 --tier quick|thorough     run one property's check
  python3 check.py --setup                        cold build of everything (Lean + harness)
  python3 check.py --replay <file>                re-run a replay file
  python3 check.py --all [--tier ..]              run every claimed property (convenience)

Exit 0: property held on everything explored (KNOWN-FINDING lines are informational).
Exit 1: a line `VIOLATION property=<id> replay=<path>` was printed.
"""
import argparse, importlib, json, os, sys, time, traceback

HERE = os.path.dirname(os.path.abspath(__file__))
sys.path.insert(0, HERE)
from lib import core  # noqa: E402


def main():
    ap = argparse.ArgumentParser()
    ap.add_argument("prop", nargs="?")
    ap.add_argument("--tier", default=os.environ.get("VERIF_TIER", "quick"))
    ap.add_argument("--setup", action="store_true")
    ap.add_argument("--replay")
    ap.add_argument("--all", action="store_true")
    a = ap.parse_args()
    if a.tier not in ("quick", "thorough"):
        a.tier = "quick"
    seed = int(os.environ.get("VERIF_SEED", "1") or "1")

    if a.setup:
        sys.exit(core.setup())
    if a.replay:
        sys.exit(core.replay(a.replay))
    if a.all:
        rc = 0
        for pid in core.claimed_properties():
            rc |= run_one(pid, a.tier, seed)
        sys.exit(rc)
    if not a.prop:
        ap.error("property id required")
    sys.exit(run_one(a.prop.upper(), a.tier, seed))


def run_one(pid, tier, seed):
    t0 = time.time()
    try:
        mod = importlib.import_module(f"checks.{pid.lower()}")
    except ModuleNotFoundError:
        print(f"no check registered for {pid}")
        return 2
    run = core.Run(pid, tier, seed, t0)
    try:
        mod.check(run)
    except core.Abort as e:
        # the machinery could not run (a build failed, a tool is missing): that is no verdict — never report `ok`
        print(f"[{pid}] ABORTED: {e}", flush=True)
        run.write_evidence(internal_error=str(e)[-2000:])
        return 2
    except Exception:
        # an internal error of the machinery is not a verdict about the code: report loudly, exit 2
        traceback.print_exc()
        run.write_evidence(internal_error=traceback.format_exc()[-2000:])
        return 2
    return run.finish()


if __name__ == "__main__":
    main()
