"""seeds (ASCII) whose ChaCha20 stream, keyed with Keccak-256 of the seed, starts with <depth> candidates that the field sampler
refuses (254-bit draw >= p). Found by `zkh find_rej` (harness/src/main.rs), which computes from the specification alone and
calls nothing of /repo; the C14 check runs every one through all six seeded entry points against the Lean model
(`Keygen.frRand`, fuel 64). member-32576961 was found independently by the author of seeded change C14f."""
CORPUS = [(12, "member-32576961"), (12, "member-74980431"), (12, "member-86880761"), (12, "member-92802129"), (12, "member-172676910"),
          (13, "member-142212528"), (10, "member-104253"), (10, "member-614098"), (9, "member-742737")]
