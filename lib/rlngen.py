"""Builders for RLN requests / messages and the two-pass (prove, oracle, verify) machinery shared by
C01, C02, C03, C04, C12, C13."""
from lib import core
from lib.gen import P, le, rand_fr

DEPTH = 20
CAP = 1 << DEPTH


def hx(b):
    return b.hex() if b else "-"


def poseidon(zkh, vecs):
    """hash a list of input vectors with the real Poseidon (harness)"""
    out = core.run_impl(zkh, ["poseidon " + " ".join(hex(x) for x in v) for v in vecs])
    return [int(x, 16) for x in out]


def rate_commitment(zkh, secret, limit):
    c = poseidon(zkh, [[secret]])[0]
    return poseidon(zkh, [[c, limit]])[0]


def prove_request(secret, index, limit, mid, ext, signal, declared_len=None):
    n = len(signal) if declared_len is None else declared_len
    return le(secret, 32) + le(index, 8) + le(limit, 32) + le(mid, 32) + le(ext, 32) + le(n, 8) + signal


def witness_bytes(secret, limit, mid, path, idx, x, ext):
    return (le(secret, 32) + le(limit, 32) + le(mid, 32) + le(len(path), 8) + b"".join(le(p, 32) for p in path)
            + le(len(idx), 8) + bytes(idx) + le(x, 32) + le(ext, 32))


def verify_input(msg, signal, declared_len=None):
    n = len(signal) if declared_len is None else declared_len
    return msg + le(n, 8) + signal


def split_msg(msg):
    """message -> (proof, [root, ext, x, y, nullifier] as ints)"""
    vals = [int.from_bytes(msg[128 + 32 * k:160 + 32 * k], "little") for k in range(5)]
    return msg[:128], vals


def join_msg(proof, vals):
    return proof + b"".join(le(v, 32) for v in vals)


class Member:
    def __init__(self, zkh, secret, limit, index):
        self.secret, self.limit, self.index = secret, limit, index
        self.leaf = rate_commitment(zkh, secret, limit)

    def setup(self, others=()):
        lines = ["rln new"]
        for i, v in others:
            lines.append(f"rln set_leaf {hex(i)} {hex(v)}")
        lines.append(f"rln set_leaf {hex(self.index)} {hex(self.leaf)}")
        return lines


def run_prove(zkh, setup, op, req):
    """pre-pass on the implementation only: returns the message bytes or None"""
    out = core.run_impl(zkh, setup + [f"rln {op} {hx(req)}"])
    r = out[-1]
    if r.startswith("ok "):
        h = r[3:]
        return bytes.fromhex(h) if h != "-" else b""
    return None


def oracle(zkh, msgs):
    """arkworks' own verdict for each message: (decodes, snark_valid)"""
    out = core.run_impl(zkh, [f"oracle {hx(m)}" for m in msgs])
    res = []
    for o in out:
        res.append(("dec=1" in o, "snark=1" in o))
    return res


def canon_prove(line, x):
    """the Groth16 proof is randomised: keep only the bytes after the 128 proof bytes"""
    w = line.split(" ")
    if len(w) >= 2 and w[0] == "rln" and w[1] in ("prove_req", "prove_wit", "prove_ext") and x.startswith("ok "):
        return "ok " + (x[3 + 256:] or "-")
    if len(w) >= 2 and w[0] == "rln" and w[1] == "prove_raw" and x.startswith("ok "):
        return "ok -" if len(x) == 3 + 256 else "ok (unexpected length)"
    return x


def spec_verdict(line, x):
    """the specification only says accept / reject (false or error); a crash stays a crash"""
    if x in ("reject-false", "reject-err"):
        return "reject"
    return x


def make_messages(run, n, rng, indices=None, limits=None, others_n=3):
    """n real messages: list of dict(member, setup, ext, mid, signal, msg, root)"""
    zkh = run.harness()
    res = []
    indices = indices or [0, 1, 5, CAP // 2 - 1, CAP // 2, CAP - 1]
    limits = limits or [1, 2, 100, 2**16]
    for k in range(n):
        secret = rng.choice([0, 1, P - 1, rand_fr(rng), rand_fr(rng)])
        limit = limits[k % len(limits)]
        index = indices[k % len(indices)]
        mid = rng.choice([0, limit - 1, rng.randrange(limit)])
        ext = rng.choice([0, 1, P - 1, rand_fr(rng), rand_fr(rng)])
        signal = bytes(rng.getrandbits(8) for _ in range(rng.choice([0, 1, 5, 32, 136, 137])))
        m = Member(zkh, secret, limit, index)
        others = [(rng.randrange(CAP), rand_fr(rng)) for _ in range(others_n)]
        others = [(i, v) for i, v in others if i != index]
        setup = m.setup(others)
        req = prove_request(secret, index, limit, mid, ext, signal)
        msg = run_prove(zkh, setup, "prove_req", req)
        root = int(core.run_impl(zkh, setup + ["rln root"])[-1], 16)
        res.append(dict(member=m, setup=setup, ext=ext, mid=mid, signal=signal, msg=msg, root=root, req=req))
    return res


def with_oracle(zkh, lines_and_msgs):
    """lines_and_msgs: list of (line_prefix, msg bytes or None); appends the oracle fields `dec snark`"""
    idx = [i for i, (_, m) in enumerate(lines_and_msgs) if m is not None]
    orc = oracle(zkh, [lines_and_msgs[i][1] for i in idx])
    out = []
    k = 0
    for i, (line, m) in enumerate(lines_and_msgs):
        if m is None:
            out.append(line)
        else:
            d, s = orc[k]
            k += 1
            out.append(f"{line} {int(d)} {int(s)}")
    return out


def round1_constants(zkh, t):
    """first-round constants c[0..t] of the width-t Poseidon permutation, read from the implementation"""
    out = core.run_impl(zkh, [f"poseidon_c {hex(t)}"])[0]
    return [int(x, 16) for x in out.split(" ")]
