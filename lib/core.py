"""Shared machinery: build steps, proof-obligation audit, differential (impl / model / spec) runs,
shrinking, known-findings classification, replay files, evidence."""
import fcntl, hashlib, json, os, random, re, shutil, subprocess, sys, time

VERIF = os.path.dirname(os.path.dirname(os.path.abspath(__file__)))
REPO = os.environ.get("ZK_REPO", "/repo")
LEAN = os.path.join(VERIF, "lean")
HARNESS = os.path.join(VERIF, "harness")
EVID = os.path.join(VERIF, "evidence")
REPLAYS = os.path.join(VERIF, "replays")
ZKMODEL = os.path.join(LEAN, ".lake", "build", "bin", "zkmodel")
ALLOWED_AXIOMS = {"propext", "Classical.choice", "Quot.sound"}
FORBIDDEN = re.compile(r"\bsorry\b|\badmit\b|^\s*axiom\s|native_decide|bv_decide|implemented_by|\bunsafe\s|maxHeartbeats\s+0")

TRUSTED_BASE = [
    "Lean 4.33.0 kernel (thorough tier: re-checked with leanchecker)",
    "axioms allowed in property theorems: propext, Classical.choice, Quot.sound (audited by #print axioms on every run); no sorry/admit/native_decide/bv_decide/own axioms",
    "tools/extract.py (syntactic translator of tables/field orders from /repo, cross-checked against / completed by `zkh dump`: the same tables as compiled from the current source, measured through public items, the evaluator and marker probes; fails closed)",
    "correspondence check: harness/ (Rust, links /repo in-process) vs lean/ZkModel driver on generated inputs; sampled",
    "specifications S as transcriptions of their documents (Poseidon paper + Grain script, FIPS-202/Keccak, circom docs, RLN-v2, repo doc comments)",
]


class Abort(Exception):
    pass


# every child process (harness, per-configuration programs, the reference generator) gets a private scratch directory as TMPDIR:
# the default tree configuration creates a sled database under temp_dir() per instance and leaves it behind when a process aborts
import atexit, tempfile
SCRATCH = tempfile.mkdtemp(prefix="zkverif-")
os.environ["TMPDIR"] = SCRATCH
atexit.register(lambda: shutil.rmtree(SCRATCH, ignore_errors=True))


def sh(cmd, cwd=None, env=None, timeout=None, inp=None):
    e = dict(os.environ)
    e.update({"CARGO_NET_OFFLINE": "true"})
    if env:
        e.update(env)
    p = subprocess.run(cmd, cwd=cwd, env=e, input=inp, stdout=subprocess.PIPE, stderr=subprocess.STDOUT,
                       timeout=timeout, shell=isinstance(cmd, str))
    return p.returncode, p.stdout.decode("utf-8", "replace") if isinstance(p.stdout, bytes) else p.stdout


class Lock:
    def __init__(self, name):
        self.path = os.path.join(VERIF, f".{name}.lock")

    def __enter__(self):
        self.f = open(self.path, "w")
        fcntl.flock(self.f, fcntl.LOCK_EX)

    def __exit__(self, *a):
        fcntl.flock(self.f, fcntl.LOCK_UN)
        self.f.close()


def claimed_properties():
    m = json.load(open(os.path.join(VERIF, "MANIFEST.json")))
    return [c["property_id"] for c in m["checks"]]


# ----------------------------------------------------------------------------- build steps

def extract():
    """both translators: the syntactic reading of /repo's source and the facts printed by the harness compiled from it
    (`zkh dump`); building the harness first is what makes the second one speak about the current tree"""
    cmd = [sys.executable, os.path.join(VERIF, "tools", "extract.py")]
    zkh = build_harness()          # raises Abort when /repo does not compile
    cmd += ["--probe", zkh]
    rc, out = sh(cmd, env={"ZK_REPO": REPO})
    try:
        return json.loads(out.strip().splitlines()[-1])
    except Exception:
        return {"error": out[-2000:]}


def lake_build(targets, timeout=3000):
    with Lock("lake"):
        rc, out = sh(["lake", "build"] + targets, cwd=LEAN, timeout=timeout)
    return rc == 0, out


def build_driver():
    ok, out = lake_build(["zkmodel"])
    if not ok:
        raise Abort("zkmodel driver does not build:\n" + out[-3000:])


def build_harness(features=None, tag="default"):
    """cargo build of the harness against the *current* /repo working tree."""
    with Lock("cargo-" + tag):
        lock_src = os.path.join(REPO, "Cargo.lock")
        lock_dst = os.path.join(HARNESS, "Cargo.lock")
        if not os.path.exists(lock_dst) or tag == "default":
            # start from the repository's lock file so that no resolution against the (absent) index is needed
            if not os.path.exists(lock_dst):
                shutil.copy(lock_src, lock_dst)
        cmd = ["cargo", "build", "--profile", "verif", "--offline"]
        tdir = os.path.join(HARNESS, "target" if tag == "default" else f"target-{tag}")
        if features is not None:
            cmd += features
        env = {"RUSTFLAGS": "--cfg zerokit_verif -Awarnings", "CARGO_TARGET_DIR": tdir}
        rc, out = sh(cmd, cwd=HARNESS, env=env, timeout=3000)
        if rc != 0 and "Cargo.lock" in out:
            shutil.copy(lock_src, lock_dst)
            rc, out = sh(cmd, cwd=HARNESS, env=env, timeout=3000)
    if rc != 0:
        raise Abort("harness does not build against /repo:\n" + out[-4000:])
    return os.path.join(tdir, "verif", "zkh")


CFGH = os.path.join(VERIF, "cfgh")
CFG_FEATURES = {"pm": ["--features", "pm"], "full": ["--features", "full"], "ark": ["--features", "ark"],
                "stateless": ["--features", "stateless"], "optimal": []}


def build_cfgh(configs):
    """C17: the configuration harness, once per feature set of `rln`, against the current /repo; returns {config: binary}"""
    res = {}
    with Lock("cargo-cfgh"):
        lock_dst = os.path.join(CFGH, "Cargo.lock")
        if not os.path.exists(lock_dst):
            shutil.copy(os.path.join(REPO, "Cargo.lock"), lock_dst)
        tdir = os.path.join(CFGH, "target")
        for c in configs:
            cmd = ["cargo", "build", "--profile", "verif", "--offline"] + CFG_FEATURES[c]
            rc, out = sh(cmd, cwd=CFGH, env={"RUSTFLAGS": "-Awarnings", "CARGO_TARGET_DIR": tdir}, timeout=3000)
            if rc != 0:
                res[c] = (None, out[-1500:])
                continue
            dst = os.path.join(tdir, f"cfgh-{c}")
            shutil.copy(os.path.join(tdir, "verif", "cfgh"), dst)
            res[c] = (dst, "")
    return res


def run_bin(binary, lines, timeout=3000):
    data = ("\n".join(lines) + "\n").encode()
    p = subprocess.run([binary], input=data, stdout=subprocess.PIPE, stderr=subprocess.PIPE, timeout=timeout)
    out = p.stdout.decode().splitlines()
    if len(out) < len(lines):
        out = out + ["abort"] + ["not-run"] * (len(lines) - len(out) - 1)
    return out[: len(lines)]


def strip_lean_comments(src):
    src = re.sub(r"/-.*?-/", "", src, flags=re.S)
    return re.sub(r"--[^\n]*", "", src)


def forbidden_tokens():
    hits = []
    for root in ("ZkModel", "ZkProofs"):
        for dp, _, fs in os.walk(os.path.join(LEAN, root)):
            for f in fs:
                if f.endswith(".lean"):
                    p = os.path.join(dp, f)
                    code = strip_lean_comments(open(p).read())
                    for i, line in enumerate(code.splitlines()):
                        if FORBIDDEN.search(line):
                            hits.append(f"{os.path.relpath(p, LEAN)}: {line.strip()[:120]}")
    return hits


def audit_axioms(module, theorems):
    """#print axioms for each property theorem; returns {thm: [axioms] | None(if missing)}"""
    path = os.path.join(LEAN, f".audit_{module.replace('.', '_')}.lean")
    with open(path, "w") as f:
        f.write(f"import {module}\n")
        for t in theorems:
            f.write(f"#print axioms {t}\n")
    with Lock("lake"):
        rc, out = sh(["lake", "env", "lean", path], cwd=LEAN, timeout=1200)
    os.remove(path)
    res = {}
    for t in theorems:
        m = re.search(r"'" + re.escape(t) + r"' depends on axioms: \[(.*?)\]", out, re.S)
        if m:
            res[t] = [x.strip() for x in m.group(1).replace("\n", " ").split(",") if x.strip()]
        elif re.search(r"'" + re.escape(t) + r"' does not depend on any axioms", out):
            res[t] = []
        else:
            res[t] = None
    return res, out


# ----------------------------------------------------------------------------- running the three sides

def run_impl(zkh, lines, args=("run",), env=None, timeout=3000):
    data = ("\n".join(lines) + "\n").encode()
    e = dict(os.environ)
    if env:
        e.update(env)
    p = subprocess.run([zkh] + list(args), input=data, stdout=subprocess.PIPE, stderr=subprocess.PIPE, env=e, timeout=timeout)
    out = p.stdout.decode().splitlines()
    if len(out) < len(lines):
        # the process died (abort / stack overflow / alloc failure): everything after the last answer is a crash
        out = out + ["abort"] + ["not-run"] * (len(lines) - len(out) - 1)
    return out[: len(lines)]


def run_lean(mode, lines, timeout=3000):
    data = ("\n".join(lines) + "\n").encode()
    p = subprocess.run([ZKMODEL, mode], input=data, stdout=subprocess.PIPE, stderr=subprocess.PIPE, timeout=timeout)
    out = p.stdout.decode().splitlines()
    if len(out) < len(lines):
        out = out + ["model-crash"] * (len(lines) - len(out))
    return out[: len(lines)]


# ----------------------------------------------------------------------------- known findings

def load_findings(pid):
    """open findings of a property: `open: property=<id> id=<fid> {json}` lines of known_findings.txt"""
    p = os.path.join(VERIF, "known_findings.txt")
    res = []
    if os.path.exists(p):
        for line in open(p):
            line = line.strip()
            m = re.match(r"open: property=(\S+) id=(\S+) (\{.*\})$", line)
            if m and m.group(1) == pid:
                d = json.loads(m.group(3))
                d.update({"property": pid, "id": m.group(2), "status": "open"})
                res.append(d)
    return res


# ----------------------------------------------------------------------------- a run

class Run:
    def __init__(self, pid, tier, seed, t0):
        self.pid, self.tier, self.seed, self.t0 = pid, tier, seed, t0
        self.rng = random.Random(f"{pid}/{seed}")
        self.violations = []       # dicts: kind, replay, no_input
        self.known_hits = []       # (finding id, text)
        self.notes = []
        self.obligations = []      # dicts: name, ok, detail
        self.cov = {"evaluations": 0, "distinct_nontrivial": 0, "samples": [], "traces_validated_against_impl": 0,
                    "impl_vs_spec_failures": 0, "impl_vs_model_disagreements": 0, "histogram": {}}
        self.rules = []
        self.assumptions = []
        self.level = "proof"
        self.findings = load_findings(pid)
        self.zkh = None
        self._distinct = set()
        os.makedirs(EVID, exist_ok=True)
        os.makedirs(REPLAYS, exist_ok=True)

    # --- bookkeeping
    def note(self, s):
        self.notes.append(s)
        print(f"[{self.pid}] {s}", flush=True)

    def hist(self, key, n=1):
        self.cov["histogram"][key] = self.cov["histogram"].get(key, 0) + n

    def count_case(self, case, nontrivial=True):
        self.cov["evaluations"] += 1
        if nontrivial:
            h = hashlib.sha1(repr(case).encode()).digest()[:8]
            if h not in self._distinct:
                self._distinct.add(h)
                self.cov["distinct_nontrivial"] += 1

    def sample(self, s):
        if len(self.cov["samples"]) < 12:
            self.cov["samples"].append(s)

    # --- obligations (Lean)
    def prove(self, module, theorems=None, extra_targets=()):
        """Build the property's proof module(s) and audit the axioms of every listed theorem.
        `module` is a module name (with `theorems` a list) or a dict {module: [theorems]}."""
        mods = module if isinstance(module, dict) else {module: list(theorems or [])}
        rep = extract()
        self.cov["extracted"] = {k: (v if isinstance(v, str) else "ok") for k, v in rep.items()}
        for k, v in rep.items():
            if isinstance(v, str) and (v.startswith("NOT-RECOGNISED") or v.startswith("ERROR")):
                self.note(f"translator: {k}: {v}")
        self.cov["checker_cmd"] = f"cd {LEAN} && lake build {' '.join(mods)} && lake env lean <#print axioms of every listed theorem> (python3 check.py {self.pid})"
        allok = True
        for mod, thms in mods.items():
            ok, out = lake_build([mod] + list(extra_targets))
            if not ok:
                errs = re.findall(r"error: ([^\n]*)", out)
                for t in thms:
                    self.obligations.append({"name": f"{t}", "module": mod, "ok": False, "detail": "module does not build"})
                self.broken_obligation(mod, "; ".join(errs[:6]) or out[-1500:])
                allok = False
                continue
            ax, raw = audit_axioms(mod, thms)
            bad = []
            for t in thms:
                a = ax.get(t)
                if a is None:
                    self.obligations.append({"name": t, "module": mod, "ok": False, "detail": "theorem not found"})
                    bad.append(t)
                elif not set(a) <= ALLOWED_AXIOMS:
                    self.obligations.append({"name": t, "module": mod, "ok": False, "detail": f"axioms {a}"})
                    bad.append(t)
                else:
                    self.obligations.append({"name": t, "module": mod, "ok": True, "detail": f"axioms {a}"})
            if bad:
                allok = False
                self.broken_obligation(mod, "; ".join(f"{o['name']}: {o['detail']}" for o in self.obligations if not o["ok"]))
            if self.tier == "thorough":
                with Lock("lake"):
                    rc, o = sh(["lake", "env", "leanchecker", mod], cwd=LEAN, timeout=3000)
                self.cov.setdefault("leanchecker", {})[mod] = "ok" if rc == 0 else o[-500:]
                if rc != 0:
                    allok = False
                    self.broken_obligation(mod, "leanchecker rejects the module: " + o[-300:])
        bad = forbidden_tokens()
        if bad:
            allok = False
            self.obligations.append({"name": "no-forbidden-tokens", "ok": False, "detail": "; ".join(bad[:5])})
            self.broken_obligation("forbidden tokens", "; ".join(bad[:5]))
        else:
            self.obligations.append({"name": "no sorry/admit/axiom/native_decide/bv_decide/implemented_by/unsafe in ZkModel, ZkProofs", "ok": True, "detail": "source scan"})
        self.sample({"obligations": [o["name"] for o in self.obligations[:6]]})
        return allok

    def broken_obligation(self, module, detail):
        self._broken = getattr(self, "_broken", [])
        self._broken.append({"theorem_or_module": module, "detail": detail[:1500]})

    # --- implementation side
    def harness(self):
        if self.zkh is None:
            build_driver()
            self.zkh = build_harness()
        return self.zkh

    # --- differential run over independent sequences
    def differential(self, name, seqs, classify=None, spec=True, impl_args=("run",), shrink=True, nontrivial=None,
                     canon=None, env=None, spec_canon=None):
        """seqs: list of sequences (list of op lines); each sequence is self-contained.
        Compares implementation with S (the property oracle) and with M (the correspondence)."""
        zkh = self.harness()
        flat, owner = [], []
        for si, s in enumerate(seqs):
            for li, l in enumerate(s):
                flat.append(l)
                owner.append((si, li))
        if not flat:
            return
        impl = run_impl(zkh, flat, impl_args, env=env)
        # a crash that kills the harness process (abort across the FFI, stack overflow, allocation failure) loses the rest
        # of the batch: keep the crashed sequence as it is and re-run the sequences after it in a fresh process
        guard = 0
        while "not-run" in impl or (impl and impl[-1] == "abort"):
            g = impl.index("abort") if "abort" in impl else len(impl)
            if g >= len(impl):
                break
            si = owner[g][0]
            nxt = next((k for k in range(g, len(flat)) if owner[k][0] > si), None)
            if nxt is None or guard > 50:
                break
            guard += 1
            impl = impl[:nxt] + run_impl(zkh, flat[nxt:], impl_args, env=env)
            # mark the handled crash so that the loop looks for the next one
            impl[g] = "abort!"
        impl = ["abort" if x == "abort!" else x for x in impl]
        model = run_lean("model", flat)
        specl = run_lean("spec", flat) if spec else model
        if canon:
            impl = [canon(l, x) for l, x in zip(flat, impl)]
        self._last = {"flat": flat, "impl": impl, "model": model, "spec": specl}
        sc = spec_canon or (lambda line, x: x)
        per = {}
        for k, (si, li) in enumerate(owner):
            per.setdefault(si, []).append((flat[k], impl[k], model[k], specl[k], sc(flat[k], impl[k])))
        stats = {"sequences": len(seqs), "ops": len(flat), "impl_vs_spec": 0, "impl_vs_model": 0, "known": 0}
        for si, rows in per.items():
            seq = [r[0] for r in rows]
            self.count_case(tuple(seq), nontrivial(seq) if nontrivial else True)
            self.cov["traces_validated_against_impl"] += 1
            for r in rows:
                w = r[0].split(' ')
                self.hist(f"{name}:op:{' '.join(w[:2]) if w[0] in ('rln', 'tree', 'op', 'opu', 'ffi', 'meta') and len(w) > 1 else w[0]}")
                cls = r[1] if r[1] in ('err', 'panic', 'abort', 'accept', 'reject-false', 'reject-err', 'n/a', 'true', 'false') else 'ok'
                self.hist(f"{name}:impl:{cls}")
            bad_spec = next((i for i, r in enumerate(rows) if "n/a" not in (r[4], r[3]) and r[4] != r[3]), None)
            bad_model = next((i for i, r in enumerate(rows) if "n/a" not in (r[1], r[2]) and r[1] != r[2]), None)
            if bad_spec is not None:
                fid = classify(seq, bad_spec, rows[bad_spec][1], rows[bad_spec][3]) if classify else None
                if fid:
                    stats["known"] += 1
                    self.known(fid, f"{name}: {seq[bad_spec]}")
                    continue
                stats["impl_vs_spec"] += 1
                self.cov["impl_vs_spec_failures"] += 1
                if len([v for v in self.violations if not v.get("no_input")]) < 3:
                    small = self.shrink(seq, classify, impl_args, env, canon, spec_canon) if shrink else seq
                    self.report_input(name, small)
            elif bad_model is not None:
                stats["impl_vs_model"] += 1
                self.cov["impl_vs_model_disagreements"] += 1
                self._corr = getattr(self, "_corr", [])
                if len(self._corr) < 5:
                    r = rows[bad_model]
                    self._corr.append({"stream": name, "sequence": seq[: bad_model + 1][-12:], "impl": r[1], "model": r[2], "spec": r[3]})
        self.cov.setdefault("streams", {})[name] = stats
        if seqs:
            k = self.rng.randrange(len(seqs))
            self.sample({"stream": name, "ops": seqs[k][:8], "impl": [r[1][:90] for r in per[k]][:8]})
        return stats

    def fails(self, seq, classify, impl_args, env, canon, spec_canon=None):
        impl = run_impl(self.zkh, seq, impl_args, env=env)
        if canon:
            impl = [canon(l, x) for l, x in zip(seq, impl)]
        if spec_canon:
            impl = [spec_canon(l, x) for l, x in zip(seq, impl)]
        specl = run_lean("spec", seq)
        for i, (a, b) in enumerate(zip(impl, specl)):
            if "n/a" not in (a, b) and a != b:
                if classify and classify(seq, i, a, b):
                    return None
                return i
        return None

    def shrink(self, seq, classify, impl_args, env, canon, spec_canon=None, budget=60):
        cur = list(seq)
        i = self.fails(cur, classify, impl_args, env, canon, spec_canon)
        if i is None:
            return seq
        cur = cur[: i + 1]
        changed = True
        while changed and budget > 0:
            changed = False
            # never drop the first op (constructor) nor the last (the observation that fails)
            for k in range(len(cur) - 2, 0, -1):
                cand = cur[:k] + cur[k + 1:]
                budget -= 1
                j = self.fails(cand, classify, impl_args, env, canon, spec_canon)
                if j is not None:
                    cur = cand[: j + 1]
                    changed = True
                    break
                if budget <= 0:
                    break
        return cur

    def report_input(self, stream, seq, extra=None):
        impl = run_impl(self.zkh, seq)
        specl = run_lean("spec", seq)
        model = run_lean("model", seq)
        obj = {"property": self.pid, "kind": "impl-vs-spec", "seed": self.seed, "stream": stream, "ops": seq,
               "observed_impl": impl, "expected_spec": specl, "model": model}
        if extra:
            obj.update(extra)
        self.violation(obj)

    def violation(self, obj, no_input=False):
        n = len(self.violations)
        path = os.path.join(REPLAYS, f"{self.pid}_{self.seed}_{n}.json")
        with open(path, "w") as f:
            json.dump(obj, f, indent=1)
        self.violations.append({"replay": path, "no_input": no_input, "kind": obj.get("kind")})

    def known(self, fid, text):
        if fid not in [k[0] for k in self.known_hits]:
            self.known_hits.append((fid, text))

    def confirm_findings(self, runner):
        """Replay every open finding's witness; `runner(finding) -> (still_fails_same_way: bool, detail)`.
        A witness that no longer fails is reported as a note (the finding may have been fixed);
        one that fails *differently* is a violation."""
        for f in self.findings:
            if f.get("status") != "open":
                continue
            try:
                same, detail = runner(f)
            except Exception as e:  # pragma: no cover
                same, detail = None, f"runner error {e!r}"
            if same is True:
                self.known(f["id"], f["what"])
            elif same is False:
                self.note(f"open finding {f['id']} no longer reproduces as recorded: {detail}")
                if detail and detail.startswith("DIFFERENT"):
                    self.violation({"property": self.pid, "kind": "impl-vs-spec", "finding": f["id"], "detail": detail,
                                    "witness": f.get("witness")})

    def confirm_witnesses(self, canon=None):
        """replay the recorded witnesses of every open finding of this property on the implementation:
        still failing in the recorded way -> KNOWN-FINDING; behaving as specified -> note (possibly fixed);
        failing differently -> violation"""
        zkh = self.harness()

        def runner(f):
            diff = []
            same = 0
            for w in f.get("witnesses", []):
                impl = run_impl(zkh, w["ops"])
                if canon:
                    impl = [canon(l, x) for l, x in zip(w["ops"], impl)]
                got = impl[w["at"]]
                if got == w["observed"]:
                    same += 1
                elif got != w.get("ideal"):
                    diff.append({"ops": w["ops"][-2:], "recorded": w["observed"][:120], "now": got[:120]})
            if diff:
                return False, "DIFFERENT: " + json.dumps(diff[:2])
            if same == 0:
                return False, "every recorded witness now behaves as specified"
            return True, ""
        self.confirm_findings(runner)

    # --- finish
    def finish(self):
        broken = getattr(self, "_broken", [])
        corr = getattr(self, "_corr", [])
        have_input = [v for v in self.violations if not v["no_input"]]
        if (broken or corr) and not have_input:
            # the proof or the correspondence no longer checks and the search found no failing input
            obj = {"property": self.pid, "kind": "obligation", "seed": self.seed,
                   "broken_obligations": broken, "correspondence_disagreements": corr,
                   "note": "the property is no longer shown to hold; no concrete failing input was found by the search"}
            self.violation(obj, no_input=True)
        elif broken or corr:
            # attach what broke to the first concrete replay
            try:
                p = have_input[0]["replay"]
                o = json.load(open(p))
                o["broken_obligations"] = broken
                o["correspondence_disagreements"] = corr
                json.dump(o, open(p, "w"), indent=1)
            except Exception:
                pass
        for fid, text in self.known_hits:
            f = next((x for x in self.findings if x["id"] == fid), None)
            what = f["what"] if f else text
            print(f"KNOWN-FINDING: property={self.pid} {fid}: {what}", flush=True)
        self.write_evidence()
        rc = 0
        for v in self.violations:
            tail = " no-failing-input-found" if v["no_input"] else ""
            print(f"VIOLATION property={self.pid} replay={v['replay']}{tail}", flush=True)
            rc = 1
        if rc == 0:
            print(f"[{self.pid}] ok: {sum(1 for o in self.obligations if o['ok'])}/{len(self.obligations)} obligations, "
                  f"{self.cov['evaluations']} cases, {time.time() - self.t0:.1f}s", flush=True)
        return rc

    def write_evidence(self, internal_error=None):
        cov = dict(self.cov)
        cov["obligations"] = len(self.obligations)
        cov["discharged"] = sum(1 for o in self.obligations if o["ok"])
        cov["obligation_list"] = self.obligations
        cov.setdefault("checker_cmd", f"python3 check.py {self.pid}")
        cov["trusted_base"] = TRUSTED_BASE
        cov["rule"] = " | ".join(self.rules) if self.rules else "see streams"
        cov["known_findings_confirmed"] = [k[0] for k in self.known_hits]
        cov["notes"] = self.notes[-20:]
        if internal_error:
            cov["internal_error"] = internal_error
        if cov["evaluations"] == 0:
            cov["evaluations"] = 0
        ev = {"property_id": self.pid, "tier": self.tier, "seed": self.seed, "level": self.level, "coverage": cov,
              "assumptions": self.assumptions, "wall_s": round(time.time() - self.t0, 2), "violations": len(self.violations)}
        def clamp(x, n=600):
            # evidence is a record of what was covered, not a transcript: long op lines (megabyte messages, long lists) are cut
            if isinstance(x, str):
                return x if len(x) <= n else x[:n] + f"…(+{len(x) - n} chars)"
            if isinstance(x, list):
                return [clamp(v, n) for v in x[:200]]
            if isinstance(x, tuple):
                return [clamp(v, n) for v in x[:200]]
            if isinstance(x, dict):
                return {k: clamp(v, 4000 if k in ("rule",) else n) for k, v in x.items()}
            return x
        ev = clamp(ev)
        with open(os.path.join(EVID, f"{self.pid}.json"), "w") as f:
            json.dump(ev, f, indent=1)


# ----------------------------------------------------------------------------- setup / replay

def setup():
    t0 = time.time()
    try:
        print("[setup] translator", extract())
    except Abort as e:
        print(e)
        return 1
    ok, out = lake_build([], timeout=6000)
    print(out[-1500:])
    if not ok:
        print("[setup] lake build failed")
        return 1
    try:
        build_harness()
    except Abort as e:
        print(e)
        return 1
    for c, (b, err) in build_cfgh(list(CFG_FEATURES)).items():
        print(f"[setup] configuration harness {c}: {'ok' if b else 'FAILED ' + err[-300:]}")
    print(f"[setup] done in {time.time() - t0:.0f}s")
    return 0


def canon_all(line, x):
    """canonicalisation used by --replay: the union of what the checks apply"""
    if x.startswith("same "):
        x = x[5:]
    w = line.split(" ")
    if len(w) >= 2 and w[0] in ("rln", "lock") and w[1] in ("prove_req", "prove_wit", "prove_ext") and x.startswith("ok ") and len(x) >= 3 + 256 and " " not in x[3:]:
        x = "ok " + (x[3 + 256:] or "-")
    if len(w) >= 2 and w[0] in ("rln", "lock") and w[1] == "prove_raw" and x.startswith("ok ") and len(x) == 3 + 256:
        x = "ok -"
    if w[0] == "calcwit" and x.startswith("["):
        x = x.split("]")[0] + "]"
    if w[0] == "graph" and " bytes=" in x:
        x = x.split(" bytes=")[0]
    return x


def replay(path):
    o = json.load(open(path))
    pid = o.get("property")
    print(f"replay {path} (property {pid}, kind {o.get('kind')}, stream {o.get('stream')})")
    if o.get("detail"):
        print("recorded: " + str(o["detail"])[:600])
    if o.get("kind") == "obligation":
        print("theorem(s) / correspondence stream(s) that no longer check:")
        print(json.dumps(o.get("broken_obligations"), indent=1)[:3000])
        print(json.dumps(o.get("correspondence_disagreements"), indent=1)[:3000])
        return 1
    ops = o.get("ops") or []
    args = o.get("impl_args") or ["run"]
    if not ops or args[0] not in ("run",):
        # produced by a special mode (several builds, thread pools, the reference generator): re-run the property's check
        print(f"this replay is re-executed by the check itself: python3 check.py {pid}")
        return 1
    build_driver()
    zkh = build_harness()
    impl = [canon_all(l, x) for l, x in zip(ops, run_impl(zkh, ops, tuple(args)))]
    specl = run_lean("spec", ops)
    model = run_lean("model", ops)
    bad = False
    for l, a, b, m in zip(ops, impl, specl, model):
        a2 = "reject" if (a in ("reject-false", "reject-err") and b in ("reject", "accept")) else a
        differs = not (a2 == b or "n/a" in (a2, b))
        mark = "!!" if differs else ("~~" if ("n/a" not in (a, m) and a != m) else "  ")
        bad |= differs
        print(f"{mark} {l[:160]}\n     impl : {a[:200]}\n     spec : {b[:200]}" + (f"\n     model: {m[:200]}" if mark != "  " else ""))
    print(f"replay of {pid}: {'the implementation contradicts the specification on this input' if bad else 'no difference on the current tree (not reproduced)'}")
    return 1 if bad else 0
