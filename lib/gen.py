"""Input generators shared by the checks: boundary classes for field elements, positions, byte lengths."""
P = 21888242871839275222246405745257275088548364400416034343698204186575808495617

FIELD_BOUNDARY = [0, 1, 2, 3, P - 1, P - 2, (P - 1) // 2, (P + 1) // 2, 2**64 - 1, 2**64, 2**128, 2**253, 2**253 + 1, 2**254 - 1 - P]


def _limbs(v):
    return [(v >> (64 * k)) & (2**64 - 1) for k in range(4)]


def _of_limbs(l):
    return sum(x << (64 * k) for k, x in enumerate(l))


def limb_boundary(M=P):
    """values on which a limb-by-limb (lexicographic) comparison with M takes each of its branches: equal to M in the top limbs,
    one above / one below M in limb k, with all-zero / all-one / M's own lower limbs — and the same around every lower limb of M
    used in the WRONG row (a row that compares limb k with M's limb j != k)"""
    m = _limbs(M)
    out = set()
    for k in range(4):
        for d in (-1, 1):
            for low in ("zero", "ones", "same"):
                l = list(m)
                l[k] = (m[k] + d) % 2**64
                for j in range(k):
                    l[j] = 0 if low == "zero" else 2**64 - 1 if low == "ones" else m[j]
                out.add(_of_limbs(l))
        for j in range(4):
            if j != k:
                for d in (-1, 0, 1):
                    l = list(m)
                    l[k] = (m[j] + d) % 2**64       # limb k carries the value of M's limb j (+-1)
                    for i in range(k):
                        l[i] = 5
                    out.add(_of_limbs(l))
    return sorted(out)


# special in the INTERNAL (Montgomery) representation: k * R^-1 and k * R mod p have a tiny / structured limb pattern inside arkworks
_R = pow(2, 256, P)
_RINV = pow(_R, P - 2, P)
MONTGOMERY_SMALL = [(k * _RINV) % P for k in (1, 2, 3, 7, 2**32, 2**63, 2**64 - 1)] + [(k * _R) % P for k in (1, 2, 3)]
# canonical values just below p at limb granularity (for range / canonicity checks written limb by limb)
NEAR_MODULUS = [v for v in limb_boundary(P) if v < P]
ABOVE_MODULUS = [v for v in limb_boundary(P) if P <= v < 2**256]
FIELD_BOUNDARY_EXT = FIELD_BOUNDARY + MONTGOMERY_SMALL + NEAR_MODULUS[:: max(1, len(NEAR_MODULUS) // 12)]


def decimal_special(rng):
    """values special in the DECIMAL representation (the circom input file prints decimal numerals; printers that work in
    chunks of 9 / 18 / 19 digits — one u32 / u64 per chunk — have their boundaries here): powers of ten and their neighbours,
    numerals with all-zero digit groups below a non-zero one, long runs of zero digits, repdigits"""
    r = rng.random()
    if r < 0.25:
        k = rng.choice([1, 2, 8, 9, 10, 17, 18, 19, 20, 27, 36, 37, 38, 39, 54, 57, 58, 72, 76])
        return (10**k + rng.choice([-1, 0, 0, 1])) % P
    if r < 0.6:
        g = rng.choice([9, 18, 19])                      # chunk size
        n = rng.randint(2, 77 // g + 1)
        groups = [rng.choice([0, 0, 1, rng.randrange(10**g), 10**g - 1, 10**(g - 1)]) for _ in range(n)]
        groups[-1] = groups[-1] or rng.randint(1, 9)
        return sum(x * 10**(g * i) for i, x in enumerate(groups)) % P
    if r < 0.8:
        m = rng.randint(1, 76)
        return (rng.randint(1, 9) * 10**m + rng.randrange(10**rng.randint(0, m))) % P
    d = rng.randint(1, 9)
    return int(str(d) * rng.randint(1, 76)) % P


def fr_hex(v):
    return hex(v)


def rand_fr(rng, boundary_p=0.3):
    if rng.random() < boundary_p:
        return rng.choice(FIELD_BOUNDARY) % P
    k = rng.choice([8, 64, 128, 200, 254])
    return rng.getrandbits(k) % P


def bytes_hex(b):
    return b.hex() if b else "-"


def le(v, n):
    return int(v).to_bytes(n, "little")


def vec_fr_bytes(vals):
    return le(len(vals), 8) + b"".join(le(v, 32) for v in vals)


def vec_u8_bytes(bs):
    return le(len(bs), 8) + bytes(bs)


def neighbours(seqs, rng, n, min_tokens=2, valid=None):
    """history sequences for streams of PURE one-line operations: `[L, L', L]` where L' is L with one token (or one element of a
    comma-separated token) taken from another line of the same operation and shape. Model and specification evaluate each line
    on its own, so any dependence of the implementation on what it evaluated before (a memo keyed on too little, a reused
    buffer, a stale static) shows as a difference on the third or second line."""
    singles = [s[0] for s in seqs if len(s) == 1]
    by_shape = {}
    for l in singles:
        w = l.split(" ")
        by_shape.setdefault((w[0], len(w)), []).append(w)
    out = []
    shapes = [k for k, v in by_shape.items() if len(v) >= 2 and k[1] >= min_tokens]
    if not shapes:
        return out
    for _ in range(n):
        k = rng.choice(shapes)
        a, b = rng.sample(by_shape[k], 2)
        js = [j for j in range(1, k[1]) if a[j] != b[j]]
        if not js:
            continue
        j = rng.choice(js)
        v = list(a)
        if "," in a[j] and "," in b[j] and rng.random() < 0.5:
            ea, eb = a[j].split(","), b[j].split(",")
            i = rng.randrange(min(len(ea), len(eb)))
            ea[i] = eb[i]
            v[j] = ",".join(ea)
        else:
            v[j] = b[j]
        if v == a or (valid is not None and not valid(" ".join(v))):
            continue
        out.append([" ".join(a), " ".join(v), " ".join(a)])
    return out


def carry_pairs(rng, n=8):
    """operand pairs (a, b) whose limbs — in the canonical AND in the Montgomery representation — add up to exactly 2^64 - 1 in one
    limb while the limb below produces a carry (and the analogous borrow pattern): where a hand-written multi-limb add / sub loses
    a carry. Returned as canonical field elements."""
    out = []
    W = 2**64
    for _ in range(n):
        for j in (1, 2):                               # the limb whose sum is all ones, with a carry coming from limb j-1
            A = [rng.randrange(W) for _ in range(4)]
            B = [rng.randrange(W) for _ in range(4)]
            B[j - 1] = (W - A[j - 1] + rng.randrange(1, 1000)) % W if A[j - 1] else rng.randrange(W)   # A[j-1] + B[j-1] >= 2^64
            B[j] = (W - 1 - A[j]) % W                                                                  # A[j] + B[j] = 2^64 - 1
            A[3] %= 2**60; B[3] %= 2**60                                                               # both below p
            a, b = _of_limbs(A) % P, _of_limbs(B) % P
            out.append((a, b))                                        # canonical limbs have the pattern
            out.append(((a * _RINV) % P, (b * _RINV) % P))            # the MONTGOMERY forms (x * R mod p) have the pattern
    return out
