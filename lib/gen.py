"""Input generators shared by the checks: boundary classes for field elements, positions, byte lengths."""
P = 21888242871839275222246405745257275088548364400416034343698204186575808495617

FIELD_BOUNDARY = [0, 1, 2, 3, P - 1, P - 2, (P - 1) // 2, (P + 1) // 2, 2**64 - 1, 2**64, 2**128, 2**253, 2**253 + 1, 2**254 - 1 - P]


def fr_hex(v):
    return hex(v)


def rand_fr(rng, boundary_p=0.3):
    if rng.random() < boundary_p:
        return rng.choice(FIELD_BOUNDARY) % P
    k = rng.choice([8, 64, 128, 200, 254])
    return rng.getrandbits(k) % P


def bytes_hex(b):
    return b.hex() if b else "-"


def le(v, n):
    return int(v).to_bytes(n, "little")


def vec_fr_bytes(vals):
    return le(len(vals), 8) + b"".join(le(v, 32) for v in vals)


def vec_u8_bytes(bs):
    return le(len(bs), 8) + bytes(bs)


def neighbours(seqs, rng, n, min_tokens=2, valid=None):
    """history sequences for streams of PURE one-line operations: `[L, L', L]` where L' is L with one token (or one element of a
    comma-separated token) taken from another line of the same operation and shape. Model and specification evaluate each line
    on its own, so any dependence of the implementation on what it evaluated before (a memo keyed on too little, a reused
    buffer, a stale static) shows as a difference on the third or second line."""
    singles = [s[0] for s in seqs if len(s) == 1]
    by_shape = {}
    for l in singles:
        w = l.split(" ")
        by_shape.setdefault((w[0], len(w)), []).append(w)
    out = []
    shapes = [k for k, v in by_shape.items() if len(v) >= 2 and k[1] >= min_tokens]
    if not shapes:
        return out
    for _ in range(n):
        k = rng.choice(shapes)
        a, b = rng.sample(by_shape[k], 2)
        js = [j for j in range(1, k[1]) if a[j] != b[j]]
        if not js:
            continue
        j = rng.choice(js)
        v = list(a)
        if "," in a[j] and "," in b[j] and rng.random() < 0.5:
            ea, eb = a[j].split(","), b[j].split(",")
            i = rng.randrange(min(len(ea), len(eb)))
            ea[i] = eb[i]
            v[j] = ",".join(ea)
        else:
            v[j] = b[j]
        if v == a or (valid is not None and not valid(" ".join(v))):
            continue
        out.append([" ".join(a), " ".join(v), " ".join(a)])
    return out
