"""Input generators shared by the checks: boundary classes for field elements, positions, byte lengths."""
P = 21888242871839275222246405745257275088548364400416034343698204186575808495617

FIELD_BOUNDARY = [0, 1, 2, 3, P - 1, P - 2, (P - 1) // 2, (P + 1) // 2, 2**64 - 1, 2**64, 2**128, 2**253, 2**253 + 1, 2**254 - 1 - P]


def fr_hex(v):
    return hex(v)


def rand_fr(rng, boundary_p=0.3):
    if rng.random() < boundary_p:
        return rng.choice(FIELD_BOUNDARY) % P
    k = rng.choice([8, 64, 128, 200, 254])
    return rng.getrandbits(k) % P


def bytes_hex(b):
    return b.hex() if b else "-"


def le(v, n):
    return int(v).to_bytes(n, "little")


def vec_fr_bytes(vals):
    return le(len(vals), 8) + b"".join(le(v, 32) for v in vals)


def vec_u8_bytes(bs):
    return le(len(bs), 8) + bytes(bs)
