"""Synthetic snarkjs key files for the `zkey` stream of C17 (model: lean/ZkModel/Zkey.lean, code: rln/src/circuit/zkey.rs).

A file is built from a description (header numbers, points, coefficient records, section order) and then possibly
damaged in one way an independent writer or a transport could (truncation, a missing / duplicated / unknown section,
a wrong length field, a record outside the matrices, a point off the curve, a magic that is not text).  Sizes stay
tiny (domain <= 16) because the reader allocates `2 * domain_size` rows before it reads a record."""
from lib.gen import P

Q = 21888242871839275222246405745257275088696311157297823662689037894645226208583
R = 2 ** 256


def u32(v): return (v % 2 ** 32).to_bytes(4, "little")
def u64(v): return (v % 2 ** 64).to_bytes(8, "little")
def big(v): return (v % 2 ** 256).to_bytes(32, "little")


G1_ZERO = (0, 0)
G1_GEN = (1 * R % Q, 2 * R % Q)                     # (1, 2) in Montgomery form
# 2·G = (1368015179489954701390400359078579693043519447331113978918064868415326638035, 9918110051302171585080402603319702774565515993150576347155970296011118125764)
G1_DBL = (1368015179489954701390400359078579693043519447331113978918064868415326638035 * R % Q,
          9918110051302171585080402603319702774565515993150576347155970296011118125764 * R % Q)
G1_OFF = (1 * R % Q, 3 * R % Q)                     # (1, 3): not on y^2 = x^3 + 3
G2_ZERO = (0, 0, 0, 0)


def g1(p): return big(p[0]) + big(p[1])
def g2(p): return b"".join(big(c) for c in p)


def build(d):
    """d: dict with n_vars, n_public, domain, vk (6 points), sec3,5,6,8,9 (lists of G1), sec7 (list of G2),
    coefs [(matrix, constraint, signal, raw)], ncoefs (declared count), order (list of section ids incl. extras),
    magic (4 bytes), declared (number of sections declared), lens {id: length field override}"""
    body = {}
    body[1] = u32(1)
    body[2] = (u32(32) + big(Q) + u32(32) + big(P) + u32(d["n_vars"]) + u32(d["n_public"]) + u32(d["domain"])
               + g1(d["vk"][0]) + g1(d["vk"][1]) + g2(d["vk"][2]) + g2(d["vk"][3]) + g1(d["vk"][4]) + g2(d["vk"][5]))
    body[3] = b"".join(g1(p) for p in d["sec3"])
    body[4] = u32(d["ncoefs"]) + b"".join(u32(m) + u32(c) + u32(s) + big(v) for (m, c, s, v) in d["coefs"])
    body[5] = b"".join(g1(p) for p in d["sec5"])
    body[6] = b"".join(g1(p) for p in d["sec6"])
    body[7] = b"".join(g2(p) for p in d["sec7"])
    body[8] = b"".join(g1(p) for p in d["sec8"])
    body[9] = b"".join(g1(p) for p in d["sec9"])
    body[10] = u32(0)
    out = d["magic"] + u32(1) + u32(d["declared"])
    seen = set()
    for sid in d["order"]:
        if sid in body and sid not in seen:
            b = body[sid]
        elif sid in body:
            # a second section with an id already used: different content, must be ignored (the first one counts)
            b = bytes((x + 1) % 256 for x in body[sid][:40]) + body[sid][40:]
        else:
            b = bytes([sid % 256]) * (sid % 7)
        seen.add(sid)
        ln = d["lens"].get(sid, len(b))
        out += u32(sid) + u64(ln) + b
    return out


FR_VALUES = [0, 1, 2, P - 1, P - 2, (P - 1) // 2, 2 ** 64 - 1, 2 ** 128, 2 ** 253, R % P, R * R % P, pow(R, -1, P), 3 * R * R % P]


def valid(rng):
    n_public = rng.choice([0, 1, 2, 5])
    n_vars = n_public + 1 + rng.choice([0, 1, 3, 6])
    domain = rng.choice([1, 2, 4, 8, 16])
    pt = lambda: rng.choice([G1_ZERO, G1_ZERO, G1_GEN, G1_DBL])
    ncons = rng.randint(1, domain)                      # constraints incl. the public-input rows
    coefs = []
    for _ in range(rng.randint(0, 14)):
        coefs.append((rng.choice([0, 0, 1]), rng.randrange(ncons), rng.randrange(n_vars),
                      rng.choice(FR_VALUES + [rng.randrange(P), rng.randrange(P)])))
    order = list(range(1, 11))
    if rng.random() < 0.7:
        rng.shuffle(order)
    return {"n_vars": n_vars, "n_public": n_public, "domain": domain,
            "vk": [pt(), pt(), G2_ZERO, G2_ZERO, pt(), G2_ZERO],
            "sec3": [pt() for _ in range(n_public + 1)], "sec5": [pt() for _ in range(n_vars)],
            "sec6": [pt() for _ in range(n_vars)], "sec7": [G2_ZERO for _ in range(n_vars)],
            "sec8": [pt() for _ in range(n_vars - n_public - 1)], "sec9": [pt() for _ in range(domain)],
            "coefs": coefs, "ncoefs": len(coefs), "order": order, "magic": b"zkey", "declared": len(order), "lens": {}}


DEVIATIONS = ["none", "none", "truncate", "missing", "duplicate", "unknown", "len-short", "len-long", "len-negative",
              "len-huge", "declared-more", "declared-fewer", "matrix-2", "constraint-out", "constraint-edge", "offcurve",
              "magic-bytes", "ncoefs-more", "ncoefs-fewer", "npublic-big", "nvars-small", "public-rows", "empty", "repeat-row"]


def deviate(rng, d, kind):
    """returns (description, bytes)"""
    if kind == "missing":
        sid = rng.choice([2, 3, 4, 5, 6, 7, 8, 9, 1, 10])
        d["order"] = [s for s in d["order"] if s != sid]; d["declared"] = len(d["order"])
    elif kind == "duplicate":
        sid = rng.choice([2, 4, 3, 9]); k = rng.randrange(len(d["order"]) + 1)
        d["order"].insert(k, sid); d["declared"] = len(d["order"])
    elif kind == "unknown":
        for _ in range(rng.randint(1, 3)):
            d["order"].insert(rng.randrange(len(d["order"]) + 1), rng.choice([0, 11, 12, 99, 2 ** 32 - 1]))
        d["declared"] = len(d["order"])
    elif kind == "len-short":
        d["lens"][rng.choice(d["order"])] = rng.choice([0, 1, 3, 17])
    elif kind == "len-long":
        d["lens"][rng.choice(d["order"])] = rng.choice([5000, 10 ** 6, 2 ** 31, 2 ** 40])
    elif kind == "len-negative":
        d["lens"][rng.choice(d["order"])] = rng.choice([2 ** 64 - 1, 2 ** 64 - 4, 2 ** 64 - 12, 2 ** 64 - 24, 2 ** 63, 2 ** 64 - 10 ** 6])
    elif kind == "len-huge":
        d["lens"][rng.choice(d["order"])] = rng.choice([2 ** 63 - 1, 2 ** 63 - 5, 2 ** 62])
    elif kind == "declared-more":
        d["declared"] += rng.choice([1, 2, 100])
    elif kind == "declared-fewer":
        d["declared"] = rng.randrange(0, d["declared"])
    elif kind == "matrix-2":
        k = rng.randrange(len(d["coefs"]) + 1)
        d["coefs"].insert(k, (rng.choice([2, 3, 2 ** 32 - 1]), 0, 0, 1)); d["ncoefs"] = len(d["coefs"])
    elif kind == "constraint-out":
        k = rng.randrange(len(d["coefs"]) + 1)
        d["coefs"].insert(k, (rng.choice([0, 1]), rng.choice([d["domain"], d["domain"] + 1, 2 ** 32 - 1]), 0, 1)); d["ncoefs"] = len(d["coefs"])
    elif kind == "constraint-edge":
        d["coefs"].append((rng.choice([0, 1]), d["domain"] - 1, rng.randrange(d["n_vars"]), rng.randrange(P))); d["ncoefs"] = len(d["coefs"])
    elif kind == "offcurve":
        where = rng.choice(["vk", "sec3", "sec5", "sec6", "sec8", "sec9"])
        if where == "vk":
            d["vk"][rng.choice([0, 1, 4])] = G1_OFF
        elif d[where]:
            d[where][rng.randrange(len(d[where]))] = G1_OFF
    elif kind == "magic-bytes":
        d["magic"] = rng.choice([b"\xff\xfe\xfd\xfc", b"zke\xff", b"\x80abc", b"ZKEY", b"\x00\x00\x00\x00", b"wtns"])
    elif kind == "ncoefs-more":
        d["ncoefs"] += rng.choice([1, 2, 1000])
    elif kind == "ncoefs-fewer":
        d["ncoefs"] = rng.randrange(0, d["ncoefs"] + 1)
    elif kind == "npublic-big":
        # more public inputs than the largest constraint index: `max_constraint_index - n_public` wraps
        d["n_public"] = d["domain"] + rng.choice([0, 1, 5]); d["n_vars"] = d["n_public"] + 2
        pt = G1_ZERO
        d["sec3"] = [pt] * (d["n_public"] + 1); d["sec5"] = [pt] * d["n_vars"]; d["sec6"] = [pt] * d["n_vars"]
        d["sec7"] = [G2_ZERO] * d["n_vars"]; d["sec8"] = [pt]
    elif kind == "nvars-small":
        d["n_vars"] = rng.choice([0, d["n_public"]])
        d["sec5"] = d["sec5"][:d["n_vars"]]; d["sec6"] = d["sec6"][:d["n_vars"]]; d["sec7"] = d["sec7"][:d["n_vars"]]
    elif kind == "public-rows":
        # the shape snarkjs writes: constraints 0..m-1, then one row per public input (incl. the constant) at the end
        m = max(1, d["domain"] - d["n_public"] - 1)
        d["coefs"] = [(rng.choice([0, 1]), rng.randrange(m), rng.randrange(d["n_vars"]), rng.randrange(P)) for _ in range(rng.randint(1, 10))]
        d["coefs"] += [(0, m + i, i, R * R % P) for i in range(min(d["n_public"] + 1, d["domain"] - m))]
        d["ncoefs"] = len(d["coefs"])
    elif kind == "empty":
        d["coefs"] = []; d["ncoefs"] = 0
    elif kind == "repeat-row":
        c = rng.randrange(d["domain"])
        d["coefs"] = [(rng.choice([0, 1]), c, rng.randrange(d["n_vars"]), v) for v in rng.sample(FR_VALUES, 5)] + d["coefs"]
        d["ncoefs"] = len(d["coefs"])
    b = build(d)
    if kind == "truncate":
        b = b[:rng.randrange(len(b))]
    return b


def lines(rng, n):
    out, kinds = [], {}
    for i in range(n):
        kind = DEVIATIONS[i % len(DEVIATIONS)] if i < 2 * len(DEVIATIONS) else rng.choice(DEVIATIONS)
        b = deviate(rng, valid(rng), kind)
        kinds[kind] = kinds.get(kind, 0) + 1
        out.append("zkey " + (b.hex() if b else "-"))
    return out, kinds
