"""Operation-sequence generators for the tree properties (C06, C07, C08, C15, C16)."""
from lib.gen import P, rand_fr

BACKENDS = ["full", "opt", "pm"]
# the two in-memory trees instantiated with ANOTHER hasher (default leaf 7, H(a,b) = 3a+5b+11): what is generic in the hasher must not
# assume that the default leaf is the field's zero / `Default::default()`
GENERIC = ["fullT", "optT"]


def hx(v):
    return hex(v)


# values that are special INSIDE a hash tree: the roots of empty subtrees of every height (what the trees cache as "default nodes"),
# filled by init_special() from the implementation's own hasher
SPECIAL = []


def init_special(zkh):
    from lib import core
    if SPECIAL:
        return
    lines = []
    for k in range(1, 21):
        lines += [f"tree new full {k}", "root"]
    out = core.run_impl(zkh, lines)
    for k in range(20):
        try:
            SPECIAL.append(int(out[2 * k + 1], 16))
        except ValueError:
            pass


def val(rng):
    r = rng.random()
    if SPECIAL and r < 0.06:
        return rng.choice(SPECIAL)      # a leaf that equals the hash of an empty subtree
    if r < 0.5:
        return rng.randint(1, 50)
    if r < 0.6:
        return 0          # writing the default value explicitly
    return rand_fr(rng)


def pos(rng, cap, nxt=None):
    r = rng.random()
    if r < 0.70:
        return rng.randrange(cap)
    if r < 0.80:
        return rng.choice([0, cap - 1, cap // 2, max(cap // 2 - 1, 0)])
    if r < 0.93:
        return rng.choice([cap, cap + 1, 2 * cap])
    return rng.choice([2**32, 2**63, 2**64 - 1, 2**64 - 2])


def vlist(vs):
    return ",".join(hx(v) for v in vs) if vs else "-"


def gen_mutator(rng, cap, kinds):
    k = rng.choice(kinds)
    if k == "set":
        return f"set {hx(pos(rng, cap))} {hx(val(rng))}"
    if k == "del":
        return f"del {hx(pos(rng, cap))}"
    if k == "app":
        return f"app {hx(val(rng))}"
    if k == "range":
        start = pos(rng, cap)
        if cap > 4096 and start < cap:
            # pmtree's fill_nodes visits (and rehashes) everything left of the range inside the
            # right-hand subtrees it enters: keep deep-tree ranges near the left edge
            start = rng.randrange(200)
        r = rng.random()
        if r < 0.1:
            n = 0
        elif r < 0.8:
            n = rng.randint(1, max(1, min(cap, 9)))
        else:
            n = rng.choice([cap, cap + 1, max(cap - start, 0) if start < cap else 1, max(cap - start + 1, 1) if start < cap else 2])
        n = min(n, 70)
        return f"range {hx(start)} {vlist([val(rng) for _ in range(n)])}"
    if k == "batch":
        return gen_batch(rng, cap)
    raise ValueError(k)


def gen_batch(rng, cap):
    """shape-directed: removals before / inside / after / interleaved with the written range,
    unsorted, duplicated, empty parts, out of range"""
    start = rng.randrange(cap) if rng.random() < 0.9 else rng.choice([cap, cap + 1])
    n = rng.choice([0, 1, 1, 2, 3, 4, min(cap, 6)])
    if rng.random() < 0.07:
        n = cap + 1
    shape = rng.choice(["none", "inside", "before", "after", "mixed", "single", "dup", "far", "edge", "edge", "edge"])
    rem = []
    lo, hi = start, start + n
    def clampi(x):
        return max(0, x)
    if shape == "inside" and n > 0:
        rem = [rng.randrange(lo, hi) for _ in range(rng.randint(1, 3))]
    elif shape == "before":
        rem = [clampi(lo - rng.randint(1, 4)) for _ in range(rng.randint(1, 3))]
    elif shape == "after":
        rem = [hi + rng.randint(0, 4) for _ in range(rng.randint(1, 3))]
    elif shape == "mixed":
        rem = [clampi(lo - rng.randint(0, 3)) for _ in range(rng.randint(1, 2))] + [hi + rng.randint(0, 3) for _ in range(rng.randint(0, 2))] + ([rng.randrange(lo, hi)] if n else [])
        rng.shuffle(rem)
    elif shape == "single":
        rem = [rng.randrange(cap)]
    elif shape == "dup":
        x = rng.randrange(cap)
        rem = [x, x] + ([rng.randrange(cap)] if rng.random() < 0.5 else [])
    elif shape == "edge":
        # the positions where an off-by-one in the range arithmetic would show
        edges = [x for x in (lo - 1, lo, lo + 1, hi - 1, hi, hi + 1, 0, cap - 1) if x >= 0]
        rem = rng.sample(edges, rng.randint(1, min(3, len(edges))))
    elif shape == "far":
        rem = [rng.choice([cap, cap + 3, 255])]
    rem = [min(r, 255) for r in rem]   # the RLN API carries removal indices as single bytes
    vs = [val(rng) for _ in range(n)]
    rl = ",".join(hx(r) for r in rem) if rem else "-"
    return f"batch {hx(start)} {vlist(vs)} {rl}"


def gen_seq(rng, backend, depth, nops, kinds, observe="obs", extra_obs=None, prefill=0.0):
    cap = 1 << depth
    seq = [f"tree new {backend} {depth}"]
    if rng.random() < prefill:
        # start from a (nearly) full tree of non-default leaves so that resets are observable
        k = rng.choice([cap, cap, cap - 1, max(cap // 2, 1)])
        seq.append(f"range 0x0 {vlist([rng.randint(1, 1 << 30) for _ in range(k)])}")
    for _ in range(nops):
        r0 = rng.random()
        prev = [l for l in seq if l.split(" ")[0] in ("set", "del", "app", "range", "batch")]
        if r0 < 0.02:
            seq.append(f"tree new {backend} {depth}")   # reset
        elif r0 < 0.10 and prev:
            seq.append(prev[-1])                         # the same call again with identical arguments (idempotence shortcuts)
        elif r0 < 0.14 and prev and prev[-1].startswith("set "):
            w = prev[-1].split(" ")                      # write, then write the DEFAULT value / delete / rewrite at the same position
            seq.append(rng.choice([f"set {w[1]} 0x0", f"del {w[1]}", f"set {w[1]} {w[2]}"]))
        else:
            seq.append(gen_mutator(rng, cap, kinds))
        if observe == "obs":
            seq.append("obs")
        else:
            seq.append("root")
            seq.append("next")
            if rng.random() < 0.5:
                seq.append(f"get {hx(pos(rng, cap))}")
            if rng.random() < 0.5:
                seq.append(f"sub {rng.randint(0, depth + 1)} {hx(pos(rng, cap))}")
        if extra_obs:
            seq += extra_obs(rng, cap, depth)
    return seq


def parse_batch(line):
    w = line.split(" ")
    start = int(w[1], 16)
    vs = [] if w[2] == "-" else w[2].split(",")
    rem = [] if w[3] == "-" else [int(x, 16) for x in w[3].split(",")]
    return start, vs, rem
