//! cfgh — one RLN instance of whatever configuration this binary was built with; line protocol on stdin.
use rln::circuit::Fr;
use rln::public::RLN;
use rln::utils::*;
use std::io::{BufRead, Cursor, Write};

fn hexb(b: &[u8]) -> String {
    if b.is_empty() { "-".into() } else { b.iter().map(|x| format!("{:02x}", x)).collect() }
}
fn unhex(s: &str) -> Option<Vec<u8>> {
    if s == "-" { return Some(vec![]); }
    (0..s.len() / 2).map(|i| u8::from_str_radix(&s[2 * i..2 * i + 2], 16).ok()).collect()
}
fn fr_of(s: &str) -> Option<Fr> {
    let s = s.strip_prefix("0x").unwrap_or(s);
    let mut b = vec![0u8; 32];
    let digits: Vec<u8> = s.bytes().collect();
    // little-endian bytes from big-endian hex
    let mut v: Vec<u8> = Vec::new();
    let padded = if digits.len() % 2 == 1 { format!("0{}", s) } else { s.to_string() };
    for i in (0..padded.len() / 2).rev() {
        v.push(u8::from_str_radix(&padded[2 * i..2 * i + 2], 16).ok()?);
    }
    for (i, x) in v.iter().enumerate().take(32) { b[i] = *x; }
    Some(bytes_le_to_fr(&b).0)
}

/// digest of the proving key and the constraint matrices this build loaded
fn key_digest() -> String {
    use ark_serialize::CanonicalSerialize;
    use tiny_keccak::{Hasher, Keccak};
    let (pk, m) = rln::circuit::zkey_from_folder();
    let mut bytes = Vec::new();
    pk.serialize_uncompressed(&mut bytes).unwrap();
    let mut k = Keccak::v256();
    k.update(&bytes);
    for x in [m.num_instance_variables, m.num_witness_variables, m.num_constraints, m.a_num_non_zero, m.b_num_non_zero, m.c_num_non_zero] {
        k.update(&(x as u64).to_le_bytes());
    }
    for mat in [&m.a, &m.b, &m.c] {
        k.update(&(mat.len() as u64).to_le_bytes());
        for row in mat {
            k.update(&(row.len() as u64).to_le_bytes());
            for (f, i) in row {
                k.update(&fr_to_bytes_le(f));
                k.update(&(*i as u64).to_le_bytes());
            }
        }
    }
    let mut h = [0u8; 32];
    k.finalize(&mut h);
    format!("pk_bytes={} digest={}", bytes.len(), hexb(&h))
}

#[cfg(feature = "ark")]
fn keys_equal() -> String {
    // both key files parsed by this one build
    let a = rln::circuit::zkey::read_zkey(&mut Cursor::new(rln::circuit::ZKEY_BYTES));
    let b = rln::circuit::read_arkzkey_from_bytes_uncompressed(rln::circuit::ARKZKEY_BYTES);
    match (a, b) {
        (Ok((pa, ma)), Ok((pb, mb))) => format!(
            "proving_key_equal={} matrices_equal={}",
            pa == pb,
            ma.a == mb.a && ma.b == mb.b && ma.c == mb.c && ma.num_constraints == mb.num_constraints
                && ma.num_instance_variables == mb.num_instance_variables && ma.num_witness_variables == mb.num_witness_variables
        ),
        _ => "err".into(),
    }
}
#[cfg(not(feature = "ark"))]
fn keys_equal() -> String {
    "n/a".into()
}

fn main() {
    std::panic::set_hook(Box::new(|_| {}));
    #[cfg(not(feature = "stateless"))]
    let mut rln = RLN::new(20, Cursor::new("{}".to_string())).unwrap();
    #[cfg(feature = "stateless")]
    let mut rln = RLN::new().unwrap();
    let stdin = std::io::stdin();
    let mut out = std::io::stdout();
    for line in stdin.lock().lines() {
        let line = line.unwrap();
        let w: Vec<&str> = line.trim().split(' ').filter(|s| !s.is_empty()).collect();
        let r = std::panic::catch_unwind(std::panic::AssertUnwindSafe(|| exec(&mut rln, &w))).unwrap_or_else(|_| "panic".into());
        writeln!(out, "{}", r).unwrap();
        out.flush().unwrap();
    }
}

fn okb(r: Result<(), impl std::fmt::Debug>, c: Cursor<Vec<u8>>) -> String {
    if r.is_ok() { format!("ok {}", hexb(&c.into_inner())) } else { "err".into() }
}
fn verdict(r: Result<bool, impl std::fmt::Debug>) -> String {
    match r { Ok(true) => "accept".into(), Ok(false) => "reject-false".into(), Err(_) => "reject-err".into() }
}

fn exec(rln: &mut RLN, w: &[&str]) -> String {
    if w.is_empty() { return "bad-op".into(); }
    match (w[0], w.len()) {
        ("config", 1) => {
            let mut v = vec![];
            if cfg!(feature = "pm") { v.push("pm"); }
            if cfg!(feature = "full") { v.push("full"); }
            if cfg!(feature = "ark") { v.push("ark"); }
            if cfg!(feature = "stateless") { v.push("stateless"); }
            if v.is_empty() { v.push("optimal"); }
            return v.join("+");
        }
        ("key_digest", 1) => return key_digest(),
        ("keys_equal", 1) => return keys_equal(),
        ("verify_roots", 3) => return verdict(rln.verify_with_roots(Cursor::new(unhex(w[1]).unwrap()), Cursor::new(unhex(w[2]).unwrap()))),
        ("verify", 2) => return verdict(rln.verify(Cursor::new(unhex(w[1]).unwrap()))),
        ("prove_wit", 2) => { let mut c = Cursor::new(Vec::new()); let r = rln.generate_rln_proof_with_witness(Cursor::new(unhex(w[1]).unwrap()), &mut c); return okb(r, c); }
        _ => {}
    }
    #[cfg(not(feature = "stateless"))]
    {
        match (w[0], w.len()) {
            ("set", 3) => { let b = fr_to_bytes_le(&fr_of(w[2]).unwrap()); let i = usize::from_str_radix(w[1].trim_start_matches("0x"), 16).unwrap(); return if rln.set_leaf(i, Cursor::new(b)).is_ok() { "ok".into() } else { "err".into() }; }
            ("app", 2) => { let b = fr_to_bytes_le(&fr_of(w[1]).unwrap()); return if rln.set_next_leaf(Cursor::new(b)).is_ok() { "ok".into() } else { "err".into() }; }
            ("del", 2) => { let i = usize::from_str_radix(w[1].trim_start_matches("0x"), 16).unwrap(); return if rln.delete_leaf(i).is_ok() { "ok".into() } else { "err".into() }; }
            ("root", 1) => { let mut c = Cursor::new(Vec::new()); let r = rln.get_root(&mut c); return okb(r, c); }
            ("count", 1) => return format!("{}", rln.leaves_set()),
            ("path", 2) => { let i = usize::from_str_radix(w[1].trim_start_matches("0x"), 16).unwrap(); let mut c = Cursor::new(Vec::new()); let r = rln.get_proof(i, &mut c); return okb(r, c); }
            ("leaf", 2) => { let i = usize::from_str_radix(w[1].trim_start_matches("0x"), 16).unwrap(); let mut c = Cursor::new(Vec::new()); let r = rln.get_leaf(i, &mut c); return okb(r, c); }
            ("set_leaves_from", 3) | ("init_leaves", 2) | ("atomic", 4) => {
                let (i, vs, ix) = match w[0] { "set_leaves_from" => (w[1], w[2], "-"), "init_leaves" => ("0", w[1], "-"), _ => (w[1], w[2], w[3]) };
                let idx = usize::from_str_radix(i.trim_start_matches("0x"), 16).unwrap();
                let leaves: Vec<Fr> = if vs == "-" { vec![] } else { vs.split(',').map(|x| fr_of(x).unwrap()).collect() };
                let lb = vec_fr_to_bytes_le(&leaves).unwrap();
                let rem: Vec<u8> = if ix == "-" { vec![] } else { ix.split(',').map(|x| usize::from_str_radix(x.trim_start_matches("0x"), 16).unwrap() as u8).collect() };
                let ib = vec_u8_to_bytes_le(&rem).unwrap();
                let r = match w[0] {
                    "set_leaves_from" => rln.set_leaves_from(idx, Cursor::new(lb)),
                    "init_leaves" => rln.init_tree_with_leaves(Cursor::new(lb)),
                    _ => rln.atomic_operation(idx, Cursor::new(lb), Cursor::new(ib)),
                };
                return if r.is_ok() { "ok".into() } else { "err".into() };
            }
            ("empty", 1) => { let mut c = Cursor::new(Vec::new()); let r = rln.get_empty_leaves_indices(&mut c); return okb(r, c); }
            ("reset", 1) => return if rln.set_tree(20).is_ok() { "ok".into() } else { "err".into() },
            ("witness", 2) => return match rln.get_serialized_rln_witness(Cursor::new(unhex(w[1]).unwrap())) { Ok(b) => format!("ok {}", hexb(&b)), Err(_) => "err".into() },
            ("prove", 2) => { let mut c = Cursor::new(Vec::new()); let r = rln.generate_rln_proof(Cursor::new(unhex(w[1]).unwrap()), &mut c); return okb(r, c); }
            ("verify_rln", 2) => return verdict(rln.verify_rln_proof(Cursor::new(unhex(w[1]).unwrap()))),
            _ => {}
        }
    }
    "n/a".into()
}
