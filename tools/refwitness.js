// Reference circom witness generator (rln.wasm + the witness_calculator.js shipped in rln-wasm) under node.
// stdin: one JSON object per line {identitySecret, userMessageLimit, messageId, pathElements[20], identityPathIndex[20], x, externalNullifier}
//        (decimal strings); stdout: one line per input: "ok v0,v1,..." (hex, complete witness) or "reject <message>".
const fs = require('fs');
const readline = require('readline');
const repo = process.env.ZK_REPO || '/repo';
const builder = require(repo + '/rln-wasm/resources/witness_calculator.js');
(async () => {
  const code = fs.readFileSync(repo + '/rln/resources/tree_height_20/rln.wasm');
  const rl = readline.createInterface({ input: process.stdin });
  const origErr = console.error, origLog = console.log;
  for await (const line of rl) {
    if (!line.trim()) continue;
    const input = JSON.parse(line);
    try {
      console.error = () => {}; console.log = () => {};
      const wc = await builder(code, true);      // a fresh instance per input: a failed assert leaves the instance unusable
      const w = await wc.calculateWitness(input, true);
      console.error = origErr; console.log = origLog;
      process.stdout.write('ok ' + Array.from(w).map(v => '0x' + v.toString(16)).join(',') + '\n');
    } catch (e) {
      console.error = origErr; console.log = origLog;
      process.stdout.write('reject ' + String(e && e.message ? e.message : e).split('\n')[0].trim().slice(0, 60) + '\n');
    }
  }
})();
