#!/bin/bash
# verify_seed.sh <ID> [<NAME>] — confirm a seeded change in its scratch worktree /tmp/seed/<ID>:
# (SEED_RUSTFLAGS / SEED_DEMO_TARGET: flags and target dir for the demonstration only, e.g. --cfg zerokit_verif)
# existing suite passes with it, demonstration fails with it and passes without; then store under /verif/seeded/<NAME>
ID=$1; NAME=${2:-$1}; WT=/tmp/seed/$ID; OUT=/tmp/seed/$ID-out; DST=/verif/seeded/$NAME
export CARGO_NET_OFFLINE=true
cd $WT || exit 2
git checkout -q -- . ; git clean -qfd -e target
git apply $OUT/patch.diff || { echo "patch does not apply"; exit 2; }
LOC=$(grep -o '\(rln\|utils\)/tests/seeded_demo[a-z_0-9]*\.rs' $OUT/demo.md $OUT/meta.json | head -1 | cut -d: -f2)
[ -z "$LOC" ] && LOC=rln/tests/seeded_demo.rs
PKG=rln; case $LOC in utils/*) PKG=zerokit_utils;; esac
TNAME=$(basename $LOC .rs)
cargo test --workspace --no-fail-fast --offline > /tmp/seed/$ID-suite.log 2>&1; SUITE=$?
PASSED=$(grep -E "^test result" /tmp/seed/$ID-suite.log | awk '{s+=$4} END {print s}')
FAILED=$(grep -E "^test .* FAILED" /tmp/seed/$ID-suite.log | grep -v performance | wc -l)
cp $OUT/seeded_demo.rs $WT/$LOC
RUSTFLAGS="$SEED_RUSTFLAGS" CARGO_TARGET_DIR=${SEED_DEMO_TARGET:-$WT/target} cargo test --offline -p $PKG --test $TNAME > /tmp/seed/$ID-demo-with.log 2>&1; WITH=$?
git apply -R $OUT/patch.diff
RUSTFLAGS="$SEED_RUSTFLAGS" CARGO_TARGET_DIR=${SEED_DEMO_TARGET:-$WT/target} cargo test --offline -p $PKG --test $TNAME > /tmp/seed/$ID-demo-without.log 2>&1; WITHOUT=$?
echo "ID=$ID suite_exit=$SUITE passed=$PASSED failed=$FAILED demo_with_change_exit=$WITH demo_without_change_exit=$WITHOUT"
if [ "$FAILED" = "0" ] && [ $WITH -ne 0 ] && [ $WITHOUT -eq 0 ]; then
  mkdir -p $DST; cp $OUT/patch.diff $OUT/seeded_demo.rs $OUT/demo.md $DST/
  python3 - <<PY
import json
m=json.load(open("$OUT/meta.json"))
m["demo_location"]="$LOC"
m["confirmed_by_me"]={"worktree":"$WT (scratch, removed afterwards)","base_commit":"$(git rev-parse --short HEAD)",
  "suite":"cargo test --workspace --no-fail-fast --offline with the change: exit $SUITE, $PASSED passed, $FAILED failed",
  "demo_with_change":"cargo test --offline -p $PKG --test $TNAME: exit $WITH (fails)",
  "demo_without_change":"same command after git apply -R: exit $WITHOUT (passes)"}
json.dump(m,open("$DST/meta.json","w"),indent=1)
PY
  echo "KEPT $DST"
else
  echo "REJECTED $ID"
fi
cd /; git -C /repo worktree remove --force $WT
