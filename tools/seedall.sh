#!/bin/bash
# seedall.sh [<dir>] — run every seeded change under /verif/seeded against its property's quick check in an isolated copy;
# every one must be reported (VIOLATION). One line per seed.
cd "$(dirname "$0")/.."
export SEEDTEST_DIR=${1:-/tmp/seedtest}
for d in seeded/*/; do
  s=$(basename $d); p=${s:0:3}
  out=$(tools/seedtest.sh $s $p 8 2>&1)
  if echo "$out" | grep -q "VIOLATION property=$p"; then r="REPORTED"; elif echo "$out" | grep -q "does not apply"; then r="patch-does-not-apply"; elif echo "$out" | grep -q ABORT; then r="ABORTED"; else r="MISSED"; fi
  echo "$s $r $(echo "$out" | grep -c VIOLATION) $(echo "$out" | grep -c no-failing-input-found) without-input"
done
