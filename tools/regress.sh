#!/bin/bash
# regress.sh — for every `fixed:` entry of known_findings.txt: revert that fix in an isolated copy and run the property's
# quick check; the defect must be reported again (a fixed entry suppresses nothing). Output: one line per fix commit.
cd "$(dirname "$0")/.."
export SEEDTEST_DIR=${SEEDTEST_DIR:-/tmp/seedtest2}
grep "^fixed:" known_findings.txt | awk '{print $2, $3}' | sed 's/property=//' | while read prop c; do
  d=/verif/regress/revert-$c; mkdir -p $d
  git -C /repo diff $c $c~1 > $d/patch.diff
  out=$(tools/seedtest.sh $d $prop 6 2>&1)
  if echo "$out" | grep -q VIOLATION; then r="REPORTED-AGAIN"; elif echo "$out" | grep -q "does not apply"; then r="revert-does-not-apply"; else r="NOT-REPORTED"; fi
  echo "$c $prop $r $(echo "$out" | grep -c VIOLATION) violation lines; $(echo "$out" | grep -E 'ok:|ABORT' | head -1 | cut -c1-80)"
done
