#!/usr/bin/env python3
"""Regenerates MANIFEST.json from the table below (kept in one place so it is always valid)."""
import json, os
HERE = os.path.dirname(os.path.dirname(os.path.abspath(__file__)))

TB = "Trusted: Lean 4.33.0 kernel; axioms propext/Classical.choice/Quot.sound only (audited by #print axioms on every run); the hand-written model is tied to /repo by the correspondence run (sampled) and by tools/extract.py (syntactic) — see DESIGN.md §8."

CHECKS = {
 "C06": dict(
   text="Lean 4 refinement theorems, for every hash function, default leaf, depth and operation history over {set, delete, append, write_range, batch, reset}: the models of FullMerkleTree (flat heap array, update_nodes), OptimalMerkleTree (sparse map + per-level defaults, the update_hashes loop) and the persistent tree (pmtree set/recalculate_from, fill_nodes + batch_recalculate, adapter) are related to the ideal hash tree by an invariant preserved by every operation, all observables (root, leaves, subtree roots, high-water mark) coincide, acceptance coincides and a rejected operation changes nothing; hence all backends agree. Models tied to /repo by running generated histories (positions inside / at / beyond capacity, up to 2^64-1) on the real trees and on model and spec, comparing every observable after every operation.",
   note=TB + " The persistent tree's key-value store is a finite map (sled is a contract); Cantor-pairing key injectivity is assumed for the trees in use.",
   design="§5 C06", technique="Lean 4 proof (invariant + refinement to an ideal tree, induction over histories) + differential correspondence"),
 "C07": dict(
   text="Lean 4 theorems: in every reachable state of each backend model and for every position, the proof has one sibling per level, decodes to the position (LSB first), recomputes the root from the stored leaf and is accepted by the tree's own check; the three backends produce identical paths; binding and direction-bit flips are proved as collision extraction for the hash (any second opening yields an explicit collision). Correspondence: proofs of every position after generated histories plus every single-sibling / direction-bit / leaf alteration on the real trees against model and spec.",
   note=TB + " Binding is relative to collision resistance of Poseidon (stated as a reduction).",
   design="§5 C07", technique="Lean 4 proof (refinement + collision-extraction lemma) + differential correspondence"),
 "C08": dict(
   text="Lean 4 theorems: for every reachable state and every (start, leaves, removal list) the in-memory backends' override_range refines the ideal batch (reset the removed positions, then write; rejected requests change nothing) and never panics; batch initialisation = fresh tree + batch. The persistent backend's removal paths are an open finding (pinned by an existing test): proved only for requests without removals, the defect region is matched by call site + shape, replayed and reported as KNOWN-FINDING; everything else is compared with model and spec on shape-directed batches.",
   note=TB + " Open finding C08-pm-batch in known_findings.txt.",
   design="§5 C08", technique="Lean 4 proof (refinement) + differential correspondence with known-finding matcher"),
 "C09": dict(
   text="Lean 4 theorems for every input/parameter record: Poseidon::hash = the paper's three-phase permutation; ring-buffer Grain LFSR = shift-register LFSR (constants and MDS for every (t,RF,RP,skip)); the ROUND_PARAMS table regenerated from hashers.rs on each run = circomlib's rows for t=2..9; hash_to_field = LE(Keccak-256) mod p, total. Model tied to /repo by a correspondence run (typed, byte-level, FFI, 8 threads).",
   note="Keccak-256 (tiny-keccak) and arkworks field arithmetic are modelled from their specifications and tied by correspondence only; Lean kernel; axioms propext/Classical.choice/Quot.sound.",
   design="§5 C09", technique="Lean 4 proof (simulation + loop splitting) + generated-table theorem + differential correspondence"),
 "C15": dict(
   text="Lean 4 theorems: for every history, each backend model's list of empty positions equals the ideal tree's, which is characterised as the ascending positions below the high-water mark never written or last removed. The persistent backend's flag cache is not persisted (open finding C15-pm-reopen-flags, reported as KNOWN-FINDING); close/reopen histories are still compared with the model exactly. Correspondence: generated histories over every mutator with the empty list observed after every operation.",
   note=TB + " Open findings C15-pm-reopen-flags and (shared) C08-pm-batch.",
   design="§5 C15", technique="Lean 4 proof (refinement, history characterisation) + differential correspondence"),
}

NOT_APPLICABLE = []

def main():
    props = [json.loads(l)["id"] for l in open(os.path.join(HERE, "properties.jsonl"))]
    checks = []
    for pid in props:
        if pid in CHECKS:
            c = CHECKS[pid]
            checks.append({
                "property_id": pid,
                "quick_cmd": f"python3 check.py {pid} --tier quick",
                "thorough_cmd": f"python3 check.py {pid} --tier thorough",
                "evidence_file": f"/verif/evidence/{pid}.json",
                "replay_cmd_template": "python3 check.py --replay {path}",
                "engine": "lean4-model+correspondence",
                "level_claimed": {"category": c.get("category", "proof"), "text": c["text"], "design_ref": c["design"]},
                "level_note": c["note"],
                "technique": c["technique"],
            })
    na = [x for x in NOT_APPLICABLE]
    claimed = {c["property_id"] for c in checks}
    for pid in props:
        if pid not in claimed and pid not in {x["property_id"] for x in na}:
            na.append({"property_id": pid, "reason": "not yet claimed: check under construction (see DESIGN.md §10); no verdict is given for this property"})
    m = {
        "version": 1,
        "setup_cmd": "python3 check.py --setup",
        "hooks": {
            "guard": "--cfg zerokit_verif",
            "enable": "RUSTFLAGS='--cfg zerokit_verif' (set by lib/core.py for every harness build)",
            "baseline_off_cmd": "cd /repo && cargo test --workspace --no-fail-fast --offline",
            "source_commits": [],
            "add_only": True,
        },
        "engines": [{"name": "lean4-model+correspondence", "path": "/verif/lean, /verif/harness, /verif/check.py",
                     "serves_properties": sorted(claimed),
                     "kind_free_text": "Lean 4 models + kernel-checked theorems; translator pieces (tools/extract.py); Rust correspondence harness linked against /repo"}],
        "checks": checks,
        "notes": "See DESIGN.md. Known findings: known_findings.jsonl.",
        "not_applicable": na,
    }
    json.dump(m, open(os.path.join(HERE, "MANIFEST.json"), "w"), indent=1)
    print("claimed:", sorted(claimed))

if __name__ == "__main__":
    main()
