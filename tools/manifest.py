#!/usr/bin/env python3
"""Regenerates MANIFEST.json from the table below (kept in one place so it is always valid)."""
import json, os
HERE = os.path.dirname(os.path.dirname(os.path.abspath(__file__)))

CHECKS = {
 "C09": dict(
   text="Lean 4 theorems for every input/parameter record: Poseidon::hash = the paper's three-phase permutation; ring-buffer Grain LFSR = shift-register LFSR (constants and MDS for every (t,RF,RP,skip)); the ROUND_PARAMS table regenerated from hashers.rs on each run = circomlib's rows for t=2..9; hash_to_field = LE(Keccak-256) mod p, total. Model tied to /repo by a correspondence run (typed, byte-level, FFI, 8 threads).",
   note="Keccak-256 (tiny-keccak) and arkworks field arithmetic are modelled from their specifications and tied by correspondence only; Lean kernel; axioms propext/Classical.choice/Quot.sound.",
   design="§5 C09", technique="Lean 4 proof (simulation + loop splitting) + generated-table theorem + differential correspondence"),
}

NOT_APPLICABLE = []

def main():
    props = [json.loads(l)["id"] for l in open(os.path.join(HERE, "properties.jsonl"))]
    checks = []
    for pid in props:
        if pid in CHECKS:
            c = CHECKS[pid]
            checks.append({
                "property_id": pid,
                "quick_cmd": f"python3 check.py {pid} --tier quick",
                "thorough_cmd": f"python3 check.py {pid} --tier thorough",
                "evidence_file": f"/verif/evidence/{pid}.json",
                "replay_cmd_template": "python3 check.py --replay {path}",
                "engine": "lean4-model+correspondence",
                "level_claimed": {"category": c.get("category", "proof"), "text": c["text"], "design_ref": c["design"]},
                "level_note": c["note"],
                "technique": c["technique"],
            })
    na = [x for x in NOT_APPLICABLE]
    claimed = {c["property_id"] for c in checks}
    for pid in props:
        if pid not in claimed and pid not in {x["property_id"] for x in na}:
            na.append({"property_id": pid, "reason": "not yet claimed: check under construction (see DESIGN.md §10); no verdict is given for this property"})
    m = {
        "version": 1,
        "setup_cmd": "python3 check.py --setup",
        "hooks": {
            "guard": "--cfg zerokit_verif",
            "enable": "RUSTFLAGS='--cfg zerokit_verif' (set by lib/core.py for every harness build)",
            "baseline_off_cmd": "cd /repo && cargo test --workspace --no-fail-fast --offline",
            "source_commits": [],
            "add_only": True,
        },
        "engines": [{"name": "lean4-model+correspondence", "path": "/verif/lean, /verif/harness, /verif/check.py",
                     "serves_properties": sorted(claimed),
                     "kind_free_text": "Lean 4 models + kernel-checked theorems; translator pieces (tools/extract.py); Rust correspondence harness linked against /repo"}],
        "checks": checks,
        "notes": "See DESIGN.md. Known findings: known_findings.jsonl.",
        "not_applicable": na,
    }
    json.dump(m, open(os.path.join(HERE, "MANIFEST.json"), "w"), indent=1)
    print("claimed:", sorted(claimed))

if __name__ == "__main__":
    main()
