#!/usr/bin/env python3
"""Regenerates MANIFEST.json from the table below (kept in one place so it is always valid)."""
import json, os
HERE = os.path.dirname(os.path.dirname(os.path.abspath(__file__)))

TB = "Trusted: Lean 4.33.0 kernel; axioms propext/Classical.choice/Quot.sound only (audited by #print axioms on every run); the hand-written model is tied to /repo by the correspondence run (sampled) and by tools/extract.py (syntactic) — see DESIGN.md §8."

CHECKS = {
 "C06": dict(
   text="Lean 4 refinement theorems, for every hash function, default leaf, depth and operation history over {set, delete, append, write_range, batch, reset}: the models of FullMerkleTree (flat heap array, update_nodes), OptimalMerkleTree (sparse map + per-level defaults, the update_hashes loop) and the persistent tree (pmtree set/recalculate_from, fill_nodes + batch_recalculate, adapter) are related to the ideal hash tree by an invariant preserved by every operation, all observables (root, leaves, subtree roots, high-water mark) coincide, acceptance coincides and a rejected operation changes nothing; hence all backends agree. Models tied to /repo by running generated histories (positions inside / at / beyond capacity, up to 2^64-1) on the real trees and on model and spec, comparing every observable after every operation.",
   note=TB + " The persistent tree's key-value store is a finite map (sled is a contract); Cantor-pairing key injectivity is assumed for the trees in use.",
   design="§5 C06", technique="Lean 4 proof (invariant + refinement to an ideal tree, induction over histories) + differential correspondence"),
 "C07": dict(
   text="Lean 4 theorems: in every reachable state of each backend model and for every position, the proof has one sibling per level, decodes to the position (LSB first), recomputes the root from the stored leaf and is accepted by the tree's own check; the three backends produce identical paths; binding and direction-bit flips are proved as collision extraction for the hash (any second opening yields an explicit collision). Correspondence: proofs of every position after generated histories plus every single-sibling / direction-bit / leaf alteration on the real trees against model and spec.",
   note=TB + " Binding is relative to collision resistance of Poseidon (stated as a reduction).",
   design="§5 C07", technique="Lean 4 proof (refinement + collision-extraction lemma) + differential correspondence"),
 "C08": dict(
   text="Lean 4 theorems: for every reachable state and every (start, leaves, removal list) the in-memory backends' override_range refines the ideal batch (reset the removed positions, then write; rejected requests change nothing) and never panics; batch initialisation = fresh tree + batch. The persistent backend's removal paths are an open finding (pinned by an existing test): proved only for requests without removals, the defect region is matched by call site + shape, replayed and reported as KNOWN-FINDING; everything else is compared with model and spec on shape-directed batches.",
   note=TB + " Open finding C08-pm-batch in known_findings.txt.",
   design="§5 C08", technique="Lean 4 proof (refinement) + differential correspondence with known-finding matcher"),
 "C09": dict(
   text="Lean 4 theorems for every input/parameter record: Poseidon::hash = the paper's three-phase permutation; ring-buffer Grain LFSR = shift-register LFSR (constants and MDS for every (t,RF,RP,skip)); the ROUND_PARAMS table regenerated from hashers.rs on each run = circomlib's rows for t=2..9; hash_to_field = LE(Keccak-256) mod p, total. Model tied to /repo by a correspondence run (typed, byte-level, FFI, 8 threads).",
   note="Keccak-256 (tiny-keccak) and arkworks field arithmetic are modelled from their specifications and tied by correspondence only; Lean kernel; axioms propext/Classical.choice/Quot.sound.",
   design="§5 C09", technique="Lean 4 proof (simulation + loop splitting) + generated-table theorem + differential correspondence"),
 "C01": dict(
   text="Lean 4 theorem over the whole valid input space, relative to the Groth16 contract (completeness of prove/verify on satisfiable witnesses, proof codec): for every registered identity (membership path from the tree theorems, any position), limit in the circuit's range, message id below it, external nullifier and signal, generate_rln_proof returns a 288-byte message that verify, verify_rln_proof (same root) and verify_with_roots (root set containing the root, or empty) accept — composing request decoding (C10), published values = formulas (C04), the circuit relation, the public-input order regenerated from verify_proof, and the message layouts. qap.rs / zkey.rs / arkworks are executed, not modelled: real end-to-end runs on the regions the tests never reach (extreme positions, limits 1 / 2^16, ids 0 / limit-1, boundary field values, long signals) through all proving entry points, each message then verified three ways.",
   note=TB + " Partial: Groth16/QAP/zkey parsing are a contract in the theorem and are covered only by the executed cases.",
   design="§5 C01", technique="Lean 4 proof (composition over a SNARK contract) + end-to-end differential runs with real proofs"),
 "C02": dict(
   text="Lean 4 theorems for every byte string and every SNARK contract: acceptance by verify / verify_rln_proof / verify_with_roots implies a valid Groth16 proof for exactly the carried values, x = hash of exactly the attached signal, root = the verifier's root (resp. membership in the non-empty root set), and the exact verdict is the conjunction of those facts (so each single modification that breaks one of them is rejected). Correspondence: every single-field modification, bit flips of the proof, signal / declared-length changes, verifier tree changes and root sets (incl. zero entries) on real messages, with arkworks' own verdict as oracle so the three entry points' verdicts are predicted exactly.",
   note=TB + " Groth16 soundness itself is arkworks' (contract).",
   design="§5 C02", technique="Lean 4 proof (decision logic over a SNARK contract) + differential correspondence with oracle"),
 "C03": dict(
   text="Lean 4 theorems over the field (primality of the BN254 scalar modulus proved by a Pratt certificate): two shares of one line with different x always interpolate to the secret; identical x gives an error, never a crash; nullifier, root and external nullifier do not depend on the signal; recovery from two message encodings returns the secret, and nothing across different external nullifiers; equal nullifiers for different (external nullifier, message id) exhibit a Poseidon collision (reduction). Correspondence: boundary/random shares, message pairs built by the real code, really proved message pairs.",
   note=TB + " Distinctness of nullifiers is relative to Poseidon collision resistance (reduction + sampling).",
   design="§5 C03", technique="Lean 4 proof (field algebra over ZMod p with proved primality) + differential correspondence"),
 "C04": dict(
   text="Lean 4 theorems: for every witness proof_values_from_witness returns y = s + x*H(s,e,m), nullifier = H(H(s,e,m)), root = the ideal path fold (C07's recomputation) of H(H(s),limit), x and the external nullifier unchanged; error exactly when message id >= limit. Coincidence with the circuit's outputs is checked by running calculate_rln_witness()[0..6] and generate_rln_proof bytes 128..288 against the Lean formulas on boundary values, all direction patterns on a prefix, one-hot levels and random witnesses.",
   note=TB + " Partial: equality with the circuit's outputs is sampled (the bundled graph = the circuit is not a theorem, DESIGN §9).",
   design="§5 C04", technique="Lean 4 proof (unfolding to the specification formulas) + differential correspondence"),
 "C10": dict(
   text="Lean 4 theorems for all values: every codec pair round-trips (field elements, element / byte vectors, usize lists, witness, proof values, prove request), decoding always yields canonical values, a decoded witness consumed exactly the input whose length is fixed by its two counts (no trailing, no missing bytes), decoding is total; and translator-fed theorems: the field orders regenerated from protocol.rs on every run (serialisers, deserialisers, verify_proof's public inputs, the layouts in the doc comments) agree with each other and with the model. Correspondence in both directions against an encoder/decoder written from the documented layouts.",
   note=TB + " serde_json / ark-serialize (JSON witness) are trusted; the JSON round trip is exercised only.",
   design="§5 C10", technique="Lean 4 proof (round trips, exact length) + generated-layout theorems + differential correspondence"),
 "C12": dict(
   text="Lean 4 theorems over every request: a successful proving call had a witness with message id < limit and lists of the tree's depth — i.e. circuit-satisfiable outside three explicitly characterised shapes (open finding C12-unsat-accepted); the only crash is the witness calculator's length assertion (open finding C12-path-length-panic); the repaired boundary id = limit is rejected. Correspondence over the request domain (ids / limits across every boundary, positions up to 2^64-1, truncated / over-long / over-declared buffers, wrong path lengths, non-binary directions) with the specification answering ok exactly when the circuit relation is satisfiable.",
   note=TB + " Open findings C12-unsat-accepted, C12-path-length-panic (known_findings.txt).",
   design="§5 C12", technique="Lean 4 proof (decision logic) + differential correspondence with known-finding matchers"),
 "C13": dict(
   text="Lean 4 theorems for every byte string and SNARK contract: verify, verify_rln_proof, verify_with_roots (both arguments) and recover_id_secret never panic; accepted messages carry canonical encodings; two canonical encodings of the same five values are byte-identical; any v + k*p alias is rejected by all three entry points. Correspondence: every truncation length, over-long inputs, declared signal lengths up to 2^64-1, random content, every alias that fits 32 bytes, roots buffers of every length.",
   note=TB,
   design="§5 C13", technique="Lean 4 proof (totality, uniqueness of encoding) + differential correspondence"),
 "C19": dict(
   text="Lean 4 theorems for all operands below p: the Montgomery evaluator returns circom's documented value for every operator (modular arithmetic, signed comparisons through truth tables and constants regenerated from graph.rs on every run, Idiv/Mod, masked shifts modelled at limb level and proved equal to division / masked multiplication by 2^n, bitwise operations with the conditional subtraction), results canonical, no crash, integer and Montgomery evaluators agree — outside three open findings whose negations are kernel-checked at witnesses (shift counts above p/2, unimplemented Pow/Id, the unreduced integer evaluator). Correspondence on the boundary grid.",
   note=TB + " Open findings C19-shift-count-above-half, C19-montgomery-unimplemented, C19-integer-evaluator.",
   design="§5 C19", technique="Lean 4 proof (operator semantics, limb-level shifts) + generated-table theorems + differential correspondence"),
 "C05": dict(
   text="Lean 4 theorems about the bundled witness graph, which a translator regenerates from graph.bin on every run (23 414 nodes, 5 844 signals, declared input layout): it is well-formed (kernel-evaluated), the input buffer has 46 cells, witness positions 0/4/5 are the constant and the public inputs; hence for EVERY 46-value assignment the evaluator returns a complete witness of canonical values, never crashes, is a function of the assignment and independent of the order of the named inputs (via the C20 and C19 theorems). The remaining link — that this graph computes the circuit's witness — is not a theorem: the complete 5 844-element vector of calculate_rln_witness is compared with the reference generator rln.wasm (node) and with the Lean evaluation of the regenerated graph on limb-boundary / near-modulus values in each input position, direction patterns, boundary ids and limits, and random assignments.",
   note=TB + " Partial: graph = circuit is differential (rln.wasm under node is the oracle), DESIGN §9.",
   design="§5 C05", technique="Lean 4 proof over a regenerated model (translator) + differential run against the reference circom generator", category="proof"),
 "C11": dict(
   text="Translator-fed Lean 4 theorems over a table regenerated from ffi.rs on every run (one row per extern \"C\" function: macro, RLN method, arguments in order, output pointer, C parameters): every function forwards exactly its own parameters, in API order, to the method of the same name, the sequential batch starts at the current leaf count, and the macros report success exactly on Ok with exactly the API's bytes / verdict. Behavioural identity is checked in lockstep: one instance driven through every exported C function, one through the Rust API, random call sequences incl. failing calls, proving with cross-verification, verification, recovery; flags, buffers read back through their pointers, verdicts and tree state compared after every call, and against model and specification.",
   note=TB + " Pointer validity / leaks are runtime behaviour: buffers are read back through their pointers, nothing more.",
   design="§5 C11", technique="Lean 4 theorems over a generated wiring table + lockstep differential correspondence"),
 "C14": dict(
   text="Lean 4 theorems about the model Keccak-256 -> ChaCha20 (rand_chacha layout) -> Fr::rand (limb masking, rejection, Montgomery reduction) -> Poseidon: every generated identity satisfies commitment = H(secret) (extended: secret = H(trapdoor, nullifier)) on canonical components with a unique 32-byte encoding; seeded generation is a function of the seed bytes; the extended identity's trapdoor is the plain identity's secret; the two documented reference seeds evaluate (in the kernel, Keccak included) to the documented secrets. Correspondence: the model reproduces protocol::*, RLN::* and ffi::* byte for byte on empty / block-boundary / long / random seeds, repeated and from 8 threads; unseeded identities are checked against the relations and for distinctness.",
   note=TB + " Distinctness of identities for distinct seeds is collision resistance (sampled).",
   design="§5 C14", technique="Lean 4 proof (model of the derivation chain, kernel-evaluated reference vectors) + differential correspondence"),
 "C16": dict(
   text="Lean 4 theorems about the persistent tree model over a key-value store with an injected failure schedule: along every history, reopening shows the same root, nodes, leaves, leaf count (whatever depth the caller passes) and metadata, and the reopened tree satisfies the refinement invariant again; with a failure armed at write k an operation that returns Ok did not reach it (every failed put / put_batch / flush surfaces as Err); whatever happens, stored leaves change only at addressed positions, so acknowledged updates are read back after a failed operation. Fault enumeration on the real code through hook H1: every write position k of every operation of generated histories, under five sled configurations, then reopen and compare with the model's exact prediction and with the last acknowledged values.",
   note=TB + " Partial: what sled makes durable on a process kill is sled's behaviour (exercised via close/reopen only); the flag cache is not persisted (open finding under C15); two frame statements are proved in the corrected form the proof forced (sibling write-back, overshoot of the open C08 batch shapes).",
   design="§5 C16", technique="Lean 4 proof (store model with failure schedule) + exhaustive fault-position enumeration against the model"),
 "C17": dict(
   text="Lean 4 theorem: for every history of single-leaf writes, appends and deletions the three tree backend models report the same roots, leaves, leaf counts and membership paths (each refines the ideal tree), and the common path is in the circuit's format; with C01/C02 (key material is a parameter of the SNARK contract) a message accepted under one configuration is accepted under the others. The hypothesis 'same key' and the real builds are discharged by execution: five builds (default, fullmerkletree, no-default/optimal, arkzkey, stateless) of one program against the current /repo; zkey vs arkzkey compared with == and by digest; histories replayed under every backend; messages cross-verified, incl. the stateless prover / verifier. The snarkjs key-file reader (zkey.rs) is modelled (ZkModel/Zkey.lean) with theorems for every byte string / record list (cursor semantics, first section wins, missing section panics, section order irrelevant, matrix rows = the file's records in order divided by R^2, truncation to max - n_public rows); tie: the bundled 3.4 MB key read natively by the Lean driver = read_zkey through Cursor / BufReader / chunked readers = the key the build loaded, plus generated key files with 23 kinds of deviation.",
   note=TB + " Partial: key-file equality is a concrete-data check; the fullmerkletree configuration did not compile before the recorded fix.",
   design="§5 C17", technique="Lean 4 proof (backends agree via refinement) + multi-configuration differential builds"),
 "C18": dict(
   text="Lean 4 theorems: pmtree's batch_recalculate task tree writes pairwise different keys and never reads a written key, so the sequential model's result equals a schedule-free value function and its final map is what ANY completion order of the writes produces; cell-wise vector fills (the witness map's cfg_iter_mut stages) do not depend on the visiting order; the database-open retry makes at most ten attempts, succeeds exactly when an attempt succeeds after only busy answers, and sleeps 10^k ms before attempt k+1; for the witness map (ZkModel/Qap.lean): model and Lagrange-form specification fail on the same inputs, return one value per domain element, err only on a missing domain (the equality of the transform pipeline with the Lagrange form is compared by execution, not proved). Execution: witness_map_from_matrices on generated constraint systems under 1 and 4 worker threads = model = specification; one workload under 1/2/4/16 rayon threads with bit-identical transcripts (and equal to model/spec), N threads issuing read-only calls on one shared instance against the sequential results with a watchdog, drop + re-create loops.",
   note=TB + " Partial: absence of deadlock, lazy initialisation, sled's file lock and real timing are runtime behaviour (sampled).",
   design="§5 C18", technique="Lean 4 proof (schedule independence, retry bound) + execution under varying worker pools"),
 "C20": dict(
   text="Lean 4 theorems for every graph and buffer: the single evaluation pass computes, for every node and output, the recursive reference interpretation; a well-formed graph never crashes and yields canonical values; named inputs land at their declared offsets and the buffer does not depend on the supply order (disjoint declared ranges); LEB128 lengths, the ten-byte look-ahead with its push-back stack, and the whole container framing round-trip for any message bodies; node <-> protobuf-node conversion round-trips. Correspondence: random DAGs over all supported node kinds with random layouts and shuffled inputs through graph::evaluate and through serialize -> deserialize -> calc_witness; containers written by the implementation are re-read and re-framed by the model.",
   note=TB + " prost's per-message codec is a contract; open finding C20-inputs-size (inputs after the first run).",
   design="§5 C20", technique="Lean 4 proof (evaluator = reference interpretation, framing round trip) + differential correspondence on random graphs"),
 "C15": dict(
   text="Lean 4 theorems: for every history, each backend model's list of empty positions equals the ideal tree's, which is characterised as the ascending positions below the high-water mark never written or last removed. The persistent backend's flag cache is not persisted (open finding C15-pm-reopen-flags, reported as KNOWN-FINDING); close/reopen histories are still compared with the model exactly. Correspondence: generated histories over every mutator with the empty list observed after every operation.",
   note=TB + " Open findings C15-pm-reopen-flags and (shared) C08-pm-batch.",
   design="§5 C15", technique="Lean 4 proof (refinement, history characterisation) + differential correspondence"),
}

NOT_APPLICABLE = []

def main():
    props = [json.loads(l)["id"] for l in open(os.path.join(HERE, "properties.jsonl"))]
    checks = []
    for pid in props:
        if pid in CHECKS:
            c = CHECKS[pid]
            checks.append({
                "property_id": pid,
                "quick_cmd": f"python3 check.py {pid} --tier quick",
                "thorough_cmd": f"python3 check.py {pid} --tier thorough",
                "evidence_file": f"/verif/evidence/{pid}.json",
                "replay_cmd_template": "python3 check.py --replay {path}",
                "engine": "lean4-model+correspondence",
                "level_claimed": {"category": c.get("category", "proof"), "text": c["text"], "design_ref": c["design"]},
                "level_note": c["note"],
                "technique": c["technique"],
            })
    na = [x for x in NOT_APPLICABLE]
    claimed = {c["property_id"] for c in checks}
    for pid in props:
        if pid not in claimed and pid not in {x["property_id"] for x in na}:
            na.append({"property_id": pid, "reason": "not yet claimed: check under construction (see DESIGN.md §10); no verdict is given for this property"})
    m = {
        "version": 1,
        "setup_cmd": "python3 check.py --setup",
        "hooks": {
            "guard": "--cfg zerokit_verif",
            "enable": "RUSTFLAGS='--cfg zerokit_verif' (set by lib/core.py for every harness build)",
            "baseline_off_cmd": "cd /repo && cargo test --workspace --no-fail-fast --offline",
            "source_commits": ["cc4e957"],
            "add_only": True,
        },
        "engines": [{"name": "lean4-model+correspondence", "path": "/verif/lean, /verif/harness, /verif/check.py",
                     "serves_properties": sorted(claimed),
                     "kind_free_text": "Lean 4 models + kernel-checked theorems; translator pieces (tools/extract.py); Rust correspondence harness linked against /repo"}],
        "checks": checks,
        "notes": "See DESIGN.md. Known findings: known_findings.jsonl.",
        "not_applicable": na,
    }
    json.dump(m, open(os.path.join(HERE, "MANIFEST.json"), "w"), indent=1)
    print("claimed:", sorted(claimed))

if __name__ == "__main__":
    main()
