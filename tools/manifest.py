#!/usr/bin/env python3
"""Regenerates MANIFEST.json from the table below (kept in one place so it is always valid)."""
import json, os
HERE = os.path.dirname(os.path.dirname(os.path.abspath(__file__)))

TB = "Trusted: Lean 4.33.0 kernel; axioms propext/Classical.choice/Quot.sound only (audited by #print axioms on every run); the hand-written model is tied to /repo by the correspondence run (sampled) and by tools/extract.py (syntactic) — see DESIGN.md §8."

CHECKS = {
 "C06": dict(
   text="Lean 4 refinement theorems, for every hash function, default leaf, depth and operation history over {set, delete, append, write_range, batch, reset}: the models of FullMerkleTree (flat heap array, update_nodes), OptimalMerkleTree (sparse map + per-level defaults, the update_hashes loop) and the persistent tree (pmtree set/recalculate_from, fill_nodes + batch_recalculate, adapter) are related to the ideal hash tree by an invariant preserved by every operation, all observables (root, leaves, subtree roots, high-water mark) coincide, acceptance coincides and a rejected operation changes nothing; hence all backends agree. Models tied to /repo by running generated histories (positions inside / at / beyond capacity, up to 2^64-1) on the real trees and on model and spec, comparing every observable after every operation.",
   note=TB + " The persistent tree's key-value store is a finite map (sled is a contract); Cantor-pairing key injectivity is assumed for the trees in use.",
   design="§5 C06", technique="Lean 4 proof (invariant + refinement to an ideal tree, induction over histories) + differential correspondence"),
 "C07": dict(
   text="Lean 4 theorems: in every reachable state of each backend model and for every position, the proof has one sibling per level, decodes to the position (LSB first), recomputes the root from the stored leaf and is accepted by the tree's own check; the three backends produce identical paths; binding and direction-bit flips are proved as collision extraction for the hash (any second opening yields an explicit collision). Correspondence: proofs of every position after generated histories plus every single-sibling / direction-bit / leaf alteration on the real trees against model and spec.",
   note=TB + " Binding is relative to collision resistance of Poseidon (stated as a reduction).",
   design="§5 C07", technique="Lean 4 proof (refinement + collision-extraction lemma) + differential correspondence"),
 "C08": dict(
   text="Lean 4 theorems: for every reachable state and every (start, leaves, removal list) the in-memory backends' override_range refines the ideal batch (reset the removed positions, then write; rejected requests change nothing) and never panics; batch initialisation = fresh tree + batch. The persistent backend's removal paths are an open finding (pinned by an existing test): proved only for requests without removals, the defect region is matched by call site + shape, replayed and reported as KNOWN-FINDING; everything else is compared with model and spec on shape-directed batches.",
   note=TB + " Open finding C08-pm-batch in known_findings.txt.",
   design="§5 C08", technique="Lean 4 proof (refinement) + differential correspondence with known-finding matcher"),
 "C09": dict(
   text="Lean 4 theorems for every input/parameter record: Poseidon::hash = the paper's three-phase permutation; ring-buffer Grain LFSR = shift-register LFSR (constants and MDS for every (t,RF,RP,skip)); the ROUND_PARAMS table regenerated from hashers.rs on each run = circomlib's rows for t=2..9; hash_to_field = LE(Keccak-256) mod p, total. Model tied to /repo by a correspondence run (typed, byte-level, FFI, 8 threads).",
   note="Keccak-256 (tiny-keccak) and arkworks field arithmetic are modelled from their specifications and tied by correspondence only; Lean kernel; axioms propext/Classical.choice/Quot.sound.",
   design="§5 C09", technique="Lean 4 proof (simulation + loop splitting) + generated-table theorem + differential correspondence"),
 "C01": dict(
   text="Lean 4 theorem over the whole valid input space, relative to the Groth16 contract (completeness of prove/verify on satisfiable witnesses, proof codec): for every registered identity (membership path from the tree theorems, any position), limit in the circuit's range, message id below it, external nullifier and signal, generate_rln_proof returns a 288-byte message that verify, verify_rln_proof (same root) and verify_with_roots (root set containing the root, or empty) accept — composing request decoding (C10), published values = formulas (C04), the circuit relation, the public-input order regenerated from verify_proof, and the message layouts. qap.rs / zkey.rs / arkworks are executed, not modelled: real end-to-end runs on the regions the tests never reach (extreme positions, limits 1 / 2^16, ids 0 / limit-1, boundary field values, long signals) through all proving entry points, each message then verified three ways.",
   note=TB + " Partial: Groth16/QAP/zkey parsing are a contract in the theorem and are covered only by the executed cases.",
   design="§5 C01", technique="Lean 4 proof (composition over a SNARK contract) + end-to-end differential runs with real proofs"),
 "C02": dict(
   text="Lean 4 theorems for every byte string and every SNARK contract: acceptance by verify / verify_rln_proof / verify_with_roots implies a valid Groth16 proof for exactly the carried values, x = hash of exactly the attached signal, root = the verifier's root (resp. membership in the non-empty root set), and the exact verdict is the conjunction of those facts (so each single modification that breaks one of them is rejected). Correspondence: every single-field modification, bit flips of the proof, signal / declared-length changes, verifier tree changes and root sets (incl. zero entries) on real messages, with arkworks' own verdict as oracle so the three entry points' verdicts are predicted exactly.",
   note=TB + " Groth16 soundness itself is arkworks' (contract).",
   design="§5 C02", technique="Lean 4 proof (decision logic over a SNARK contract) + differential correspondence with oracle"),
 "C03": dict(
   text="Lean 4 theorems over the field (primality of the BN254 scalar modulus proved by a Pratt certificate): two shares of one line with different x always interpolate to the secret; identical x gives an error, never a crash; nullifier, root and external nullifier do not depend on the signal; recovery from two message encodings returns the secret, and nothing across different external nullifiers; equal nullifiers for different (external nullifier, message id) exhibit a Poseidon collision (reduction). Correspondence: boundary/random shares, message pairs built by the real code, really proved message pairs.",
   note=TB + " Distinctness of nullifiers is relative to Poseidon collision resistance (reduction + sampling).",
   design="§5 C03", technique="Lean 4 proof (field algebra over ZMod p with proved primality) + differential correspondence"),
 "C04": dict(
   text="Lean 4 theorems: for every witness proof_values_from_witness returns y = s + x*H(s,e,m), nullifier = H(H(s,e,m)), root = the ideal path fold (C07's recomputation) of H(H(s),limit), x and the external nullifier unchanged; error exactly when message id >= limit. Coincidence with the circuit's outputs is checked by running calculate_rln_witness()[0..6] and generate_rln_proof bytes 128..288 against the Lean formulas on boundary values, all direction patterns on a prefix, one-hot levels and random witnesses.",
   note=TB + " Partial: equality with the circuit's outputs is sampled (the bundled graph = the circuit is not a theorem, DESIGN §9).",
   design="§5 C04", technique="Lean 4 proof (unfolding to the specification formulas) + differential correspondence"),
 "C10": dict(
   text="Lean 4 theorems for all values: every codec pair round-trips (field elements, element / byte vectors, usize lists, witness, proof values, prove request), decoding always yields canonical values, a decoded witness consumed exactly the input whose length is fixed by its two counts (no trailing, no missing bytes), decoding is total; and translator-fed theorems: the field orders regenerated from protocol.rs on every run (serialisers, deserialisers, verify_proof's public inputs, the layouts in the doc comments) agree with each other and with the model. Correspondence in both directions against an encoder/decoder written from the documented layouts.",
   note=TB + " serde_json / ark-serialize (JSON witness) are trusted; the JSON round trip is exercised only.",
   design="§5 C10", technique="Lean 4 proof (round trips, exact length) + generated-layout theorems + differential correspondence"),
 "C12": dict(
   text="Lean 4 theorems over every request: a successful proving call had a witness with message id < limit and lists of the tree's depth — i.e. circuit-satisfiable outside three explicitly characterised shapes (open finding C12-unsat-accepted); the only crash is the witness calculator's length assertion (open finding C12-path-length-panic); the repaired boundary id = limit is rejected. Correspondence over the request domain (ids / limits across every boundary, positions up to 2^64-1, truncated / over-long / over-declared buffers, wrong path lengths, non-binary directions) with the specification answering ok exactly when the circuit relation is satisfiable.",
   note=TB + " Open findings C12-unsat-accepted, C12-path-length-panic (known_findings.txt).",
   design="§5 C12", technique="Lean 4 proof (decision logic) + differential correspondence with known-finding matchers"),
 "C13": dict(
   text="Lean 4 theorems for every byte string and SNARK contract: verify, verify_rln_proof, verify_with_roots (both arguments) and recover_id_secret never panic; accepted messages carry canonical encodings; two canonical encodings of the same five values are byte-identical; any v + k*p alias is rejected by all three entry points. Correspondence: every truncation length, over-long inputs, declared signal lengths up to 2^64-1, random content, every alias that fits 32 bytes, roots buffers of every length.",
   note=TB,
   design="§5 C13", technique="Lean 4 proof (totality, uniqueness of encoding) + differential correspondence"),
 "C19": dict(
   text="Lean 4 theorems for all operands below p: the Montgomery evaluator returns circom's documented value for every operator (modular arithmetic, signed comparisons through truth tables and constants regenerated from graph.rs on every run, Idiv/Mod, masked shifts modelled at limb level and proved equal to division / masked multiplication by 2^n, bitwise operations with the conditional subtraction), results canonical, no crash, integer and Montgomery evaluators agree — outside three open findings whose negations are kernel-checked at witnesses (shift counts above p/2, unimplemented Pow/Id, the unreduced integer evaluator). Correspondence on the boundary grid.",
   note=TB + " Open findings C19-shift-count-above-half, C19-montgomery-unimplemented, C19-integer-evaluator.",
   design="§5 C19", technique="Lean 4 proof (operator semantics, limb-level shifts) + generated-table theorems + differential correspondence"),
 "C15": dict(
   text="Lean 4 theorems: for every history, each backend model's list of empty positions equals the ideal tree's, which is characterised as the ascending positions below the high-water mark never written or last removed. The persistent backend's flag cache is not persisted (open finding C15-pm-reopen-flags, reported as KNOWN-FINDING); close/reopen histories are still compared with the model exactly. Correspondence: generated histories over every mutator with the empty list observed after every operation.",
   note=TB + " Open findings C15-pm-reopen-flags and (shared) C08-pm-batch.",
   design="§5 C15", technique="Lean 4 proof (refinement, history characterisation) + differential correspondence"),
}

NOT_APPLICABLE = []

def main():
    props = [json.loads(l)["id"] for l in open(os.path.join(HERE, "properties.jsonl"))]
    checks = []
    for pid in props:
        if pid in CHECKS:
            c = CHECKS[pid]
            checks.append({
                "property_id": pid,
                "quick_cmd": f"python3 check.py {pid} --tier quick",
                "thorough_cmd": f"python3 check.py {pid} --tier thorough",
                "evidence_file": f"/verif/evidence/{pid}.json",
                "replay_cmd_template": "python3 check.py --replay {path}",
                "engine": "lean4-model+correspondence",
                "level_claimed": {"category": c.get("category", "proof"), "text": c["text"], "design_ref": c["design"]},
                "level_note": c["note"],
                "technique": c["technique"],
            })
    na = [x for x in NOT_APPLICABLE]
    claimed = {c["property_id"] for c in checks}
    for pid in props:
        if pid not in claimed and pid not in {x["property_id"] for x in na}:
            na.append({"property_id": pid, "reason": "not yet claimed: check under construction (see DESIGN.md §10); no verdict is given for this property"})
    m = {
        "version": 1,
        "setup_cmd": "python3 check.py --setup",
        "hooks": {
            "guard": "--cfg zerokit_verif",
            "enable": "RUSTFLAGS='--cfg zerokit_verif' (set by lib/core.py for every harness build)",
            "baseline_off_cmd": "cd /repo && cargo test --workspace --no-fail-fast --offline",
            "source_commits": [],
            "add_only": True,
        },
        "engines": [{"name": "lean4-model+correspondence", "path": "/verif/lean, /verif/harness, /verif/check.py",
                     "serves_properties": sorted(claimed),
                     "kind_free_text": "Lean 4 models + kernel-checked theorems; translator pieces (tools/extract.py); Rust correspondence harness linked against /repo"}],
        "checks": checks,
        "notes": "See DESIGN.md. Known findings: known_findings.jsonl.",
        "not_applicable": na,
    }
    json.dump(m, open(os.path.join(HERE, "MANIFEST.json"), "w"), indent=1)
    print("claimed:", sorted(claimed))

if __name__ == "__main__":
    main()
