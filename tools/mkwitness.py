#!/usr/bin/env python3
"""helper (development only): run an op list on the harness and print an `open:` line skeleton"""
import json, sys, os
sys.path.insert(0, os.path.dirname(os.path.dirname(os.path.abspath(__file__))))
from lib import core
pid, fid, what = sys.argv[1], sys.argv[2], sys.argv[3]
ops = sys.argv[4].split(";")
at = int(sys.argv[5]) if len(sys.argv) > 5 else len(ops) - 1
zkh = core.build_harness()
impl = core.run_impl(zkh, ops)
spec = core.run_lean("spec", ops)
model = core.run_lean("model", ops)
for l, a, b, m in zip(ops, impl, spec, model):
    print("#", l, "\n#   impl ", a[:160], "\n#   spec ", b[:160], "\n#   model", m[:160])
d = {"what": what, "witness": {"ops": ops, "at": at, "observed": impl[at], "ideal": spec[at]}}
print(f"open: property={pid} id={fid} " + json.dumps(d))
