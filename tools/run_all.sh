#!/bin/bash
# run every claimed check (refreshes evidence/*.json); usage: tools/run_all.sh [quick|thorough]
cd "$(dirname "$0")/.."
T=${1:-quick}; rc=0
L=$(mktemp -d /tmp/runall.XXXXXX); echo "logs in $L"
for p in $(python3 -c "import json;print(' '.join(c['property_id'] for c in json.load(open('MANIFEST.json'))['checks']))"); do
  mkdir -p $L; s=$(date +%s); python3 check.py $p --tier $T > $L/$p.log 2>&1; r=$?
  echo "$p rc=$r $(( $(date +%s) - s ))s $(grep -c KNOWN-FINDING $L/$p.log) known $(grep VIOLATION $L/$p.log | head -2 | tr '\n' ' ')"
  [ $r -ne 0 ] && rc=1
done
exit $rc
