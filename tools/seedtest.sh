#!/bin/bash
# seedtest.sh <seed dir name under /verif/seeded | path of a directory holding patch.diff | none> [<property>] — run a property's quick check against a seeded change
# in an isolated copy (/tmp/seedtest/{verif,repo}), so that /repo and /verif stay untouched and other runs are not disturbed.
S=$1; P=${2:-${S:0:3}}
T=${SEEDTEST_DIR:-/tmp/seedtest}
PATCH=/verif/seeded/$S/patch.diff; [ -f "$S/patch.diff" ] && PATCH=$(readlink -f $S/patch.diff)
mkdir -p $T
[ -d $T/repo ] || git -C /repo worktree add -q --detach $T/repo HEAD
git -C $T/repo checkout -q --detach $(git -C /repo rev-parse HEAD) 2>/dev/null
git -C $T/repo reset -q --hard; git -C $T/repo clean -qfd
if [ -n "$SEEDTEST_FROM_HEAD" ]; then
  # the committed machinery only (so that edits in progress in /verif do not leak into a long self-test run)
  mkdir -p $T/verif; git -C /verif archive HEAD | tar -x -C $T/verif
else
  rsync -a --delete --exclude .git --exclude 'replays/' /verif/ $T/verif/
fi
sed -i "s#/repo/#$T/repo/#g" $T/verif/harness/Cargo.toml $T/verif/cfgh/Cargo.toml
rm -f $T/verif/harness/Cargo.lock $T/verif/cfgh/Cargo.lock
if [ "$S" != "none" ]; then git -C $T/repo apply $PATCH 2>/dev/null || git -C $T/repo apply --3way $PATCH || { echo "patch does not apply"; exit 2; }; fi
if [ "$P" = "all" ]; then (cd $T/verif && ZK_REPO=$T/repo tools/run_all.sh); git -C $T/repo reset -q --hard; git -C $T/repo clean -qfd; exit 0; fi
cd $T/verif && ZK_REPO=$T/repo python3 check.py $P 2>&1 | grep -E "ok:|VIOLATION|ABORT|KNOWN" | cut -c1-170 | head -${3:-4}
git -C $T/repo reset -q --hard; git -C $T/repo clean -qfd
