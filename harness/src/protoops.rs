//! C10/C13/C03/C04/C12/C01/C02 ops: byte codecs, protocol functions, the RLN object
//! (proving, verification, secret recovery), plus an independent SNARK oracle.
use crate::util::*;
use ark_groth16::{prepare_verifying_key, Groth16, Proof as ArkProof};
use ark_serialize::CanonicalDeserialize;
use num_bigint::BigUint;
use rln::circuit::qap::CircomReduction;
use rln::circuit::{zkey_from_folder, Curve, Fr};
use rln::protocol::*;
use rln::public::RLN;
use rln::utils::*;
use std::io::Cursor;

pub struct ProtoCtx {
    pub rln: Option<RLN>,
    pub chunk: usize,
}

fn list_fr(s: &str) -> Option<Vec<Fr>> {
    // `gen:<n>:<seed>` (hex): the n consecutive values seed+1, …, seed+n — long lists without long lines
    if let Some(rest) = s.strip_prefix("gen:") {
        let (n, seed) = rest.split_once(':')?;
        let (n, seed) = (parse_usize(n)?, parse_usize(seed)? as u64);
        return Some((1..=n as u64).map(|i| Fr::from(seed + i)).collect());
    }

    if s == "-" {
        return Some(vec![]);
    }
    s.split(',').map(parse_fr).collect()
}
fn show_frs(v: &[Fr]) -> String {
    format!("[{}]", v.iter().map(fr_hex).collect::<Vec<_>>().join(","))
}
fn fr_json_bytes(f: &Fr) -> serde_json::Value {
    serde_json::Value::Array(fr_to_bytes_le(f).into_iter().map(|b| serde_json::Value::from(b)).collect())
}

/// build an RLNWitnessInput from values (its fields are private): through the JSON codec
fn mk_witness(w: &[&str]) -> Option<Result<RLNWitnessInput, ()>> {
    let s = parse_fr(w[0])?;
    let lim = parse_fr(w[1])?;
    let mid = parse_fr(w[2])?;
    let path = list_fr(w[3])?;
    let idx = parse_bytes(w[4])?;
    let x = parse_fr(w[5])?;
    let e = parse_fr(w[6])?;
    let mut pe = Vec::new();
    // Vec<Fr> compressed: u64 length + elements
    pe.extend_from_slice(&(path.len() as u64).to_le_bytes());
    for p in &path {
        pe.extend_from_slice(&fr_to_bytes_le(p));
    }
    let j = serde_json::json!({
        "identity_secret": fr_json_bytes(&s),
        "user_message_limit": fr_json_bytes(&lim),
        "message_id": fr_json_bytes(&mid),
        "path_elements": serde_json::Value::Array(pe.into_iter().map(serde_json::Value::from).collect()),
        "identity_path_index": serde_json::Value::Array(idx.into_iter().map(serde_json::Value::from).collect()),
        "x": fr_json_bytes(&x),
        "external_nullifier": fr_json_bytes(&e),
    });
    Some(rln_witness_from_json(j).map_err(|_| ()))
}

/// canonical rendering of a witness through its decimal JSON export
fn show_witness(w: &RLNWitnessInput) -> String {
    match rln_witness_to_bigint_json(w) {
        Ok(j) => show_bigint_json(&j),
        Err(_) => "err".into(),
    }
}

/// the decimal JSON export of a witness, rendered canonically
fn show_bigint_json(j: &serde_json::Value) -> String {
    match Some(j) {
        Some(j) => {
            let g = |k: &str| -> String {
                let v = &j[k];
                let dec = |x: &serde_json::Value| {
                    let b = BigUint::parse_bytes(x.as_str().unwrap_or("0").as_bytes(), 10).unwrap_or_default();
                    format!("0x{}", b.to_str_radix(16))
                };
                if v.is_array() {
                    format!("[{}]", v.as_array().unwrap().iter().map(dec).collect::<Vec<_>>().join(","))
                } else {
                    dec(v)
                }
            };
            format!(
                "s={} lim={} mid={} path={} idx={} x={} e={}",
                g("identitySecret"), g("userMessageLimit"), g("messageId"), g("pathElements"),
                g("identityPathIndex"), g("x"), g("externalNullifier")
            )
        }
        None => "err".into(),
    }
}

fn show_pv(v: &RLNProofValues) -> String {
    format!("y={} n={} root={} x={} e={}", fr_hex(&v.y), fr_hex(&v.nullifier), fr_hex(&v.root), fr_hex(&v.x), fr_hex(&v.external_nullifier))
}

fn verdict(r: color_eyre::Result<bool>) -> String {
    match r {
        Ok(true) => "accept".into(),
        Ok(false) => "reject-false".into(),
        Err(_) => "reject-err".into(),
    }
}

impl ProtoCtx {
    pub fn new() -> Self {
        ProtoCtx { rln: None, chunk: 0 }
    }
    fn rln(&mut self) -> &mut RLN {
        if self.rln.is_none() {
            self.rln = Some(RLN::new(20, Cursor::new("{}".to_string())).unwrap());
        }
        self.rln.as_mut().unwrap()
    }
    pub fn exec(&mut self, w: &[&str]) -> Option<String> {
        Some(match (w[0], w.len()) {
            // ---------------------------------------------------------------- plain codecs
            ("ser_fr", 2) => show_bytes(&fr_to_bytes_le(&parse_fr(w[1])?)),
            // long vectors (beyond any internal chunking threshold) through the vector codecs: `bigvec fr|u8 <n> <seed>` encodes the
            // generated vector, decodes it again and prints a summary (count, bytes read, first, last, sum)
            ("bigvec", 4) => {
                let (n, seed) = (parse_usize(w[2])?, parse_usize(w[3])? as u64);
                if w[1] == "fr" {
                    let v: Vec<Fr> = (1..=n as u64).map(|i| Fr::from(seed + i)).collect();
                    let b = vec_fr_to_bytes_le(&v).ok()?;
                    match bytes_le_to_vec_fr(&b) {
                        Ok((d, read)) => {
                            let sum = d.iter().fold(Fr::from(0u64), |a, x| a + x);
                            format!("ok len={} read={} first={} last={} sum={}", d.len(), read, d.first().map(fr_hex).unwrap_or("-".into()), d.last().map(fr_hex).unwrap_or("-".into()), fr_hex(&sum))
                        }
                        Err(_) => "err".into(),
                    }
                } else {
                    let v: Vec<u8> = (1..=n as u64).map(|i| ((seed + i) & 0xff) as u8).collect();
                    let b = vec_u8_to_bytes_le(&v).ok()?;
                    match bytes_le_to_vec_u8(&b) {
                        Ok((d, read)) => {
                            let sum: u64 = d.iter().map(|x| *x as u64).sum();
                            format!("ok len={} read={} first={} last={} sum={}", d.len(), read, d.first().map(|x| format!("0x{:x}", x)).unwrap_or("-".into()), d.last().map(|x| format!("0x{:x}", x)).unwrap_or("-".into()), format!("0x{:x}", sum))
                        }
                        Err(_) => "err".into(),
                    }
                }
            }
            #[cfg(has_is_canonical)]
            ("is_canonical", 2) => format!("{}", rln::utils::is_canonical_fr_bytes_le(&parse_bytes(w[1])?)),
            #[cfg(not(has_is_canonical))]
            ("is_canonical", 2) => "n/a".to_string(),      // the helper does not exist in this tree: the verification streams carry the check
            ("de_fr", 2) => {
                let b = parse_bytes(w[1])?;
                let (v, n) = bytes_le_to_fr(&b);
                format!("{} {}", fr_hex(&v), n)
            }
            ("ser_vecfr", 2) => show_bytes(&vec_fr_to_bytes_le(&list_fr(w[1])?).ok()?),
            ("de_vecfr", 2) => match bytes_le_to_vec_fr(&parse_bytes(w[1])?) {
                Ok((v, n)) => format!("ok {} {}", show_frs(&v), n),
                Err(_) => "err".into(),
            },
            ("ser_vecu8", 2) => show_bytes(&vec_u8_to_bytes_le(&parse_bytes(w[1])?).ok()?),
            ("de_vecu8", 2) => match bytes_le_to_vec_u8(&parse_bytes(w[1])?) {
                Ok((v, n)) => format!("ok {} {}", show_bytes(&v), n),
                Err(_) => "err".into(),
            },
            ("ser_usize", 2) => {
                use ark_serialize::CanonicalSerialize;
                let v: Vec<usize> = if w[1] == "-" { vec![] } else { w[1].split(',').map(parse_usize).collect::<Option<_>>()? };
                let mut out = Vec::new();
                v.serialize_compressed(&mut out).ok()?;
                show_bytes(&out)
            }
            ("de_usize", 2) => match bytes_le_to_vec_usize(&parse_bytes(w[1])?) {
                Ok(v) => format!("ok [{}]", v.iter().map(|x| format!("{:#x}", x)).collect::<Vec<_>>().join(",")),
                Err(_) => "err".into(),
            },
            // ---------------------------------------------------------------- witness / proof values
            // witness s lim mid path idxbytes x e  ->  serialisation and published values
            ("witness", 8) => match mk_witness(&w[1..])? {
                Err(_) => "err".into(),
                Ok(wi) => {
                    let ser = match serialize_witness(&wi) {
                        Ok(b) => show_bytes(&b),
                        Err(_) => "err".into(),
                    };
                    let pv = match std::panic::catch_unwind(std::panic::AssertUnwindSafe(|| proof_values_from_witness(&wi))) {
                        Ok(Ok(v)) => show_pv(&v),
                        Ok(Err(_)) => "err".into(),
                        Err(_) => "panic".into(),
                    };
                    format!("ser={} pv={}", ser, pv)
                }
            },
            // the witness-graph evaluator on a witness given by values: first six entries, length, digest of all
            ("calcwit", 8) | ("calcwit_full", 8) => match mk_witness(&w[1..])? {
                Err(_) => "err".into(),
                Ok(wi) => match inputs_for_witness_calculation(&wi) {
                    Err(_) => "err".into(),
                    Ok(inputs) => {
                        let inputs = inputs.into_iter().map(|(n, v)| (n.to_string(), v));
                        let wit = rln::circuit::calculate_rln_witness(inputs, rln::circuit::graph_from_folder());
                        if w[0] == "calcwit_full" {
                            format!("[{}]", wit.iter().map(fr_hex).collect::<Vec<_>>().join(","))
                        } else {
                            use tiny_keccak::{Hasher, Keccak};
                            let mut k = Keccak::v256();
                            for f in &wit {
                                k.update(&fr_to_bytes_le(f));
                            }
                            let mut h = [0u8; 32];
                            k.finalize(&mut h);
                            format!("{} len={} digest={}", show_frs(&wit[..6.min(wit.len())]), wit.len(), show_bytes(&h))
                        }
                    }
                },
            },
            // the QAP witness map (data-parallel under rayon) on the witness of a given assignment: digest of the h vector
            ("witmap", 8) => match mk_witness(&w[1..])? {
                Err(_) => "err".into(),
                Ok(wi) => match inputs_for_witness_calculation(&wi) {
                    Err(_) => "err".into(),
                    Ok(inputs) => {
                        use ark_groth16::r1cs_to_qap::R1CSToQAP;
                        use ark_poly::GeneralEvaluationDomain;
                        let inputs = inputs.into_iter().map(|(n, v)| (n.to_string(), v));
                        let wit = rln::circuit::calculate_rln_witness(inputs, rln::circuit::graph_from_folder());
                        let pk = zkey_from_folder();
                        let m = &pk.1;
                        match CircomReduction::witness_map_from_matrices::<Fr, GeneralEvaluationDomain<Fr>>(m, m.num_instance_variables, m.num_constraints, &wit) {
                            Ok(h) => {
                                use tiny_keccak::{Hasher, Keccak};
                                let mut k = Keccak::v256();
                                for f in &h { k.update(&fr_to_bytes_le(f)); }
                                let mut d = [0u8; 32];
                                k.finalize(&mut d);
                                format!("len={} digest={}", h.len(), show_bytes(&d))
                            }
                            Err(_) => "err".into(),
                        }
                    }
                },
            },
            ("de_witness", 2) => match deserialize_witness(&parse_bytes(w[1])?) {
                Ok((wi, n)) => format!("ok {} read={}", show_witness(&wi), n),
                Err(_) => "err".into(),
            },
            // the RLN-level siblings of the two witness exports (thin wrappers; same answers expected)
            ("rln_wit_bigint", 2) => { let b = parse_bytes(w[1])?; match self.rln().get_rln_witness_bigint_json(&b) {
                Ok(j) => format!("ok {} read={}", show_bigint_json(&j), b.len()),
                Err(_) => "err".into(),
            } }
            ("rln_wit_json", 2) => { let b = parse_bytes(w[1])?; match self.rln().get_rln_witness_json(&b) {
                Ok(j) => match (rln_witness_from_json(j), deserialize_witness(&b)) {
                    (Ok(w2), Ok((wi, _))) => format!("ok {} same={}", show_witness(&w2), w2 == wi),
                    _ => "err".into(),
                },
                Err(_) => "err".into(),
            } }
            // the JSON text itself (compact serde_json rendering) of a decoded witness: compared with `Json.render` of the model
            ("json_text", 2) => match deserialize_witness(&parse_bytes(w[1])?) {
                Ok((wi, _)) => match rln_witness_to_json(&wi) {
                    Ok(j) => format!("ok {}", serde_json::to_string(&j).ok()?),
                    Err(_) => "err".into(),
                },
                Err(_) => "err".into(),
            },
            ("bigint_text", 2) => match deserialize_witness(&parse_bytes(w[1])?) {
                Ok((wi, _)) => match rln_witness_to_bigint_json(&wi) {
                    Ok(j) => format!("ok {}", serde_json::to_string(&j).ok()?),
                    Err(_) => "err".into(),
                },
                Err(_) => "err".into(),
            },
            // `rln_witness_from_json` on an object given field by field: key=n:1,2,3 (array of numbers; n:- empty),
            // key=s:<hex utf8> (string), key=t:<hex>,<hex> (array of strings), key=o (null)
            ("json_from", _) => {
                let mut m = serde_json::Map::new();
                for tok in &w[1..] {
                    let (k, v) = tok.split_once('=')?;
                    let val = if v == "o" {
                        serde_json::Value::Null
                    } else if let Some(r) = v.strip_prefix("n:") {
                        if r == "-" { serde_json::Value::Array(vec![]) } else {
                            serde_json::Value::Array(r.split(',').map(|x| x.parse::<u64>().ok().map(serde_json::Value::from)).collect::<Option<Vec<_>>>()?)
                        }
                    } else if let Some(r) = v.strip_prefix("s:") {
                        serde_json::Value::String(String::from_utf8(parse_bytes(r)?).ok()?)
                    } else if let Some(r) = v.strip_prefix("t:") {
                        serde_json::Value::Array(r.split(',').map(|x| parse_bytes(x).and_then(|b| String::from_utf8(b).ok()).map(serde_json::Value::String)).collect::<Option<Vec<_>>>()?)
                    } else { return None; };
                    m.insert(k.to_string(), val);
                }
                match rln_witness_from_json(serde_json::Value::Object(m)) {
                    Ok(wi) => format!("ok {}", show_witness(&wi)),
                    Err(_) => "err".into(),
                }
            }
            // JSON codec round trip of a decoded witness: decode(bytes) -> json -> witness -> bytes
            ("json_rt", 2) => match deserialize_witness(&parse_bytes(w[1])?) {
                Ok((wi, _)) => {
                    let j = rln_witness_to_json(&wi).ok()?;
                    match rln_witness_from_json(j) {
                        Ok(w2) => format!("ok {} same={}", show_witness(&w2), w2 == wi),
                        Err(_) => "err".into(),
                    }
                }
                Err(_) => "err".into(),
            },
            ("pv_ser", 6) => {
                let v = RLNProofValues { y: parse_fr(w[1])?, nullifier: parse_fr(w[2])?, root: parse_fr(w[3])?, x: parse_fr(w[4])?, external_nullifier: parse_fr(w[5])? };
                show_bytes(&serialize_proof_values(&v))
            }
            ("pv_de", 2) => {
                let (v, n) = deserialize_proof_values(&parse_bytes(w[1])?);
                format!("{} read={}", show_pv(&v), n)
            }
            ("prep_prove", 7) => show_bytes(&prepare_prove_input(parse_fr(w[1])?, parse_usize(w[2])?, parse_fr(w[3])?, parse_fr(w[4])?, parse_fr(w[5])?, &parse_bytes(w[6])?)),
            ("prep_verify", 3) => show_bytes(&prepare_verify_input(parse_bytes(w[1])?, &parse_bytes(w[2])?)),
            ("idsecret", 5) => match compute_id_secret((parse_fr(w[1])?, parse_fr(w[2])?), (parse_fr(w[3])?, parse_fr(w[4])?)) {
                Ok(s) => format!("ok {}", fr_hex(&s)),
                Err(_) => "err".into(),
            },
            ("fe_de", 2) => fr_hex(&deserialize_field_element(parse_bytes(w[1])?)),
            ("id_pair_de", 2) => {
                let (a, b) = deserialize_identity_pair(parse_bytes(w[1])?);
                format!("{} {}", fr_hex(&a), fr_hex(&b))
            }
            ("id_tuple_de", 2) => {
                let (a, b, c, d) = deserialize_identity_tuple(parse_bytes(w[1])?);
                format!("{} {} {} {}", fr_hex(&a), fr_hex(&b), fr_hex(&c), fr_hex(&d))
            }
            // ---------------------------------------------------------------- identities (C14)
            ("keygen_seeded", 2) => { let (a, b) = seeded_keygen(&parse_bytes(w[1])?); format!("{} {}", fr_hex(&a), fr_hex(&b)) }
            ("keygen_ext_seeded", 2) => { let (a, b, c, d) = extended_seeded_keygen(&parse_bytes(w[1])?); format!("{} {} {} {}", fr_hex(&a), fr_hex(&b), fr_hex(&c), fr_hex(&d)) }
            ("keygen", 1) => { let (a, b) = keygen(); format!("{} {}", fr_hex(&a), fr_hex(&b)) }
            ("keygen_ext", 1) => { let (a, b, c, d) = extended_keygen(); format!("{} {} {} {}", fr_hex(&a), fr_hex(&b), fr_hex(&c), fr_hex(&d)) }
            ("ffi_seeded_key_gen", 2) | ("ffi_seeded_ext_key_gen", 2) | ("ffi_key_gen", 1) | ("ffi_ext_key_gen", 1) => {
                use rln::ffi;
                let ctx: *const RLN = self.rln() as *const RLN;
                let seed = if w.len() == 2 { parse_bytes(w[1])? } else { vec![] };
                let ib = ffi::Buffer { ptr: seed.as_ptr(), len: seed.len() };
                let mut ob = ffi::Buffer { ptr: std::ptr::null(), len: 0 };
                let ok = match w[0] {
                    "ffi_seeded_key_gen" => ffi::seeded_key_gen(ctx, &ib, &mut ob),
                    "ffi_seeded_ext_key_gen" => ffi::seeded_extended_key_gen(ctx, &ib, &mut ob),
                    "ffi_key_gen" => ffi::key_gen(ctx, &mut ob),
                    _ => ffi::extended_key_gen(ctx, &mut ob),
                };
                let r1 = if ok { format!("ok {}", show_bytes(&crate::hashops::ffi_read(&ob))) } else { "err".to_string() };
                if w.len() == 2 {
                    // the seeded calls once more "in place": one Buffer struct as input and output
                    let mut io = ffi::Buffer { ptr: seed.as_ptr(), len: seed.len() };
                    let p: *mut ffi::Buffer = &mut io;
                    let ok2 = if w[0] == "ffi_seeded_key_gen" { ffi::seeded_key_gen(ctx, p as *const ffi::Buffer, p) } else { ffi::seeded_extended_key_gen(ctx, p as *const ffi::Buffer, p) };
                    let r2 = if ok2 { format!("ok {}", show_bytes(&crate::hashops::ffi_read(&io))) } else { "err".to_string() };
                    if r1 != r2 { return Some(format!("IN-PLACE-DIFFERS {} vs {}", r2, r1)); }
                }
                r1
            }
            // ---------------------------------------------------------------- the typed layer below the RLN object: a tree with one
            // registered leaf, the request parser, `generate_proof`, `proof_values_from_witness`, `verify_proof` called directly
            ("typed_prove", 4) => {
                use zerokit_utils::merkle_tree::ZerokitMerkleTree;
                let mut tree = rln::poseidon_tree::PoseidonTree::default(20).ok()?;
                tree.set(parse_usize(w[1])?, parse_fr(w[2])?).ok()?;
                let req = parse_bytes(w[3])?;
                match proof_inputs_to_rln_witness(&mut tree, &req) {
                    Err(_) => "err".into(),
                    Ok((wi, _)) => match generate_proof(zkey_from_folder(), &wi, rln::circuit::graph_from_folder()) {
                        Err(_) => "err".into(),
                        Ok(proof) => match proof_values_from_witness(&wi) {
                            Err(_) => "proof-without-values".into(),
                            Ok(pv) => {
                                let ok = verify_proof(&zkey_from_folder().0.vk, &proof, &pv).unwrap_or(false) && pv.root == tree.root();
                                format!("ok {} {}", show_bytes(&serialize_proof_values(&pv)), if ok { "accept" } else { "reject-false" })
                            }
                        },
                    },
                }
            }
            // ---------------------------------------------------------------- the RLN object
            ("rln", _) if w.len() >= 2 => return self.rln_op(&w[1..]),
            // independent oracle: arkworks point decoding and the Groth16 verdict for the values read
            // from the documented layout [proof<128> | root | e | x | y | nullifier]
            ("oracle", 2) => {
                let b = parse_bytes(w[1])?;
                if b.len() < 288 {
                    return Some("dec=0 snark=0".into());
                }
                let proof = match ArkProof::<Curve>::deserialize_compressed(&mut Cursor::new(&b[..128])) {
                    Ok(p) => p,
                    Err(_) => return Some("dec=0 snark=0".into()),
                };
                let f = |k: usize| Fr::from(BigUint::from_bytes_le(&b[128 + 32 * k..160 + 32 * k]));
                let (root, e, x, y, n) = (f(0), f(1), f(2), f(3), f(4));
                let pvk = prepare_verifying_key(&zkey_from_folder().0.vk);
                let ok = Groth16::<Curve, CircomReduction>::verify_proof(&pvk, &proof, &[y, root, n, x, e]).unwrap_or(false);
                format!("dec=1 snark={}", if ok { 1 } else { 0 })
            }
            _ => return None,
        })
    }

    fn rln_op(&mut self, w: &[&str]) -> Option<String> {
        let chunk = self.chunk;
        let res = |r: color_eyre::Result<()>| if r.is_ok() { "ok".to_string() } else { "err".to_string() };
        let out = |r: color_eyre::Result<()>, c: crate::protoops::ChunkWriter| if r.is_ok() { format!("ok {}", show_bytes(&c.into_inner())) } else { "err".to_string() };
        Some(match (w[0], w.len()) {
            // every reader handed to the API from now on delivers at most n bytes per read() call (0: everything at once)
            ("chunk", 2) => { self.chunk = parse_usize(w[1])?; "ok".into() }
            ("new", 1) => {
                self.rln = None;
                self.rln();
                "ok".into()
            }
            // an RLN object on a persistent location chosen by the caller, through `RLN::new` (configuration under "tree_config") or
            // through `RLN::new_with_params` (the bare tree configuration); the previous object is dropped first
            ("new_at", 2) | ("new_params_at", 2) => {
                self.rln = None;
                let tc = format!("{{\"path\": \"{}\", \"temporary\": false}}", w[1]);
                let r = if w[0] == "new_at" {
                    RLN::new(20, Cursor::new(format!("{{\"tree_config\": {}}}", tc)))
                } else {
                    let repo = std::env::var("ZK_REPO").unwrap_or_else(|_| "/repo".to_string());
                    let dir = format!("{}/rln/resources/tree_height_20", repo);
                    RLN::new_with_params(20, std::fs::read(format!("{}/rln_final.zkey", dir)).ok()?, std::fs::read(format!("{}/graph.bin", dir)).ok()?, Cursor::new(tc))
                };
                match r { Ok(x) => { self.rln = Some(x); "ok".into() } Err(_) => "err".into() }
            }
            // the same instance built from caller-supplied resources (the key file and graph of the repository, read here as bytes)
            ("new_params", 1) => {
                let repo = std::env::var("ZK_REPO").unwrap_or_else(|_| "/repo".to_string());
                let dir = format!("{}/rln/resources/tree_height_20", repo);
                let zkey = std::fs::read(format!("{}/rln_final.zkey", dir)).ok()?;
                let graph = std::fs::read(format!("{}/graph.bin", dir)).ok()?;
                self.rln = None;
                match RLN::new_with_params(20, zkey, graph, crate::protoops::ChunkReader::new(chunk, Vec::new())) {
                    Ok(r) => { self.rln = Some(r); "ok".into() }
                    Err(_) => "err".into(),
                }
            }
            // `rln io <r|r1|w> <op> args…`: the same API call made by a caller whose reader fails after delivering its bytes (r: the
            // last reader, r1: the first of two) or whose output cannot take a single byte (w). The call must return an error and
            // leave the instance exactly as it was (observed by the lines that follow).
            ("io", _) if w.len() >= 3 => {
                struct FailingReader(Cursor<Vec<u8>>, bool);
                impl std::io::Read for FailingReader {
                    fn read(&mut self, buf: &mut [u8]) -> std::io::Result<usize> {
                        let n = self.0.read(buf)?;
                        if n == 0 && self.1 { Err(std::io::Error::new(std::io::ErrorKind::Other, "injected read failure")) } else { Ok(n) }
                    }
                }
                let fr = |b: Vec<u8>| FailingReader(Cursor::new(b), true);
                let okr = |b: Vec<u8>| FailingReader(Cursor::new(b), false);
                let mut none: [u8; 0] = [];
                let mode = w[1];
                let a = &w[2..];
                let r: color_eyre::Result<()> = match (mode, a[0], a.len()) {
                    ("r", "set_leaf", 3) => { let b = fr_to_bytes_le(&parse_fr(a[2])?); self.rln().set_leaf(parse_usize(a[1])?, fr(b)) }
                    ("r", "set_next", 2) => { let b = fr_to_bytes_le(&parse_fr(a[1])?); self.rln().set_next_leaf(fr(b)) }
                    ("r", "set_leaves_from", 3) => { let b = vec_fr_to_bytes_le(&list_fr(a[2])?).ok()?; self.rln().set_leaves_from(parse_usize(a[1])?, fr(b)) }
                    ("r", "init_leaves", 2) => { let b = vec_fr_to_bytes_le(&list_fr(a[1])?).ok()?; self.rln().init_tree_with_leaves(fr(b)) }
                    ("r", "atomic", 4) | ("r1", "atomic", 4) => {
                        let b = vec_fr_to_bytes_le(&list_fr(a[2])?).ok()?;
                        let idx: Vec<u8> = if a[3] == "-" { vec![] } else { a[3].split(',').map(|x| parse_usize(x).map(|v| v as u8)).collect::<Option<_>>()? };
                        let ib = vec_u8_to_bytes_le(&idx).ok()?;
                        if mode == "r" { self.rln().atomic_operation(parse_usize(a[1])?, okr(b), fr(ib)) } else { self.rln().atomic_operation(parse_usize(a[1])?, fr(b), okr(ib)) }
                    }
                    ("w", "root", 1) => self.rln().get_root(&mut none[..]),
                    ("w", "get_leaf", 2) => self.rln().get_leaf(parse_usize(a[1])?, &mut none[..]),
                    ("w", "get_proof", 2) => self.rln().get_proof(parse_usize(a[1])?, &mut none[..]),
                    ("w", "empty", 1) => self.rln().get_empty_leaves_indices(&mut none[..]),
                    ("w", "prove_req", 2) => self.rln().generate_rln_proof(crate::protoops::ChunkReader::new(chunk, parse_bytes(a[1])?), &mut none[..]),
                    ("r", "prove_req", 2) => { let mut c = crate::protoops::ChunkWriter::new(chunk); self.rln().generate_rln_proof(fr(parse_bytes(a[1])?), &mut c) }
                    ("r", "verify_rln", 2) => self.rln().verify_rln_proof(fr(parse_bytes(a[1])?)).map(|_| ()),
                    ("r", "verify", 2) => self.rln().verify(fr(parse_bytes(a[1])?)).map(|_| ()),
                    ("w", "key_gen", 1) => self.rln().key_gen(&mut none[..]),
                    ("w", "seeded_key_gen", 2) => self.rln().seeded_key_gen(crate::protoops::ChunkReader::new(chunk, parse_bytes(a[1])?), &mut none[..]),
                    ("r", "seeded_key_gen", 2) => { let mut c = crate::protoops::ChunkWriter::new(chunk); self.rln().seeded_key_gen(fr(parse_bytes(a[1])?), &mut c) }
                    ("r", "recover", 3) => { let mut c = crate::protoops::ChunkWriter::new(chunk); self.rln().recover_id_secret(okr(parse_bytes(a[1])?), fr(parse_bytes(a[2])?), &mut c) }
                    ("w", "recover", 3) => self.rln().recover_id_secret(crate::protoops::ChunkReader::new(chunk, parse_bytes(a[1])?), crate::protoops::ChunkReader::new(chunk, parse_bytes(a[2])?), &mut none[..]),
                    _ => return None,
                };
                res(r)
            }
            ("set_leaf", 3) => { let b = fr_to_bytes_le(&parse_fr(w[2])?); res(self.rln().set_leaf(parse_usize(w[1])?, crate::protoops::ChunkReader::new(chunk, b))) }
            ("set_next", 2) => { let b = fr_to_bytes_le(&parse_fr(w[1])?); res(self.rln().set_next_leaf(crate::protoops::ChunkReader::new(chunk, b))) }
            ("delete", 2) => res(self.rln().delete_leaf(parse_usize(w[1])?)),
            ("root", 1) => { let mut c = crate::protoops::ChunkWriter::new(chunk); let r = self.rln().get_root(&mut c); if r.is_ok() { fr_hex(&bytes_le_to_fr(&c.into_inner()).0) } else { "err".into() } }
            ("get_leaf", 2) => { let mut c = crate::protoops::ChunkWriter::new(chunk); let r = self.rln().get_leaf(parse_usize(w[1])?, &mut c); if r.is_ok() { fr_hex(&bytes_le_to_fr(&c.into_inner()).0) } else { "err".into() } }
            ("get_proof", 2) => { let mut c = crate::protoops::ChunkWriter::new(chunk); let r = self.rln().get_proof(parse_usize(w[1])?, &mut c); out(r, c) }
            ("leaves_set", 1) => format!("{}", self.rln().leaves_set()),
            ("set_leaves_from", 3) => { let b = vec_fr_to_bytes_le(&list_fr(w[2])?).ok()?; res(self.rln().set_leaves_from(parse_usize(w[1])?, crate::protoops::ChunkReader::new(chunk, b))) }
            ("init_leaves", 2) => { let b = vec_fr_to_bytes_le(&list_fr(w[1])?).ok()?; res(self.rln().init_tree_with_leaves(crate::protoops::ChunkReader::new(chunk, b))) }
            ("atomic", 4) => {
                let b = vec_fr_to_bytes_le(&list_fr(w[2])?).ok()?;
                let idx: Vec<u8> = if w[3] == "-" { vec![] } else { w[3].split(',').map(|x| parse_usize(x).map(|v| v as u8)).collect::<Option<_>>()? };
                let ib = vec_u8_to_bytes_le(&idx).ok()?;
                res(self.rln().atomic_operation(parse_usize(w[1])?, crate::protoops::ChunkReader::new(chunk, b), crate::protoops::ChunkReader::new(chunk, ib)))
            }
            ("empty", 1) => { let mut c = crate::protoops::ChunkWriter::new(chunk); let r = self.rln().get_empty_leaves_indices(&mut c); out(r, c) }
            // proving entry points: raw request bytes in, message bytes out
            ("prove_req", 2) => { let mut c = crate::protoops::ChunkWriter::new(chunk); let r = self.rln().generate_rln_proof(crate::protoops::ChunkReader::new(chunk, parse_bytes(w[1])?), &mut c); out(r, c) }
            ("prove_wit", 2) => { let mut c = crate::protoops::ChunkWriter::new(chunk); let r = self.rln().generate_rln_proof_with_witness(crate::protoops::ChunkReader::new(chunk, parse_bytes(w[1])?), &mut c); out(r, c) }
            ("prove_raw", 2) => { let mut c = crate::protoops::ChunkWriter::new(chunk); let r = self.rln().prove(crate::protoops::ChunkReader::new(chunk, parse_bytes(w[1])?), &mut c); out(r, c) }
            // fourth proving entry point: an externally computed witness vector (as rln-wasm does) + generate_proof_with_witness
            ("prove_ext", 2) => {
                use ark_serialize::CanonicalSerialize;
                let b = parse_bytes(w[1])?;
                match deserialize_witness(&b) {
                    Err(_) => "err".into(),
                    Ok((wi, _)) => match (proof_values_from_witness(&wi), inputs_for_witness_calculation(&wi)) {
                        (Ok(pv), Ok(inputs)) => {
                            let inputs = inputs.into_iter().map(|(n, v)| (n.to_string(), v));
                            let wit = rln::circuit::calculate_rln_witness(inputs, rln::circuit::graph_from_folder());
                            let big: Vec<num_bigint::BigInt> = wit.iter().map(|f| to_bigint(f).unwrap()).collect();
                            match generate_proof_with_witness(big, zkey_from_folder()) {
                                Ok(proof) => {
                                    let mut out = Vec::new();
                                    proof.serialize_compressed(&mut out).ok()?;
                                    out.extend_from_slice(&serialize_proof_values(&pv));
                                    format!("ok {}", show_bytes(&out))
                                }
                                Err(_) => "err".into(),
                            }
                        }
                        _ => "err".into(),
                    },
                }
            }
            // prove and verify in one step (the proof is randomised, the verdict and the published values are not)
            ("prove_verify", 3) => {
                let (req, sig) = (parse_bytes(w[1])?, parse_bytes(w[2])?);
                let mut c = crate::protoops::ChunkWriter::new(chunk);
                match self.rln().generate_rln_proof(crate::protoops::ChunkReader::new(chunk, req), &mut c) {
                    Err(_) => "err".into(),
                    Ok(()) => {
                        let msg = c.into_inner();
                        let mut full = msg.clone();
                        full.extend_from_slice(&normalize_usize(sig.len()));
                        full.extend_from_slice(&sig);
                        let v = verdict(self.rln().verify_rln_proof(crate::protoops::ChunkReader::new(chunk, full)));
                        format!("ok {} {}", show_bytes(&msg[128..]), v)
                    }
                }
            }
            ("witness_req", 2) => match self.rln().get_serialized_rln_witness(crate::protoops::ChunkReader::new(chunk, parse_bytes(w[1])?)) { Ok(b) => format!("ok {}", show_bytes(&b)), Err(_) => "err".into() },
            // verification entry points (trailing oracle fields are for the model side only)
            ("verify", _) if w.len() >= 2 => verdict(self.rln().verify(crate::protoops::ChunkReader::new(chunk, parse_bytes(w[1])?))),
            ("verify_rln", _) if w.len() >= 2 => verdict(self.rln().verify_rln_proof(crate::protoops::ChunkReader::new(chunk, parse_bytes(w[1])?))),
            ("verify_roots", _) if w.len() >= 3 => verdict(self.rln().verify_with_roots(crate::protoops::ChunkReader::new(chunk, parse_bytes(w[1])?), crate::protoops::ChunkReader::new(chunk, parse_bytes(w[2])?))),
            ("seeded_key_gen", 2) => { let mut c = crate::protoops::ChunkWriter::new(chunk); let r = self.rln().seeded_key_gen(crate::protoops::ChunkReader::new(chunk, parse_bytes(w[1])?), &mut c); out(r, c) }
            ("seeded_ext_key_gen", 2) => { let mut c = crate::protoops::ChunkWriter::new(chunk); let r = self.rln().seeded_extended_key_gen(crate::protoops::ChunkReader::new(chunk, parse_bytes(w[1])?), &mut c); out(r, c) }
            ("key_gen", 1) => { let mut c = crate::protoops::ChunkWriter::new(chunk); let r = self.rln().key_gen(&mut c); out(r, c) }
            ("ext_key_gen", 1) => { let mut c = crate::protoops::ChunkWriter::new(chunk); let r = self.rln().extended_key_gen(&mut c); out(r, c) }
            ("recover", 3) => { let mut c = crate::protoops::ChunkWriter::new(chunk); let r = self.rln().recover_id_secret(crate::protoops::ChunkReader::new(chunk, parse_bytes(w[1])?), crate::protoops::ChunkReader::new(chunk, parse_bytes(w[2])?), &mut c); out(r, c) }
            _ => return None,
        })
    }
}

/// an in-memory sink that takes at most `chunk` bytes per `write()` call (0 = no limit): `Write::write` may legally accept
/// only a prefix, so code that must deliver all of its output has to use `write_all`
pub struct ChunkWriter(Vec<u8>, usize);
impl ChunkWriter {
    pub fn new(chunk: usize) -> Self { ChunkWriter(Vec::new(), chunk) }
    pub fn into_inner(self) -> Vec<u8> { self.0 }
    pub fn get_ref(&self) -> &Vec<u8> { &self.0 }
}
impl std::io::Write for ChunkWriter {
    fn write(&mut self, buf: &[u8]) -> std::io::Result<usize> {
        let n = if self.1 == 0 { buf.len() } else { buf.len().min(self.1) };
        self.0.extend_from_slice(&buf[..n]);
        Ok(n)
    }
    fn flush(&mut self) -> std::io::Result<()> { Ok(()) }
}

/// a reader over a byte vector that delivers at most `chunk` bytes per `read()` call (0 = no limit): `Read::read` may
/// legally return fewer bytes than asked for, so code that must see all of its input has to loop (`read_to_end`, `read_exact`)
pub struct ChunkReader(Cursor<Vec<u8>>, usize);
impl ChunkReader {
    pub fn new(chunk: usize, b: Vec<u8>) -> Self { ChunkReader(Cursor::new(b), chunk) }
}
impl std::io::Read for ChunkReader {
    fn read(&mut self, buf: &mut [u8]) -> std::io::Result<usize> {
        let n = if self.1 == 0 { buf.len() } else { buf.len().min(self.1) };
        self.0.read(&mut buf[..n])
    }
}

/// read-only calls on a shared instance (`&RLN`), for the concurrency part of C18
pub fn shared_op(rln: &RLN, line: &str) -> String {
    let w: Vec<&str> = line.trim().split(' ').filter(|s| !s.is_empty()).collect();
    let r = std::panic::catch_unwind(std::panic::AssertUnwindSafe(|| -> Option<String> {
        let out = |r: color_eyre::Result<()>, c: Cursor<Vec<u8>>| if r.is_ok() { format!("ok {}", show_bytes(&c.into_inner())) } else { "err".to_string() };
        Some(match (w[0], w.len()) {
            ("verify", _) if w.len() >= 2 => verdict(rln.verify(Cursor::new(parse_bytes(w[1])?))),
            ("verify_rln", _) if w.len() >= 2 => verdict(rln.verify_rln_proof(Cursor::new(parse_bytes(w[1])?))),
            ("verify_roots", _) if w.len() >= 3 => verdict(rln.verify_with_roots(Cursor::new(parse_bytes(w[1])?), Cursor::new(parse_bytes(w[2])?))),
            ("root", 1) => { let mut c = Cursor::new(Vec::new()); let r = rln.get_root(&mut c); out(r, c) }
            ("get_leaf", 2) => { let mut c = Cursor::new(Vec::new()); let r = rln.get_leaf(parse_usize(w[1])?, &mut c); out(r, c) }
            ("get_proof", 2) => { let mut c = Cursor::new(Vec::new()); let r = rln.get_proof(parse_usize(w[1])?, &mut c); out(r, c) }
            ("sub_root", 3) => { let mut c = Cursor::new(Vec::new()); let r = rln.get_subtree_root(parse_usize(w[1])?, parse_usize(w[2])?, &mut c); out(r, c) }
            ("empty", 1) => { let mut c = Cursor::new(Vec::new()); let r = rln.get_empty_leaves_indices(&mut c); out(r, c) }
            ("meta_get", 1) => { let mut c = Cursor::new(Vec::new()); let r = rln.get_metadata(&mut c); out(r, c) }
            ("seeded_key_gen", 2) => { let mut c = Cursor::new(Vec::new()); let r = rln.seeded_key_gen(Cursor::new(parse_bytes(w[1])?), &mut c); out(r, c) }
            ("recover", 3) => { let mut c = Cursor::new(Vec::new()); let r = rln.recover_id_secret(Cursor::new(parse_bytes(w[1])?), Cursor::new(parse_bytes(w[2])?), &mut c); out(r, c) }
            ("hash", 2) => { let mut c = Cursor::new(Vec::new()); let r = rln::public::hash(Cursor::new(parse_bytes(w[1])?), &mut c); out(r, c) }
            ("poseidon", 2) => { let mut c = Cursor::new(Vec::new()); let r = rln::public::poseidon_hash(Cursor::new(parse_bytes(w[1])?), &mut c); out(r, c) }
            _ => return None,
        })
    }));
    match r { Ok(Some(s)) => s, Ok(None) => "bad-op".into(), Err(_) => "panic".into() }
}
