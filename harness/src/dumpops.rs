//! `zkh dump` — the second translator: facts of the CURRENT source as the compiler sees them, printed as
//! `key<TAB>json` lines. tools/extract.py uses them where its syntactic reading of the source does not recognise a
//! region (a harmless rewrite of a table or of a serialiser), and cross-checks them where it does.
//!
//! * tables that are public items are printed as they are (`ROUND_PARAMS`, `M`, the protobuf enum numbering, the
//!   `From` tables between graph operators and protobuf operators);
//! * private constants are measured through the public evaluator (`HALF_M` by bisection on `Lt`, the four
//!   signed-comparison truth tables by evaluating representatives of every sign class);
//! * byte layouts are discovered by probes: every field gets a distinct marker value, the serialiser's output is tiled
//!   into fields by locating the markers, and the deserialiser is fed that tiling to see which field reads which bytes.
use ark_ff::PrimeField;
use num_bigint::BigUint;
use rln::circuit::iden3calc::graph::{self, Operation, TresOperation, UnoOperation};
use rln::circuit::iden3calc::proto;
use rln::circuit::Fr;
use rln::protocol::*;
use rln::utils::*;
use std::panic::{catch_unwind, AssertUnwindSafe};

fn fr(n: u64) -> Fr {
    Fr::from(n)
}
fn fr_big(b: &BigUint) -> Fr {
    Fr::from(b.clone())
}
fn big(f: &Fr) -> BigUint {
    (*f).into()
}
fn modulus() -> BigUint {
    BigUint::from(<Fr as PrimeField>::MODULUS)
}

const DUO: [(Operation, &str); 20] = [
    (Operation::Mul, "Mul"), (Operation::Div, "Div"), (Operation::Add, "Add"), (Operation::Sub, "Sub"), (Operation::Pow, "Pow"),
    (Operation::Idiv, "Idiv"), (Operation::Mod, "Mod"), (Operation::Eq, "Eq"), (Operation::Neq, "Neq"), (Operation::Lt, "Lt"),
    (Operation::Gt, "Gt"), (Operation::Leq, "Leq"), (Operation::Geq, "Geq"), (Operation::Land, "Land"), (Operation::Lor, "Lor"),
    (Operation::Shl, "Shl"), (Operation::Shr, "Shr"), (Operation::Bor, "Bor"), (Operation::Band, "Band"), (Operation::Bxor, "Bxor"),
];
const PDUO: [proto::DuoOp; 20] = [
    proto::DuoOp::Mul, proto::DuoOp::Div, proto::DuoOp::Add, proto::DuoOp::Sub, proto::DuoOp::Pow, proto::DuoOp::Idiv, proto::DuoOp::Mod,
    proto::DuoOp::Eq, proto::DuoOp::Neq, proto::DuoOp::Lt, proto::DuoOp::Gt, proto::DuoOp::Leq, proto::DuoOp::Geq, proto::DuoOp::Land,
    proto::DuoOp::Lor, proto::DuoOp::Shl, proto::DuoOp::Shr, proto::DuoOp::Bor, proto::DuoOp::Band, proto::DuoOp::Bxor,
];

fn q(s: &str) -> String {
    format!("\"{}\"", s)
}

/// `Lt(a, 0) = 1` exactly when `a` counts as negative (row (true, false) of u_lt is the constant 1, and a non-negative
/// non-zero `a` is not below 0): the largest non-negative value is HALF_M
fn half_m() -> Option<BigUint> {
    let neg = |a: &BigUint| -> bool { Operation::Lt.eval_fr(fr_big(a), fr(0)) == fr(1) };
    let p = modulus();
    let (mut lo, mut hi) = (BigUint::from(0u8), &p - 1u8); // neg(lo) false, neg(hi) true
    if neg(&lo) || !neg(&hi) {
        return None;
    }
    while &hi - &lo > BigUint::from(1u8) {
        let mid = (&lo + &hi) >> 1;
        if neg(&mid) { hi = mid } else { lo = mid }
    }
    Some(lo)
}

/// one row of a signed-comparison table, inferred from the results on a < b, a = b, a > b inside one sign class
fn cmp_row(op: Operation, an: bool, bn: bool, h: &BigUint) -> Option<String> {
    let p = modulus();
    // representatives: non-negative 3 < 9 ; negative p-9 < p-3
    let pick = |neg: bool, small: bool| -> BigUint {
        match (neg, small) { (false, true) => BigUint::from(3u8), (false, false) => BigUint::from(9u8), (true, true) => &p - 9u8, (true, false) => &p - 3u8 }
    };
    let _ = h;
    let ev = |a: &BigUint, b: &BigUint| -> Option<u8> {
        let r = op.eval_fr(fr_big(a), fr_big(b));
        if r == fr(0) { Some(0) } else if r == fr(1) { Some(1) } else { None }
    };
    if an == bn {
        let (s, l) = (pick(an, true), pick(an, false));
        let pat = (ev(&s, &l)?, ev(&s, &s)?, ev(&l, &s)?);
        Some(match pat {
            (1, 0, 0) => ".lt".into(), (1, 1, 0) => ".le".into(), (0, 0, 1) => ".gt".into(), (0, 1, 1) => ".ge".into(),
            (0, 0, 0) => ".const 0".into(), (1, 1, 1) => ".const 1".into(), _ => return None,
        })
    } else {
        // mixed signs: the unsigned order is fixed, a constant row and a comparator row cannot be told apart — canonical form: constant
        let vals: Vec<u8> = [(true, true), (true, false), (false, true), (false, false)].iter().map(|(x, y)| ev(&pick(an, *x), &pick(bn, *y))).collect::<Option<_>>()?;
        if vals.iter().all(|v| *v == vals[0]) { Some(format!(".const {}", vals[0])) } else { None }
    }
}

struct Field { name: &'static str, kind: &'static str, off: usize, len: usize }

/// locate the 32-byte little-endian encoding of a small marker
fn find_fr(buf: &[u8], marker: u64, from: usize) -> Option<usize> {
    let pat = fr_to_bytes_le(&fr(marker));
    (from..buf.len().saturating_sub(31)).find(|i| buf[*i..*i + 32] == pat[..])
}

fn tiling(mut fs: Vec<Field>, total: usize) -> Option<Vec<String>> {
    fs.sort_by_key(|f| f.off);
    let mut pos = 0;
    for f in &fs {
        if f.off != pos { return None; }
        pos += f.len;
    }
    if pos != total { return None; }
    Some(fs.iter().map(|f| format!("{}:{}", f.name, f.kind)).collect())
}

fn list(v: Option<Vec<String>>) -> String {
    match v { Some(xs) => format!("[{}]", xs.iter().map(|x| q(x)).collect::<Vec<_>>().join(",")), None => "null".into() }
}

fn witness_json(s: u64, lim: u64, mid: u64, path: &[u64], idx: &[u8], x: u64, e: u64) -> serde_json::Value {
    let frb = |v: u64| serde_json::Value::Array(fr_to_bytes_le(&fr(v)).into_iter().map(serde_json::Value::from).collect());
    let mut pe = Vec::new();
    pe.extend_from_slice(&(path.len() as u64).to_le_bytes());
    for p in path { pe.extend_from_slice(&fr_to_bytes_le(&fr(*p))); }
    serde_json::json!({
        "identity_secret": frb(s), "user_message_limit": frb(lim), "message_id": frb(mid),
        "path_elements": serde_json::Value::Array(pe.into_iter().map(serde_json::Value::from).collect()),
        "identity_path_index": serde_json::Value::Array(idx.iter().map(|b| serde_json::Value::from(*b)).collect()),
        "x": frb(x), "external_nullifier": frb(e),
    })
}

/// key of a witness field in the decimal JSON export
fn jkey(n: &str) -> &'static str {
    match n {
        "identity_secret" => "identitySecret", "user_message_limit" => "userMessageLimit", "message_id" => "messageId",
        "path_elements" => "pathElements", "identity_path_index" => "identityPathIndex", "x" => "x", _ => "externalNullifier",
    }
}

fn dec(j: &serde_json::Value) -> Option<BigUint> {
    BigUint::parse_bytes(j.as_str()?.as_bytes(), 10)
}

pub fn dump() -> Vec<(String, String)> {
    let mut out: Vec<(String, String)> = Vec::new();
    let mut put = |k: &str, v: String| out.push((k.to_string(), v));

    // ---- public tables
    put("roundParams", format!("[{}]", rln::hashers::ROUND_PARAMS.iter().map(|(a, b, c, d)| format!("[{},{},{},{}]", a, b, c, d)).collect::<Vec<_>>().join(",")));
    put("graph.M", q(&BigUint::from_bytes_le(&graph::M.to_le_bytes::<32>()).to_string()));
    let h = catch_unwind(AssertUnwindSafe(half_m)).ok().flatten();
    put("graph.HALF_M", match &h { Some(v) => q(&v.to_string()), None => "null".into() });
    for (op, key) in [(Operation::Lt, "graph.u_lt"), (Operation::Gt, "graph.u_gt"), (Operation::Leq, "graph.u_lte"), (Operation::Geq, "graph.u_gte")] {
        let rows: Option<Vec<String>> = h.as_ref().and_then(|h| {
            [(false, false), (false, true), (true, false), (true, true)].iter().map(|(a, b)| {
                catch_unwind(AssertUnwindSafe(|| cmp_row(op, *a, *b, h))).ok().flatten().map(|r| format!("(({}, {}), {})", a, b, r))
            }).collect()
        });
        put(key, list(rows));
    }
    put("proto.enumDuoOp", format!("[{}]", PDUO.iter().map(|o| format!("[{},{}]", q(&format!("{:?}", o)), *o as i32)).collect::<Vec<_>>().join(",")));
    put("proto.enumUnoOp", format!("[{}]", [proto::UnoOp::Neg, proto::UnoOp::Id].iter().map(|o| format!("[{},{}]", q(&format!("{:?}", o)), *o as i32)).collect::<Vec<_>>().join(",")));
    put("proto.enumTresOp", format!("[{}]", [proto::TresOp::TernCond].iter().map(|o| format!("[{},{}]", q(&format!("{:?}", o)), *o as i32)).collect::<Vec<_>>().join(",")));
    put("proto.toProtoDuo", format!("[{}]", DUO.iter().map(|(o, n)| format!("[{},{}]", q(n), q(&format!("{:?}", proto::DuoOp::from(o))))).collect::<Vec<_>>().join(",")));
    put("proto.fromProtoDuo", format!("[{}]", PDUO.iter().map(|o| format!("[{},{}]", q(&format!("{:?}", o)), q(&format!("{:?}", Operation::from(*o))))).collect::<Vec<_>>().join(",")));
    put("proto.toProtoUno", format!("[{}]", [(UnoOperation::Neg, "Neg"), (UnoOperation::Id, "Id")].iter().map(|(o, n)| format!("[{},{}]", q(n), q(&format!("{:?}", proto::UnoOp::from(o))))).collect::<Vec<_>>().join(",")));
    put("proto.fromProtoUno", format!("[{}]", [proto::UnoOp::Neg, proto::UnoOp::Id].iter().map(|o| format!("[{},{}]", q(&format!("{:?}", o)), q(&format!("{:?}", UnoOperation::from(*o))))).collect::<Vec<_>>().join(",")));
    put("proto.fromProtoTres", format!("[{}]", [proto::TresOp::TernCond].iter().map(|o| format!("[{},{}]", q(&format!("{:?}", o)), q(&format!("{:?}", TresOperation::from(*o))))).collect::<Vec<_>>().join(",")));

    // ---- layouts by probes. markers: distinct small field elements / bytes
    let (ms, mlim, mmid, mx, me) = (0x1111u64, 0x3333u64, 0x2222u64, 0x6666u64, 0x7777u64);
    let mpath = [0x4441u64, 0x4442u64, 0x4443u64];
    let midx = [1u8, 0u8, 1u8];
    let ser_w: Option<(Vec<u8>, Vec<String>)> = catch_unwind(AssertUnwindSafe(|| {
        let w = rln_witness_from_json(witness_json(ms, mlim, mmid, &mpath, &midx, mx, me)).ok()?;
        let b = serialize_witness(&w).ok()?;
        let mut fs = Vec::new();
        for (n, m) in [("identity_secret", ms), ("user_message_limit", mlim), ("message_id", mmid), ("x", mx), ("external_nullifier", me)] {
            fs.push(Field { name: n, kind: "fr", off: find_fr(&b, m, 0)?, len: 32 });
        }
        let p0 = find_fr(&b, mpath[0], 0)?;
        if p0 < 8 || b[p0 - 8..p0] != (mpath.len() as u64).to_le_bytes() || find_fr(&b, mpath[1], 0)? != p0 + 32 || find_fr(&b, mpath[2], 0)? != p0 + 64 { return None; }
        fs.push(Field { name: "path_elements", kind: "vec_fr", off: p0 - 8, len: 8 + 32 * mpath.len() });
        // the index vector: an 8-byte count followed by the bytes, somewhere outside the fields found so far
        let mut pat = (midx.len() as u64).to_le_bytes().to_vec();
        pat.extend_from_slice(&midx);
        let taken: Vec<(usize, usize)> = fs.iter().map(|f| (f.off, f.off + f.len)).collect();
        let io = (0..b.len().saturating_sub(pat.len() - 1)).find(|i| b[*i..*i + pat.len()] == pat[..] && taken.iter().all(|(s, e)| *i >= *e || *i + pat.len() <= *s))?;
        fs.push(Field { name: "identity_path_index", kind: "vec_u8", off: io, len: pat.len() });
        let t = tiling(fs, b.len())?;
        Some((b, t))
    })).ok().flatten();
    put("layout.serWitness", list(ser_w.as_ref().map(|x| x.1.clone())));
    // the reader: fed the writer's bytes, which field receives which marker
    let de_w: Option<Vec<String>> = ser_w.as_ref().and_then(|(b, order)| catch_unwind(AssertUnwindSafe(|| {
        let (w, read) = deserialize_witness(b).ok()?;
        if read != b.len() { return None; }
        let j = rln_witness_to_bigint_json(&w).ok()?;
        let name_of = |v: &BigUint| -> Option<&'static str> {
            for (n, m) in [("identity_secret", ms), ("user_message_limit", mlim), ("message_id", mmid), ("x", mx), ("external_nullifier", me)] {
                if *v == BigUint::from(m) { return Some(n); }
            }
            None
        };
        // each struct field must hold the marker written for the field of the same name; otherwise report what it holds
        let mut got: Vec<(String, String)> = Vec::new();
        for n in ["identity_secret", "user_message_limit", "message_id", "x", "external_nullifier"] {
            got.push((n.to_string(), name_of(&dec(&j[jkey(n)])?)?.to_string()));
        }
        let pe: Vec<BigUint> = j["pathElements"].as_array()?.iter().map(dec).collect::<Option<_>>()?;
        let pi: Vec<u8> = j["identityPathIndex"].as_array()?.iter().map(|x| dec(x).and_then(|b| b.to_u64_digits().first().copied().or(Some(0))).map(|v| v as u8)).collect::<Option<_>>()?;
        let path_ok = pe == mpath.iter().map(|m| BigUint::from(*m)).collect::<Vec<_>>();
        let idx_ok = pi == midx.to_vec();
        // order by the byte position of the marker each field received
        let mut res = Vec::new();
        for entry in order {
            let (wname, kind) = entry.split_once(':')?;
            let reader_field: String = match kind {
                "fr" => got.iter().find(|(_, holds)| holds == wname)?.0.clone(),
                "vec_fr" => if path_ok { "path_elements".into() } else { return None },
                _ => if idx_ok { "identity_path_index".into() } else { return None },
            };
            res.push(format!("{}:{}", reader_field, kind));
        }
        Some(res)
    })).ok().flatten());
    put("layout.deWitness", list(de_w));

    let pv = RLNProofValues { y: fr(0xa1), nullifier: fr(0xa2), root: fr(0xa3), x: fr(0xa4), external_nullifier: fr(0xa5) };
    let pv_names = [("y", 0xa1u64), ("nullifier", 0xa2), ("root", 0xa3), ("x", 0xa4), ("external_nullifier", 0xa5)];
    let ser_pv: Option<(Vec<u8>, Vec<String>)> = catch_unwind(AssertUnwindSafe(|| {
        let b = serialize_proof_values(&pv);
        let mut fs = Vec::new();
        for (n, m) in pv_names { fs.push(Field { name: n, kind: "fr", off: find_fr(&b, m, 0)?, len: 32 }); }
        let t = tiling(fs, b.len())?;
        Some((b, t.iter().map(|x| x.split(':').next().unwrap().to_string()).collect()))
    })).ok().flatten();
    put("layout.serProofValues", list(ser_pv.as_ref().map(|x| x.1.clone())));
    let de_pv: Option<Vec<String>> = ser_pv.as_ref().and_then(|(b, order)| catch_unwind(AssertUnwindSafe(|| {
        let (v, read) = deserialize_proof_values(b);
        if read != b.len() { return None; }
        let holds = [("y", v.y), ("nullifier", v.nullifier), ("root", v.root), ("x", v.x), ("external_nullifier", v.external_nullifier)];
        let mut res = Vec::new();
        for wname in order {
            let m = pv_names.iter().find(|(n, _)| n == wname)?.1;
            res.push(format!("{}:fr", holds.iter().find(|(_, val)| *val == fr(m))?.0));
        }
        Some(res)
    })).ok().flatten());
    put("layout.deProofValues", list(de_pv));

    let signal = b"probe-signal";
    let id_index = 0x0000_0000_0001_0203usize;
    let ser_pi: Option<(Vec<u8>, Vec<String>)> = catch_unwind(AssertUnwindSafe(|| {
        let b = prepare_prove_input(fr(ms), id_index, fr(mlim), fr(mmid), fr(me), signal);
        let mut fs = Vec::new();
        for (n, m) in [("identity_secret", ms), ("user_message_limit", mlim), ("message_id", mmid), ("external_nullifier", me)] {
            fs.push(Field { name: n, kind: "fr", off: find_fr(&b, m, 0)?, len: 32 });
        }
        let taken: Vec<(usize, usize)> = fs.iter().map(|f| (f.off, f.off + f.len)).collect();
        let free = |i: usize, l: usize| taken.iter().all(|(s, e)| i >= *e || i + l <= *s);
        let ip = (id_index as u64).to_le_bytes();
        let io = (0..b.len() - 7).find(|i| b[*i..*i + 8] == ip && free(*i, 8))?;
        fs.push(Field { name: "id_index", kind: "usize", off: io, len: 8 });
        let so = (0..b.len() - signal.len() + 1).find(|i| b[*i..*i + signal.len()] == signal[..])?;
        fs.push(Field { name: "signal", kind: "raw", off: so, len: signal.len() });
        let lp = (signal.len() as u64).to_le_bytes();
        let lo = (0..b.len() - 7).find(|i| b[*i..*i + 8] == lp && free(*i, 8) && *i != io)?;
        fs.push(Field { name: "signal_len", kind: "usize", off: lo, len: 8 });
        let t = tiling(fs, b.len())?;
        Some((b, t))
    })).ok().flatten();
    put("layout.serProveInput", list(ser_pi.as_ref().map(|x| x.1.clone())));
    // the reader of the proving request: through a real tree (the position comes back as the direction bits of the path)
    let de_pi: Option<Vec<String>> = ser_pi.as_ref().and_then(|(b, order)| catch_unwind(AssertUnwindSafe(|| {
        use zerokit_utils::merkle_tree::ZerokitMerkleTree;
        let mut tree = rln::poseidon_tree::PoseidonTree::default(20).ok()?;
        let (w, _read) = proof_inputs_to_rln_witness(&mut tree, b).ok()?;
        let j = rln_witness_to_bigint_json(&w).ok()?;
        let pi: Vec<u64> = j["identityPathIndex"].as_array()?.iter().map(|x| dec(x).map(|b| b.to_u64_digits().first().copied().unwrap_or(0))).collect::<Option<_>>()?;
        let pos = pi.iter().enumerate().fold(0u64, |a, (k, bit)| a | (bit << k));
        let x_ok = dec(&j["x"])? == big(&rln::hashers::hash_to_field(signal));
        let mut res = Vec::new();
        for entry in order {
            let (wname, kind) = entry.split_once(':')?;
            let ok = match wname {
                "identity_secret" => dec(&j["identitySecret"])? == BigUint::from(ms),
                "user_message_limit" => dec(&j["userMessageLimit"])? == BigUint::from(mlim),
                "message_id" => dec(&j["messageId"])? == BigUint::from(mmid),
                "external_nullifier" => dec(&j["externalNullifier"])? == BigUint::from(me),
                "id_index" => pos == id_index as u64,
                "signal_len" | "signal" => x_ok,
                _ => false,
            };
            if !ok { return None; }
            if wname != "signal" { res.push(format!("{}:{}", wname, kind)); }
        }
        Some(res)
    })).ok().flatten());
    put("layout.deProveInput", list(de_pi));
    // ---- the JSON witness codec as compiled: keys and value shapes of both exports for a marker witness (every field a distinct
    //      value); a `serde_json::Map` iterates in key order, so the tables are in key order
    let (ms, mlim, mmid, mx, me) = (11u64, 1000u64, 7u64, 13u64, 17u64);
    let (mpath, midx) = (vec![21u64, 22, 23], vec![1u8, 0, 1]);
    let jw = catch_unwind(AssertUnwindSafe(|| rln_witness_from_json(witness_json(ms, mlim, mmid, &mpath, &midx, mx, me)).ok())).ok().flatten();
    let json_struct: Option<Vec<String>> = jw.as_ref().and_then(|w| catch_unwind(AssertUnwindSafe(|| {
        let j = rln_witness_to_json(w).ok()?;
        let frb = |v: u64| fr_to_bytes_le(&fr(v)).into_iter().map(|b| b as u64).collect::<Vec<u64>>();
        let mut pe: Vec<u64> = (mpath.len() as u64).to_le_bytes().iter().map(|b| *b as u64).collect();
        for p in &mpath { pe.extend(frb(*p)); }
        let mut res = Vec::new();
        for (k, v) in j.as_object()? {
            let arr: Vec<u64> = v.as_array()?.iter().map(|x| x.as_u64()).collect::<Option<_>>()?;
            let marker = match k.as_str() { "identity_secret" => Some(ms), "user_message_limit" => Some(mlim), "message_id" => Some(mmid),
                                            "x" => Some(mx), "external_nullifier" => Some(me), _ => None };
            let kind = if marker.map(|m| arr == frb(m)).unwrap_or(false) { "ark:Fr" }
                       else if k == "path_elements" && arr == pe { "ark:Vec<Fr>" }
                       else if k == "identity_path_index" && arr == midx.iter().map(|b| *b as u64).collect::<Vec<_>>() { "plain:Vec<u8>" }
                       else { return None; };
            res.push(format!("{}={}", k, kind));
        }
        Some(res)
    })).ok().flatten());
    put("layout.jsonStruct", list(json_struct));
    let json_bigint: Option<Vec<String>> = jw.as_ref().and_then(|w| catch_unwind(AssertUnwindSafe(|| {
        let j = rln_witness_to_bigint_json(w).ok()?;
        let mut res = Vec::new();
        for (k, v) in j.as_object()? {
            let field = if let Some(sv) = v.as_str() {
                let m: u64 = sv.parse().ok()?;
                let f = if m == ms { "identity_secret" } else if m == mlim { "user_message_limit" } else if m == mmid { "message_id" }
                        else if m == mx { "x" } else if m == me { "external_nullifier" } else { return None; };
                format!("{}:dec", f)
            } else {
                let arr: Vec<u64> = v.as_array()?.iter().map(|x| x.as_str().and_then(|t| t.parse().ok())).collect::<Option<_>>()?;
                if arr == mpath { "path_elements:declist".to_string() }
                else if arr == midx.iter().map(|b| *b as u64).collect::<Vec<_>>() { "identity_path_index:declist".to_string() }
                else { return None; }
            };
            res.push(format!("{}={}", k, field));
        }
        Some(res)
    })).ok().flatten());
    put("layout.jsonBigint", list(json_bigint));
    out
}
