//! zkey ops: `rln::circuit::zkey::read_zkey` on a given byte string / file, reported as the canonical digest of
//! ZkModel/Zkey.lean (`Zkey.digest`): raw Montgomery limbs of every point of the proving key in reading order, and the
//! two constraint matrices row by row.
use ark_bn254::{Bn254, Fr, G1Affine, G2Affine};
use ark_ff::{BigInteger, PrimeField};
use ark_groth16::ProvingKey;
use ark_relations::r1cs::ConstraintMatrices;
use crate::util::*;

fn mix(acc: Fr, x: Fr) -> Fr { acc * Fr::from(1000003u64) + x + Fr::from(1u64) }
fn raw(limbs: &ark_ff::BigInt<4>) -> Fr { Fr::from_le_bytes_mod_order(&limbs.to_bytes_le()) }
fn mix_g1(acc: Fr, p: &G1Affine) -> Fr { mix(mix(acc, raw(&p.x.0)), raw(&p.y.0)) }
fn mix_g2(acc: Fr, p: &G2Affine) -> Fr { mix(mix(mix(mix(acc, raw(&p.x.c0.0)), raw(&p.x.c1.0)), raw(&p.y.c0.0)), raw(&p.y.c1.0)) }
fn mix_rows(mut acc: Fr, rows: &[Vec<(Fr, usize)>]) -> Fr {
    for row in rows {
        acc = mix(acc, Fr::from(row.len() as u64));
        for (v, s) in row { acc = mix(mix(acc, *v), Fr::from(*s as u64)); }
    }
    acc
}

pub fn digest(pk: &ProvingKey<Bn254>, m: &ConstraintMatrices<Fr>) -> String {
    let mut d = Fr::from(0u64);
    d = mix_g1(d, &pk.vk.alpha_g1); d = mix_g1(d, &pk.beta_g1); d = mix_g2(d, &pk.vk.beta_g2);
    d = mix_g2(d, &pk.vk.gamma_g2); d = mix_g1(d, &pk.delta_g1); d = mix_g2(d, &pk.vk.delta_g2);
    d = mix(d, Fr::from(pk.vk.gamma_abc_g1.len() as u64)); for p in &pk.vk.gamma_abc_g1 { d = mix_g1(d, p); }
    d = mix(d, Fr::from(pk.a_query.len() as u64)); for p in &pk.a_query { d = mix_g1(d, p); }
    d = mix(d, Fr::from(pk.b_g1_query.len() as u64)); for p in &pk.b_g1_query { d = mix_g1(d, p); }
    d = mix(d, Fr::from(pk.b_g2_query.len() as u64)); for p in &pk.b_g2_query { d = mix_g2(d, p); }
    d = mix(d, Fr::from(pk.l_query.len() as u64)); for p in &pk.l_query { d = mix_g1(d, p); }
    d = mix(d, Fr::from(pk.h_query.len() as u64)); for p in &pk.h_query { d = mix_g1(d, p); }
    let e = mix_rows(mix_rows(Fr::from(0u64), &m.a), &m.b);
    format!("ok inst={} wit={} nc={} annz={} bnnz={} rows={},{} pk={} mat={}", m.num_instance_variables, m.num_witness_variables,
        m.num_constraints, m.a_num_non_zero, m.b_num_non_zero, m.a.len(), m.b.len(), fr_hex(&d), fr_hex(&e))
}

/// a legal `Read + Seek` that hands out at most `n` bytes per `read` call (a `BufReader` at a refill boundary, a pipe)
struct Chunked<R> { inner: R, n: usize }
impl<R: std::io::Read> std::io::Read for Chunked<R> {
    fn read(&mut self, buf: &mut [u8]) -> std::io::Result<usize> {
        let k = buf.len().min(self.n);
        self.inner.read(&mut buf[..k])
    }
}
impl<R: std::io::Seek> std::io::Seek for Chunked<R> {
    fn seek(&mut self, pos: std::io::SeekFrom) -> std::io::Result<u64> { self.inner.seek(pos) }
}

fn run(bytes: &[u8]) -> String { run_chunked(bytes, usize::MAX) }

fn run_chunked(bytes: &[u8], n: usize) -> String {
    let mut c = Chunked { inner: std::io::Cursor::new(bytes), n };
    match rln::circuit::zkey::read_zkey(&mut c) {
        Ok((pk, m)) => digest(&pk, &m),
        Err(_) => "err".into(),
    }
}

fn parse_rows(t: &str) -> Option<Vec<Vec<(Fr, usize)>>> {
    if t == "-" { return Some(vec![]); }
    t.split(';').map(|r| if r == "_" { Some(vec![]) } else {
        r.split(',').map(|e| { let (c, i) = e.split_once(':')?; Some((parse_fr(c)?, parse_usize(i)?)) }).collect::<Option<Vec<_>>>()
    }).collect()
}

pub fn exec(w: &[&str]) -> Option<String> {
    match (w[0], w.len()) {
        // qap <A rows> <B rows> <num_inputs> <num_constraints> <assignment>: the snarkjs-compatible witness map on small matrices
        ("qap", 6) => {
            use ark_groth16::r1cs_to_qap::R1CSToQAP;
            let a = parse_rows(w[1])?; let b = parse_rows(w[2])?;
            let ni = parse_usize(w[3])?; let nc = parse_usize(w[4])?;
            let asg: Vec<Fr> = if w[5] == "-" { vec![] } else { w[5].split(',').map(parse_fr).collect::<Option<_>>()? };
            let m = ConstraintMatrices::<Fr> { num_instance_variables: ni, num_witness_variables: asg.len().saturating_sub(ni), num_constraints: nc,
                a_num_non_zero: a.iter().map(|r| r.len()).sum(), b_num_non_zero: b.iter().map(|r| r.len()).sum(), c_num_non_zero: 0, a, b, c: vec![] };
            Some(match rln::circuit::qap::CircomReduction::witness_map_from_matrices::<Fr, ark_poly::GeneralEvaluationDomain<Fr>>(&m, ni, nc, &asg) {
                Ok(h) => h.iter().map(fr_hex).collect::<Vec<_>>().join(","),
                Err(_) => "err".into(),
            })
        }
        ("zkey", 2) => Some(run(&parse_bytes(w[1])?)),
        ("zkeyfile", 2) => Some(run(&std::fs::read(w[1]).ok()?)),
        // the same through a reader that delivers at most n bytes per read() call, and through BufReader<File>
        ("zkey_chunk", 3) => Some(run_chunked(&parse_bytes(w[2])?, parse_usize(w[1])?.max(1))),
        ("zkeyfile_chunk", 3) => Some(run_chunked(&std::fs::read(w[2]).ok()?, parse_usize(w[1])?.max(1))),
        ("zkeyfile_buf", 2) => {
            let mut r = std::io::BufReader::new(std::fs::File::open(w[1]).ok()?);
            Some(match rln::circuit::zkey::read_zkey(&mut r) { Ok((pk, m)) => digest(&pk, &m), Err(_) => "err".into() })
        }
        // the key the build actually uses (zkey or arkzkey feature): must equal the digest of the bundled snarkjs file
        ("zkey_loaded", 1) => { let (pk, m) = rln::circuit::zkey_from_folder(); Some(digest(pk, m)) }
        _ => None,
    }
}
