//! zkh — correspondence harness: executes one canonical op per input line on the real zerokit code
//! (current /repo working tree, linked in-process) and prints one canonical result line per op.
//! The same lines are executed by the Lean driver (`zkmodel model|spec`); check.py diffs the streams.
use std::io::{BufRead, Write};
use std::panic::{catch_unwind, AssertUnwindSafe};

mod util;
mod hashops;
mod treeops;
mod graphops;
mod protoops;
mod lockops;
mod dumpops;
mod zkeyops;

pub struct Ctx {
    pub hash: hashops::HashCtx,
    pub tree: treeops::TreeCtx,
    pub proto: protoops::ProtoCtx,
    pub lock: lockops::LockCtx,
}

impl Ctx {
    fn new() -> Self {
        Ctx { hash: hashops::HashCtx::new(), tree: treeops::TreeCtx::new(), proto: protoops::ProtoCtx::new(), lock: lockops::LockCtx::new() }
    }
    fn exec(&mut self, w: &[&str]) -> String {
        if w.is_empty() {
            return "bad-op".into();
        }
        if let Some(r) = self.hash.exec(w) {
            return r;
        }
        if let Some(r) = self.lock.exec(w) {
            return r;
        }
        if let Some(r) = self.proto.exec(w) {
            return r;
        }
        if let Some(r) = zkeyops::exec(w) {
            return r;
        }
        if let Some(r) = graphops::exec(w) {
            return r;
        }
        if let Some(r) = self.tree.exec(w) {
            return r;
        }
        "bad-op".into()
    }
}

fn run_stream<R: BufRead, W: Write>(inp: R, mut out: W) {
    let mut ctx = Ctx::new();
    for line in inp.lines() {
        let line = line.unwrap();
        let w: Vec<&str> = line.trim().split(' ').filter(|s| !s.is_empty()).collect();
        let r = match catch_unwind(AssertUnwindSafe(|| ctx.exec(&w))) {
            Ok(s) => s,
            Err(_) => "panic".to_string(),
        };
        writeln!(out, "{}", r).unwrap();
        // a crash that kills the process must not lose the answers already given
        out.flush().unwrap();
    }
}

fn main() {
    // panics are results, not noise
    if std::env::var("ZKH_SHOW_PANICS").is_err() {
        std::panic::set_hook(Box::new(|_| {}));
    }
    let args: Vec<String> = std::env::args().collect();
    match args.get(1).map(|s| s.as_str()) {
        Some("run") => {
            let stdin = std::io::stdin();
            let stdout = std::io::stdout();
            run_stream(stdin.lock(), std::io::BufWriter::new(stdout.lock()));
        }
        // purity: the same ops file from N threads at once; every transcript must equal the first
        // the second translator: facts of the current source as the compiler sees them (tools/extract.py --probe)
        // seeds whose ChaCha20 stream starts with at least <min> REJECTED candidates of the field sampler (a 254-bit draw is refused
        // with probability 0.244): computed from the specification only (Keccak-256, ChaCha20, four u64 per candidate, top two
        // bits cleared, compare with p) — nothing of /repo is called. `zkh find_rej <min> <how many> <first n> <last n>`
        Some("find_rej") => {
            use rand_core::{RngCore, SeedableRng};
            use tiny_keccak::{Hasher, Keccak};
            let min: usize = args[2].parse().unwrap();
            let want: usize = args[3].parse().unwrap();
            let (lo, hi): (u64, u64) = (args[4].parse().unwrap(), args[5].parse().unwrap());
            // p, little-endian limbs
            const PL: [u64; 4] = [0x43e1f593f0000001, 0x2833e84879b97091, 0xb85045b68181585d, 0x30644e72e131a029];
            let nt = 16u64;
            let found = std::sync::Arc::new(std::sync::Mutex::new(Vec::<(usize, u64)>::new()));
            let hs: Vec<_> = (0..nt).map(|t| {
                let found = found.clone();
                std::thread::spawn(move || {
                    let mut n = lo + t;
                    while n < hi {
                        let seed = format!("member-{}", n);
                        let mut k = [0u8; 32];
                        let mut h = Keccak::v256();
                        h.update(seed.as_bytes());
                        h.finalize(&mut k);
                        let mut rng = rand_chacha::ChaCha20Rng::from_seed(k);
                        let mut depth = 0usize;
                        loop {
                            let mut l = [0u64; 4];
                            for x in l.iter_mut() { *x = rng.next_u64(); }
                            l[3] &= u64::MAX >> 2;
                            let mut ge = true;      // l >= p ?
                            for i in (0..4).rev() { if l[i] != PL[i] { ge = l[i] > PL[i]; break; } }
                            if !ge { break; }
                            depth += 1;
                        }
                        if depth >= min {
                            let mut f = found.lock().unwrap();
                            f.push((depth, n));
                            if f.len() >= want { break; }
                        }
                        if n % 4096 == t && found.lock().unwrap().len() >= want { break; }
                        n += nt;
                    }
                })
            }).collect();
            for h in hs { h.join().unwrap(); }
            let mut f = found.lock().unwrap().clone();
            f.sort();
            for (d, n) in f { println!("{} member-{}", d, n); }
        }
        Some("dump") => {
            for (k, v) in dumpops::dump() {
                println!("{}\t{}", k, v);
            }
        }
        Some("threads") => {
            let n: usize = args[2].parse().unwrap();
            let data = std::fs::read(&args[3]).unwrap();
            let hs: Vec<_> = (0..n)
                .map(|_| {
                    let d = data.clone();
                    std::thread::spawn(move || {
                        let mut out = Vec::new();
                        run_stream(std::io::Cursor::new(d), &mut out);
                        out
                    })
                })
                .collect();
            let outs: Vec<Vec<u8>> = hs.into_iter().map(|h| h.join().unwrap()).collect();
            let same = outs.iter().all(|o| *o == outs[0]);
            std::io::stdout().write_all(&outs[0]).unwrap();
            if !same {
                println!("THREAD-MISMATCH");
                std::process::exit(3);
            }
        }
        // C18: N threads issue the same read-only calls on ONE shared RLN instance (set up by the ops of the first
        // file); prints the sequential transcript, then `CONCURRENT-MISMATCH` if any thread saw something else
        Some("shared") => {
            let n: usize = args[2].parse().unwrap();
            let setup = std::fs::read_to_string(&args[3]).unwrap();
            let ops = std::fs::read_to_string(&args[4]).unwrap();
            let mut ctx = Ctx::new();
            for line in setup.lines() {
                let w: Vec<&str> = line.trim().split(' ').filter(|s| !s.is_empty()).collect();
                ctx.exec(&w);
            }
            let rln = ctx.proto.rln.take().expect("setup must create the RLN instance");
            let lines: Vec<String> = ops.lines().map(|s| s.to_string()).collect();
            let seq: Vec<String> = lines.iter().map(|l| protoops::shared_op(&rln, l)).collect();
            // the concurrent callers get a SECOND instance built by the same setup, on which nothing has been called yet: whatever an
            // instance initialises lazily on its first call is then initialised under contention
            drop(rln);
            let mut ctx_b = Ctx::new();
            for line in setup.lines() {
                let w: Vec<&str> = line.trim().split(' ').filter(|s| !s.is_empty()).collect();
                ctx_b.exec(&w);
            }
            let rln = ctx_b.proto.rln.take().expect("setup must create the RLN instance");
            let rln = std::sync::Arc::new(rln);
            let start = std::time::Instant::now();
            let hs: Vec<_> = (0..n)
                .map(|t| {
                    let r = rln.clone();
                    let ls = lines.clone();
                    std::thread::spawn(move || {
                        // each thread starts at a different offset so that different calls overlap
                        let k = ls.len();
                        let mut out = vec![String::new(); k];
                        for j in 0..k {
                            let i = (j + t * 7) % k;
                            out[i] = protoops::shared_op(&r, &ls[i]);
                        }
                        out
                    })
                })
                .collect();
            let outs: Vec<Vec<String>> = hs.into_iter().map(|h| h.join().unwrap()).collect();
            for l in &seq {
                println!("{}", l);
            }
            if outs.iter().any(|o| *o != seq) {
                println!("CONCURRENT-MISMATCH");
                std::process::exit(3);
            }
            eprintln!("shared: {} threads x {} calls in {:?}", n, lines.len(), start.elapsed());
        }
        // C18: drop an on-disk tree and re-create it on the same location at once, n times; prints the slowest re-open
        Some("probe_load") => {
            let n: usize = args[2].parse().unwrap();
            println!("{}", treeops::probe_load(n));
        }
        Some("open_contention") => {
            println!("{}", treeops::open_contention());
            std::process::exit(0);       // a waiter that is still in its retry loop must not keep the process alive
        }
        Some("reopen_loop") => {
            let n: usize = args[2].parse().unwrap();
            println!("{}", treeops::reopen_loop(n));
        }
        _ => {
            eprintln!("usage: zkh run < ops | zkh threads N opsfile | zkh shared N setupfile opsfile | zkh reopen_loop n");
            std::process::exit(2);
        }
    }
}
