//! zkh — correspondence harness: executes one canonical op per input line on the real zerokit code
//! (current /repo working tree, linked in-process) and prints one canonical result line per op.
//! The same lines are executed by the Lean driver (`zkmodel model|spec`); check.py diffs the streams.
use std::io::{BufRead, Write};
use std::panic::{catch_unwind, AssertUnwindSafe};

mod util;
mod hashops;
mod treeops;
mod graphops;
mod protoops;

pub struct Ctx {
    pub hash: hashops::HashCtx,
    pub tree: treeops::TreeCtx,
    pub proto: protoops::ProtoCtx,
}

impl Ctx {
    fn new() -> Self {
        Ctx { hash: hashops::HashCtx::new(), tree: treeops::TreeCtx::new(), proto: protoops::ProtoCtx::new() }
    }
    fn exec(&mut self, w: &[&str]) -> String {
        if w.is_empty() {
            return "bad-op".into();
        }
        if let Some(r) = self.hash.exec(w) {
            return r;
        }
        if let Some(r) = self.proto.exec(w) {
            return r;
        }
        if let Some(r) = graphops::exec(w) {
            return r;
        }
        if let Some(r) = self.tree.exec(w) {
            return r;
        }
        "bad-op".into()
    }
}

fn run_stream<R: BufRead, W: Write>(inp: R, mut out: W) {
    let mut ctx = Ctx::new();
    for line in inp.lines() {
        let line = line.unwrap();
        let w: Vec<&str> = line.trim().split(' ').filter(|s| !s.is_empty()).collect();
        let r = match catch_unwind(AssertUnwindSafe(|| ctx.exec(&w))) {
            Ok(s) => s,
            Err(_) => "panic".to_string(),
        };
        writeln!(out, "{}", r).unwrap();
    }
}

fn main() {
    // panics are results, not noise
    std::panic::set_hook(Box::new(|_| {}));
    let args: Vec<String> = std::env::args().collect();
    match args.get(1).map(|s| s.as_str()) {
        Some("run") => {
            let stdin = std::io::stdin();
            let stdout = std::io::stdout();
            run_stream(stdin.lock(), std::io::BufWriter::new(stdout.lock()));
        }
        // purity: the same ops file from N threads at once; every transcript must equal the first
        Some("threads") => {
            let n: usize = args[2].parse().unwrap();
            let data = std::fs::read(&args[3]).unwrap();
            let hs: Vec<_> = (0..n)
                .map(|_| {
                    let d = data.clone();
                    std::thread::spawn(move || {
                        let mut out = Vec::new();
                        run_stream(std::io::Cursor::new(d), &mut out);
                        out
                    })
                })
                .collect();
            let outs: Vec<Vec<u8>> = hs.into_iter().map(|h| h.join().unwrap()).collect();
            let same = outs.iter().all(|o| *o == outs[0]);
            std::io::stdout().write_all(&outs[0]).unwrap();
            if !same {
                println!("THREAD-MISMATCH");
                std::process::exit(3);
            }
        }
        _ => {
            eprintln!("usage: zkh run < ops | zkh threads N opsfile");
            std::process::exit(2);
        }
    }
}
