//! C11: two RLN instances in lockstep — A driven through the C FFI (`rln::ffi::*`), B through the Rust
//! API (`rln::public::RLN`). `lock <op> args…` performs the call on both, reads every FFI output buffer
//! back through its pointer, and compares success flags, output bytes, verdicts and the observable
//! tree state (root, leaf count) after the call.
use crate::util::*;
use rln::ffi;
use rln::public::RLN;
use rln::utils::*;
use std::io::Cursor;

pub struct LockCtx {
    a: *mut RLN,
    b: Option<RLN>,
    /// output buffers the FFI handed out earlier, with the bytes they held then: they belong to the caller and must not change
    handed: Vec<(*const u8, usize, Vec<u8>)>,
}

fn buf(data: &[u8]) -> ffi::Buffer {
    ffi::Buffer { ptr: data.as_ptr(), len: data.len() }
}
fn empty() -> ffi::Buffer {
    ffi::Buffer { ptr: std::ptr::null(), len: 0 }
}
static SENTINEL: [u8; 5] = *b"STALE";
/// an output buffer that already designates something: a successful call must replace it
fn stale() -> ffi::Buffer {
    ffi::Buffer { ptr: SENTINEL.as_ptr(), len: SENTINEL.len() }
}
fn read(b: &ffi::Buffer) -> Vec<u8> {
    if b.len == 0 { vec![] } else { unsafe { std::slice::from_raw_parts(b.ptr, b.len) }.to_vec() }
}
fn list_fr(s: &str) -> Option<Vec<rln::circuit::Fr>> {
    // `gen:<n>:<seed>` (hex): the n consecutive values seed+1, …, seed+n — long lists without long lines
    if let Some(rest) = s.strip_prefix("gen:") {
        let (n, seed) = rest.split_once(':')?;
        let (n, seed) = (parse_usize(n)?, parse_usize(seed)? as u64);
        return Some((1..=n as u64).map(|i| rln::circuit::Fr::from(seed + i)).collect());
    }

    if s == "-" { return Some(vec![]); }
    s.split(',').map(parse_fr).collect()
}

/// canonical result of one side: `ok <bytes>` | `ok` | `accept` | `reject-false` | `err`
type Res = String;

impl LockCtx {
    pub fn new() -> Self {
        LockCtx { a: std::ptr::null_mut(), b: None, handed: Vec::new() }
    }
    fn ensure(&mut self) {
        if self.a.is_null() {
            let cfg = b"{}".to_vec();
            let mut p: *mut RLN = std::ptr::null_mut();
            assert!(ffi::new(20, &buf(&cfg), &mut p));
            self.a = p;
            self.b = Some(RLN::new(20, Cursor::new("{}".to_string())).unwrap());
        }
    }
    fn state(&mut self) -> (String, String) {
        let mut ob = empty();
        let ok = ffi::get_root(self.a, &mut ob);
        let sa = format!("{}:{}:{}", ok, show_bytes(&read(&ob)), ffi::leaves_set(self.a));
        let mut c = Cursor::new(Vec::new());
        let b = self.b.as_mut().unwrap();
        let ok2 = b.get_root(&mut c).is_ok();
        let sb = format!("{}:{}:{}", ok2, show_bytes(&c.into_inner()), b.leaves_set());
        (sa, sb)
    }
    pub fn exec(&mut self, w: &[&str]) -> Option<String> {
        if w[0] != "lock" || w.len() < 2 {
            return None;
        }
        if w[1] == "new" {
            if !self.a.is_null() {
                unsafe { drop(Box::from_raw(self.a)) };
                self.a = std::ptr::null_mut();
                self.b = None;
            }
            self.handed.clear();
            self.ensure();
            return Some("same ok".into());
        }
        // the constructors on a caller-supplied configuration buffer: FFI `new` and `RLN::new` must agree on accepting it
        if w[1] == "newcfg" && w.len() == 4 {
            let cfg = parse_bytes(w[2])?;
            let mut ctx: *mut RLN = std::ptr::null_mut();
            let ok_f = ffi::new(20, &buf(&cfg), &mut ctx);
            let r_a = RLN::new(20, Cursor::new(cfg.clone()));
            let (sf, sa) = (if ok_f { "ok" } else { "err" }, if r_a.is_ok() { "ok" } else { "err" });
            if ok_f && r_a.is_ok() {
                if !self.a.is_null() { unsafe { drop(Box::from_raw(self.a)) }; }
                self.a = ctx;
                self.b = r_a.ok();
                self.handed.clear();
            } else if ok_f && !ctx.is_null() {
                unsafe { drop(Box::from_raw(ctx)) };
            }
            return Some(if sf == sa { format!("same {}", sf) } else { format!("DIFF ffi={} api={} (constructor, configuration of {} bytes)", sf, sa, cfg.len()) });
        }
        self.ensure();
        let a = self.a;
        // every buffer handed out by an earlier call still holds what it held (the caller owns it; zerokit leaks the vector on purpose)
        for (p, n, was) in self.handed.iter() {
            let now = if *n == 0 { Vec::new() } else { unsafe { std::slice::from_raw_parts(*p, *n) }.to_vec() };
            if now != *was {
                return Some("DIFF an output buffer handed out by an earlier FFI call changed its content after a later call".to_string());
            }
        }
        let kept = std::cell::RefCell::new(Vec::<(*const u8, usize, Vec<u8>)>::new());
        let outb = |ok: bool, ob: &ffi::Buffer| -> Res {
            if ok {
                let bytes = read(ob);
                if ob.len > 0 && ob.ptr != SENTINEL.as_ptr() { kept.borrow_mut().push((ob.ptr, ob.len, bytes.clone())); }
                format!("ok {}", show_bytes(&bytes))
            } else { "err".into() }
        };
        let outc = |r: color_eyre::Result<()>, c: Cursor<Vec<u8>>| -> Res { if r.is_ok() { format!("ok {}", show_bytes(&c.into_inner())) } else { "err".into() } };
        let flag = |ok: bool| -> Res { if ok { "ok".into() } else { "err".into() } };
        let res = |r: color_eyre::Result<()>| -> Res { if r.is_ok() { "ok".into() } else { "err".into() } };
        let verd_f = |ok: bool, v: bool| -> Res { if !ok { "reject-err".into() } else if v { "accept".into() } else { "reject-false".into() } };
        let verd = |r: color_eyre::Result<bool>| -> Res { match r { Ok(true) => "accept".into(), Ok(false) => "reject-false".into(), Err(_) => "reject-err".into() } };
        let b = self.b.as_mut().unwrap();
        let strip_proof = |r: Res| -> Res { if r.starts_with("ok ") && r.len() >= 3 + 256 { format!("ok {}", if r.len() > 3 + 256 { &r[3 + 256..] } else { "-" }) } else { r } };
        let (ra, rb): (Res, Res) = match (w[1], w.len()) {
            ("set_leaf", 4) => { let d = fr_to_bytes_le(&parse_fr(w[3])?); let i = parse_usize(w[2])?; (flag(ffi::set_leaf(a, i, &buf(&d))), res(b.set_leaf(i, Cursor::new(d.clone())))) }
            // raw byte payload for the leaf (short / long buffers)
            ("set_leaf_raw", 4) => { let d = parse_bytes(w[3])?; let i = parse_usize(w[2])?;
                if d.len() < 32 { return Some("same n/a".into()); }
                (flag(ffi::set_leaf(a, i, &buf(&d))), res(b.set_leaf(i, Cursor::new(d.clone())))) }
            ("set_next", 3) => { let d = fr_to_bytes_le(&parse_fr(w[2])?); (flag(ffi::set_next_leaf(a, &buf(&d))), res(b.set_next_leaf(Cursor::new(d.clone())))) }
            ("delete", 3) => { let i = parse_usize(w[2])?; (flag(ffi::delete_leaf(a, i)), res(b.delete_leaf(i))) }
            ("set_tree", 3) => { let h = parse_usize(w[2])?; (flag(ffi::set_tree(a, h)), res(b.set_tree(h))) }
            ("root", 2) => { let mut ob = stale(); let ok = ffi::get_root(a, &mut ob); let mut c = Cursor::new(Vec::new()); let r = b.get_root(&mut c); (outb(ok, &ob), outc(r, c)) }
            ("get_leaf", 3) => { let i = parse_usize(w[2])?; let mut ob = stale(); let ok = ffi::get_leaf(a, i, &mut ob); let mut c = Cursor::new(Vec::new()); let r = b.get_leaf(i, &mut c); (outb(ok, &ob), outc(r, c)) }
            ("get_proof", 3) => { let i = parse_usize(w[2])?; let mut ob = empty(); let ok = ffi::get_proof(a, i, &mut ob); let mut c = Cursor::new(Vec::new()); let r = b.get_proof(i, &mut c); (outb(ok, &ob), outc(r, c)) }
            ("leaves_set", 2) => (format!("{}", ffi::leaves_set(a)), format!("{}", b.leaves_set())),
            ("set_leaves_from", 4) => { let i = parse_usize(w[2])?; let d = vec_fr_to_bytes_le(&list_fr(w[3])?).ok()?; (flag(ffi::set_leaves_from(a, i, &buf(&d))), res(b.set_leaves_from(i, Cursor::new(d.clone())))) }
            ("init_leaves", 3) => { let d = vec_fr_to_bytes_le(&list_fr(w[2])?).ok()?; (flag(ffi::init_tree_with_leaves(a, &buf(&d))), res(b.init_tree_with_leaves(Cursor::new(d.clone())))) }
            ("atomic", 5) | ("seq_atomic", 4) => {
                let seq = w[1] == "seq_atomic";
                let (vs, ix) = if seq { (w[2], w[3]) } else { (w[3], w[4]) };
                let d = vec_fr_to_bytes_le(&list_fr(vs)?).ok()?;
                let idx: Vec<u8> = if ix == "-" { vec![] } else { ix.split(',').map(|x| parse_usize(x).map(|v| v as u8)).collect::<Option<_>>()? };
                let ib = vec_u8_to_bytes_le(&idx).ok()?;
                if seq {
                    let start = b.leaves_set();
                    (flag(ffi::seq_atomic_operation(a, &buf(&d), &buf(&ib))), res(b.atomic_operation(start, Cursor::new(d.clone()), Cursor::new(ib.clone()))))
                } else {
                    let i = parse_usize(w[2])?;
                    (flag(ffi::atomic_operation(a, i, &buf(&d), &buf(&ib))), res(b.atomic_operation(i, Cursor::new(d.clone()), Cursor::new(ib.clone()))))
                }
            }
            ("meta_set", 3) => { let d = parse_bytes(w[2])?; (flag(ffi::set_metadata(a, &buf(&d))), res(b.set_metadata(&d))) }
            ("meta_get", 2) => { let mut ob = stale(); let ok = ffi::get_metadata(a, &mut ob); let mut c = Cursor::new(Vec::new()); let r = b.get_metadata(&mut c); (outb(ok, &ob), outc(r, c)) }
            ("flush", 2) => (flag(ffi::flush(a)), res(b.flush())),
            ("prove_req", 3) | ("prove_wit", 3) | ("prove_raw", 3) => {
                let d = parse_bytes(w[2])?;
                let mut ob = empty();
                let mut c = Cursor::new(Vec::new());
                let (ok, r) = match w[1] {
                    "prove_req" => (ffi::generate_rln_proof(a, &buf(&d), &mut ob), b.generate_rln_proof(Cursor::new(d.clone()), &mut c)),
                    "prove_wit" => (ffi::generate_rln_proof_with_witness(a, &buf(&d), &mut ob), b.generate_rln_proof_with_witness(Cursor::new(d.clone()), &mut c)),
                    _ => (ffi::prove(a, &buf(&d), &mut ob), b.prove(Cursor::new(d.clone()), &mut c)),
                };
                // the same call "in place": ONE Buffer struct passed as input and as output (legal for a C caller: the wrapper reads
                // its input before it publishes the result) must give the same flag and the same published values
                {
                    let mut io = buf(&d);
                    let p: *mut ffi::Buffer = &mut io;
                    let ok2 = match w[1] {
                        "prove_req" => ffi::generate_rln_proof(a, p as *const ffi::Buffer, p),
                        "prove_wit" => ffi::generate_rln_proof_with_witness(a, p as *const ffi::Buffer, p),
                        _ => ffi::prove(a, p as *const ffi::Buffer, p),
                    };
                    let r1 = strip_proof(outb(ok, &ob));
                    let r2 = strip_proof(if ok2 { format!("ok {}", show_bytes(&read(&io))) } else { "err".into() });
                    if r1 != r2 {
                        return Some(format!("DIFF in-place call (one Buffer struct as input and output): {} vs separate buffers: {}", &r2[..r2.len().min(80)], &r1[..r1.len().min(80)]));
                    }
                }
                // the proofs are randomised: both messages must verify under the OTHER instance, then only the values are compared
                let (ma, mb) = (read(&ob), c.get_ref().clone());
                if ok && r.is_ok() && w[1] != "prove_raw" {
                    let mut va = false;
                    let oka = ffi::verify(a, &buf(&mb), &mut va);
                    let vb = b.verify(Cursor::new(ma.clone())).unwrap_or(false);
                    if !(oka && va && vb) {
                        return Some(format!("DIFF cross-verification ffi_accepts_api_msg={} api_accepts_ffi_msg={}", oka && va, vb));
                    }
                }
                (strip_proof(outb(ok, &ob)), strip_proof(outc(r, c)))
            }
            // the verdict pointer is pre-set once to `true` and once to `false`: a successful call must overwrite it either way
            ("verify", _) | ("verify_rln", _) if w.len() >= 3 => {
                let d = parse_bytes(w[2])?;
                let (mut v1, mut v2) = (true, false);
                let (ok1, ok2) = if w[1] == "verify" { (ffi::verify(a, &buf(&d), &mut v1), ffi::verify(a, &buf(&d), &mut v2)) }
                    else { (ffi::verify_rln_proof(a, &buf(&d), &mut v1), ffi::verify_rln_proof(a, &buf(&d), &mut v2)) };
                if ok1 != ok2 || (ok1 && v1 != v2) {
                    return Some(format!("DIFF verdict depends on the previous content of the verdict pointer: preset true -> ({},{}) preset false -> ({},{})", ok1, v1, ok2, v2));
                }
                if w[1] == "verify" { (verd_f(ok1, v1), verd(b.verify(Cursor::new(d.clone())))) }
                else { (verd_f(ok1, v1), verd(b.verify_rln_proof(Cursor::new(d.clone())))) }
            }
            ("verify_roots", _) if w.len() >= 4 => {
                let (d, r) = (parse_bytes(w[2])?, parse_bytes(w[3])?);
                let (mut v1, mut v2) = (true, false);
                let ok1 = ffi::verify_with_roots(a, &buf(&d), &buf(&r), &mut v1);
                let ok2 = ffi::verify_with_roots(a, &buf(&d), &buf(&r), &mut v2);
                if ok1 != ok2 || (ok1 && v1 != v2) {
                    return Some(format!("DIFF verdict depends on the previous content of the verdict pointer: preset true -> ({},{}) preset false -> ({},{})", ok1, v1, ok2, v2));
                }
                (verd_f(ok1, v1), verd(b.verify_with_roots(Cursor::new(d.clone()), Cursor::new(r.clone()))))
            }
            ("recover", 4) => {
                let (d1, d2) = (parse_bytes(w[2])?, parse_bytes(w[3])?);
                let mut ob = empty();
                let ok = ffi::recover_id_secret(a, &buf(&d1), &buf(&d2), &mut ob);
                {
                    let mut io = buf(&d2);
                    let p: *mut ffi::Buffer = &mut io;
                    let ok2 = ffi::recover_id_secret(a, &buf(&d1), p as *const ffi::Buffer, p);
                    let (r1, r2) = (outb(ok, &ob), if ok2 { format!("ok {}", show_bytes(&read(&io))) } else { "err".to_string() });
                    if r1 != r2 { return Some(format!("DIFF in-place call (one Buffer struct as input and output): {} vs separate buffers: {}", r2, r1)); }
                }
                let mut c = Cursor::new(Vec::new());
                let r = b.recover_id_secret(Cursor::new(d1.clone()), Cursor::new(d2.clone()), &mut c);
                (outb(ok, &ob), outc(r, c))
            }
            ("seeded_key_gen", 3) | ("seeded_ext_key_gen", 3) => {
                let d = parse_bytes(w[2])?;
                let mut ob = empty();
                let mut c = Cursor::new(Vec::new());
                {
                    let mut io = buf(&d);
                    let p: *mut ffi::Buffer = &mut io;
                    let mut sep = empty();
                    let (ok1, ok2) = if w[1] == "seeded_key_gen" { (ffi::seeded_key_gen(a, &buf(&d), &mut sep), ffi::seeded_key_gen(a, p as *const ffi::Buffer, p)) }
                        else { (ffi::seeded_extended_key_gen(a, &buf(&d), &mut sep), ffi::seeded_extended_key_gen(a, p as *const ffi::Buffer, p)) };
                    let (r1, r2) = (outb(ok1, &sep), if ok2 { format!("ok {}", show_bytes(&read(&io))) } else { "err".to_string() });
                    if r1 != r2 { return Some(format!("DIFF in-place call (one Buffer struct as input and output): {} vs separate buffers: {}", r2, r1)); }
                }
                if w[1] == "seeded_key_gen" { let ok = ffi::seeded_key_gen(a, &buf(&d), &mut ob); let r = b.seeded_key_gen(Cursor::new(d.clone()), &mut c); (outb(ok, &ob), outc(r, c)) }
                else { let ok = ffi::seeded_extended_key_gen(a, &buf(&d), &mut ob); let r = b.seeded_extended_key_gen(Cursor::new(d.clone()), &mut c); (outb(ok, &ob), outc(r, c)) }
            }
            ("hash", 3) | ("poseidon", 3) => {
                let d = parse_bytes(w[2])?;
                let mut ob = empty();
                let mut c = Cursor::new(Vec::new());
                {
                    let mut io = buf(&d);
                    let p: *mut ffi::Buffer = &mut io;
                    let mut sep = empty();
                    let (ok1, ok2) = if w[1] == "hash" { (ffi::hash(&buf(&d), &mut sep), ffi::hash(p as *const ffi::Buffer, p)) }
                        else { (ffi::poseidon_hash(&buf(&d), &mut sep), ffi::poseidon_hash(p as *const ffi::Buffer, p)) };
                    let (r1, r2) = (outb(ok1, &sep), if ok2 { format!("ok {}", show_bytes(&read(&io))) } else { "err".to_string() });
                    if r1 != r2 { return Some(format!("DIFF in-place call (one Buffer struct as input and output): {} vs separate buffers: {}", r2, r1)); }
                }
                if w[1] == "hash" { let ok = ffi::hash(&buf(&d), &mut ob); let r = rln::public::hash(Cursor::new(d.clone()), &mut c); (outb(ok, &ob), outc(r, c)) }
                else { let ok = ffi::poseidon_hash(&buf(&d), &mut ob); let r = rln::public::poseidon_hash(Cursor::new(d.clone()), &mut c); (outb(ok, &ob), outc(r, c)) }
            }
            _ => return None,
        };
        let newly: Vec<(*const u8, usize, Vec<u8>)> = kept.borrow().clone();
        drop(outb);
        self.handed.extend(newly);
        if self.handed.len() > 64 { let k = self.handed.len() - 64; self.handed.drain(..k); }
        let (sa, sb) = self.state();
        Some(if ra == rb && sa == sb { format!("same {}", ra) } else { format!("DIFF ffi={} api={} state_ffi={} state_api={}", ra, rb, sa, sb) })
    }
}

impl Drop for LockCtx {
    fn drop(&mut self) {
        if !self.a.is_null() {
            unsafe { drop(Box::from_raw(self.a)) };
        }
    }
}
