//! C06/C07/C08/C15 ops on the three tree backends through the `ZerokitMerkleTree` trait.
use crate::util::*;
use rln::circuit::Fr;
use rln::hashers::PoseidonHash;
use rln::pm_tree_adapter::{PmTree, PmTreeProof, PmtreeConfig};
use std::str::FromStr;
use zerokit_utils::merkle_tree::{
    FullMerkleBranch, FullMerkleProof, FullMerkleTree, OptimalMerkleProof, OptimalMerkleTree,
    ZerokitMerkleProof, ZerokitMerkleTree,
};

pub trait Alter: Sized {
    /// rebuild a proof from (sibling, bit) pairs; None when the type cannot be built from outside
    fn rebuild(path: &[(Fr, u8)]) -> Option<Self>;
}
/// a second hasher for the generic trees: default leaf 7 (not the field's zero), H(a, b) = 3a + 5b + 11
#[derive(Clone, Copy, PartialEq, Eq)]
pub struct ToyHash;
impl zerokit_utils::merkle_tree::Hasher for ToyHash {
    type Fr = Fr;
    fn default_leaf() -> Fr { Fr::from(7u64) }
    fn hash(input: &[Fr]) -> Fr { Fr::from(3u64) * input[0] + Fr::from(5u64) * input[1] + Fr::from(11u64) }
}

impl<H: zerokit_utils::merkle_tree::Hasher<Fr = Fr>> Alter for FullMerkleProof<H> {
    fn rebuild(path: &[(Fr, u8)]) -> Option<Self> {
        Some(FullMerkleProof(
            path.iter()
                .map(|(s, b)| if *b == 0 { FullMerkleBranch::Left(*s) } else { FullMerkleBranch::Right(*s) })
                .collect(),
        ))
    }
}
impl<H: zerokit_utils::merkle_tree::Hasher<Fr = Fr>> Alter for OptimalMerkleProof<H> {
    fn rebuild(path: &[(Fr, u8)]) -> Option<Self> {
        Some(OptimalMerkleProof(path.to_vec()))
    }
}
impl Alter for PmTreeProof {
    fn rebuild(_path: &[(Fr, u8)]) -> Option<Self> {
        None
    }
}

pub enum Inst {
    FullT(FullMerkleTree<ToyHash>),
    OptT(OptimalMerkleTree<ToyHash>),
    Full(FullMerkleTree<PoseidonHash>),
    Opt(OptimalMerkleTree<PoseidonHash>),
    Pm(PmTree, Option<String>),
}

fn parse_list(s: &str) -> Option<Vec<Fr>> {
    // `gen:<n>:<seed>` (hex): the n consecutive values seed+1, …, seed+n — long lists without long lines
    if let Some(rest) = s.strip_prefix("gen:") {
        let (n, seed) = rest.split_once(':')?;
        let (n, seed) = (parse_usize(n)?, parse_usize(seed)? as u64);
        return Some((1..=n as u64).map(|i| Fr::from(seed + i)).collect());
    }

    if s == "-" {
        return Some(vec![]);
    }
    s.split(',').map(parse_fr).collect()
}
fn parse_ulist(s: &str) -> Option<Vec<usize>> {
    if s == "-" {
        return Some(vec![]);
    }
    s.split(',').map(parse_usize).collect()
}
fn res<E>(r: Result<(), E>) -> String {
    match r {
        Ok(()) => "ok".into(),
        Err(_) => "err".into(),
    }
}
fn show_list(v: &[String]) -> String {
    format!("[{}]", v.join(","))
}

fn exec_on<H, T>(t: &mut T, w: &[&str]) -> Option<String>
where
    H: zerokit_utils::merkle_tree::Hasher<Fr = Fr>,
    T: ZerokitMerkleTree<Hasher = H>,
    T::Proof: ZerokitMerkleProof<Hasher = H, Index = u8> + Alter,
{
    Some(match (w[0], w.len()) {
        ("set", 3) => res(t.set(parse_usize(w[1])?, parse_fr(w[2])?)),
        ("del", 2) => res(t.delete(parse_usize(w[1])?)),
        ("app", 2) => res(t.update_next(parse_fr(w[1])?)),
        ("range", 3) => res(t.set_range(parse_usize(w[1])?, parse_list(w[2])?.into_iter())),
        ("batch", 4) => res(t.override_range(
            parse_usize(w[1])?,
            parse_list(w[2])?.into_iter(),
            parse_ulist(w[3])?.into_iter(),
        )),
        ("root", 1) => fr_hex(&t.root()),
        ("next", 1) => format!("{}", t.leaves_set()),
        ("empty", 1) => show_list(&t.get_empty_leaves_indices().iter().map(|i| i.to_string()).collect::<Vec<_>>()),
        ("get", 2) => match t.get(parse_usize(w[1])?) {
            Ok(v) => fr_hex(&v),
            Err(_) => "err".into(),
        },
        ("sub", 3) => match t.get_subtree_root(w[1].parse().ok()?, parse_usize(w[2])?) {
            Ok(v) => fr_hex(&v),
            Err(_) => "err".into(),
        },
        ("proof", 2) => {
            let i = parse_usize(w[1])?;
            match (t.proof(i), t.get(i)) {
                (Ok(p), Ok(lf)) => {
                    let els = p.get_path_elements();
                    let bits = p.get_path_index();
                    let acc = match t.verify(&lf, &p) {
                        Ok(true) => "accepted",
                        _ => "rejected",
                    };
                    format!(
                        "{} {} len={} idx={} recomputes={} {}",
                        show_list(&els.iter().map(fr_hex).collect::<Vec<_>>()),
                        show_list(&bits.iter().map(|b| b.to_string()).collect::<Vec<_>>()),
                        p.length(),
                        p.leaf_index(),
                        p.compute_root_from(&lf) == t.root(),
                        acc
                    )
                }
                _ => "err".into(),
            }
        }
        ("pverify", 5) => {
            let i = parse_usize(w[1])?;
            let kind = w[2];
            let k: usize = w[3].parse().ok()?;
            let v = parse_fr(w[4])?;
            match (t.proof(i), t.get(i)) {
                (Ok(p), Ok(lf)) => {
                    let verdict = |r: color_eyre_result<bool>| match r {
                        Ok(true) => "accepted".to_string(),
                        _ => "rejected".to_string(),
                    };
                    if kind == "leaf" {
                        verdict(t.verify(&v, &p).map_err(|_| ()))
                    } else {
                        let mut path: Vec<(Fr, u8)> =
                            p.get_path_elements().into_iter().zip(p.get_path_index().into_iter()).collect();
                        if kind == "cut" {
                            path.pop();
                        } else if kind == "ext" {
                            path.push((v, 0));
                        } else if k < path.len() {
                            if kind == "sib" {
                                path[k].0 = v;
                            } else {
                                path[k].1 = 1 - path[k].1;
                            }
                        }
                        match <T::Proof as Alter>::rebuild(&path) {
                            Some(p2) => verdict(t.verify(&lf, &p2).map_err(|_| ())),
                            None => "n/a".into(),
                        }
                    }
                }
                _ => "err".into(),
            }
        }
        // a digest of EVERY node: per level, the sum (mod p) of all subtree roots of that level — a full scan in one line, for trees
        // too big to print (a single lost or stale node anywhere changes one of the sums)
        ("digest", 1) => {
            let d = t.depth();
            let mut sums = Vec::new();
            for l in 0..=d {
                let mut acc = Fr::from(0u64);
                let mut bad = false;
                for j in 0..(1usize << l) {
                    match t.get_subtree_root(l, j << (d - l)) { Ok(v) => acc += v, Err(_) => bad = true }
                }
                sums.push(if bad { "err".to_string() } else { fr_hex(&acc) });
            }
            show_list(&sums)
        }
        ("obs", 1) => {
            let d = t.depth();
            let mut levels = Vec::new();
            for l in 0..=d {
                let mut row = Vec::new();
                for j in 0..(1usize << l) {
                    // every leaf index inside a subtree names that subtree: the first, a middle and the last index must agree
                    // (asking only with the aligned first index would miss a shortcut keyed on the queried index)
                    let span = 1usize << (d - l);
                    let first = j << (d - l);
                    let probes = [first, first + span / 2, first + span - 1];
                    let vals: Vec<String> = probes.iter().map(|idx| match t.get_subtree_root(l, *idx) {
                        Ok(v) => fr_hex(&v),
                        Err(_) => "err".into(),
                    }).collect();
                    if vals.iter().all(|v| *v == vals[0]) {
                        row.push(vals[0].clone());
                    } else {
                        row.push(format!("UNALIGNED-QUERY-DIFFERS(first={} mid={} last={})", vals[0], vals[1], vals[2]));
                    }
                }
                levels.push(show_list(&row));
            }
            format!(
                "root={} next={} empty={} nodes={}",
                fr_hex(&t.root()),
                t.leaves_set(),
                show_list(&t.get_empty_leaves_indices().iter().map(|i| i.to_string()).collect::<Vec<_>>()),
                show_list(&levels)
            )
        }
        _ => return None,
    })
}

#[allow(non_camel_case_types)]
type color_eyre_result<T> = Result<T, ()>;

pub struct TreeCtx {
    pub inst: Option<Inst>,
    armed: i64,
    dirs: Vec<std::path::PathBuf>,
    counter: usize,
}

impl Drop for TreeCtx {
    fn drop(&mut self) {
        self.inst = None;
        for d in self.dirs.drain(..) {
            let _ = std::fs::remove_dir_all(d);
        }
    }
}

/// storage configurations of C16 (path is always explicit, `temporary` false)
const PM_CONFIGS: [&str; 5] = [
    "",
    ", \"cache_capacity\": 1048576, \"flush_every_ms\": 500",
    ", \"mode\": \"LowSpace\"",
    ", \"mode\": \"HighThroughput\", \"cache_capacity\": 65536",
    ", \"use_compression\": false, \"flush_every_ms\": 5",
];

impl TreeCtx {
    pub fn new() -> Self {
        TreeCtx { inst: None, armed: -1, dirs: Vec::new(), counter: 0 }
    }
    pub fn exec(&mut self, w: &[&str]) -> Option<String> {
        if w[0] == "tree" && w.len() == 4 && w[1] == "new" {
            let depth: usize = w[3].parse().ok()?;
            self.inst = None; // drop the previous instance first (sled lock, temp dir)
            self.inst = Some(match w[2] {
                "full" => Inst::Full(FullMerkleTree::<PoseidonHash>::default(depth).ok()?),
                "opt" => Inst::Opt(OptimalMerkleTree::<PoseidonHash>::default(depth).ok()?),
                "fullT" => Inst::FullT(FullMerkleTree::<ToyHash>::default(depth).ok()?),
                "optT" => Inst::OptT(OptimalMerkleTree::<ToyHash>::default(depth).ok()?),
                "pm" => Inst::Pm(<PmTree as ZerokitMerkleTree>::default(depth).ok()?, None),
                "pmdisk" => {
                    // a fresh on-disk location per instance; removed when the context is dropped
                    self.counter += 1;
                    let dir = std::env::temp_dir().join(format!("zkh-{}-{}", std::process::id(), self.counter));
                    let _ = std::fs::remove_dir_all(&dir);
                    self.dirs.push(dir.clone());
                    let extra = PM_CONFIGS[self.counter % PM_CONFIGS.len()];
                    let cfg = format!("{{\"path\": \"{}\", \"temporary\": false{}}}", dir.display(), extra);
                    let c = PmtreeConfig::from_str(&cfg).ok()?;
                    Inst::Pm(PmTree::new(depth, Fr::from(0u64), c).ok()?, Some(cfg))
                }
                _ => return Some("bad-op".into()),
            });
            return Some("ok".into());
        }
        // a persistent tree at a location chosen by the caller (created, or loaded when the location holds one): lets one process
        // write + flush + die and the next one look at what is there. `flush_every_ms` is long so that only an explicit flush persists.
        if w[0] == "tree" && w.len() == 4 && w[1] == "at" {
            let depth: usize = w[3].parse().ok()?;
            self.inst = None;
            let cfg = format!("{{\"path\": \"{}\", \"temporary\": false, \"flush_every_ms\": 3600000}}", w[2]);
            let c = PmtreeConfig::from_str(&cfg).ok()?;
            return Some(match PmTree::new(depth, Fr::from(0u64), c) {
                Ok(t) => { self.inst = Some(Inst::Pm(t, Some(cfg))); "ok".into() }
                Err(_) => "err".into(),
            });
        }
        // the process dies here, without unwinding and without dropping anything (power loss / kill -9 as far as the storage is concerned)
        if w[0] == "crash" && w.len() == 1 {
            use std::io::Write;
            println!("crashing");
            let _ = std::io::stdout().flush();
            std::process::abort();
        }
        // a tree whose positions all start as a caller-chosen value (the second argument of `ZerokitMerkleTree::new`), which need
        // not be the hasher's default leaf that deletions write
        if w[0] == "tree" && w.len() == 5 && w[1] == "newinit" {
            let depth: usize = w[3].parse().ok()?;
            let init = parse_fr(w[4])?;
            self.inst = None;
            self.inst = Some(match w[2] {
                "full" => Inst::Full(FullMerkleTree::<PoseidonHash>::new(depth, init, Default::default()).ok()?),
                "opt" => Inst::Opt(OptimalMerkleTree::<PoseidonHash>::new(depth, init, Default::default()).ok()?),
                _ => return Some("bad-op".into()),
            });
            return Some("ok".into());
        }
        // ---- persistent-backend-only ops: close / reopen / metadata / storage-failure injection (hook H1)
        match (w[0], w.len()) {
            ("close", 1) => {
                return Some(match self.inst.as_mut() {
                    Some(Inst::Pm(t, _)) => res(t.close_db_connection()),
                    _ => "bad-op".into(),
                })
            }
            ("reopen", 2) => {
                let depth: usize = w[1].parse().ok()?;
                let cfg = match self.inst.take() {
                    Some(Inst::Pm(t, Some(cfg))) => {
                        drop(t);
                        cfg
                    }
                    other => {
                        self.inst = other;
                        return Some("bad-op".into());
                    }
                };
                let c = PmtreeConfig::from_str(&cfg).ok()?;
                return Some(match PmTree::new(depth, Fr::from(0u64), c) {
                    Ok(t) => {
                        self.inst = Some(Inst::Pm(t, Some(cfg)));
                        "ok".into()
                    }
                    Err(_) => "err".into(),
                });
            }
            ("meta", 3) if w[1] == "set" => {
                let b = parse_bytes(w[2])?;
                return Some(match self.inst.as_mut() {
                    Some(Inst::Pm(t, _)) => res(t.set_metadata(&b)),
                    Some(Inst::Full(t)) => res(t.set_metadata(&b)),
                    Some(Inst::Opt(t)) => res(t.set_metadata(&b)),
                    Some(Inst::FullT(t)) => res(t.set_metadata(&b)),
                    Some(Inst::OptT(t)) => res(t.set_metadata(&b)),
                    None => "bad-op".into(),
                });
            }
            ("meta", 2) if w[1] == "get" => {
                let r = match self.inst.as_ref() {
                    Some(Inst::Pm(t, _)) => t.metadata(),
                    Some(Inst::Full(t)) => t.metadata(),
                    Some(Inst::Opt(t)) => t.metadata(),
                    Some(Inst::FullT(t)) => t.metadata(),
                    Some(Inst::OptT(t)) => t.metadata(),
                    None => return Some("bad-op".into()),
                };
                return Some(match r {
                    Ok(b) => show_bytes(&b),
                    Err(_) => "err".into(),
                });
            }
            ("arm", 2) => {
                let k: i64 = w[1].parse().ok()?;
                zerokit_utils::pm_tree::sled_adapter::verif_hook::arm(k);
                self.armed = k;
                return Some("ok".into());
            }
            // did the injected failure fire since `arm`? (then disarm)
            ("fired", 1) => {
                let c = zerokit_utils::pm_tree::sled_adapter::verif_hook::calls();
                let k = self.armed;
                zerokit_utils::pm_tree::sled_adapter::verif_hook::arm(-1);
                self.armed = -1;
                return Some(format!("{}", k >= 0 && c > k));
            }
            _ => {}
        }
        match self.inst.as_mut() {
            Some(Inst::Full(t)) => exec_on(t, w),
            Some(Inst::Opt(t)) => exec_on(t, w),
            Some(Inst::FullT(t)) => exec_on(t, w),
            Some(Inst::OptT(t)) => exec_on(t, w),
            Some(Inst::Pm(t, _)) => exec_on(t, w),
            None => None,
        }
    }
}


/// C18/C16: create an on-disk tree, write, flush, drop it and re-create it on the same location at once, `n` times;
/// after every re-creation the previously acknowledged and flushed leaf and leaf count must still be there
pub fn reopen_loop(n: usize) -> String {
    let dir = std::env::temp_dir().join(format!("zkh-reopen-{}", std::process::id()));
    let _ = std::fs::remove_dir_all(&dir);
    let cfg = format!("{{\"path\": \"{}\", \"temporary\": false}}", dir.display());
    let mut worst = std::time::Duration::ZERO;
    let (mut failures, mut lost) = (0usize, 0usize);
    let mut prev: Option<(usize, Fr, usize)> = None;
    for k in 0..n {
        let t0 = std::time::Instant::now();
        match PmtreeConfig::from_str(&cfg).ok().and_then(|c| PmTree::new(4, Fr::from(0u64), c).ok()) {
            Some(mut t) => {
                worst = worst.max(t0.elapsed());
                if let Some((i, v, cnt)) = prev {
                    if t.get(i).ok() != Some(v) || t.leaves_set() != cnt {
                        lost += 1;
                        eprintln!("reopen_loop: iteration {} lost: leaf[{}] = {:?} (expected {}), leaves_set {} (expected {}), reopen took {:?}",
                                  k, i, t.get(i).ok().map(|x| fr_hex(&x)), fr_hex(&v), t.leaves_set(), cnt, t0.elapsed());
                    }
                }
                let v = Fr::from(k as u64 + 1);
                if t.set(k % 16, v).is_err() || t.close_db_connection().is_err() {
                    failures += 1;
                }
                prev = Some((k % 16, v, t.leaves_set()));
                drop(t);
            }
            None => {
                worst = worst.max(t0.elapsed());
                failures += 1;
            }
        }
    }
    let _ = std::fs::remove_dir_all(&dir);
    format!("iterations={} failures={} lost_after_reopen={} worst_ms={}", n, failures, lost, worst.as_millis())
}

/// C18 (re-creation in bounded time, no deadlock) with three parties in one process: a live tree on location P1, a second thread
/// trying to open P1 (it waits in the retry loop while P1 is held), and meanwhile drop + re-create cycles on an UNRELATED location P2,
/// which must not wait for anybody. Prints the slowest P2 cycle; `p2=timeout` when the cycles do not finish within 30 s.
pub fn open_contention() -> String {
    use std::sync::mpsc;
    let base = std::env::temp_dir().join(format!("zkh-contention-{}", std::process::id()));
    let _ = std::fs::remove_dir_all(&base);
    let cfg = |name: &str| format!("{{\"path\": \"{}\", \"temporary\": false}}", base.join(name).display());
    let open = |c: &str| PmtreeConfig::from_str(c).ok().and_then(|c| PmTree::new(4, Fr::from(0u64), c).ok());
    let held = match open(&cfg("held")) { Some(t) => t, None => return "setup-failed".into() };
    let c1 = cfg("held");
    let waiter = std::thread::spawn(move || {
        let t0 = std::time::Instant::now();
        let r = PmtreeConfig::from_str(&c1).ok().and_then(|c| PmTree::new(4, Fr::from(0u64), c).ok());
        (r.is_some(), t0.elapsed().as_millis())
    });
    std::thread::sleep(std::time::Duration::from_millis(300));
    let c2 = cfg("other");
    let (tx, rx) = mpsc::channel();
    std::thread::spawn(move || {
        let mut worst = 0u128;
        let mut fails = 0;
        for k in 0..10u64 {
            let t0 = std::time::Instant::now();
            match PmtreeConfig::from_str(&c2).ok().and_then(|c| PmTree::new(4, Fr::from(0u64), c).ok()) {
                Some(mut t) => { let _ = t.set((k % 16) as usize, Fr::from(k + 1)); let _ = t.close_db_connection(); drop(t); }
                None => fails += 1,
            }
            worst = worst.max(t0.elapsed().as_millis());
        }
        let _ = tx.send((worst, fails));
    });
    let p2 = rx.recv_timeout(std::time::Duration::from_secs(30));
    drop(held);
    let res = match p2 {
        Ok((worst, fails)) => {
            let (ok, ms) = waiter.join().unwrap_or((false, 0));
            format!("p2_worst_ms={} p2_failures={} waiter_opened={} waiter_ms={}", worst, fails, ok, ms)
        }
        Err(_) => "p2=timeout (re-creating a tree on an unrelated location waited for a thread that is waiting for another location)".to_string(),
    };
    let _ = std::fs::remove_dir_all(&base);
    res
}

/// diagnostic: which error makes `MerkleTree::load` fail right after the previous instance was dropped
pub fn probe_load(n: usize) -> String {
    use zerokit_utils::pmtree::MerkleTree;
    use zerokit_utils::pm_tree::sled_adapter::SledDB;
    let dir = std::env::temp_dir().join(format!("zkh-probe-{}", std::process::id()));
    let _ = std::fs::remove_dir_all(&dir);
    let cfg = sled::Config::new().temporary(false).path(&dir).cache_capacity(1024 * 1024 * 1024).flush_every_ms(None).mode(sled::Mode::HighThroughput).use_compression(false);
    let mut errs: Vec<String> = Vec::new();
    {
        let mut t = MerkleTree::<SledDB, PoseidonHash>::new(4, cfg.clone()).unwrap();
        t.set(1, Fr::from(7u64)).unwrap();
        t.close().unwrap();
    }
    for _ in 0..n {
        match MerkleTree::<SledDB, PoseidonHash>::load(cfg.clone()) {
            Ok(mut t) => {
                t.set(2, Fr::from(9u64)).unwrap();
                t.close().unwrap();
            }
            Err(e) => errs.push(format!("{}", e)),
        }
    }
    let _ = std::fs::remove_dir_all(&dir);
    format!("load_failures={} {:?}", errs.len(), errs.iter().take(3).collect::<Vec<_>>())
}
