//! C19 ops: the witness-graph operators, Montgomery (`eval_fr`) and integer (`eval`) evaluators.
use crate::util::*;
use rln::circuit::iden3calc::graph::{fr_to_u256, Operation, TresOperation, UnoOperation};
use ruint::aliases::U256;

pub fn parse_op(s: &str) -> Option<Operation> {
    use Operation::*;
    Some(match s {
        "Mul" => Mul, "Div" => Div, "Add" => Add, "Sub" => Sub, "Pow" => Pow, "Idiv" => Idiv, "Mod" => Mod,
        "Eq" => Eq, "Neq" => Neq, "Lt" => Lt, "Gt" => Gt, "Leq" => Leq, "Geq" => Geq, "Land" => Land,
        "Lor" => Lor, "Shl" => Shl, "Shr" => Shr, "Bor" => Bor, "Band" => Band, "Bxor" => Bxor,
        _ => return None,
    })
}

pub fn parse_uno(s: &str) -> Option<UnoOperation> {
    Some(match s { "Neg" => UnoOperation::Neg, "Id" => UnoOperation::Id, _ => return None })
}

pub fn parse_u256(s: &str) -> Option<U256> {
    let s = s.strip_prefix("0x").unwrap_or(s);
    U256::from_str_radix(s, 16).ok()
}

pub fn u256_hex(v: &U256) -> String {
    format!("0x{:x}", v)
}

pub const OPS: [&str; 20] = ["Mul", "Div", "Add", "Sub", "Pow", "Idiv", "Mod", "Eq", "Neq", "Lt", "Gt", "Leq", "Geq",
    "Land", "Lor", "Shl", "Shr", "Bor", "Band", "Bxor"];

pub fn exec(w: &[&str]) -> Option<String> {
    match (w[0], w.len()) {
        // Montgomery evaluator on field elements
        ("op", 4) => {
            let op = parse_op(w[1])?;
            let (a, b) = (parse_fr(w[2])?, parse_fr(w[3])?);
            Some(fr_hex(&op.eval_fr(a, b)))
        }
        // integer evaluator on the same (canonical) operands
        ("opu", 4) => {
            let op = parse_op(w[1])?;
            let (a, b) = (parse_u256(w[2])?, parse_u256(w[3])?);
            Some(u256_hex(&op.eval(a, b)))
        }
        ("uno", 3) => Some(fr_hex(&parse_uno(w[1])?.eval_fr(parse_fr(w[2])?))),
        ("unou", 3) => Some(u256_hex(&parse_uno(w[1])?.eval(parse_u256(w[2])?))),
        ("tres", 4) => Some(fr_hex(&TresOperation::TernCond.eval_fr(parse_fr(w[1])?, parse_fr(w[2])?, parse_fr(w[3])?))),
        ("tresu", 4) => Some(u256_hex(&TresOperation::TernCond.eval(parse_u256(w[1])?, parse_u256(w[2])?, parse_u256(w[3])?))),
        ("fr2u", 2) => Some(u256_hex(&fr_to_u256(&parse_fr(w[1])?))),
        _ => None,
    }
}
