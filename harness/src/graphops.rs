//! C19 ops: the witness-graph operators, Montgomery (`eval_fr`) and integer (`eval`) evaluators.
use crate::util::*;
use rln::circuit::iden3calc::graph::{self, fr_to_u256, Node, Operation, TresOperation, UnoOperation};
use rln::circuit::iden3calc::storage::{deserialize_witnesscalc_graph, serialize_witnesscalc_graph};
use rln::circuit::iden3calc::{calc_witness, InputSignalsInfo};
use rln::circuit::Fr;
use ruint::aliases::U256;

pub fn parse_op(s: &str) -> Option<Operation> {
    use Operation::*;
    Some(match s {
        "Mul" => Mul, "Div" => Div, "Add" => Add, "Sub" => Sub, "Pow" => Pow, "Idiv" => Idiv, "Mod" => Mod,
        "Eq" => Eq, "Neq" => Neq, "Lt" => Lt, "Gt" => Gt, "Leq" => Leq, "Geq" => Geq, "Land" => Land,
        "Lor" => Lor, "Shl" => Shl, "Shr" => Shr, "Bor" => Bor, "Band" => Band, "Bxor" => Bxor,
        _ => return None,
    })
}

pub fn parse_uno(s: &str) -> Option<UnoOperation> {
    Some(match s { "Neg" => UnoOperation::Neg, "Id" => UnoOperation::Id, _ => return None })
}

pub fn parse_u256(s: &str) -> Option<U256> {
    let s = s.strip_prefix("0x").unwrap_or(s);
    U256::from_str_radix(s, 16).ok()
}

pub fn u256_hex(v: &U256) -> String {
    format!("0x{:x}", v)
}

pub const OPS: [&str; 20] = ["Mul", "Div", "Add", "Sub", "Pow", "Idiv", "Mod", "Eq", "Neq", "Lt", "Gt", "Leq", "Geq",
    "Land", "Lor", "Shl", "Shr", "Bor", "Band", "Bxor"];

/// `I:3;M:ff;C:ff;D:Add:1:2;U:Neg:4;T:1:2:3` -> nodes
pub fn parse_nodes(s: &str) -> Option<Vec<Node>> {
    if s == "-" {
        return Some(vec![]);
    }
    s.split(';')
        .map(|t| {
            let f: Vec<&str> = t.split(':').collect();
            Some(match (f[0], f.len()) {
                ("I", 2) => Node::Input(parse_usize(f[1])?),
                ("M", 2) => Node::MontConstant(parse_fr(f[1])?),
                ("C", 2) => Node::Constant(parse_u256(f[1])?),
                ("D", 4) => Node::Op(parse_op(f[1])?, parse_usize(f[2])?, parse_usize(f[3])?),
                ("U", 3) => Node::UnoOp(parse_uno(f[1])?, parse_usize(f[2])?),
                ("T", 4) => Node::TresOp(TresOperation::TernCond, parse_usize(f[1])?, parse_usize(f[2])?, parse_usize(f[3])?),
                _ => return None,
            })
        })
        .collect()
}

fn parse_ulist(s: &str) -> Option<Vec<usize>> {
    if s == "-" {
        return Some(vec![]);
    }
    s.split(',').map(parse_usize).collect()
}

fn show_frs(v: &[Fr]) -> String {
    format!("[{}]", v.iter().map(fr_hex).collect::<Vec<_>>().join(","))
}

pub fn exec(w: &[&str]) -> Option<String> {
    match (w[0], w.len()) {
        // graph eval <nodes> <input buffer values> <outputs>: graph::evaluate on a given buffer
        ("graph", 5) if w[1] == "eval" => {
            let nodes = parse_nodes(w[2])?;
            let inputs: Vec<U256> = if w[3] == "-" { vec![] } else { w[3].split(',').map(parse_u256).collect::<Option<_>>()? };
            let outs = parse_ulist(w[4])?;
            Some(show_frs(&graph::evaluate(&nodes, &inputs, &outs)))
        }
        // graph calc <nodes> <signals> <name:off:len,...> <name=v,v;...>: container round trip, then calc_witness
        ("graph", 6) if w[1] == "calc" || w[1] == "store" => {
            let nodes = parse_nodes(w[2])?;
            let sigs = parse_ulist(w[3])?;
            let mut info = InputSignalsInfo::new();
            if w[4] != "-" {
                for e in w[4].split(',') {
                    let f: Vec<&str> = e.split(':').collect();
                    info.insert(f[0].to_string(), (parse_usize(f[1])?, parse_usize(f[2])?));
                }
            }
            // one serialization buffer reused across calls (a caller that keeps its buffer): consecutive graphs of equal
            // encoded length are then evaluated from the same address
            thread_local! { static SER: std::cell::RefCell<Vec<u8>> = std::cell::RefCell::new(Vec::with_capacity(1 << 16)); }
            let mut bytes = SER.with(|b| std::mem::take(&mut *b.borrow_mut()));
            bytes.clear();
            struct Back(Vec<u8>);
            if serialize_witnesscalc_graph(&mut bytes, &nodes, &sigs, &info).is_err() {
                SER.with(|b| *b.borrow_mut() = bytes);
                return Some("err".into());
            }
            let bytes = Back(bytes);
            impl Drop for Back { fn drop(&mut self) { let v = std::mem::take(&mut self.0); SER.with(|b| *b.borrow_mut() = v); } }
            impl std::ops::Deref for Back { type Target = Vec<u8>; fn deref(&self) -> &Vec<u8> { &self.0 } }
            if w[1] == "store" {
                // the stored container and whether reading it back gives an equal graph, signal list and input map
                // the reader is generic (`impl Read`): the same container through readers that hand out at most k bytes per
                // read() call (a pipe, a BufReader at a refill boundary, a chained reader) must give the same graph
                struct Chunked<'a> { data: &'a [u8], pos: usize, k: usize }
                impl<'a> std::io::Read for Chunked<'a> {
                    fn read(&mut self, buf: &mut [u8]) -> std::io::Result<usize> {
                        let n = buf.len().min(self.k).min(self.data.len() - self.pos);
                        buf[..n].copy_from_slice(&self.data[self.pos..self.pos + n]);
                        self.pos += n;
                        Ok(n)
                    }
                }
                let mut chunk_ok = true;
                for k in [1usize, 2, 3, 7, 64, 129] {
                    match deserialize_witnesscalc_graph(Chunked { data: &bytes[..], pos: 0, k }) {
                        Ok((n2, s2, i2)) => chunk_ok &= n2 == nodes && s2 == sigs && i2 == info,
                        Err(_) => chunk_ok = false,
                    }
                }
                return Some(match deserialize_witnesscalc_graph(std::io::Cursor::new(&bytes[..])) {
                    Ok((n2, s2, i2)) => format!("same={} bytes={}", chunk_ok && n2 == nodes && s2 == sigs && i2 == info, show_bytes(&bytes)),
                    Err(_) => "err".into(),
                });
            }
            let mut inputs: Vec<(String, Vec<Fr>)> = Vec::new();
            if w[5] != "-" {
                for e in w[5].split(';') {
                    let (n, v) = e.split_once('=')?;
                    let vals: Vec<Fr> = if v.is_empty() { vec![] } else { v.split(',').map(parse_fr).collect::<Option<_>>()? };
                    inputs.push((n.to_string(), vals));
                }
            }
            Some(show_frs(&calc_witness(inputs, &bytes)))
        }
        // a long chain graph (Input 0, Input 1, then n-2 additions of input 0) through the container and calc_witness:
        // sizes beyond any internal pre-allocation / batching threshold. Prints the node count read back and the last node's value.
        ("graph", 4) if w[1] == "bigchain" => {
            let n = parse_usize(w[2])?;
            let x = parse_fr(w[3])?;
            let mut nodes: Vec<Node> = vec![Node::Input(0), Node::Input(1)];
            for k in 2..n { nodes.push(Node::Op(Operation::Add, k - 1, 0)); }
            let sigs = vec![0usize, n - 1];
            let mut info = InputSignalsInfo::new();
            info.insert("x".to_string(), (1, 1));
            let mut bytes = Vec::new();
            if serialize_witnesscalc_graph(&mut bytes, &nodes, &sigs, &info).is_err() { return Some("err".into()); }
            let back = match deserialize_witnesscalc_graph(std::io::Cursor::new(&bytes[..])) { Ok((n2, s2, i2)) => (n2.len(), n2 == nodes && s2 == sigs && i2 == info), Err(_) => return Some("unreadable".into()) };
            let wit = calc_witness(vec![("x".to_string(), vec![x])], &bytes);
            Some(format!("nodes={} same={} out={}", back.0, back.1, wit.last().map(fr_hex).unwrap_or("-".into())))
        }
        ("reframe", 3) => {
            let b = parse_bytes(w[1])?;
            let n: usize = w[2].parse().ok()?;
            Some(match deserialize_witnesscalc_graph(std::io::Cursor::new(&b)) {
                Ok((nodes, _, _)) if nodes.len() == n => "ok".into(),
                Ok(_) => "mismatch".into(),
                Err(_) => "unreadable".into(),
            })
        }
        // the bundled graph on named input vectors (any order): the complete witness
        ("bundled", 2) => {
            let mut inputs: Vec<(String, Vec<Fr>)> = Vec::new();
            for e in w[1].split(';') {
                let (n, v) = e.split_once('=')?;
                let vals: Vec<Fr> = if v.is_empty() { vec![] } else { v.split(',').map(parse_fr).collect::<Option<_>>()? };
                inputs.push((n.to_string(), vals));
            }
            Some(show_frs(&rln::circuit::calculate_rln_witness(inputs, rln::circuit::graph_from_folder())))
        }
        // the bundled graph from a CALLER-OWNED, REUSED buffer: `bundled_buf <inputs> <off:byte,...|->` patches the buffer in place,
        // evaluates, and restores the bytes, so that consecutive calls see different graphs of equal length at one address
        ("bundled_buf", 3) => {
            thread_local! { static BUF: std::cell::RefCell<Vec<u8>> = std::cell::RefCell::new(rln::circuit::graph_from_folder().to_vec()); }
            let mut inputs: Vec<(String, Vec<Fr>)> = Vec::new();
            for e in w[1].split(';') {
                let (n, v) = e.split_once('=')?;
                let vals: Vec<Fr> = if v.is_empty() { vec![] } else { v.split(',').map(parse_fr).collect::<Option<_>>()? };
                inputs.push((n.to_string(), vals));
            }
            let mut patch: Vec<(usize, u8)> = Vec::new();
            if w[2] != "-" {
                for e in w[2].split(',') {
                    let (o, b) = e.split_once(':')?;
                    patch.push((parse_usize(o)?, parse_usize(b)? as u8));
                }
            }
            BUF.with(|buf| {
                let saved: Vec<(usize, u8)> = { let b = buf.borrow(); patch.iter().filter(|(o, _)| *o < b.len()).map(|(o, _)| (*o, b[*o])).collect() };
                { let mut b = buf.borrow_mut(); for (o, v) in &patch { if *o < b.len() { b[*o] = *v; } } }
                let r = std::panic::catch_unwind(std::panic::AssertUnwindSafe(|| { let b = buf.borrow(); show_frs(&rln::circuit::calculate_rln_witness(inputs, &b)) }));
                { let mut b = buf.borrow_mut(); for (o, v) in &saved { b[*o] = *v; } }
                Some(r.unwrap_or_else(|_| "panic".into()))
            })
        }
        // Montgomery evaluator on field elements
        ("op", 4) => {
            let op = parse_op(w[1])?;
            let (a, b) = (parse_fr(w[2])?, parse_fr(w[3])?);
            Some(fr_hex(&op.eval_fr(a, b)))
        }
        // integer evaluator on the same (canonical) operands
        ("opu", 4) => {
            let op = parse_op(w[1])?;
            let (a, b) = (parse_u256(w[2])?, parse_u256(w[3])?);
            Some(u256_hex(&op.eval(a, b)))
        }
        ("uno", 3) => Some(fr_hex(&parse_uno(w[1])?.eval_fr(parse_fr(w[2])?))),
        ("unou", 3) => Some(u256_hex(&parse_uno(w[1])?.eval(parse_u256(w[2])?))),
        ("tres", 4) => Some(fr_hex(&TresOperation::TernCond.eval_fr(parse_fr(w[1])?, parse_fr(w[2])?, parse_fr(w[3])?))),
        ("tresu", 4) => Some(u256_hex(&TresOperation::TernCond.eval(parse_u256(w[1])?, parse_u256(w[2])?, parse_u256(w[3])?))),
        ("fr2u", 2) => Some(u256_hex(&fr_to_u256(&parse_fr(w[1])?))),
        _ => None,
    }
}
