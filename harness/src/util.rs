use ark_ff::PrimeField;
use num_bigint::BigUint;
use rln::circuit::Fr;

pub fn fr_hex(f: &Fr) -> String {
    let b: BigUint = (*f).into();
    format!("0x{}", b.to_str_radix(16))
}

pub fn parse_fr(s: &str) -> Option<Fr> {
    let s = s.strip_prefix("0x").unwrap_or(s);
    let b = BigUint::parse_bytes(s.as_bytes(), 16)?;
    Some(Fr::from(b))
}

/// canonical big integer (no reduction) — for values that may exceed the modulus
pub fn parse_big(s: &str) -> Option<BigUint> {
    let s = s.strip_prefix("0x").unwrap_or(s);
    BigUint::parse_bytes(s.as_bytes(), 16)
}

pub fn parse_usize(s: &str) -> Option<usize> {
    if let Some(h) = s.strip_prefix("0x") {
        usize::from_str_radix(h, 16).ok()
    } else {
        s.parse().ok()
    }
}

pub fn parse_bytes(s: &str) -> Option<Vec<u8>> {
    if s == "-" {
        return Some(vec![]);
    }
    if s.len() % 2 != 0 {
        return None;
    }
    (0..s.len() / 2).map(|i| u8::from_str_radix(&s[2 * i..2 * i + 2], 16).ok()).collect()
}

pub fn show_bytes(b: &[u8]) -> String {
    if b.is_empty() {
        return "-".into();
    }
    let mut s = String::with_capacity(b.len() * 2);
    for x in b {
        s.push_str(&format!("{:02x}", x));
    }
    s
}

pub fn fr_is_canonical_bytes(b: &[u8]) -> bool {
    BigUint::from_bytes_le(b) < BigUint::from(Fr::MODULUS)
}
