//! C09 ops: Poseidon (typed / byte-level / FFI / generic parameters) and hash-to-field.
use crate::util::*;
use rln::circuit::Fr;
use rln::ffi;
use std::io::Cursor;
use zerokit_utils::poseidon::Poseidon;

pub struct HashCtx {
    generic: Vec<((usize, usize, usize, usize), Poseidon<Fr>)>,
}

fn ffi_buf(data: &[u8]) -> ffi::Buffer {
    ffi::Buffer { ptr: data.as_ptr(), len: data.len() }
}

/// read an FFI output buffer back through its pointer (pointer/len consistency is part of C11)
pub fn ffi_read(b: &ffi::Buffer) -> Vec<u8> {
    if b.len == 0 {
        return vec![];
    }
    unsafe { std::slice::from_raw_parts(b.ptr, b.len) }.to_vec()
}

impl HashCtx {
    pub fn new() -> Self {
        HashCtx { generic: Vec::new() }
    }
    pub fn exec(&mut self, w: &[&str]) -> Option<String> {
        match w[0] {
            "poseidon" => {
                let inp: Option<Vec<Fr>> = w[1..].iter().map(|s| parse_fr(s)).collect();
                let inp = match inp { Some(v) => v, None => return Some("bad-op".into()) };
                Some(fr_hex(&rln::hashers::poseidon_hash(&inp)))
            }
            // the first-round constants c[0..t] of the permutation of width t (inputs + 1), for generating inputs that make a
            // state lane exactly zero after the first constant addition
            "poseidon_c" => {
                let t = parse_usize(w[1])?;
                let row = rln::hashers::ROUND_PARAMS.iter().find(|r| r.0 == t)?;
                let pz = Poseidon::<Fr>::from(&[*row]);
                let c = &pz.get_parameters()[0].c;
                Some(c[..t].iter().map(fr_hex).collect::<Vec<_>>().join(" "))
            }
            // a table of several rows in the order given: Poseidon::<Fr>::from(&rows).hash(inp)
            "uposeidon_rows" => {
                let rows: Option<Vec<(usize, usize, usize, usize)>> = w[1].split(',').map(|r| {
                    let f: Vec<usize> = r.split(':').map(|x| x.parse().ok()).collect::<Option<_>>()?;
                    if f.len() == 4 { Some((f[0], f[1], f[2], f[3])) } else { None }
                }).collect();
                let rows = rows?;
                let inp: Option<Vec<Fr>> = w[2..].iter().map(|s| parse_fr(s)).collect();
                let inp = inp?;
                let pos = Poseidon::<Fr>::from(&rows);
                Some(match pos.hash(&inp) { Ok(v) => fr_hex(&v), Err(_) => "err".into() })
            }
            // zerokit_utils::poseidon::Poseidon::<Fr>::from(&[(t, rf, rp, skip)]).hash(inp)
            "uposeidon" => {
                let p: Option<Vec<usize>> = w[1..5].iter().map(|s| parse_usize(s)).collect();
                let p = p?;
                let key = (p[0], p[1], p[2], p[3]);
                let inp: Option<Vec<Fr>> = w[5..].iter().map(|s| parse_fr(s)).collect();
                let inp = inp?;
                if !self.generic.iter().any(|e| e.0 == key) {
                    self.generic.push((key, Poseidon::<Fr>::from(&[key])));
                }
                let pos = &self.generic.iter().find(|e| e.0 == key).unwrap().1;
                Some(match pos.hash(&inp) { Ok(v) => fr_hex(&v), Err(_) => "err".into() })
            }
            "pub_poseidon" => {
                let b = parse_bytes(w[1])?;
                let mut out = Cursor::new(Vec::new());
                Some(match rln::public::poseidon_hash(Cursor::new(b), &mut out) {
                    Ok(()) => format!("ok {}", show_bytes(&out.into_inner())),
                    Err(_) => "err".into(),
                })
            }
            "ffi_poseidon" => {
                let b = parse_bytes(w[1])?;
                let ib = ffi_buf(&b);
                let mut ob = ffi::Buffer { ptr: std::ptr::null(), len: 0 };
                let ok = ffi::poseidon_hash(&ib, &mut ob);
                // and "in place": one Buffer struct as input and output
                let mut io = ffi_buf(&b);
                let p: *mut ffi::Buffer = &mut io;
                let ok2 = ffi::poseidon_hash(p as *const ffi::Buffer, p);
                let r1 = if ok { format!("ok {}", show_bytes(&ffi_read(&ob))) } else { "err".to_string() };
                let r2 = if ok2 { format!("ok {}", show_bytes(&ffi_read(&io))) } else { "err".to_string() };
                Some(if r1 == r2 { r1 } else { format!("IN-PLACE-DIFFERS {} vs {}", r2, r1) })
            }
            "h2f" => {
                let b = parse_bytes(w[1])?;
                Some(fr_hex(&rln::hashers::hash_to_field(&b)))
            }
            "pub_hash" => {
                let b = parse_bytes(w[1])?;
                let mut out = Cursor::new(Vec::new());
                Some(match rln::public::hash(Cursor::new(b), &mut out) {
                    Ok(()) => format!("ok {}", show_bytes(&out.into_inner())),
                    Err(_) => "err".into(),
                })
            }
            // the same two byte-level entry points with a caller whose reader fails after delivering its bytes, or whose
            // output is too small: the call must fail AND leave nothing behind that changes a later call
            "pub_hash_rfail" | "pub_hash_wfail" | "pub_poseidon_rfail" | "pub_poseidon_wfail" => {
                struct FailingReader(Cursor<Vec<u8>>);
                impl std::io::Read for FailingReader {
                    fn read(&mut self, buf: &mut [u8]) -> std::io::Result<usize> {
                        let n = self.0.read(buf)?;
                        if n == 0 { Err(std::io::Error::new(std::io::ErrorKind::Other, "injected read failure")) } else { Ok(n) }
                    }
                }
                let b = parse_bytes(w[1])?;
                let mut small = [0u8; 8];
                let mut big = Cursor::new(Vec::new());
                let r = match w[0] {
                    "pub_hash_rfail" => rln::public::hash(FailingReader(Cursor::new(b)), &mut big),
                    "pub_hash_wfail" => rln::public::hash(Cursor::new(b), &mut small[..]),
                    "pub_poseidon_rfail" => rln::public::poseidon_hash(FailingReader(Cursor::new(b)), &mut big),
                    _ => rln::public::poseidon_hash(Cursor::new(b), &mut small[..]),
                };
                Some(match r { Ok(()) => format!("ok {}", show_bytes(&big.into_inner())), Err(_) => "err".into() })
            }
            "ffi_hash" => {
                let b = parse_bytes(w[1])?;
                let ib = ffi_buf(&b);
                let mut ob = ffi::Buffer { ptr: std::ptr::null(), len: 0 };
                let ok = ffi::hash(&ib, &mut ob);
                // and "in place": one Buffer struct as input and output
                let mut io = ffi_buf(&b);
                let p: *mut ffi::Buffer = &mut io;
                let ok2 = ffi::hash(p as *const ffi::Buffer, p);
                let r1 = if ok { format!("ok {}", show_bytes(&ffi_read(&ob))) } else { "err".to_string() };
                let r2 = if ok2 { format!("ok {}", show_bytes(&ffi_read(&io))) } else { "err".to_string() };
                Some(if r1 == r2 { r1 } else { format!("IN-PLACE-DIFFERS {} vs {}", r2, r1) })
            }
            "keccak" => {
                use tiny_keccak::{Hasher, Keccak};
                let b = parse_bytes(w[1])?;
                let mut h = [0u8; 32];
                let mut k = Keccak::v256();
                k.update(&b);
                k.finalize(&mut h);
                Some(show_bytes(&h))
            }
            _ => None,
        }
    }
}
