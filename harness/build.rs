// Optional items of /repo that the harness uses when they exist (so that their absence is a difference the checks can report,
// not a build failure of the harness): detected in the source of the `rln` crate this harness is linked against.
use std::path::PathBuf;
fn main() {
    let manifest = std::fs::read_to_string("Cargo.toml").unwrap_or_default();
    // rln = { path = "<repo>/rln" }
    let repo_rln = manifest
        .lines()
        .find(|l| l.trim_start().starts_with("rln ") || l.trim_start().starts_with("rln="))
        .and_then(|l| l.split('"').nth(1).map(PathBuf::from))
        .unwrap_or_else(|| PathBuf::from("/repo/rln"));
    let utils = repo_rln.join("src/utils.rs");
    println!("cargo:rerun-if-changed={}", utils.display());
    println!("cargo:rerun-if-changed=Cargo.toml");
    println!("cargo:rustc-check-cfg=cfg(has_is_canonical)");
    if std::fs::read_to_string(&utils).map(|s| s.contains("pub fn is_canonical_fr_bytes_le")).unwrap_or(false) {
        println!("cargo:rustc-cfg=has_is_canonical");
    }
}
