import ZkModel.Basic
import ZkModel.Keccak
/-!
# `rln/src/protocol.rs` key generation: Keccak-256(seed) → ChaCha20 (rand_chacha 0.3) → `Fr::rand` (ark-ff 0.5)

* `ChaCha.block` — the ChaCha20 block function with a 64-bit block counter and zero stream id, as
  `rand_chacha::ChaCha20Rng::from_seed` sets it up; `u64At k` is the `k`-th `next_u64` (two
  consecutive little-endian 32-bit words of the key stream).
* `frRand` — `Fr::rand`: four limbs, the top two bits masked, rejection while `≥ P`; the accepted
  limbs are the *Montgomery representation*, so the value is `limbs · R⁻¹ mod P` with `R = 2^256`.
-/
namespace Zk.Keygen

namespace ChaCha
def rotl (x : UInt32) (n : UInt32) : UInt32 := (x <<< n) ||| (x >>> (32 - n))

def qr (s : Array UInt32) (a b c d : Nat) : Array UInt32 :=
  let s := s.setIfInBounds a (s[a]! + s[b]!)
  let s := s.setIfInBounds d (rotl (s[d]! ^^^ s[a]!) 16)
  let s := s.setIfInBounds c (s[c]! + s[d]!)
  let s := s.setIfInBounds b (rotl (s[b]! ^^^ s[c]!) 12)
  let s := s.setIfInBounds a (s[a]! + s[b]!)
  let s := s.setIfInBounds d (rotl (s[d]! ^^^ s[a]!) 8)
  let s := s.setIfInBounds c (s[c]! + s[d]!)
  s.setIfInBounds b (rotl (s[b]! ^^^ s[c]!) 7)

def doubleRound (s : Array UInt32) : Array UInt32 :=
  let s := qr s 0 4 8 12
  let s := qr s 1 5 9 13
  let s := qr s 2 6 10 14
  let s := qr s 3 7 11 15
  let s := qr s 0 5 10 15
  let s := qr s 1 6 11 12
  let s := qr s 2 7 8 13
  qr s 3 4 9 14

def iter {α : Type} (f : α → α) : Nat → α → α
  | 0, a => a
  | n+1, a => iter f n (f a)

def block (key : Array UInt32) (ctr : Nat) : Array UInt32 :=
  let init : Array UInt32 := #[0x61707865, 0x3320646e, 0x79622d32, 0x6b206574] ++ key ++
     #[(ctr % 2^32).toUInt32, (ctr / 2^32 % 2^32).toUInt32, 0, 0]
  let s := iter doubleRound 10 init
  (Array.range 16).map fun i => s[i]! + init[i]!

def keyOfSeed (seed : List UInt8) : Array UInt32 :=
  let b := seed.toArray
  (Array.range 8).map fun i =>
    (b[4*i]!).toUInt32 ||| ((b[4*i+1]!).toUInt32 <<< 8) ||| ((b[4*i+2]!).toUInt32 <<< 16) ||| ((b[4*i+3]!).toUInt32 <<< 24)

/-- the `k`-th `next_u64` of the stream -/
def u64At (key : Array UInt32) (k : Nat) : Nat :=
  let w := 2 * k
  let blk := block key (w / 16)
  (blk[w % 16]!).toNat + (blk[w % 16 + 1]!).toNat * 2 ^ 32
end ChaCha

/-- `R⁻¹ mod P` for `R = 2^256` (Montgomery radix of the four-limb representation) -/
def rInv : Nat := powMod (2 ^ 256 % P) (P - 2) P

/-- `Fr::rand` from the `k`-th `u64` of the stream: value and index of the next unread `u64`;
    `none` after `fuel` consecutive rejections (each has probability ≈ 0.24) -/
def frRand (key : Array UInt32) : Nat → Nat → Option (Nat × Nat)
  | 0, _ => none
  | fuel+1, k =>
    let l0 := ChaCha.u64At key k
    let l1 := ChaCha.u64At key (k + 1)
    let l2 := ChaCha.u64At key (k + 2)
    let l3 := ChaCha.u64At key (k + 3) % 2 ^ 62
    let v := l0 + l1 * 2 ^ 64 + l2 * 2 ^ 128 + l3 * 2 ^ 192
    if v < P then some (v * rInv % P, k + 4) else frRand key fuel (k + 4)

def FUEL : Nat := 64

/-- `seeded_keygen(seed)`: (identity_secret_hash, id_commitment) -/
def seededKeygen (H : List Nat → Nat) (seed : List UInt8) : Option (Nat × Nat) :=
  let key := ChaCha.keyOfSeed (Keccak.keccak256 seed)
  match frRand key FUEL 0 with
  | some (s, _) => some (s, H [s])
  | none => none

/-- `extended_seeded_keygen(seed)`: (trapdoor, nullifier, secret_hash, commitment) -/
def extendedSeededKeygen (H : List Nat → Nat) (seed : List UInt8) : Option (Nat × Nat × Nat × Nat) :=
  let key := ChaCha.keyOfSeed (Keccak.keccak256 seed)
  match frRand key FUEL 0 with
  | none => none
  | some (t, k) =>
    match frRand key FUEL k with
    | none => none
    | some (n, _) =>
      let s := H [t, n]
      some (t, n, s, H [s])

/-- specification of an identity: the commitment relations on canonical field elements -/
def ValidIdentity (H : List Nat → Nat) (s c : Nat) : Prop := s < P ∧ c = H [s]
def ValidExtendedIdentity (H : List Nat → Nat) (t n s c : Nat) : Prop :=
  t < P ∧ n < P ∧ s = H [t, n] ∧ c = H [s]

end Zk.Keygen
