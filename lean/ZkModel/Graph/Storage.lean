import ZkModel.Graph.Eval
/-!
# `rln/src/circuit/iden3calc/storage.rs` — the graph container

`[ magic "wtns.graph.001" | node count u64 LE | count × (varint length ‖ node message) | varint length ‖
metadata message | u64 LE offset of the metadata ]`. prost's per-message `encode`/`decode` is a
contract (`Codec`); the repo's own part — framing, the ten-byte look-ahead of `read_message_length`
with its push-back stack (`WriteBackReader`), counts and offsets — is modelled here.
-/
namespace Zk.Graph.Storage

def MAGIC : List UInt8 := "wtns.graph.001".toUTF8.toList

/-- LEB128 (`prost::encode_length_delimiter`) with fuel ⌈64/7⌉ -/
def varint : Nat → Nat → List UInt8
  | 0, _ => []
  | f+1, n => if n < 128 then [n.toUInt8] else (n % 128 + 128).toUInt8 :: varint f (n / 128)

def encVarint (n : Nat) : List UInt8 := varint 10 n

/-- `prost::decode_length_delimiter`: value and number of bytes used; `none` on an empty or
    unterminated prefix -/
def decVarint : Nat → List UInt8 → Option (Nat × Nat)
  | 0, _ => none
  | _, [] => none
  | f+1, b :: r =>
    if b.toNat < 128 then some (b.toNat, 1)
    else match decVarint f r with
      | some (v, k) => some (b.toNat - 128 + 128 * v, k + 1)
      | none => none

/-- `WriteBackReader`: the underlying reader (remaining bytes) and the push-back stack (the byte to
    be read next is the LAST element) -/
structure WBR where
  reader : List UInt8
  buffer : List UInt8

/-- `Read::read(buf)` with `buf.len() = n`: first from the stack (popping from its end), then from
    the reader; returns the bytes read (fewer than `n` only at end of input) -/
def WBR.read (r : WBR) (n : Nat) : List UInt8 × WBR :=
  let k := min n r.buffer.length
  let fromStack := (r.buffer.drop (r.buffer.length - k)).reverse
  let rest := r.reader.take (n - k)
  (fromStack ++ rest, { reader := r.reader.drop (n - k), buffer := r.buffer.take (r.buffer.length - k) })

/-- `Write::write(buf)`: `buffer.extend(buf.iter().rev())` -/
def WBR.write (r : WBR) (bs : List UInt8) : WBR := { r with buffer := r.buffer ++ bs.reverse }

/-- `read_message_length`: read up to ten bytes, decode the varint, push the surplus back -/
def readMessageLength (r : WBR) : Option (Nat × WBR) :=
  let (buf, r1) := r.read 10
  if buf.isEmpty then none else
  -- the source decodes from the full ten-byte array (zero padded)
  match decVarint 10 (buf ++ List.replicate (10 - buf.length) 0) with
  | none => none
  | some (len, lnln) => some (len, if lnln < buf.length then r1.write (buf.drop lnln) else r1)

/-- `read_message`: the body bytes of the next length-delimited message -/
def readMessage (r : WBR) : Option (List UInt8 × WBR) :=
  match readMessageLength r with
  | none => none
  | some (ln, r1) =>
    let (body, r2) := r1.read ln
    if body.length ≠ ln then none else some (body, r2)

def readMessages : Nat → WBR → Option (List (List UInt8) × WBR)
  | 0, r => some ([], r)
  | n+1, r => match readMessage r with
    | none => none
    | some (m, r1) => match readMessages n r1 with
      | none => none
      | some (ms, r2) => some (m :: ms, r2)

/-- `serialize_witnesscalc_graph` on already encoded message bodies -/
def frame (nodeMsgs : List (List UInt8)) (metadata : List UInt8) : List UInt8 :=
  let body := (nodeMsgs.map (fun m => encVarint m.length ++ m)).flatten
  MAGIC ++ natLE 8 nodeMsgs.length ++ body ++ encVarint metadata.length ++ metadata ++
  natLE 8 (MAGIC.length + 8 + body.length)

/-- `deserialize_witnesscalc_graph` down to the message bodies: `(node messages, metadata message)` -/
def unframe (bs : List UInt8) : Option (List (List UInt8) × List UInt8) :=
  if bs.length < MAGIC.length + 8 then none else
  if bs.take MAGIC.length ≠ MAGIC then none else
  let n := leNat ((bs.drop MAGIC.length).take 8)
  match readMessages n { reader := bs.drop (MAGIC.length + 8), buffer := [] } with
  | none => none
  | some (ms, r) => match readMessage r with
    | none => none
    | some (md, _) => some (ms, md)

/-! ## node ↔ protobuf node conversions (`From` impls); the enum numbering is regenerated from proto.rs -/

/-- `proto::node::Node` -/
inductive PNode where
  | input (idx : Nat)
  | constant (valueLe : List UInt8)
  | uno (op a : Nat)
  | duo (op a b : Nat)
  | tres (op a b c : Nat)
deriving DecidableEq, Repr

def opCode : Op → Nat
  | .Mul => 0 | .Div => 1 | .Add => 2 | .Sub => 3 | .Pow => 4 | .Idiv => 5 | .Mod => 6 | .Eq => 7 | .Neq => 8
  | .Lt => 9 | .Gt => 10 | .Leq => 11 | .Geq => 12 | .Land => 13 | .Lor => 14 | .Shl => 15 | .Shr => 16
  | .Bor => 17 | .Band => 18 | .Bxor => 19

def opOfCode (n : Nat) : Option Op :=
  [Op.Mul, .Div, .Add, .Sub, .Pow, .Idiv, .Mod, .Eq, .Neq, .Lt, .Gt, .Leq, .Geq, .Land, .Lor, .Shl, .Shr, .Bor, .Band, .Bxor][n]?

/-- minimal little-endian bytes (`BigUint::to_bytes_le`: `[0]` for zero) -/
def minLE : Nat → Nat → List UInt8
  | 0, _ => [0]
  | f+1, v => if v < 256 then [v.toUInt8] else (v % 256).toUInt8 :: minLE f (v / 256)

/-- `From<&graph::Node> for proto::node::Node`: indices are truncated to `u32`; `Constant` panics -/
def toProto : Node → Outcome PNode
  | .input i => .ok (.input (i % 2 ^ 32))
  | .constant _ => .panic
  | .montConstant c => .ok (.constant (minLE 32 c))
  | .uno op a => .ok (.uno (if op = .Neg then 0 else 1) (a % 2 ^ 32))
  | .duo op a b => .ok (.duo (opCode op) (a % 2 ^ 32) (b % 2 ^ 32))
  | .tres _ a b c => .ok (.tres 0 (a % 2 ^ 32) (b % 2 ^ 32) (c % 2 ^ 32))

/-- `From<proto::Node> for graph::Node`: unknown enum values `unwrap()` to a panic; constants are
    reduced (`from_le_bytes_mod_order`) -/
def ofProto : PNode → Outcome Node
  | .input i => .ok (.input i)
  | .constant bs => .ok (.montConstant (leNat bs % P))
  | .uno op a => if op = 0 then .ok (.uno .Neg a) else if op = 1 then .ok (.uno .Id a) else .panic
  | .duo op a b => match opOfCode op with
    | some o => .ok (.duo o a b)
    | none => .panic
  | .tres op a b c => if op = 0 then .ok (.tres .TernCond a b c) else .panic

end Zk.Graph.Storage
