import ZkModel.Graph.Ops
/-!
# `rln/src/circuit/iden3calc.rs` and `graph.rs::evaluate` — the witness-graph evaluator

`evaluate` is the single pass of the source over the node vector (`values.push(value)`), `denote` the
reference interpretation: the value of node `i` by recursion on the node index. Inputs are placed
into a buffer by `populateInputs` in the iteration order of a hash map, i.e. in *any* order.
-/
namespace Zk.Graph

inductive Node where
  | input (i : Nat)
  /-- `Node::Constant(U256)` (never produced by the loader; panics when serialised) -/
  | constant (c : Nat)
  | montConstant (c : Nat)
  | uno (op : UnoOp) (a : Nat)
  | duo (op : Op) (a b : Nat)
  | tres (op : TresOp) (a b c : Nat)
deriving DecidableEq, Repr, Inhabited

/-- value of one node given the values of all earlier nodes (`values`) and the input buffer;
    an index outside `values` / `inputs` is an index panic, a constant or input `≥ P` fails
    `u256_to_fr(..).expect(..)` -/
def evalNode (values : Array Nat) (inputs : Array Nat) (n : Node) : Outcome Nat :=
  match n with
  | .constant c => if c < P then .ok c else .panic
  | .montConstant c => .ok c
  | .input i => match inputs[i]? with
    | some v => if v < P then .ok v else .panic
    | none => .panic
  | .duo op a b => match values[a]?, values[b]? with
    | some x, some y => evalFr op x y
    | _, _ => .panic
  | .uno op a => match values[a]? with
    | some x => evalFrUno op x
    | none => .panic
  | .tres op a b c => match values[a]?, values[b]?, values[c]? with
    | some x, some y, some z => evalFrTres op x y z
    | _, _, _ => .panic

/-- the loop `for &node in nodes.iter() { values.push(..) }` -/
def evalAll (inputs : Array Nat) : List Node → Array Nat → Outcome (Array Nat)
  | [], values => .ok values
  | n :: rest, values =>
    match evalNode values inputs n with
    | .ok v => evalAll inputs rest (values.push v)
    | .err => .err
    | .panic => .panic

/-- `graph::evaluate(nodes, inputs, outputs)` -/
def evaluate (nodes : List Node) (inputs : Array Nat) (outputs : List Nat) : Outcome (List Nat) :=
  match evalAll inputs nodes #[] with
  | .ok values =>
    if outputs.all (fun o => o < values.size) then .ok (outputs.map (fun o => values[o]!)) else .panic
  | .err => .err
  | .panic => .panic

/-! ## reference interpretation -/

/-- value of node `i` by recursion on the index (`fuel` bounds the depth of the recursion; `i + 1`
    suffices because references go backwards) -/
def denote (nodes : Array Node) (inputs : Array Nat) : Nat → Nat → Outcome Nat
  | 0, _ => .panic
  | fuel+1, i =>
    match nodes[i]? with
    | none => .panic
    | some (.constant c) => if c < P then .ok c else .panic
    | some (.montConstant c) => .ok c
    | some (.input k) => (match inputs[k]? with
      | some v => if v < P then .ok v else .panic
      | none => .panic)
    | some (.duo op a b) =>
      if a < i ∧ b < i then
        match denote nodes inputs fuel a, denote nodes inputs fuel b with
        | .ok x, .ok y => evalFr op x y
        | _, _ => .panic
      else .panic
    | some (.uno op a) =>
      if a < i then
        match denote nodes inputs fuel a with
        | .ok x => evalFrUno op x
        | _ => .panic
      else .panic
    | some (.tres op a b c) =>
      if a < i ∧ b < i ∧ c < i then
        match denote nodes inputs fuel a, denote nodes inputs fuel b, denote nodes inputs fuel c with
        | .ok x, .ok y, .ok z => evalFrTres op x y z
        | _, _, _ => .panic
      else .panic

/-- backward references only, operators the Montgomery evaluator implements, constants canonical,
    input indices inside the buffer -/
def nodeOk (inputsSize : Nat) (i : Nat) : Node → Bool
  | .input k => decide (k < inputsSize)
  | .constant c => decide (c < P)
  | .montConstant c => decide (c < P)
  | .uno op a => decide (a < i) && decide (op = .Neg)
  | .duo op a b => decide (a < i) && decide (b < i) && decide (op ≠ .Pow)
  | .tres _ a b c => decide (a < i) && decide (b < i) && decide (c < i)

def wfAux (inputsSize : Nat) : List Node → Nat → Bool
  | [], _ => true
  | n :: r, i => nodeOk inputsSize i n && wfAux inputsSize r (i + 1)

def WellFormed (nodes : List Node) (inputsSize : Nat) : Prop := wfAux inputsSize nodes 0 = true

instance (nodes : List Node) (k : Nat) : Decidable (WellFormed nodes k) := by unfold WellFormed; exact inferInstance

/-! ## input placement (`iden3calc.rs`) -/

/-- `get_inputs_size`: one more than the largest input index inside the *first run* of input nodes -/
def getInputsSize : List Node → Bool → Nat → Nat
  | [], _, mx => mx + 1
  | .input i :: r, _, mx => getInputsSize r true (max mx i)
  | _ :: r, started, mx => if started then mx + 1 else getInputsSize r false mx

/-- `get_inputs_buffer(size)`: zeros with position 0 set to 1 (panics for size 0 — cannot happen, size ≥ 1) -/
def getInputsBuffer (size : Nat) : Array Nat := (Array.replicate size 0).setIfInBounds 0 1

def writeAt (buf : Array Nat) (off : Nat) : List Nat → Option (Array Nat)
  | [] => some buf
  | v :: r => if off < buf.size then writeAt (buf.setIfInBounds off v) (off + 1) r else none

/-- `populate_inputs`: for each supplied `(name, values)` — in the order given, which for the
    `HashMap` of the source is arbitrary — look the name up (`inputs_info[key]` panics when
    absent), compare the length (explicit `panic!`), copy (index panic when outside the buffer) -/
def populateInputs (info : List (String × Nat × Nat)) : List (String × List Nat) → Array Nat → Outcome (Array Nat)
  | [], buf => .ok buf
  | (name, vals) :: rest, buf =>
    match info.lookup name with
    | none => .panic
    | some (off, len) =>
      if len ≠ vals.length then .panic else
      match writeAt buf off vals with
      | some buf' => populateInputs info rest buf'
      | none => .panic

/-- `calc_witness(inputs, graph)` after decoding the graph container -/
def calcWitness (nodes : List Node) (signals : List Nat) (info : List (String × Nat × Nat))
    (inputs : List (String × List Nat)) : Outcome (List Nat) :=
  match populateInputs info inputs (getInputsBuffer (getInputsSize nodes false 0)) with
  | .ok buf => evaluate nodes buf signals
  | .err => .err
  | .panic => .panic

/-- declared input ranges pairwise disjoint, inside the buffer, away from position 0 (the constant 1),
    names distinct -/
def LayoutOk (info : List (String × Nat × Nat)) (size : Nat) : Prop :=
  (info.map (·.1)).Nodup ∧
  (∀ e ∈ info, 1 ≤ e.2.1 ∧ e.2.1 + e.2.2 ≤ size) ∧
  (info.Pairwise (fun e f => e.2.1 + e.2.2 ≤ f.2.1 ∨ f.2.1 + f.2.2 ≤ e.2.1))

end Zk.Graph
