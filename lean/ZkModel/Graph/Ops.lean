import ZkModel.Basic
import ZkModel.Generated.GraphConsts
/-!
# `rln/src/circuit/iden3calc/graph.rs` — operators of the witness graph

`evalFr` is the Montgomery evaluator `Operation::eval_fr` on canonical representatives
(`a b < P`), `evalU` the integer evaluator `Operation::eval` on `U256` values, `Circom.sem` the
specification: circom's documented operator semantics over the field.

Constants and the four signed-comparison truth tables come from `Generated/GraphConsts.lean`, which
`tools/extract.py` rewrites from the Rust source on every run.
-/
namespace Zk.Graph

inductive Op where
  | Mul | Div | Add | Sub | Pow | Idiv | Mod | Eq | Neq | Lt | Gt | Leq | Geq | Land | Lor
  | Shl | Shr | Bor | Band | Bxor
deriving DecidableEq, Repr, Inhabited

inductive UnoOp where
  | Neg | Id
deriving DecidableEq, Repr, Inhabited

inductive TresOp where
  | TernCond
deriving DecidableEq, Repr, Inhabited

def U256 : Nat := 2 ^ 256
def U64 : Nat := 2 ^ 64

def b2n (b : Bool) : Nat := if b then 1 else 0

/-! ## signed comparisons (`u_lt`, `u_gt`, `u_lte`, `u_gte`) through the regenerated tables -/

open Zk.Generated in
/-- one row of a `match (a_neg, b_neg)` table applied to the operands -/
def applyRow (r : CmpRow) (a b : Nat) : Nat :=
  match r with
  | .const v => v
  | .lt => b2n (a < b)
  | .le => b2n (a ≤ b)
  | .gt => b2n (a > b)
  | .ge => b2n (a ≥ b)

open Zk.Generated in
/-- `u_xx(a, b)`: `a_neg = HALF_M < a`, `b_neg = HALF_M < b`, then the table; `none` when the
    translator could not read the table or the constant from the source -/
def signedCmp (tbl : Option (List ((Bool × Bool) × CmpRow))) (a b : Nat) : Option Nat :=
  match tbl, halfM with
  | some t, some h =>
    match t.lookup (decide (h < a), decide (h < b)) with
    | some r => some (applyRow r a b)
    | none => none
  | _, _ => none

def cmpOut (o : Option Nat) : Outcome Nat :=
  match o with
  | some v => .ok v
  | none => .panic      -- table not recognised: no model

/-! ## limb-level helpers of the Montgomery evaluator -/

/-- four 64-bit limbs, least significant first (`BigInt<4>.0`) -/
def toLimbs (a : Nat) : List Nat := [a % U64, a / U64 % U64, a / U64 ^ 2 % U64, a / U64 ^ 3 % U64]

def ofLimbs : List Nat → Nat
  | [] => 0
  | l :: r => l + U64 * ofLimbs r

/-- `while n >= 64 { c[0..3] = c[1..4]; c[3] = 0; n -= 64 }` (at most three rounds for `n < 254`) -/
def shrWords : Nat → Nat → List Nat → Nat × List Nat
  | 0, n, c => (n, c)
  | f+1, n, c => if n ≥ 64 then shrWords f (n - 64) (c.drop 1 ++ [0]) else (n, c)

/-- the carry loop: `carrier = c[3] & mask; c[3] >>= n; for i in (0..3).rev() { … }`, written as a
    fold from the most significant limb down; returns limbs most significant first -/
def shrBits (n : Nat) (limbsMsbFirst : List Nat) : List Nat :=
  let mask := 2 ^ n - 1
  (limbsMsbFirst.foldl (fun (acc : List Nat × Nat) limb =>
      (acc.1 ++ [(limb / 2 ^ n) ||| (acc.2 * 2 ^ (64 - n) % U64)], limb &&& mask)) ([], 0)).1

/-- `shr(a, b)` of `graph.rs` -/
def shrFr (a b : Nat) : Outcome Nat :=
  if b = 0 then .ok a
  else if b ≥ 254 then .ok 0
  else
    let n0 := b % 256                       -- `b.into_bigint().to_bytes_le()[0]`
    let (n, c) := shrWords 4 n0 (toLimbs a)
    if n = 0 then .ok (ofLimbs c)           -- `Fr::from_bigint(result).unwrap()`: always below `P` here
    else .ok (ofLimbs (shrBits n c.reverse).reverse)

/-- `shl(a, b)` of `graph.rs` (after the `fix:` commit: mask to 254 bits, one conditional subtraction) -/
def shlFr (a b : Nat) : Outcome Nat :=
  if b = 0 then .ok a
  else if b ≥ 254 then .ok 0
  else
    let n := b % U64 % 2 ^ 32               -- `b.into_bigint().0[0] as u32`
    let r := (a * 2 ^ n) % U256             -- `BigInt<4> << n` drops the bits above 256
    let r := r % 2 ^ 254                    -- `r.0[3] &= (1 << 62) - 1`
    let r := if r ≥ P then r - P else r
    if r ≥ P then .panic else .ok r         -- `Fr::from_bigint(r).unwrap()`

/-- `bit_and` / `bit_or` / `bit_xor`: limb-wise operation (= the operation on the integers), one
    conditional subtraction (`>` for `bit_and`, `>=` for the other two after the `fix:` commit),
    then `Fr::from_bigint(d).unwrap()` -/
def bitFr (f : Nat → Nat → Nat) (strict : Bool) (a b : Nat) : Outcome Nat :=
  let d := f a b
  let d := if (if strict then d > P else d ≥ P) then d - P else d
  if d ≥ P then .panic else .ok d

/-! ## `Operation::eval_fr`, `UnoOperation::eval_fr`, `TresOperation::eval_fr` -/

open Zk.Generated in
def evalFr (op : Op) (a b : Nat) : Outcome Nat :=
  match op with
  | .Mul => .ok (fmul a b)
  | .Div => if b = 0 then .ok 0 else .ok (fdiv a b)
  | .Add => .ok (fadd a b)
  | .Sub => .ok (fsub a b)
  | .Idiv => if b = 0 then .ok 0 else .ok (a / b)
  | .Mod => if b = 0 then .ok 0 else .ok (a % b)
  | .Eq => .ok (b2n (a = b))
  | .Neq => .ok (b2n (a ≠ b))
  | .Lt => cmpOut (signedCmp uLt a b)
  | .Gt => cmpOut (signedCmp uGt a b)
  | .Leq => cmpOut (signedCmp uLte a b)
  | .Geq => cmpOut (signedCmp uGte a b)
  | .Land => .ok (b2n (a ≠ 0 ∧ b ≠ 0))
  | .Lor => .ok (b2n (a ≠ 0 ∨ b ≠ 0))
  | .Shl => shlFr a b
  | .Shr => shrFr a b
  | .Bor => bitFr Nat.lor false a b
  | .Band => bitFr Nat.land true a b
  | .Bxor => bitFr Nat.xor false a b
  | .Pow => .panic                          -- `unimplemented!`

def evalFrUno (op : UnoOp) (a : Nat) : Outcome Nat :=
  match op with
  | .Neg => if a = 0 then .ok 0 else .ok (P - a)
  | .Id => .panic                           -- `unimplemented!`

def evalFrTres (_op : TresOp) (a b c : Nat) : Outcome Nat := .ok (if a = 0 then c else b)

/-! ## `Operation::eval` (the `U256` evaluator; operands are arbitrary 256-bit integers) -/

open Zk.Generated in
def evalU (op : Op) (a b : Nat) : Outcome Nat :=
  match modulusM with
  | none => .panic
  | some M =>
  match op with
  | .Mul => .ok (a * b % M)
  | .Div => if b = 0 then .ok 0 else
      -- `b.inv_mod(M).unwrap()`: exists iff gcd(b, M) = 1; for prime M: iff M ∤ b
      if b % M = 0 then .panic else .ok (a * powMod (b % M) (M - 2) M % M)
  | .Add => .ok ((a + b) % M)
  | .Sub => .ok ((a + (M + U256 - b) % U256) % M)      -- `M - b` wraps in release builds when b > M
  | .Pow => .ok (powMod a b M)                         -- `a.pow_mod(b, M)`
  | .Mod => if b = 0 then .panic else .ok (a % b)
  | .Idiv => if b = 0 then .panic else .ok (a / b)
  | .Eq => .ok (b2n (a = b))
  | .Neq => .ok (b2n (a ≠ b))
  | .Lt => cmpOut (signedCmp uLt a b)
  | .Gt => cmpOut (signedCmp uGt a b)
  | .Leq => cmpOut (signedCmp uLte a b)
  | .Geq => cmpOut (signedCmp uGte a b)
  | .Land => .ok (b2n (a ≠ 0 ∧ b ≠ 0))
  | .Lor => .ok (b2n (a ≠ 0 ∨ b ≠ 0))
  | .Shl => .ok (if b % U64 ≥ 256 then 0 else a * 2 ^ (b % U64) % U256)   -- `a.shl(limb0 as usize)`
  | .Shr => .ok (if b % U64 ≥ 256 then 0 else a / 2 ^ (b % U64))
  | .Bor => .ok (a ||| b)
  | .Band => .ok (a &&& b)
  | .Bxor => .ok (a ^^^ b)

def evalUUno (op : UnoOp) (a : Nat) : Outcome Nat :=
  match Zk.Generated.modulusM with
  | none => .panic
  | some M =>
  match op with
  | .Neg => if a = 0 then .ok 0 else .ok ((M + U256 - a) % U256)
  | .Id => .ok a

def evalUTres (_op : TresOp) (a b c : Nat) : Outcome Nat := .ok (if a = 0 then c else b)

/-! ## Specification: circom's operator semantics over `F_p` (operands are field elements `< P`) -/

namespace Circom

/-- signed representative: `z - p` when `z > p/2` -/
def sval (z : Nat) : Int := if z > P / 2 then (z : Int) - P else z

def mask : Nat := 2 ^ 254 - 1

mutual
/-- `a << b`: for `b ≤ p/2` shift left, keep the low 254 bits, reduce; otherwise shift right by `p - b` -/
def shl (a b : Nat) : Nat :=
  if b ≤ P / 2 then (if b ≥ 254 then 0 else ((a * 2 ^ b) &&& mask) % P)
  else (if P - b ≥ 254 then 0 else a / 2 ^ (P - b))
/-- `a >> b`: for `b ≤ p/2` shift right; otherwise shift left by `p - b` -/
def shr (a b : Nat) : Nat :=
  if b ≤ P / 2 then (if b ≥ 254 then 0 else a / 2 ^ b)
  else (if P - b ≥ 254 then 0 else ((a * 2 ^ (P - b)) &&& mask) % P)
end

def sem (op : Op) (a b : Nat) : Nat :=
  match op with
  | .Mul => a * b % P
  | .Div => if b = 0 then 0 else a * finv b % P
  | .Add => (a + b) % P
  | .Sub => (a + (P - b)) % P
  | .Pow => powMod a b P
  | .Idiv => if b = 0 then 0 else a / b
  | .Mod => if b = 0 then 0 else a % b
  | .Eq => b2n (a = b)
  | .Neq => b2n (a ≠ b)
  | .Lt => b2n (sval a < sval b)
  | .Gt => b2n (sval a > sval b)
  | .Leq => b2n (sval a ≤ sval b)
  | .Geq => b2n (sval a ≥ sval b)
  | .Land => b2n (a ≠ 0 ∧ b ≠ 0)
  | .Lor => b2n (a ≠ 0 ∨ b ≠ 0)
  | .Shl => shl a b
  | .Shr => shr a b
  | .Bor => (a ||| b) % P
  | .Band => (a &&& b) % P
  | .Bxor => (a ^^^ b) % P

def semUno (op : UnoOp) (a : Nat) : Nat :=
  match op with
  | .Neg => (P - a) % P
  | .Id => a

def semTres (_op : TresOp) (a b c : Nat) : Nat := if a = 0 then c else b

end Circom

def opOfString (s : String) : Option Op :=
  [("Mul", Op.Mul), ("Div", .Div), ("Add", .Add), ("Sub", .Sub), ("Pow", .Pow), ("Idiv", .Idiv), ("Mod", .Mod),
   ("Eq", .Eq), ("Neq", .Neq), ("Lt", .Lt), ("Gt", .Gt), ("Leq", .Leq), ("Geq", .Geq), ("Land", .Land),
   ("Lor", .Lor), ("Shl", .Shl), ("Shr", .Shr), ("Bor", .Bor), ("Band", .Band), ("Bxor", .Bxor)].lookup s

end Zk.Graph
