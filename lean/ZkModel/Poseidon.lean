import ZkModel.Basic
/-!
# Poseidon over BN254 with Grain-LFSR constants

* `Grain.Spec` — the 80-bit shift register of the Poseidon paper /
  `generate_parameters_grain.sage` (append the new bit, drop the oldest).
* `Grain.Impl` — `utils/src/poseidon/poseidon_constants.rs`: ring buffer
  `state : [bool; 80]` with a moving `head`.
* `Poseidon.spec` — the permutation in three phases (RF/2 full, RP partial,
  RF/2 full rounds), each round = AddRoundConstants, S-box x⁵, MDS mix.
* `Poseidon.implHash` — `utils/src/poseidon/poseidon_hash.rs::Poseidon::hash`:
  one loop with the `i < RF/2 || i >= RF/2 + RP` test, `ark`/`sbox`/`mix_2`.
-/
namespace Zk

/-! ## Grain LFSR -/
namespace Grain

/-- big-endian bits of `v` on `n` positions -/
def bitsBE (v n : Nat) : List Bool := (List.range n).reverse.map (fun i => v.testBit i)

/-- Initial 80 bits: field=1 (2 bits), sbox=0 (4 bits), n (12), t (12), RF (10), RP (10), thirty ones. -/
def initBits (nbits t rf rp : Nat) : List Bool :=
  bitsBE 1 2 ++ bitsBE 0 4 ++ bitsBE nbits 12 ++ bitsBE t 12 ++ bitsBE rf 10 ++ bitsBE rp 10 ++ List.replicate 30 true

/-! ### Specification: shift register as a list (oldest bit first) -/
namespace Spec
def newBit (s : List Bool) : Bool :=
  xor (xor (xor (xor (xor (s.getD 62 false) (s.getD 51 false)) (s.getD 38 false)) (s.getD 23 false)) (s.getD 13 false)) (s.getD 0 false)

def step (s : List Bool) : List Bool × Bool :=
  let nb := newBit s
  (s.drop 1 ++ [nb], nb)

def stepN : Nat → List Bool → List Bool
  | 0, s => s
  | n+1, s => stepN n (step s).1

def init (nbits t rf rp : Nat) : List Bool := stepN 160 (initBits nbits t rf rp)
end Spec

/-! ### Implementation model: ring buffer with `head` (as in the Rust struct) -/
structure Impl where
  state : Array Bool
  head : Nat
deriving Inhabited

namespace Impl
def update (l : Impl) : Impl × Bool :=
  let s := l.state
  let h := l.head
  let nb := xor (xor (xor (xor (xor (s.getD ((h + 62) % 80) false) (s.getD ((h + 51) % 80) false))
              (s.getD ((h + 38) % 80) false)) (s.getD ((h + 23) % 80) false))
              (s.getD ((h + 13) % 80) false)) (s.getD h false)
  ({ state := s.setIfInBounds h nb, head := (h + 1) % 80 }, nb)

def updateN : Nat → Impl → Impl
  | 0, l => l
  | n+1, l => updateN n (update l).1

def new (nbits t rf rp : Nat) : Impl :=
  updateN 160 { state := (initBits nbits t rf rp).toArray, head := 0 }

/-- Abstraction: the ring buffer read from `head` is the shift register. -/
def toSpec (l : Impl) : List Bool :=
  (List.range 80).map (fun i => l.state.getD ((l.head + i) % 80) false)
end Impl

/-! ### Bit and field-element sampling, generic in the register (`σ`, `upd`) -/

/-- `get_bits`: one output bit; `fuel` bounds the discard loop (the LFSR has period ≫ fuel; the
    driver uses 10000, never exhausted in practice; exhausted fuel returns `none`). -/
def nextBit {σ : Type} (upd : σ → σ × Bool) : Nat → σ → Option (σ × Bool)
  | 0, _ => none
  | fuel+1, l =>
    let (l1, b1) := upd l
    let (l2, b2) := upd l1
    if b1 then some (l2, b2) else nextBit upd fuel l2

def BITFUEL : Nat := 10000

/-- `n` output bits, most significant first, as a number -/
def getBitsNat {σ : Type} (upd : σ → σ × Bool) : Nat → σ → Nat → Option (σ × Nat)
  | 0, l, acc => some (l, acc)
  | n+1, l, acc =>
    match nextBit upd BITFUEL l with
    | none => none
    | some (l', b) => getBitsNat upd n l' (2 * acc + (if b then 1 else 0))

/-- rejection sampling of one field element (`get_field_elements_rejection_sampling`) -/
def fieldRej {σ : Type} (upd : σ → σ × Bool) (nbits : Nat) : Nat → σ → Option (σ × Nat)
  | 0, _ => none
  | fuel+1, l =>
    match getBitsNat upd nbits l 0 with
    | none => none
    | some (l', v) => if v < P then some (l', v) else fieldRej upd nbits fuel l'

/-- reduction sampling of one field element (`get_field_elements_mod_p`) -/
def fieldMod {σ : Type} (upd : σ → σ × Bool) (nbits : Nat) (l : σ) : Option (σ × Nat) :=
  match getBitsNat upd nbits l 0 with
  | none => none
  | some (l', v) => some (l', v % P)

def manyAux {σ : Type} (f : σ → Option (σ × Nat)) : Nat → σ → List Nat → Option (σ × List Nat)
  | 0, l, acc => some (l, acc.reverse)
  | n+1, l, acc =>
    match f l with
    | none => none
    | some (l', v) => manyAux f n l' (v :: acc)

def many {σ : Type} (f : σ → Option (σ × Nat)) (n : Nat) (l : σ) : Option (σ × List Nat) :=
  manyAux f n l []

end Grain

/-! ## Round parameters -/

structure RoundParams where
  t : Nat
  rf : Nat
  rp : Nat
  c : Array Nat          -- (rf+rp)*t round constants
  m : Array (Array Nat)  -- t × t MDS (Cauchy) matrix
deriving Inhabited

namespace Poseidon

/-- `find_poseidon_ark_and_mds` (with `skip_matrices` batches of `2t` elements discarded),
    generic in the register implementation. -/
def findArkAndMds {σ : Type} (upd : σ → σ × Bool) (l0 : σ) (t rf rp skip : Nat) : Option RoundParams :=
  match Grain.many (Grain.fieldRej upd 254 1000) ((rf + rp) * t) l0 with
  | none => none
  | some (l1, ark) =>
    let rec skipLoop : Nat → σ → Option σ
      | 0, l => some l
      | k+1, l => match Grain.many (Grain.fieldMod upd 254) (2 * t) l with
        | none => none
        | some (l', _) => skipLoop k l'
    match skipLoop skip l1 with
    | none => none
    | some l2 =>
      match Grain.many (Grain.fieldMod upd 254) t l2 with
      | none => none
      | some (l3, xs) =>
        match Grain.many (Grain.fieldMod upd 254) t l3 with
        | none => none
        | some (_, ys) =>
          let m := xs.toArray.map (fun x => ys.toArray.map (fun y => finv (fadd x y)))
          some { t, rf, rp, c := ark.toArray, m }

/-- constants as the implementation derives them (ring-buffer LFSR) -/
def implParams (t rf rp skip : Nat) : Option RoundParams :=
  findArkAndMds Grain.Impl.update (Grain.Impl.new 254 t rf rp) t rf rp skip

/-- constants as the paper's script derives them (shift register) -/
def specParams (t rf rp skip : Nat) : Option RoundParams :=
  findArkAndMds Grain.Spec.step (Grain.Spec.init 254 t rf rp) t rf rp skip

def pow5 (x : Nat) : Nat :=
  let x2 := fmul x x
  let x4 := fmul x2 x2
  fmul x4 x

/-! ### Specification: the permutation of the Poseidon paper -/

def addRC (pr : RoundParams) (r : Nat) (st : List Nat) : List Nat :=
  st.zipIdx.map (fun (v, i) => fadd v (pr.c.getD (r * pr.t + i) 0))

def dot (row : Array Nat) (st : List Nat) : Nat :=
  st.zipIdx.foldl (fun acc (v, j) => fadd acc (fmul (row.getD j 0) v)) 0

def mix (pr : RoundParams) (st : List Nat) : List Nat :=
  (List.range st.length).map (fun i => dot (pr.m.getD i #[]) st)

def fullRound (pr : RoundParams) (st : List Nat) (r : Nat) : List Nat :=
  mix pr ((addRC pr r st).map pow5)

def partialRound (pr : RoundParams) (st : List Nat) (r : Nat) : List Nat :=
  mix pr (match addRC pr r st with
    | [] => []
    | x :: rest => pow5 x :: rest)

/-- rounds `r0, r0+1, …, r0+n-1` with the given round function -/
def rounds (f : List Nat → Nat → List Nat) : Nat → Nat → List Nat → List Nat
  | 0, _, st => st
  | n+1, r0, st => rounds f n (r0 + 1) (f st r0)

def permSpec (pr : RoundParams) (st : List Nat) : List Nat :=
  let s1 := rounds (fullRound pr) (pr.rf / 2) 0 st
  let s2 := rounds (partialRound pr) pr.rp (pr.rf / 2) s1
  rounds (fullRound pr) (pr.rf - pr.rf / 2) (pr.rf / 2 + pr.rp) s2

/-- sponge with capacity element 0 in front, output = first state element -/
def spec (pr : RoundParams) (inp : List Nat) : Nat :=
  (permSpec pr (0 :: inp)).headD 0

/-! ### Implementation model: `Poseidon::hash` -/

/-- `ark(state, c, it)` -/
def ark (st : List Nat) (c : Array Nat) (it : Nat) : List Nat :=
  st.zipIdx.map (fun (v, i) => fadd v (c.getD (it + i) 0))

/-- `sbox(n_rounds_f, n_rounds_p, state, i)` -/
def sbox (rf rp : Nat) (st : List Nat) (i : Nat) : List Nat :=
  if i < rf / 2 ∨ i ≥ rf / 2 + rp then st.map pow5
  else match st with
    | [] => []
    | x :: rest => pow5 x :: rest

/-- `mix_2(state, m, state_2)` -/
def mix2 (st : List Nat) (m : Array (Array Nat)) : List Nat :=
  (List.range st.length).map (fun i =>
    let row := m.getD i #[]
    st.zipIdx.foldl (fun acc (v, j) => fadd acc (fmul (row.getD j 0) v)) 0)

def implLoop (pr : RoundParams) : Nat → Nat → List Nat → List Nat
  | 0, _, st => st
  | n+1, i, st =>
    let s1 := ark st pr.c (i * pr.t)
    let s2 := sbox pr.rf pr.rp s1 i
    implLoop pr n (i + 1) (mix2 s2 pr.m)

/-- `Poseidon::hash` for the parameter record selected by `t = inp.len() + 1`. -/
def implHashWith (pr : RoundParams) (inp : List Nat) : Nat :=
  (implLoop pr (pr.rf + pr.rp) 0 (0 :: inp)).headD 0

/-- `Poseidon::hash`: parameter lookup by `position(|el| el.t == t)`; empty input or no
    parameters ⇒ `Err`. -/
def implHash (table : List RoundParams) (inp : List Nat) : Outcome Nat :=
  match table.find? (fun pr => pr.t == inp.length + 1) with
  | none => .err
  | some pr => if inp.isEmpty then .err else .ok (implHashWith pr inp)

/-- `rln::hashers::poseidon_hash`: `.expect(...)` turns the error into a panic. -/
def rlnPoseidonHash (table : List RoundParams) (inp : List Nat) : Outcome Nat :=
  match implHash table inp with
  | .ok v => .ok v
  | _ => .panic

end Poseidon
end Zk
