import ZkModel.Graph.Storage
import ZkModel.Generated.BundledGraph
/-!
# Witness-graph part of the line protocol (C20, C05)
-/
namespace Zk.GraphDriver
open Zk.Graph Zk.Graph.Storage

def fr (n : Nat) : String := hexOfNat n
def showFrs (l : List Nat) : String := "[" ++ ",".intercalate (l.map fr) ++ "]"

def parseNode (t : String) : Option Node :=
  match t.splitOn ":" with
  | ["I", i] => (parseHexNat i).map .input
  | ["M", v] => (parseHexNat v).map (fun v => .montConstant (v % P))
  | ["C", v] => (parseHexNat v).map .constant
  | ["D", op, a, b] => match opOfString op, parseHexNat a, parseHexNat b with
    | some o, some a, some b => some (.duo o a b)
    | _, _, _ => none
  | ["U", op, a] => match (if op == "Neg" then some UnoOp.Neg else if op == "Id" then some UnoOp.Id else none), parseHexNat a with
    | some o, some a => some (.uno o a)
    | _, _ => none
  | ["T", a, b, c] => match parseHexNat a, parseHexNat b, parseHexNat c with
    | some a, some b, some c => some (.tres .TernCond a b c)
    | _, _, _ => none
  | _ => none

def parseNodes (s : String) : Option (List Node) :=
  if s == "-" then some [] else
  (s.splitOn ";").foldr (fun t acc => match parseNode t, acc with
    | some n, some l => some (n :: l)
    | _, _ => none) (some [])

def parseNats (s : String) : Option (List Nat) :=
  if s == "-" then some [] else
  (s.splitOn ",").foldr (fun w acc => match parseHexNat w, acc with
    | some v, some l => some (v :: l)
    | _, _ => none) (some [])

def parseInfo (s : String) : Option (List (String × Nat × Nat)) :=
  if s == "-" then some [] else
  (s.splitOn ",").foldr (fun e acc => match e.splitOn ":", acc with
    | [n, o, l], some r => match parseHexNat o, parseHexNat l with
      | some o, some l => some ((n, o, l) :: r)
      | _, _ => none
    | _, _ => none) (some [])

def parseInputs (s : String) : Option (List (String × List Nat)) :=
  if s == "-" then some [] else
  (s.splitOn ";").foldr (fun e acc => match e.splitOn "=", acc with
    | [n, v], some r => match (if v.isEmpty then some [] else parseNats v) with
      | some vs => some ((n, vs.map (· % P)) :: r)
      | none => none
    | _, _ => none) (some [])

def out (o : Outcome (List Nat)) : String :=
  match o with | .ok l => showFrs l | .err => "err" | .panic => "panic"

/-- specification: every output is the reference interpretation of its node -/
def specEval (nodes : List Node) (buf : Array Nat) (outs : List Nat) : Outcome (List Nat) :=
  -- (the recursive interpretation re-evaluates shared subgraphs; large graphs use the equal single pass — `evaluate_denote`)
  if nodes.length > 28 then evaluate nodes buf outs else
  let arr := nodes.toArray
  outs.foldr (fun o acc => match denote arr buf (o + 1) o, acc with
    | .ok v, .ok l => .ok (v :: l)
    | _, _ => .panic) (.ok [])

/-- specification of input placement: buffer large enough for every input node and every declared
    range, position 0 holds 1, each named vector at its declared offset -/
def specBuffer (nodes : List Node) (info : List (String × Nat × Nat)) (inputs : List (String × List Nat)) : Option (Array Nat) :=
  let mx := nodes.foldl (fun m n => match n with | .input i => max m (i + 1) | _ => m) 1
  let mx := info.foldl (fun m e => max m (e.2.1 + e.2.2)) mx
  let buf0 := (Array.replicate mx 0).setIfInBounds 0 1
  inputs.foldl (fun acc (name, vals) => match acc, info.lookup name with
    | some buf, some (off, len) =>
      if len ≠ vals.length then none else
      some ((vals.zipIdx).foldl (fun b (v, i) => b.setIfInBounds (off + i) v) buf)
    | _, _ => none) (some buf0)

def step (spec : Bool) (w : List String) : Option String :=
  match w with
  | ["graph", "eval", ns, ins, outs] =>
    match parseNodes ns, parseNats ins, parseNats outs with
    | some nodes, some ins, some outs =>
      some (out (if spec then specEval nodes ins.toArray outs else evaluate nodes ins.toArray outs))
    | _, _, _ => none
  | ["graph", "calc", ns, sigs, info, ins] =>
    match parseNodes ns, parseNats sigs, parseInfo info, parseInputs ins with
    | some nodes, some sigs, some info, some ins =>
      if spec then
        match specBuffer nodes info ins with
        | some buf => some (out (specEval nodes buf sigs))
        | none => some "err"
      else
        -- through the container: node -> protobuf node -> node (indices as u32, constants reduced)
        let conv : Outcome (List Node) := nodes.foldr (fun n acc => match toProto n, acc with
          | Outcome.ok p, Outcome.ok l => (match ofProto p with
            | Outcome.ok n' => Outcome.ok (n' :: l) | Outcome.err => Outcome.err | Outcome.panic => Outcome.panic)
          | Outcome.panic, _ => Outcome.panic | _, Outcome.panic => Outcome.panic | _, _ => Outcome.err) (Outcome.ok [])
        match conv with
        | .ok nodes' => some (out (calcWitness nodes' (sigs.map (· % 2 ^ 32)) (info.map (fun e => (e.1, e.2.1 % 2 ^ 32, e.2.2 % 2 ^ 32))) ins))
        | .err => some "err"
        | .panic => some "panic"
    | _, _, _, _ => none
  | ["graph", "store", ns, _sigs, _info, _] =>
    -- equal after a round trip through the container (nodes the container can hold)
    match parseNodes ns with
    | some nodes => some (if nodes.any (fun n => match n with | .constant _ => true | _ => false) then "panic" else "same=true")
    | none => none
  -- re-framing of a container produced by the implementation: the model's reader recovers `count` messages and the
  -- model's writer reproduces the bytes exactly (varint lengths, trailing offset)
  | ["reframe", hex, count] =>
    match parseHexBytes hex, count.toNat? with
    | some bs, some n =>
      some (match unframe bs with
        | some (ms, md) => if ms.length = n ∧ frame ms md = bs then "ok" else "mismatch"
        | none => "unreadable")
    | _, _ => none
  -- the bundled graph on a 46-value assignment given as named vectors
  | ["bundled", ins] =>
    match parseInputs ins with
    | some ins =>
      let g := Zk.Generated.Bundled.nodes
      some (out (calcWitness g Zk.Generated.Bundled.signals Zk.Generated.Bundled.inputsInfo ins))
    | none => none
  -- the same from a caller-owned buffer: un-patched it is the bundled graph; a patched buffer holds ANOTHER graph, which this
  -- driver does not decode (incomparable line)
  | ["bundled_buf", ins, patch] =>
    if patch == "-" then
      match parseInputs ins with
      | some ins => some (out (calcWitness Zk.Generated.Bundled.nodes Zk.Generated.Bundled.signals Zk.Generated.Bundled.inputsInfo ins))
      | none => none
    else some "n/a"
  | _ => none

end Zk.GraphDriver
