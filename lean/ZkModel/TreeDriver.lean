import ZkModel.Basic
import ZkModel.Map
import ZkModel.Tree.Ideal
import ZkModel.Tree.Full
import ZkModel.Tree.Optimal
import ZkModel.Tree.Pm
/-!
# Tree part of the line protocol (one tree instance per sequence)
-/
namespace Zk.TreeDriver
open Zk.Tree

abbrev NodeMap := Std.HashMap (Nat × Nat) Nat
abbrev KvMap := Std.HashMap PmKey (PmVal Nat)

inductive Inst where
  | full (t : Full Nat)
  | opt (t : Optimal Nat NodeMap)
  | pm (t : Pm Nat KvMap)
  | ideal (t : Ideal Nat) (backend : String)

structure TEnv where
  H : Nat → Nat → Nat
  spec : Bool
  /-- the hasher's default leaf (0 for Poseidon; the toy hasher of the generic-tree streams uses 7) -/
  dflt : Nat := 0

def fr (n : Nat) : String := hexOfNat n

def showList (l : List String) : String := "[" ++ ",".intercalate l ++ "]"

def res (o : Outcome Unit) : String :=
  match o with | .ok _ => "ok" | .err => "err" | .panic => "panic"

def resV (o : Outcome String) : String :=
  match o with | .ok s => s | .err => "err" | .panic => "panic"

def parseList (s : String) : Option (List Nat) :=
  if s == "-" then some [] else
  -- `gen:<n>:<seed>` (hex): the n consecutive values seed+1, …, seed+n
  if s.startsWith "gen:" then
    match (s.drop 4).toString.splitOn ":" with
    | [n, sd] => match parseHexNat n, parseHexNat sd with
      | some n, some sd => some ((List.range n).map (fun i => sd + i + 1))
      | _, _ => none
    | _ => none
  else
  (s.splitOn ",").foldr (fun w acc => match parseHexNat w, acc with
    | some v, some l => some (v :: l)
    | _, _ => none) (some [])

def newInst (e : TEnv) (backend : String) (depth : Nat) : Option Inst :=
  if e.spec then some (.ideal (Ideal.new depth) backend)
  else if backend == "full" || backend == "fullT" then some (.full (Full.new e.H e.dflt depth))
  else if backend == "opt" || backend == "optT" then some (.opt (Optimal.new e.H e.dflt depth))
  else if backend == "pm" || backend == "pmdisk" then
    let (t, _) := Pm.new (D := KvMap) e.H e.dflt depth { kv := {} }
    some (.pm t)
  else none

/-- apply a mutator returning `Outcome (new state)`; the state is kept on `err` -/
def upd {σ : Type} (t : σ) (o : Outcome σ) : σ × String :=
  match o with
  | .ok t' => (t', "ok")
  | .err => (t, "err")
  | .panic => (t, "panic")

def updPm (r : Pm Nat KvMap × Outcome Unit) : Pm Nat KvMap × String := (r.1, res r.2)

def showProof (p : List (Nat × Nat)) : String :=
  showList (p.map (fun x => fr x.1)) ++ " " ++ showList (p.map (fun x => toString x.2))

/-- alter a path: `sib k v` replaces sibling `k`, `dir k` flips direction bit `k` -/
def alter (p : List (Nat × Nat)) (kind : String) (k : Nat) (v : Nat) : List (Nat × Nat) :=
  -- paths of the wrong length: the last element dropped / one more element appended
  if kind == "cut" then p.dropLast else if kind == "ext" then p ++ [(v, 0)] else
  p.zipIdx.map (fun (x, i) =>
    if i = k then (if kind == "sib" then (v, x.2) else if kind == "dir" then (x.1, 1 - x.2) else x) else x)

def accepted (o : Outcome Bool) : String :=
  match o with | .ok true => "accepted" | .ok false => "rejected" | .err => "rejected" | .panic => "panic"

def stepInst (e : TEnv) (inst : Inst) (w : List String) : Inst × String :=
  let H := e.H
  match inst, w with
  -- ---------------------------------------------------------------- mutators
  | .full t, ["set", i, v] => match parseHexNat i, parseHexNat v with
    | some i, some v => let (t', r) := upd t (Full.set H t i v); (.full t', r)
    | _, _ => (inst, "bad-op")
  | .opt t, ["set", i, v] => match parseHexNat i, parseHexNat v with
    | some i, some v => let (t', r) := upd t (Optimal.set H t i v); (.opt t', r)
    | _, _ => (inst, "bad-op")
  | .pm t, ["set", i, v] => match parseHexNat i, parseHexNat v with
    | some i, some v => let (t', r) := updPm (Pm.set H i v t); (.pm t', r)
    | _, _ => (inst, "bad-op")
  | .ideal t b, ["set", i, v] => match parseHexNat i, parseHexNat v with
    | some i, some v => let (t', r) := upd t (Ideal.set t i v); (.ideal t' b, r)
    | _, _ => (inst, "bad-op")
  | .full t, ["del", i] => match parseHexNat i with
    | some i => let (t', r) := upd t (Full.delete H e.dflt t i); (.full t', r)
    | _ => (inst, "bad-op")
  | .opt t, ["del", i] => match parseHexNat i with
    | some i => let (t', r) := upd t (Optimal.delete H e.dflt t i); (.opt t', r)
    | _ => (inst, "bad-op")
  | .pm t, ["del", i] => match parseHexNat i with
    | some i => let (t', r) := updPm (Pm.delete H e.dflt i t); (.pm t', r)
    | _ => (inst, "bad-op")
  | .ideal t b, ["del", i] => match parseHexNat i with
    -- the result code of a deletion at or beyond the high-water mark is backend-specific
    -- (no-op `Ok` in the in-memory trees, `Err` in pmtree); the state is unchanged either way
    | some i => (.ideal (Ideal.delete e.dflt t i) b, if i < t.next then "ok" else "n/a")
    | _ => (inst, "bad-op")
  | .full t, ["app", v] => match parseHexNat v with
    | some v => let (t', r) := upd t (Full.updateNext H t v); (.full t', r)
    | _ => (inst, "bad-op")
  | .opt t, ["app", v] => match parseHexNat v with
    | some v => let (t', r) := upd t (Optimal.updateNext H t v); (.opt t', r)
    | _ => (inst, "bad-op")
  | .pm t, ["app", v] => match parseHexNat v with
    | some v => let (t', r) := updPm (Pm.updateNext H v t); (.pm t', r)
    | _ => (inst, "bad-op")
  | .ideal t b, ["app", v] => match parseHexNat v with
    | some v => let (t', r) := upd t (Ideal.append t v); (.ideal t' b, r)
    | _ => (inst, "bad-op")
  | .full t, ["range", s, vs] => match parseHexNat s, parseList vs with
    | some s, some vs => let (t', r) := upd t (Full.setRange H t s vs); (.full t', r)
    | _, _ => (inst, "bad-op")
  | .opt t, ["range", s, vs] => match parseHexNat s, parseList vs with
    | some s, some vs => let (t', r) := upd t (Optimal.setRange H t s vs); (.opt t', r)
    | _, _ => (inst, "bad-op")
  | .pm t, ["range", s, vs] => match parseHexNat s, parseList vs with
    | some s, some vs => let (t', r) := updPm (Pm.setRange NodeMap H s vs t); (.pm t', r)
    | _, _ => (inst, "bad-op")
  | .ideal t b, ["range", s, vs] => match parseHexNat s, parseList vs with
    -- an empty range beyond capacity writes nothing; whether that is `Ok` or `Err` is backend-specific
    | some s, some vs => let (t', r) := upd t (Ideal.setRange t s vs); (.ideal t' b, if vs.isEmpty ∧ s > t.cap then "n/a" else r)
    | _, _ => (inst, "bad-op")
  | .full t, ["batch", s, vs, rm] => match parseHexNat s, parseList vs, parseList rm with
    | some s, some vs, some rm => let (t', r) := upd t (Full.overrideRange H e.dflt t s vs rm); (.full t', r)
    | _, _, _ => (inst, "bad-op")
  | .opt t, ["batch", s, vs, rm] => match parseHexNat s, parseList vs, parseList rm with
    | some s, some vs, some rm => let (t', r) := upd t (Optimal.overrideRange H e.dflt t s vs rm); (.opt t', r)
    | _, _, _ => (inst, "bad-op")
  | .pm t, ["batch", s, vs, rm] => match parseHexNat s, parseList vs, parseList rm with
    | some s, some vs, some rm => let (t', r) := updPm (Pm.overrideRange NodeMap H e.dflt s vs rm t); (.pm t', r)
    | _, _, _ => (inst, "bad-op")
  | .ideal t b, ["batch", s, vs, rm] => match parseHexNat s, parseList vs, parseList rm with
    -- a batch that only names never-written positions changes nothing; its result code is backend-specific
    | some s, some vs, some rm =>
      -- a removal-only batch (no leaves to write) whose start position lies beyond capacity: the in-memory backends
      -- reject it (nothing changes), the persistent backend ignores the start and performs the removals — both are
      -- "the documented effect, or none"; the specification follows the backend it stands for
      let s := if vs.isEmpty ∧ s > t.cap ∧ (b == "pm" || b == "pmdisk") then 0 else s
      let (t', r) := upd t (Ideal.batch e.dflt t s vs rm)
      (.ideal t' b, if vs.isEmpty ∧ ¬ rm.isEmpty ∧ rm.all (fun i => i ≥ t.next ∧ i < t.cap) then "n/a" else r)
    | _, _, _ => (inst, "bad-op")
  -- ---------------------------------------------------------------- observers
  | .full t, ["root"] => (inst, fr t.root)
  | .opt t, ["root"] => (inst, fr t.root)
  | .pm t, ["root"] => (inst, fr t.root)
  | .ideal t _, ["root"] => (inst, fr (t.nodeFast H e.dflt 0 0))
  | .full t, ["next"] => (inst, toString t.next)
  | .opt t, ["next"] => (inst, toString t.next)
  | .pm t, ["next"] => (inst, toString t.next)
  | .ideal t _, ["next"] => (inst, toString t.next)
  | .full t, ["empty"] => (inst, showList (t.emptyIdx.map toString))
  | .opt t, ["empty"] => (inst, showList (t.emptyIdx.map toString))
  | .pm t, ["empty"] => (inst, showList (t.emptyIdx.map toString))
  | .ideal t _, ["empty"] => (inst, showList (t.emptyIdx.map toString))
  | _, ["get", i] => match parseHexNat i with
    | none => (inst, "bad-op")
    | some i => (inst, resV (match inst with
      | .full t => (t.get i).map fr
      | .opt t => (t.get i).map fr
      | .pm t => (t.get i).map fr
      | .ideal t _ => if i < t.cap then .ok (fr (t.leaf e.dflt i)) else .err))
  | _, ["sub", l, i] => match l.toNat?, parseHexNat i with
    | some l, some i => (inst, resV (match inst with
      | .full t => (t.getSubtreeRoot l i).map fr
      | .opt t => (t.getSubtreeRoot l i).map fr
      | .pm t => (t.getSubtreeRoot l i).map fr
      | .ideal t _ => if l > t.depth ∨ i ≥ t.cap then .err else .ok (fr (t.nodeFast H e.dflt l (i / 2 ^ (t.depth - l))))))
    | _, _ => (inst, "bad-op")
  | _, ["proof", i] => match parseHexNat i with
    | none => (inst, "bad-op")
    | some i =>
      -- path, bits, length, decoded index, recomputed-root-equals-root, own check
      let fmt (p : List (Nat × Nat)) (lf root : Nat) (ver : String) : String :=
        let li := p.foldr (fun x acc => 2 * acc + x.2) 0
        showProof p ++ s!" len={p.length} idx={li} recomputes={Ideal.computeRoot H lf p == root} {ver}"
      (inst, resV (match inst with
      | .full t => match t.proof i, t.get i with
        | .ok p, .ok lf => .ok (fmt p lf t.root (accepted (Full.verify H t lf p)))
        | .panic, _ => .panic | _, .panic => .panic | _, _ => .err
      | .opt t => match t.proof i, t.get i with
        | .ok p, .ok lf => .ok (fmt p lf t.root (accepted (Optimal.verify H t lf p)))
        | .panic, _ => .panic | _, .panic => .panic | _, _ => .err
      | .pm t => match t.proof i, t.get i with
        | .ok p, .ok lf => .ok (fmt p lf t.root (accepted (Pm.verify H t lf p)))
        | .panic, _ => .panic | _, .panic => .panic | _, _ => .err
      | .ideal t _ =>
        if i < t.cap then
          let p := t.proofFast H e.dflt i
          let p' := p.map (fun x => (x.1, x.2))
          .ok (fmt p' (t.leaf e.dflt i) (t.nodeFast H e.dflt 0 0) "accepted")
        else .err))
  -- `pverify i kind k v`: the proof of leaf i, altered, checked against the stored leaf (kind sib/dir)
  -- or against a different leaf value v (kind leaf)
  | _, ["pverify", i, kind, k, v] => match parseHexNat i, k.toNat?, parseHexNat v with
    | some i, some k, some v =>
      (inst, match inst with
      | .full t => match t.proof i, t.get i with
        | .ok p, .ok lf => accepted (Full.verify H t (if kind == "leaf" then v else lf) (alter p kind k v))
        | _, _ => "err"
      | .opt t => match t.proof i, t.get i with
        | .ok p, .ok lf => accepted (Optimal.verify H t (if kind == "leaf" then v else lf) (alter p kind k v))
        | _, _ => "err"
      | .pm t => match t.proof i, t.get i with
        | .ok p, .ok lf => accepted (Pm.verify H t (if kind == "leaf" then v else lf) (alter p kind k v))
        | _, _ => "err"
      | .ideal t _ =>
        if i < t.cap then
          let p := alter (t.proofFast H e.dflt i) kind k v
          let lf := if kind == "leaf" then v else t.leaf e.dflt i
          if Ideal.computeRoot H lf p == t.nodeFast H e.dflt 0 0 then "accepted" else "rejected"
        else "err")
    | _, _, _ => (inst, "bad-op")
  -- per level, the sum modulo p of all subtree roots of that level (a full scan of a big tree in one line)
  | _, ["digest"] =>
    let d : Nat := match inst with
      | .full t => t.depth | .opt t => t.depth | .pm t => t.depth | .ideal t _ => t.depth
    let lv : List (List Nat) := match inst with
      | .ideal t _ => (t.levels H e.dflt).reverse
      | _ => (List.range (d + 1)).map (fun l => (List.range (2 ^ l)).map (fun j =>
          let idx := j * 2 ^ (d - l)
          match (match inst with
            | .full t => t.getSubtreeRoot l idx
            | .opt t => t.getSubtreeRoot l idx
            | .pm t => t.getSubtreeRoot l idx
            | .ideal _ _ => .err) with
          | .ok v => v
          | _ => 0))
    (inst, showList (lv.map (fun l => fr (l.foldl (fun a v => (a + v) % P) 0))))
  -- every observable at once (small depths): root, high-water mark, leaves, every subtree root, empties
  | _, ["obs"] =>
    let (d, root, next, empt) : Nat × Nat × Nat × List Nat := match inst with
      | .full t => (t.depth, t.root, t.next, t.emptyIdx)
      | .opt t => (t.depth, t.root, t.next, t.emptyIdx)
      | .pm t => (t.depth, t.root, t.next, t.emptyIdx)
      | .ideal t _ => (t.depth, 0, t.next, t.emptyIdx)
    let lv : List (List Nat) := match inst with
      | .ideal t _ => (t.levels H e.dflt).reverse       -- top level first
      | _ => (List.range (d + 1)).map (fun l => (List.range (2 ^ l)).map (fun j =>
          let idx := j * 2 ^ (d - l)
          match (match inst with
            | .full t => t.getSubtreeRoot l idx
            | .opt t => t.getSubtreeRoot l idx
            | .pm t => t.getSubtreeRoot l idx
            | .ideal _ _ => .err) with
          | .ok v => v
          | _ => 0))
    let root' := match inst with | .ideal _ _ => (lv.headD []).headD 0 | _ => root
    (inst, s!"root={fr root'} next={next} empty={showList (empt.map toString)} nodes=" ++
      showList (lv.map (fun l => showList (l.map fr))))
  | _, _ => (inst, "bad-op")

/-- an instance plus the metadata slot of the in-memory backends / of the specification -/
structure TInst where
  inst : Inst
  md : List UInt8 := []

/-- ops that only the persistent backend distinguishes: close, reopen, metadata, failure injection -/
def stepT (e : TEnv) (ti : TInst) (w : List String) : TInst × String :=
  match ti.inst, w with
  | .pm t, ["close"] => let r := Pm.flush t; ({ ti with inst := .pm r.1 }, res r.2)
  | .ideal _ _, ["close"] => (ti, "ok")
  | .pm t, ["reopen", d] => match d.toNat? with
    | some d => ({ ti with inst := .pm (Pm.load e.H e.dflt d { kv := t.db.kv }) }, "ok")
    | none => (ti, "bad-op")
  | .ideal _ _, ["reopen", _] => (ti, "ok")      -- reopening changes nothing observable
  | .pm t, ["meta", "set", b] => match parseHexBytes b with
    | some b => let r := Pm.setMetadata b t; ({ ti with inst := .pm r.1 }, res r.2)
    | none => (ti, "bad-op")
  | _, ["meta", "set", b] => match parseHexBytes b with
    | some b => ({ ti with md := b }, "ok")
    | none => (ti, "bad-op")
  | .pm t, ["meta", "get"] => (ti, showBytes (Pm.getMetadata t))
  | _, ["meta", "get"] => (ti, showBytes ti.md)
  | .pm t, ["arm", k] => match k.toInt? with
    | some k => ({ ti with inst := .pm { t with db := { t.db with calls := 0, failAt := if k ≥ 0 then some k.toNat else none } } }, "ok")
    | none => (ti, "bad-op")
  | _, ["arm", _] => (ti, "ok")
  | .pm t, ["fired"] =>
    let f := match t.db.failAt with | some k => decide (t.db.calls > k) | none => false
    ({ ti with inst := .pm { t with db := { t.db with failAt := none } } }, toString f)
  | _, ["fired"] => (ti, "n/a")
  | _, _ => let (i, r) := stepInst e ti.inst w; ({ ti with inst := i }, r)

end Zk.TreeDriver
