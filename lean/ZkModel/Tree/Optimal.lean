import ZkModel.Basic
import ZkModel.Map
/-!
# `utils/src/merkle_tree/optimal_merkle_tree.rs` — model of the code as it is (after the `fix:` commits)

Sparse node store `(depth, index) ↦ value`; an absent node reads as `cached_nodes[depth]`.
`update_hashes` is modelled as the single `loop` of the source with its mutable variables.
-/
namespace Zk.Tree

variable {α : Type} [Inhabited α] {M : Type} [MapLike M (Nat × Nat) α]

structure Optimal (α : Type) (M : Type) where
  depth : Nat
  /-- `cached_nodes`: index = depth level (0 = root default, `depth` = default leaf) -/
  cached : Array α
  nodes : M
  flags : Array Nat
  next : Nat

namespace Optimal

def cap (t : Optimal α M) : Nat := 2 ^ t.depth

def mkCached (H : α → α → α) (dflt : α) : Nat → List α → List α
  | 0, acc => acc
  | n+1, acc => mkCached H dflt n (H (acc.headD dflt) (acc.headD dflt) :: acc)

/-- `new`: `cached_nodes` = defaults from the leaf up, then reversed -/
def new (H : α → α → α) (dflt : α) (depth : Nat) : Optimal α M :=
  { depth, cached := (mkCached H dflt depth [dflt]).toArray, nodes := MapLike.empty,
    flags := Array.replicate (2 ^ depth) 0, next := 0 }

/-- `get_node(depth, index)` -/
def getNode (t : Optimal α M) (d i : Nat) : α :=
  match MapLike.get? t.nodes (d, i) with
  | some v => v
  | none => t.cached[d]!

/-- `hash_couple(depth, index)` -/
def hashCouple (H : α → α → α) (t : Optimal α M) (d i : Nat) : α :=
  let b := i - i % 2
  H (t.getNode d b) (t.getNode d (b + 1))

/-- the mutable variables of `update_hashes`' loop -/
structure Loop (α : Type) (M : Type) where
  t : Optimal α M
  parentDepth : Nat
  parentIndex : Nat
  parentIndexBak : Nat
  parentMaxIndex : Nat
  currentDepth : Nat
  currentIndex : Nat
  currentIndexBak : Nat

/-- `loop { … }` with fuel; every iteration inserts one parent hash -/
def loopRun (H : α → α → α) : Nat → Loop α M → Optimal α M
  | 0, s => s.t
  | f+1, s =>
    let n := hashCouple H s.t s.currentDepth s.currentIndex
    let t' : Optimal α M := { s.t with nodes := MapLike.insert s.t.nodes (s.parentDepth, s.parentIndex) n }
    if s.parentDepth = 0 then t' else
    let pi := s.parentIndex + 1
    let ci := s.currentIndex + 2
    if pi ≥ s.parentMaxIndex then
      loopRun H f { t := t', parentDepth := s.parentDepth - 1, parentIndex := s.parentIndexBak / 2,
                    parentIndexBak := s.parentIndexBak / 2, parentMaxIndex := (s.parentMaxIndex + 1) / 2,
                    currentDepth := s.currentDepth - 1, currentIndex := s.currentIndexBak / 2,
                    currentIndexBak := s.currentIndexBak / 2 }
    else loopRun H f { s with t := t', parentIndex := pi, currentIndex := ci }

/-- `update_hashes(index, length)` -/
def updateHashes (H : α → α → α) (t : Optimal α M) (index length : Nat) : Optimal α M :=
  let parentDepth := t.depth - 1
  let parentIndex := index / 2
  let pmax0 := 2 ^ parentDepth
  let cim := if (index + length) % 2 = 0 then index + length + 2 else index + length + 1
  let pmax := min (cim / 2) pmax0
  let ci := if index % 2 = 0 then index else index - 1
  loopRun H (2 ^ (t.depth + 1) + t.depth + 2) ⟨t, parentDepth, parentIndex, parentIndex, pmax, t.depth, ci, ci⟩

/-- `set(index, leaf)` -/
def set (H : α → α → α) (t : Optimal α M) (i : Nat) (v : α) : Outcome (Optimal α M) :=
  if i ≥ t.cap then .err else
  let t1 : Optimal α M := { t with nodes := MapLike.insert t.nodes (t.depth, i) v }
  let t2 := updateHashes H t1 i 1
  .ok { t2 with next := max t.next (i + 1), flags := t2.flags.setIfInBounds i 1 }

def insertLeaves (t : Optimal α M) (start : Nat) : List α → Optimal α M
  | [] => t
  | v :: r =>
    insertLeaves { t with nodes := MapLike.insert t.nodes (t.depth, start) v,
                          flags := t.flags.setIfInBounds start 1 } (start + 1) r

/-- `set_range(start, leaves)` -/
def setRange (H : α → α → α) (t : Optimal α M) (start : Nat) (vs : List α) : Outcome (Optimal α M) :=
  if start + vs.length > t.cap then .err
  else if vs.length = 0 then .ok t
  else
    let t1 := insertLeaves t start vs
    let t2 := updateHashes H t1 start vs.length
    .ok { t2 with next := max t.next (start + vs.length) }

/-- `delete(index)` -/
def delete (H : α → α → α) (dflt : α) (t : Optimal α M) (i : Nat) : Outcome (Optimal α M) :=
  if i < t.next then
    match set H t i dflt with
    | .ok t' => .ok { t' with flags := t'.flags.setIfInBounds i 0 }
    | .err => .err
    | .panic => .panic
  else .ok t

def updateNext (H : α → α → α) (t : Optimal α M) (v : α) : Outcome (Optimal α M) := set H t t.next v

def root (t : Optimal α M) : α := t.getNode 0 0

def get (t : Optimal α M) (i : Nat) : Outcome α :=
  if i ≥ t.cap then .err else .ok (t.getNode t.depth i)

/-- `get_subtree_root(n, index)` -/
def getSubtreeRoot (t : Optimal α M) (n index : Nat) : Outcome α :=
  if n > t.depth then .err
  else if index ≥ t.cap then .err
  else if n = 0 then .ok t.root
  else if n = t.depth then t.get index
  else .ok (t.getNode n (index / 2 ^ (t.depth - n)))

def emptyIdx (t : Optimal α M) : List Nat :=
  (List.range (min t.next t.flags.size)).filter (fun i => t.flags[i]! == 0)

/-- `proof(index)`: `loop { i ^= 1; push(get_node(depth, i), 1 - (i & 1)); i >>= 1; depth -= 1; … }` -/
def proofAux (t : Optimal α M) : Nat → Nat → List (α × Nat)
  | 0, _ => []
  | d+1, i =>
    let j := i ^^^ 1
    (t.getNode (d + 1) j, 1 - j % 2) :: proofAux t d (j / 2)

def proof (t : Optimal α M) (i : Nat) : Outcome (List (α × Nat)) :=
  if i ≥ t.cap then .err else .ok (proofAux t t.depth i)

def computeRootFrom (H : α → α → α) (lf : α) : List (α × Nat) → α
  | [] => lf
  | (s, b) :: r => computeRootFrom H (if b = 0 then H lf s else H s lf) r

def leafIndex (p : List (α × Nat)) : Nat := p.foldr (fun x acc => 2 * acc + x.2) 0

/-- `verify(leaf, witness)`: `Err` when the witness length is not the depth -/
def verify [BEq α] (H : α → α → α) (t : Optimal α M) (lf : α) (p : List (α × Nat)) : Outcome Bool :=
  if p.length ≠ t.depth then .err else .ok (computeRootFrom H lf p == t.root)

def deleteMany (H : α → α → α) (dflt : α) : Optimal α M → List Nat → Outcome (Optimal α M)
  | t, [] => .ok t
  | t, i :: r =>
    match delete H dflt t i with
    | .ok t' => deleteMany H dflt t' r
    | .err => .err
    | .panic => .panic

/-- `override_range(start, leaves, indices)` -/
def overrideRange (H : α → α → α) (dflt : α) (t : Optimal α M) (start : Nat) (vs : List α) (rem : List Nat) :
    Outcome (Optimal α M) :=
  if vs.isEmpty ∧ rem.isEmpty then .err
  else if start + vs.length > t.cap then .err
  else if rem.any (fun i => i ≥ t.cap) then .err
  else match deleteMany H dflt t rem with
    | .ok t' => setRange H t' start vs
    | .err => .err
    | .panic => .panic

end Optimal
end Zk.Tree
