import ZkModel.Basic
/-!
# The ideal hash tree (specification S for C06/C07/C08/C15)

"A plain array of leaves hashed pairwise level by level from the default leaf":
`node d i = leaf i`, `node l i = H (node (l+1) (2i)) (node (l+1) (2i+1))`, level 0 is the root.
Leaves are a finite overlay of writes on the constant-default function.
-/
namespace Zk.Tree

variable {α : Type}

structure Ideal (α : Type) where
  depth : Nat
  /-- writes, newest first; a position never written reads as the default leaf -/
  writes : List (Nat × α)
  /-- leaf-count high-water mark -/
  next : Nat
  /-- positions whose last operation was a write (newest first: `(i, true)` written, `(i, false)` removed) -/
  live : List (Nat × Bool)

namespace Ideal

def cap (t : Ideal α) : Nat := 2 ^ t.depth

def new (depth : Nat) : Ideal α := { depth, writes := [], next := 0, live := [] }

def leaf (dflt : α) (t : Ideal α) (i : Nat) : α :=
  match t.writes.lookup i with
  | some v => v
  | none => dflt

/-- value of node `i` on level `l` (`fuel = depth - l` levels above the leaves) -/
def nodeAux (H : α → α → α) (lf : Nat → α) : Nat → Nat → α
  | 0, i => lf i
  | k+1, i => H (nodeAux H lf k (2 * i)) (nodeAux H lf k (2 * i + 1))

def node (H : α → α → α) (dflt : α) (t : Ideal α) (l i : Nat) : α :=
  nodeAux H (t.leaf dflt) (t.depth - l) i

def root (H : α → α → α) (dflt : α) (t : Ideal α) : α := t.node H dflt 0 0

/-- default node value `k` levels above the leaves -/
def dfltAt (H : α → α → α) (dflt : α) : Nat → α
  | 0 => dflt
  | k+1 => H (dfltAt H dflt k) (dfltAt H dflt k)

/-- executable short cut used by the driver on deep trees: a subtree without any write is the
    default node of its height (`nodeFast_eq`, proved in ZkProofs) -/
def nodeFastAux (H : α → α → α) (dflt : α) (t : Ideal α) : Nat → Nat → α
  | 0, i => t.leaf dflt i
  | k+1, i =>
    if t.writes.any (fun w => i * 2 ^ (k+1) ≤ w.1 ∧ w.1 < (i + 1) * 2 ^ (k+1)) then
      H (nodeFastAux H dflt t k (2 * i)) (nodeFastAux H dflt t k (2 * i + 1))
    else dfltAt H dflt (k+1)

def nodeFast (H : α → α → α) (dflt : α) (t : Ideal α) (l i : Nat) : α :=
  nodeFastAux H dflt t (t.depth - l) i

/-- all levels bottom-up by pairwise hashing (`levels.getD k` = the level `k` above the leaves) -/
def pairUp (H : α → α → α) : List α → List α
  | a :: b :: r => H a b :: pairUp H r
  | _ => []

def levelsAux (H : α → α → α) : Nat → List α → List (List α)
  | 0, cur => [cur]
  | k+1, cur => cur :: levelsAux H k (pairUp H cur)

def levels (H : α → α → α) (dflt : α) (t : Ideal α) : List (List α) :=
  levelsAux H t.depth ((List.range t.cap).map (t.leaf dflt))

/-! ## Operations (the documented behaviour) -/

def write (t : Ideal α) (i : Nat) (v : α) : Ideal α :=
  { t with writes := (i, v) :: t.writes, live := (i, true) :: t.live }

def writeMany (t : Ideal α) (start : Nat) : List α → Ideal α
  | [] => t
  | v :: r => writeMany (t.write start v) (start + 1) r

/-- `set(i, v)`: rejected beyond capacity -/
def set (t : Ideal α) (i : Nat) (v : α) : Outcome (Ideal α) :=
  if i < t.cap then .ok { t.write i v with next := max t.next (i + 1) } else .err

/-- `delete(i)`: resets a position below the high-water mark; otherwise changes nothing -/
def delete (dflt : α) (t : Ideal α) (i : Nat) : Ideal α :=
  if i < t.next then { t with writes := (i, dflt) :: t.writes, live := (i, false) :: t.live } else t

def append (t : Ideal α) (v : α) : Outcome (Ideal α) := t.set t.next v

/-- `set_range(start, vs)`: rejected when it does not fit -/
def setRange (t : Ideal α) (start : Nat) (vs : List α) : Outcome (Ideal α) :=
  if start + vs.length ≤ t.cap then
    .ok { t.writeMany start vs with next := if vs.isEmpty then t.next else max t.next (start + vs.length) }
  else .err

/-- reset each listed position (a position at or above the high-water mark was never written and
    already holds the default leaf, so `delete` leaves it alone) -/
def removeMany (dflt : α) (t : Ideal α) : List Nat → Ideal α
  | [] => t
  | i :: r => removeMany dflt (t.delete dflt i) r

/-- batch update (C08): reset every removed position, then write the leaves at consecutive
    positions; rejected (state unchanged) when the range or a removal is beyond capacity, or when
    there is nothing to do. -/
def batch (dflt : α) (t : Ideal α) (start : Nat) (vs : List α) (rem : List Nat) : Outcome (Ideal α) :=
  if start + vs.length > t.cap ∨ rem.any (fun r => r ≥ t.cap) ∨ (vs.isEmpty ∧ rem.isEmpty) then .err
  else
    let t1 := removeMany dflt t rem
    .ok { t1.writeMany start vs with next := if vs.isEmpty then t.next else max t.next (start + vs.length) }

/-- C15: ascending positions below the high-water mark never written or last removed -/
def emptyIdx (t : Ideal α) : List Nat :=
  (List.range t.next).filter (fun i => (t.live.lookup i).getD false == false)

/-- membership proof: siblings bottom-up and direction bits (bit `k` of `i`), C07 -/
def proofAux (H : α → α → α) (dflt : α) (t : Ideal α) : Nat → Nat → Nat → List (α × Nat)
  | 0, _, _ => []
  | k+1, l, i => (t.node H dflt l (i ^^^ 1), i % 2) :: proofAux H dflt t k (l - 1) (i / 2)

def proof (H : α → α → α) (dflt : α) (t : Ideal α) (i : Nat) : List (α × Nat) :=
  proofAux H dflt t t.depth t.depth i

/-- the same path through the executable short cut `nodeFast` (driver; equal by `nodeFast_eq`) -/
def proofFastAux (H : α → α → α) (dflt : α) (t : Ideal α) : Nat → Nat → Nat → List (α × Nat)
  | 0, _, _ => []
  | k+1, l, i => (t.nodeFast H dflt l (i ^^^ 1), i % 2) :: proofFastAux H dflt t k (l - 1) (i / 2)

def proofFast (H : α → α → α) (dflt : α) (t : Ideal α) (i : Nat) : List (α × Nat) :=
  proofFastAux H dflt t t.depth t.depth i

/-- root recomputed from a leaf and a path (bit 0 ⇒ the running node is the left child) -/
def computeRoot (H : α → α → α) (lf : α) : List (α × Nat) → α
  | [] => lf
  | (s, b) :: r => computeRoot H (if b = 0 then H lf s else H s lf) r

end Ideal
end Zk.Tree
