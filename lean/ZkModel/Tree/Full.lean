import ZkModel.Basic
/-!
# `utils/src/merkle_tree/full_merkle_tree.rs` — model of the code as it is (after the `fix:` commits)

Flat heap layout: node `j` has children `2j+1`, `2j+2`; the leaves occupy
`[2^depth - 1, 2^(depth+1) - 2]`. Positions are unbounded `Nat`; the code's range checks use
`checked_add`, so "does not fit" in `Nat` is exactly "rejected" in the code.
-/
namespace Zk.Tree

variable {α : Type} [Inhabited α]

structure Full (α : Type) where
  depth : Nat
  nodes : Array α
  /-- `cached_leaves_indices` -/
  flags : Array Nat
  /-- `next_index` -/
  next : Nat

namespace Full

def cap (t : Full α) : Nat := 2 ^ t.depth

/-- `successors(Some(leaf), |p| hash(p, p))`: default value `k` levels above the leaves -/
def dfltAt (H : α → α → α) (dflt : α) : Nat → α
  | 0 => dflt
  | k+1 => H (dfltAt H dflt k) (dfltAt H dflt k)

/-- `new`: level `l` (root = 0) holds `2^l` copies of the default of height `depth - l` -/
def new (H : α → α → α) (dflt : α) (depth : Nat) : Full α :=
  { depth,
    nodes := ((List.range (depth + 1)).map (fun l => List.replicate (2 ^ l) (dfltAt H dflt (depth - l)))).flatten.toArray,
    flags := Array.replicate (2 ^ depth) 0,
    next := 0 }

/-- `parent(index)`: `None` for the root -/
def parent (i : Nat) : Option Nat := if i = 0 then none else some ((i + 1) / 2 - 1)

def firstChild (i : Nat) : Nat := 2 * i + 1

/-- `levels(index)` = ⌊log₂(index+1)⌋ (`(index+2).next_power_of_two().trailing_zeros() - 1`) -/
def level (i : Nat) : Nat := Nat.log2 (i + 1)

/-- `for parent in ps..=pe { nodes[parent] = hash(nodes[child], nodes[child+1]) }`, `n` iterations -/
def recompute (H : α → α → α) (a : Array α) (ps : Nat) : Nat → Array α
  | 0 => a
  | n+1 =>
    let a' := recompute H a ps n
    let p := ps + n
    a'.setIfInBounds p (H a'[firstChild p]! a'[firstChild p + 1]!)

/-- the recursion of `update_nodes` below the level check; `fuel` ≥ level of `s` -/
def updateNodesAux (H : α → α → α) : Nat → Array α → Nat → Nat → Array α
  | 0, a, _, _ => a
  | f+1, a, s, e =>
    match parent s, parent e with
    | some ps, some pe => updateNodesAux H f (recompute H a ps (pe + 1 - ps)) ps pe
    | _, _ => a

/-- `update_nodes(start, end)`: `Err` when the two indices are on different levels -/
def updateNodes (H : α → α → α) (t : Full α) (s e : Nat) : Outcome (Array α) :=
  if level s ≠ level e then .err else .ok (updateNodesAux H (t.depth + 1) t.nodes s e)

def writeAt (a : Array α) (i : Nat) : List α → Array α
  | [] => a
  | v :: r => writeAt (a.setIfInBounds i v) (i + 1) r

def markRange (fl : Array Nat) (start : Nat) : Nat → Array Nat
  | 0 => fl
  | n+1 => (markRange fl start n).setIfInBounds (start + n) 1

/-- `set_range(start, hashes)` -/
def setRange (H : α → α → α) (t : Full α) (start : Nat) (vs : List α) : Outcome (Full α) :=
  if start + vs.length > t.cap then .err else
  let index := t.cap + start - 1
  let count := vs.length
  let t1 : Full α := { t with nodes := writeAt t.nodes index vs, flags := markRange t.flags start count }
  if count ≠ 0 then
    match updateNodes H t1 index (index + (count - 1)) with
    | .ok ns => .ok { t1 with nodes := ns, next := max t.next (start + count) }
    | .err => .err
    | .panic => .panic
  else .ok t1

/-- `set(leaf, hash)` -/
def set (H : α → α → α) (t : Full α) (leaf : Nat) (v : α) : Outcome (Full α) :=
  match setRange H t leaf [v] with
  | .ok t' => .ok { t' with next := max t'.next (leaf + 1) }
  | .err => .err
  | .panic => .panic

/-- `delete(index)` -/
def delete (H : α → α → α) (dflt : α) (t : Full α) (i : Nat) : Outcome (Full α) :=
  if i < t.next then
    match set H t i dflt with
    | .ok t' => .ok { t' with flags := t'.flags.setIfInBounds i 0 }
    | .err => .err
    | .panic => .panic
  else .ok t

/-- `update_next(leaf)` -/
def updateNext (H : α → α → α) (t : Full α) (v : α) : Outcome (Full α) := set H t t.next v

/-- `root()` -/
def root (t : Full α) : α := t.nodes[0]!

/-- `get(leaf)` -/
def get (t : Full α) (leaf : Nat) : Outcome α :=
  if leaf ≥ t.cap then .err else .ok t.nodes[t.cap + leaf - 1]!

def climb : Nat → Nat → Nat
  | 0, i => i
  | k+1, i => climb k ((i + 1) / 2 - 1)

/-- `get_subtree_root(n, index)` -/
def getSubtreeRoot (t : Full α) (n index : Nat) : Outcome α :=
  if n > t.depth then .err
  else if index ≥ t.cap then .err
  else if n = 0 then .ok t.root
  else if n = t.depth then t.get index
  else .ok t.nodes[climb (t.depth - n) (t.cap + index - 1)]!

/-- `get_empty_leaves_indices()` -/
def emptyIdx (t : Full α) : List Nat :=
  (List.range (min t.next t.flags.size)).filter (fun i => t.flags[i]! == 0)

/-- `proof(leaf)`: bottom-up `(sibling, bit)`; odd flat index = left child = `Left` = bit 0 -/
def proofAux (a : Array α) : Nat → Nat → List (α × Nat)
  | 0, _ => []
  | f+1, i =>
    if i = 0 then [] else
    (if i % 2 = 1 then (a[i + 1]!, 0) else (a[i - 1]!, 1)) :: proofAux a f ((i + 1) / 2 - 1)

def proof (t : Full α) (leaf : Nat) : Outcome (List (α × Nat)) :=
  if leaf ≥ t.cap then .err else .ok (proofAux t.nodes (t.depth + 1) (t.cap + leaf - 1))

/-- `FullMerkleProof::compute_root_from` -/
def computeRootFrom (H : α → α → α) (lf : α) : List (α × Nat) → α
  | [] => lf
  | (s, b) :: r => computeRootFrom H (if b = 0 then H lf s else H s lf) r

/-- `leaf_index()` -/
def leafIndex (p : List (α × Nat)) : Nat := p.foldr (fun x acc => 2 * acc + (if x.2 = 0 then 0 else 1)) 0

/-- `verify(hash, proof)` -/
def verify [BEq α] (H : α → α → α) (t : Full α) (lf : α) (p : List (α × Nat)) : Outcome Bool :=
  .ok (computeRootFrom H lf p == t.root)

def deleteMany (H : α → α → α) (dflt : α) : Full α → List Nat → Outcome (Full α)
  | t, [] => .ok t
  | t, i :: r =>
    match delete H dflt t i with
    | .ok t' => deleteMany H dflt t' r
    | .err => .err
    | .panic => .panic

/-- `override_range(start, leaves, indices)` -/
def overrideRange (H : α → α → α) (dflt : α) (t : Full α) (start : Nat) (vs : List α) (rem : List Nat) :
    Outcome (Full α) :=
  if vs.isEmpty ∧ rem.isEmpty then .err
  else if start + vs.length > t.cap then .err
  else if rem.any (fun i => i ≥ t.cap) then .err
  else match deleteMany H dflt t rem with
    | .ok t' => setRange H t' start vs
    | .err => .err
    | .panic => .panic

end Full
end Zk.Tree
