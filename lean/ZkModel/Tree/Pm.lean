import ZkModel.Basic
import ZkModel.Map
/-!
# pmtree 2.0.2 (`tree.rs`) + `rln/src/pm_tree_adapter.rs` + `utils/src/pm_tree/sled_adapter.rs`

The key–value store is a finite map with an injected failure schedule: the `failAt`-th storage
write (`put` / `put_batch` / `flush`, counted from 0 since the schedule was armed) fails — this is
what hook H1 does to `SledDB`. Every operation returns the new tree state *and* its result, so the
state after a failed operation (what a later reopen sees) is part of the model.

Database keys are abstract (`PmKey`); the code encodes `(depth, index)` by Cantor pairing into a
`u64` and reserves `u64::MAX-1`, `u64::MAX` and `b"metadata"` — injectivity of that encoding on the
trees in use is proved in `ZkProofs/C16Keys.lean` (`C16_db_keys_injective`: every tree of depth at most 31, no wrap-around
in the `usize` arithmetic, the metadata slot is not a node).
-/
namespace Zk.Tree

inductive PmKey where
  | node (d i : Nat)
  | depthKey
  | nextKey
  | metaKey
deriving DecidableEq, Hashable, Repr

/-- stored values: tree nodes, the two counters, metadata bytes -/
inductive PmVal (α : Type) where
  | fr (v : α)
  | num (n : Nat)
  | bytes (b : List UInt8)
deriving Inhabited

structure Store (D : Type) where
  kv : D
  /-- storage writes performed since the failure schedule was armed -/
  calls : Nat := 0
  /-- index of the write that fails (`none`: no failure injected) -/
  failAt : Option Nat := none

/-- state-and-result: the state is kept when the result is an error -/
abbrev PmM (σ β : Type) := σ → σ × Outcome β

namespace PmM
def pure' {σ β : Type} (b : β) : PmM σ β := fun s => (s, .ok b)
def bind' {σ β γ : Type} (m : PmM σ β) (f : β → PmM σ γ) : PmM σ γ := fun s =>
  match m s with
  | (s', .ok b) => f b s'
  | (s', .err) => (s', .err)
  | (s', .panic) => (s', .panic)
instance {σ : Type} : Monad (PmM σ) where
  pure := pure'
  bind := bind'
def fail {σ β : Type} : PmM σ β := fun s => (s, .err)
def crash {σ β : Type} : PmM σ β := fun s => (s, .panic)
end PmM

variable {α : Type} [Inhabited α] {D : Type} [MapLike D PmKey (PmVal α)]

/-- pmtree `MerkleTree<SledDB, PoseidonHash>` plus the adapter's fields -/
structure Pm (α : Type) (D : Type) where
  db : Store D
  depth : Nat
  next : Nat
  /-- `cache[k]`: default node on depth level `k` -/
  cache : Array α
  root : α
  /-- adapter: `cached_leaves_indices` -/
  flags : Array Nat
  /-- adapter: in-memory copy of the metadata -/
  metadata : List UInt8

namespace Pm

def cap (t : Pm α D) : Nat := 2 ^ t.depth

/-- one storage write; fails when the schedule says so (`SledDB::put`) -/
def put (k : PmKey) (v : PmVal α) : PmM (Pm α D) Unit := fun t =>
  let s := t.db
  if s.failAt = some s.calls then ({ t with db := { s with calls := s.calls + 1 } }, .err)
  else ({ t with db := { s with kv := MapLike.insert s.kv k v, calls := s.calls + 1 } }, .ok ())

/-- atomic batch (`SledDB::put_batch` = `apply_batch`): all or nothing -/
def putBatch (kvs : List (PmKey × PmVal α)) : PmM (Pm α D) Unit := fun t =>
  let s := t.db
  if s.failAt = some s.calls then ({ t with db := { s with calls := s.calls + 1 } }, .err)
  else ({ t with db := { s with kv := kvs.foldl (fun m kv => MapLike.insert m kv.1 kv.2) s.kv, calls := s.calls + 1 } }, .ok ())

/-- `SledDB::close` = flush -/
def flush : PmM (Pm α D) Unit := fun t =>
  let s := t.db
  if s.failAt = some s.calls then ({ t with db := { s with calls := s.calls + 1 } }, .err)
  else ({ t with db := { s with calls := s.calls + 1 } }, .ok ())

/-- in-memory field update (cannot fail) -/
def modify (f : Pm α D → Pm α D) : PmM (Pm α D) Unit := fun t => (f t, .ok ())

/-- `get_elem(key)`: stored value or the cached default of that level -/
def getElem (t : Pm α D) (d i : Nat) : α :=
  match MapLike.get? t.db.kv (PmKey.node d i) with
  | some (.fr v) => v
  | _ => t.cache[d]!

def mkCache (H : α → α → α) (dflt : α) : Nat → List α → List α
  | 0, acc => acc
  | n+1, acc => mkCache H dflt n (H (acc.headD dflt) (acc.headD dflt) :: acc)

def putDefaults (cache : Array α) : Nat → PmM (Pm α D) Unit
  | 0 => PmM.pure' ()
  | i+1 => do put (PmKey.node i 0) (PmVal.fr cache[i]!); putDefaults cache i

/-- `MerkleTree::new(depth, config)` on an empty store, then the adapter's fields -/
def new (H : α → α → α) (dflt : α) (depth : Nat) (s : Store D) : Pm α D × Outcome Unit :=
  let cache := (mkCache H dflt depth [dflt]).toArray
  let t0 : Pm α D := { db := s, depth, next := 0, cache, root := cache[0]!,
                       flags := Array.replicate (2 ^ depth) 0, metadata := [] }
  (do put PmKey.depthKey (PmVal.num depth)
      put PmKey.nextKey (PmVal.num 0)
      put (PmKey.node depth 0) (PmVal.fr cache[depth]!)
      putDefaults cache depth) t0

/-- `MerkleTree::load(config)` + adapter `PmTree::new` (flag vector sized by the *argument* depth) -/
def load (H : α → α → α) (dflt : α) (argDepth : Nat) (s : Store D) : Pm α D :=
  let root := match MapLike.get? s.kv (PmKey.node 0 0) with
    | some (.fr v) => v
    | _ => dflt
  let depth := match MapLike.get? s.kv PmKey.depthKey with
    | some (.num d) => d
    | _ => 20
  let next := match MapLike.get? s.kv PmKey.nextKey with
    | some (.num n) => n
    | _ => 0
  { db := s, depth, next, cache := (mkCache H dflt depth [dflt]).toArray, root,
    flags := Array.replicate (2 ^ argDepth) 0, metadata := [] }

/-- `hash_couple(depth, key)` -/
def hashCouple (H : α → α → α) (t : Pm α D) (d i : Nat) : α :=
  let b := i - i % 2
  H (t.getElem d b) (t.getElem d (b + 1))

/-- `recalculate_from(key)`: `d` = current depth (counts down to 0) -/
def recalcFrom (H : α → α → α) : Nat → Nat → PmM (Pm α D) Unit
  | 0, _ => PmM.pure' ()
  | d+1, i => fun t =>
    let value := hashCouple H t (d + 1) i
    (do put (PmKey.node d (i / 2)) (PmVal.fr value)
        if d = 0 then modify (fun t => { t with root := value })
        else recalcFrom H d (i / 2)) t

/-- pmtree `set(key, leaf)` -/
def treeSet (H : α → α → α) (key : Nat) (leaf : α) : PmM (Pm α D) Unit := fun t =>
  if key ≥ t.cap then (t, .err) else
  (do put (PmKey.node t.depth key) (PmVal.fr leaf)
      recalcFrom H t.depth key
      modify (fun t => { t with next := max t.next (key + 1) })
      (fun t => put PmKey.nextKey (PmVal.num t.next) t)) t

/-- pmtree `delete(key)` -/
def treeDelete (H : α → α → α) (dflt : α) (key : Nat) : PmM (Pm α D) Unit := fun t =>
  if key ≥ t.next then (t, .err) else treeSet H key dflt t

/-- pmtree `update_next(leaf)` -/
def treeUpdateNext (H : α → α → α) (leaf : α) : PmM (Pm α D) Unit := fun t => treeSet H t.next leaf t

/-- `fill_nodes(key, start, end, subtree, leaves, from)`; `fuel = depth - key.0`; `none` = index
    panic. The second component accumulates the keys inserted into the map (newest first). -/
def fillNodes {S : Type} [MapLike S (Nat × Nat) α] (t : Pm α D) (leaves : Array α) (from_ : Nat) :
    Nat → Nat → Nat → Nat → Nat → S × List (Nat × Nat) → Option (S × List (Nat × Nat))
  | 0, d, i, _, _, (sub, ks) =>
    if i ≥ from_ then
      match leaves[i - from_]? with
      | some v => some (MapLike.insert sub (d, i) v, (d, i) :: ks)
      | none => none
    else some (sub, ks)
  | f+1, d, i, start, end_, (sub, ks) =>
    let sub1 := MapLike.insert sub (d + 1, 2 * i) (t.getElem (d + 1) (2 * i))
    let sub2 := MapLike.insert sub1 (d + 1, 2 * i + 1) (t.getElem (d + 1) (2 * i + 1))
    let ks2 := (d + 1, 2 * i + 1) :: (d + 1, 2 * i) :: ks
    let half := 2 ^ f
    let r1 := if start < half then fillNodes t leaves from_ f (d + 1) (2 * i) start (min end_ half) (sub2, ks2)
              else some (sub2, ks2)
    match r1 with
    | none => none
    | some acc =>
      if end_ > half then fillNodes t leaves from_ f (d + 1) (2 * i + 1) 0 (end_ - half) acc else some acc

/-- `batch_recalculate(key, subtree, depth)` sequentially (left then right); returns the node
    value and the updated map together with the list of written keys; `none` = `unwrap` panic -/
def batchRecalc {S : Type} [MapLike S (Nat × Nat) α] (H : α → α → α) :
    Nat → Nat → Nat → S → List (Nat × Nat) → Option (α × S × List (Nat × Nat))
  | 0, d, i, sub, ks => (MapLike.get? sub (d, i)).map (fun v => (v, sub, ks))
  | f+1, d, i, sub, ks =>
    match MapLike.get? sub (d + 1, 2 * i) with
    | none => (MapLike.get? sub (d, i)).map (fun v => (v, sub, ks))
    | some _ =>
      match batchRecalc H f (d + 1) (2 * i) sub ks with
      | none => none
      | some (l, sub1, ks1) =>
        match batchRecalc H f (d + 1) (2 * i + 1) sub1 ks1 with
        | none => none
        | some (r, sub2, ks2) =>
          let v := H l r
          some (v, MapLike.insert sub2 (d, i) v, ks2)

/-- pmtree `set_range(start, leaves)` = `batch_insert(Some(start), leaves)`.
    `S` is the in-memory `HashMap<Key, Fr>` of the batch. -/
def treeSetRange (S : Type) [MapLike S (Nat × Nat) α] (H : α → α → α) (start : Nat) (leaves : List α) :
    PmM (Pm α D) Unit := fun t =>
  let end_ := start + leaves.length
  if end_ > t.cap then (t, .err) else
  let sub0 : S := MapLike.insert (MapLike.empty : S) (0, 0) t.root
  match fillNodes t leaves.toArray start t.depth 0 0 start end_ (sub0, [(0, 0)]) with
  | none => (t, .panic)
  | some (sub1, keys) =>
    match batchRecalc H t.depth 0 0 sub1 [] with
    | none => (t, .panic)
    | some (rootVal, sub2, _) =>
      let kvs : List (PmKey × PmVal α) := keys.filterMap (fun k =>
        (MapLike.get? sub2 k).map (fun v => (PmKey.node k.1 k.2, PmVal.fr v)))
      (do putBatch kvs
          (fun t => if end_ > t.next then
              (do modify (fun t => { t with next := end_ })
                  put PmKey.nextKey (PmVal.num end_)) t
            else (t, .ok ()))
          modify (fun t => { t with root := rootVal })) t

/-! ## The adapter (`rln/src/pm_tree_adapter.rs`) -/

def setFlag (i v : Nat) : PmM (Pm α D) Unit := fun t =>
  if i < t.flags.size then ({ t with flags := t.flags.setIfInBounds i v }, .ok ()) else (t, .panic)

def setFlags (v : Nat) : List Nat → PmM (Pm α D) Unit
  | [] => PmM.pure' ()
  | i :: r => do setFlag i v; setFlags v r

/-- `PmTree::set` -/
def set (H : α → α → α) (i : Nat) (leaf : α) : PmM (Pm α D) Unit := do
  treeSet H i leaf
  setFlag i 1

/-- `PmTree::set_range` (after the `fix:` commits) -/
def setRange (S : Type) [MapLike S (Nat × Nat) α] (H : α → α → α) (start : Nat) (vs : List α) : PmM (Pm α D) Unit :=
  if vs.isEmpty then PmM.pure' () else do
    treeSetRange S H start vs
    setFlags 1 ((List.range vs.length).map (start + ·))

/-- `PmTree::update_next` (after the `fix:` commit) -/
def updateNext (H : α → α → α) (leaf : α) : PmM (Pm α D) Unit := fun t =>
  (do treeUpdateNext H leaf
      setFlag t.next 1) t

/-- `PmTree::delete` -/
def delete (H : α → α → α) (dflt : α) (i : Nat) : PmM (Pm α D) Unit := do
  treeDelete H dflt i
  setFlag i 0

/-- `PmTree::get` -/
def get (t : Pm α D) (i : Nat) : Outcome α := if i ≥ t.cap then .err else .ok (t.getElem t.depth i)

/-- `PmTree::get_subtree_root` -/
def getSubtreeRoot (t : Pm α D) (n index : Nat) : Outcome α :=
  if n > t.depth then .err
  else if index ≥ t.cap then .err
  else if n = 0 then .ok t.root
  else if n = t.depth then t.get index
  else .ok (t.getElem n (index / 2 ^ (t.depth - n)))

def emptyIdx (t : Pm α D) : List Nat :=
  (List.range (min t.next t.flags.size)).filter (fun i => t.flags[i]! == 0)

def proofAux (t : Pm α D) : Nat → Nat → List (α × Nat)
  | 0, _ => []
  | d+1, i =>
    let j := i ^^^ 1
    (t.getElem (d + 1) j, 1 - j % 2) :: proofAux t d (j / 2)

def proof (t : Pm α D) (i : Nat) : Outcome (List (α × Nat)) :=
  if i ≥ t.cap then .err else .ok (proofAux t t.depth i)

def computeRootFrom (H : α → α → α) (lf : α) : List (α × Nat) → α
  | [] => lf
  | (s, b) :: r => computeRootFrom H (if b = 0 then H lf s else H s lf) r

/-- `PmTree::verify`: `Err` instead of `Ok(false)` -/
def verify [BEq α] (H : α → α → α) (t : Pm α D) (lf : α) (p : List (α × Nat)) : Outcome Bool :=
  if computeRootFrom H lf p == t.root then .ok true else .err

/-- `remove_indices(indices)` (sorted, non-empty): resets the whole span `[first, last]` -/
def removeIndices (S : Type) [MapLike S (Nat × Nat) α] (H : α → α → α) (dflt : α) (idx : List Nat) : PmM (Pm α D) Unit :=
  let start := idx.headD 0
  let end_ := idx.getLastD 0 + 1
  do treeSetRange S H start (List.replicate (end_ - start) dflt)
     setFlags 0 ((List.range (end_ - start)).map (start + ·))

/-- `remove_indices_and_set_leaves(start, leaves, indices)` with its index arithmetic as written -/
def removeIndicesAndSetLeaves (S : Type) [MapLike S (Nat × Nat) α] (H : α → α → α) (dflt : α)
    (start : Nat) (leaves : List α) (idx : List Nat) : PmM (Pm α D) Unit := fun t =>
  let minIndex := idx.headD 0
  let maxIndex := start + leaves.length
  -- `vec![default; max_index - min_index]`: underflow wraps to a huge length ⇒ allocation panic
  if maxIndex < minIndex then (t, .panic) else
  let len := maxIndex - minIndex
  let base : Array α := Array.replicate len dflt
  -- `for i in min_index..start { if !indices.contains(&i) { set_values[i - min_index] = tree.get(i)? } }`
  let keepIdx := (List.range (start - minIndex)).map (minIndex + ·) |>.filter (fun i => !idx.contains i)
  if keepIdx.any (fun i => i ≥ t.cap) then (t, .err) else
  if keepIdx.any (fun i => i - minIndex ≥ len) then (t, .panic) else
  let a1 := keepIdx.foldl (fun a i => a.setIfInBounds (i - minIndex) (t.getElem t.depth i)) base
  -- `set_values[start - min_index + i] = leaf`: `start - min_index` underflows when min_index > start
  if minIndex > start ∧ ¬ leaves.isEmpty then (t, .panic) else
  if (List.range leaves.length).any (fun i => start - minIndex + i ≥ len) then (t, .panic) else
  let a2 := (leaves.zipIdx).foldl (fun a (v, i) => a.setIfInBounds (start - minIndex + i) v) a1
  (do treeSetRange S H start a2.toList
      setFlags 0 idx
      setFlags 1 ((List.range (len - start)).map (start + ·))) t

/-- insertion sort (the adapter calls `indices.sort()`) -/
def insertSorted (x : Nat) : List Nat → List Nat
  | [] => [x]
  | y :: r => if x ≤ y then x :: y :: r else y :: insertSorted x r
def sortNat (l : List Nat) : List Nat := l.foldr insertSorted []

/-- `PmTree::override_range`: six-way dispatch on `(leaves.len(), indices.len())` -/
def overrideRange (S : Type) [MapLike S (Nat × Nat) α] (H : α → α → α) (dflt : α)
    (start : Nat) (leaves : List α) (indices : List Nat) : PmM (Pm α D) Unit :=
  let idx := sortNat indices
  match leaves.length, idx.length with
  | 0, 0 => PmM.fail
  | 1, 0 => set H start (leaves.headD dflt)
  | 0, 1 => delete H dflt (idx.headD 0)
  | _, 0 => setRange S H start leaves
  | 0, _ => removeIndices S H dflt idx
  | _, _ => removeIndicesAndSetLeaves S H dflt start leaves idx

/-- `set_metadata` -/
def setMetadata (md : List UInt8) : PmM (Pm α D) Unit := do
  put PmKey.metaKey (PmVal.bytes md)
  modify (fun t => { t with metadata := md })

/-- `metadata()` -/
def getMetadata (t : Pm α D) : List UInt8 :=
  if !t.metadata.isEmpty then t.metadata else
  match MapLike.get? t.db.kv PmKey.metaKey with
  | some (.bytes b) => b
  | _ => []

end Pm
end Zk.Tree
