import ZkModel.Basic
/-!
# ZkModel.Zkey — the snarkjs key-file reader `rln/src/circuit/zkey.rs` (C17, C01)

`read_zkey` on a `Cursor<&[u8]>`: `BinFile::new` (magic, version, section table: every section is
skipped with a RELATIVE seek, a seek past the end is allowed and only the next read fails),
`proving_key()` (Groth16 header from the FIRST section with id 2, then sections 3, 5, 6, 7, 8, 9 in
this order, every point as two / four raw 32-byte little-endian Montgomery limbs), `matrices()`
(header again, section 4: `u32` count, then `(matrix, constraint, signal : u32, value : 32 bytes)`
records pushed to `matrices[matrix][constraint]`; the value is divided by R twice).

Outcomes: a short read is an `Err` (`read_exact` / ark-serialize), a missing section is a PANIC
(`self.sections.get(&id).unwrap()`), a magic that is not UTF-8 is a panic (`from_utf8(..).unwrap()`),
a coefficient with `matrix ≥ 2` or `constraint ≥ domain_size` is a panic (index out of bounds), a
G1 point that is not `(0,0)` and not on the curve is a panic (`G1Affine::new` asserts).  Machine
arithmetic as in the release-like profile of the harness: `max_constraint_index - n_public` and
`n_vars - n_public` wrap modulo 2^64, the element count of a point section is cast to `u32`.

Not modelled (parameters of the model): validity of G2 points (`g2ok`, the subgroup check needs the
pairing-friendly curve arithmetic; the driver takes `(0,0,0,0)` and the points of the bundled key as
valid), Montgomery reduction of raw values that are not below the modulus (snarkjs never writes
them; the generators stay below).
-/
namespace Zk.Zkey

abbrev Bytes := List UInt8

/-- BN254 base field modulus (`ark_bn254::Fq`) -/
def Q : Nat := 21888242871839275222246405745257275088696311157297823662689037894645226208583
/-- `(2^256)⁻² mod P`: `Fr::new_unchecked(Fr::new_unchecked(b).into_bigint())` as a canonical value is `b · R⁻² mod P` -/
def RInv2 : Nat := 8519677608991584271437967308266649112183478179623991153221810821821888926024
/-- `(2^256)⁻¹ mod Q` -/
def RqInv : Nat := 20988524275117001072002809824448087578619730785600314334253784976379291040311

/-- a `Cursor`: the position (which may lie beyond the end) and the bytes from there on (`data.drop pos`) -/
structure Cur where
  rest : Bytes
  pos : Nat
deriving DecidableEq, Repr

/-- `seek(SeekFrom::Start(p))` -/
def Cur.at (data : Bytes) (p : Nat) : Cur := ⟨data.drop p, p⟩

/-- `read_exact` of `n` bytes: all or `Err` -/
def Cur.read (c : Cur) (n : Nat) : Outcome (Bytes × Cur) :=
  let t := c.rest.take n
  if t.length = n then .ok (t, ⟨c.rest.drop n, c.pos + n⟩) else .err

def Cur.u32 (c : Cur) : Outcome (Nat × Cur) := (c.read 4).map (fun (b, c) => (leNat b, c))
def Cur.u64 (c : Cur) : Outcome (Nat × Cur) := (c.read 8).map (fun (b, c) => (leNat b, c))
def Cur.big (c : Cur) : Outcome (Nat × Cur) := (c.read 32).map (fun (b, c) => (leNat b, c))

/-- `seek(SeekFrom::Current(len as i64))` on a `Cursor`: negative or overflowing targets are errors -/
def Cur.skip (data : Bytes) (c : Cur) (len : Nat) : Outcome Cur :=
  if len < 2 ^ 63 then
    (if c.pos + len < 2 ^ 64 then .ok ⟨c.rest.drop len, c.pos + len⟩ else .err)
  else
    (if 2 ^ 64 - len ≤ c.pos then .ok (Cur.at data (c.pos - (2 ^ 64 - len))) else .err)

structure Section where
  id : Nat
  pos : Nat
  size : Nat
deriving Repr, DecidableEq

/-- the loop of `BinFile::new`: `n` table entries, in file order -/
def readSections (data : Bytes) : Nat → Cur → List Section → Outcome (List Section × Cur)
  | 0, c, acc => .ok (acc.reverse, c)
  | n+1, c, acc =>
    match c.u32 with
    | .ok (id, c) =>
      match c.u64 with
      | .ok (len, c) =>
        match c.skip data len with
        | .ok c' => readSections data n c' (⟨id, c.pos, len % 2 ^ 64⟩ :: acc)
        | .err => .err | .panic => .panic
      | .err => .err | .panic => .panic
    | .err => .err | .panic => .panic

/-- is this byte string valid UTF-8? (only the four magic bytes are ever asked; ASCII, or any multi-byte
    form is decided by the caller's `utf8ok`) -/
def asciiOnly (b : Bytes) : Bool := b.all (fun x => x.toNat < 128)

/-- `BinFile::new`; `utf8ok` decides `from_utf8` on a magic that is not plain ASCII -/
def binFile (utf8ok : Bytes → Bool) (data : Bytes) : Outcome (List Section) :=
  let c : Cur := Cur.at data 0
  match c.read 4 with
  | .ok (magic, c) =>
    match c.u32 with
    | .ok (_version, c) =>
      match c.u32 with
      | .ok (n, c) =>
        match readSections data n c [] with
        | .ok (ss, _) => if asciiOnly magic || utf8ok magic then .ok ss else .panic
        | .err => .err | .panic => .panic
      | .err => .err | .panic => .panic
    | .err => .err | .panic => .panic
  | .err => .err | .panic => .panic

/-- `get_section(id)`: the FIRST section with that id; none is a panic -/
def getSection (ss : List Section) (id : Nat) : Outcome Section :=
  match ss.find? (fun s => s.id == id) with
  | some s => .ok s
  | none => .panic

/-- a G1 point as its two raw coordinates, a G2 point as its four -/
abbrev G1 := Nat × Nat
abbrev G2 := Nat × Nat × Nat × Nat

/-- `G1Affine::new` accepts exactly the points of `y² = x³ + 3` (cofactor 1); coordinates are Montgomery limbs -/
def g1OnCurve (p : G1) : Bool :=
  let x := p.1 * RqInv % Q
  let y := p.2 * RqInv % Q
  y * y % Q == (x * x % Q * x + 3) % Q

def readG1 (c : Cur) : Outcome (G1 × Cur) :=
  match c.big with
  | .ok (x, c) =>
    match c.big with
    | .ok (y, c) => if (x == 0 && y == 0) || g1OnCurve (x, y) then .ok ((x, y), c) else .panic
    | .err => .err | .panic => .panic
  | .err => .err | .panic => .panic

def readG2 (g2ok : G2 → Bool) (c : Cur) : Outcome (G2 × Cur) :=
  match c.big with
  | .ok (a, c) => match c.big with
    | .ok (b, c) => match c.big with
      | .ok (x, c) => match c.big with
        | .ok (y, c) =>
          if (a == 0 && b == 0 && x == 0 && y == 0) || g2ok (a, b, x, y) then .ok ((a, b, x, y), c) else .panic
        | .err => .err | .panic => .panic
      | .err => .err | .panic => .panic
    | .err => .err | .panic => .panic
  | .err => .err | .panic => .panic

def readG1Vec : Nat → Cur → List G1 → Outcome (List G1 × Cur)
  | 0, c, acc => .ok (acc.reverse, c)
  | n+1, c, acc => match readG1 c with
    | .ok (p, c) => readG1Vec n c (p :: acc)
    | .err => .err | .panic => .panic

def readG2Vec (g2ok : G2 → Bool) : Nat → Cur → List G2 → Outcome (List G2 × Cur)
  | 0, c, acc => .ok (acc.reverse, c)
  | n+1, c, acc => match readG2 g2ok c with
    | .ok (p, c) => readG2Vec g2ok n c (p :: acc)
    | .err => .err | .panic => .panic

structure Header where
  nVars : Nat
  nPublic : Nat
  domainSize : Nat
  alphaG1 : G1
  betaG1 : G1
  betaG2 : G2
  gammaG2 : G2
  deltaG1 : G1
  deltaG2 : G2

/-- `HeaderGroth::new`: seek to the section, then `n8q q n8r r n_vars n_public domain_size` and six points -/
def header (g2ok : G2 → Bool) (data : Bytes) (ss : List Section) : Outcome Header := do
  let s ← getSection ss 2
  let c : Cur := Cur.at data s.pos
  let (_n8q, c) ← c.u32
  let (_q, c) ← c.big
  let (_n8r, c) ← c.u32
  let (_r, c) ← c.big
  let (nVars, c) ← c.u32
  let (nPublic, c) ← c.u32
  let (dom, c) ← c.u32
  let (a1, c) ← readG1 c
  let (b1, c) ← readG1 c
  let (b2, c) ← readG2 g2ok c
  let (g2, c) ← readG2 g2ok c
  let (d1, c) ← readG1 c
  let (d2, _) ← readG2 g2ok c
  pure ⟨nVars, nPublic, dom, a1, b1, b2, g2, d1, d2⟩

def g1Section (data : Bytes) (ss : List Section) (num id : Nat) : Outcome (List G1) :=
  match getSection ss id with
  | .ok s => (readG1Vec (num % 2 ^ 32) (Cur.at data s.pos) []).map (·.1)
  | .err => .err | .panic => .panic

def g2Section (g2ok : G2 → Bool) (data : Bytes) (ss : List Section) (num id : Nat) : Outcome (List G2) :=
  match getSection ss id with
  | .ok s => (readG2Vec g2ok (num % 2 ^ 32) (Cur.at data s.pos) []).map (·.1)
  | .err => .err | .panic => .panic

structure PKey where
  hdr : Header
  ic : List G1
  a : List G1
  b1 : List G1
  b2 : List G2
  l : List G1
  h : List G1

/-- `usize` subtraction without overflow checks -/
def wsub (a b : Nat) : Nat := (a + 2 ^ 64 - b % 2 ^ 64) % 2 ^ 64

def provingKey (g2ok : G2 → Bool) (data : Bytes) (ss : List Section) : Outcome PKey := do
  let hd ← header g2ok data ss
  let ic ← g1Section data ss (hd.nPublic + 1) 3
  let a ← g1Section data ss hd.nVars 5
  let b1 ← g1Section data ss hd.nVars 6
  let b2 ← g2Section g2ok data ss hd.nVars 7
  let l ← g1Section data ss (wsub (wsub hd.nVars hd.nPublic) 1) 8
  let h ← g1Section data ss hd.domainSize 9
  pure ⟨hd, ic, a, b1, b2, l, h⟩

/-- one record of section 4 -/
structure Coef where
  matrix : Nat
  constraint : Nat
  signal : Nat
  /-- raw 256-bit value as stored -/
  raw : Nat
deriving Repr, DecidableEq

/-- one record: three `u32` and a 32-byte value -/
def readCoef (c : Cur) : Outcome (Coef × Cur) := do
  let (m, c) ← c.u32
  let (k, c) ← c.u32
  let (s, c) ← c.u32
  let (v, c) ← c.big
  pure (⟨m, k, s, v⟩, c)

/-- the value a stored coefficient stands for -/
def coefValue (raw : Nat) : Nat := raw * RInv2 % P

/-- a matrix under construction: one row per constraint of the domain -/
abbrev Rows := Array (List (Nat × Nat))

/-- `matrices[matrix][constraint].push((value, signal))`; out of range is a panic -/
def pushCoef (ab : Rows × Rows) (k : Coef) : Outcome (Rows × Rows) :=
  if k.matrix = 0 then
    (if k.constraint < ab.1.size then .ok (ab.1.modify k.constraint (· ++ [(coefValue k.raw, k.signal)]), ab.2) else .panic)
  else if k.matrix = 1 then
    (if k.constraint < ab.2.size then .ok (ab.1, ab.2.modify k.constraint (· ++ [(coefValue k.raw, k.signal)])) else .panic)
  else .panic

def pushAll : List Coef → Rows × Rows → Outcome (Rows × Rows)
  | [], ab => .ok ab
  | k :: ks, ab => match pushCoef ab k with
    | .ok ab' => pushAll ks ab'
    | .err => .err | .panic => .panic

structure Matrices where
  numInstance : Nat
  numWitness : Nat
  numConstraints : Nat
  aNonZero : Nat
  bNonZero : Nat
  a : List (List (Nat × Nat))
  b : List (List (Nat × Nat))
deriving Repr, DecidableEq

def maxConstraint (ks : List Coef) : Nat := ks.foldl (fun m k => max m k.constraint) 0

/-- the part of `matrices()` after the records have been read.  In the code reading and pushing alternate, so an
    out-of-range record seen BEFORE a short read panics and one after it is never reached: `coefs` is the list of
    records read before the first failure and `short` says whether a failure ended it -/
def buildMatrices (hd : Header) (coefs : List Coef) : Outcome Matrices :=
  match pushAll coefs (Array.replicate hd.domainSize [], Array.replicate hd.domainSize []) with
  | .ok (a, b) =>
    let nc := wsub (maxConstraint coefs) hd.nPublic
    let a' := a.toList.take nc
    let b' := b.toList.take nc
    .ok ⟨(hd.nPublic + 1) % 2 ^ 64, wsub hd.nVars hd.nPublic, nc,
         (a'.map List.length).sum, (b'.map List.length).sum, a', b'⟩
  | .err => .err | .panic => .panic

/-- records are read one at a time; the prefix read before a short read is still pushed first -/
def readCoefsPrefix : Nat → Cur → List Coef → List Coef × Bool
  | 0, _, acc => (acc.reverse, false)
  | n+1, c, acc =>
    match readCoef c with
    | .ok (k, c) => readCoefsPrefix n c (k :: acc)
    | _ => (acc.reverse, true)

def matrices (g2ok : G2 → Bool) (data : Bytes) (ss : List Section) : Outcome Matrices := do
  let hd ← header g2ok data ss
  let s ← getSection ss 4
  let (n, c) ← (Cur.at data s.pos).u32
  let (coefs, short) := readCoefsPrefix n c []
  let _ ← pushAll coefs (Array.replicate hd.domainSize [], Array.replicate hd.domainSize [])
  if short then .err else buildMatrices hd coefs

/-- `read_zkey` -/
def readZkey (utf8ok : Bytes → Bool) (g2ok : G2 → Bool) (data : Bytes) : Outcome (PKey × Matrices) := do
  let ss ← binFile utf8ok data
  let pk ← provingKey g2ok data ss
  let m ← matrices g2ok data ss
  pure (pk, m)

/-! ## canonical digest for the correspondence run -/

def mix (acc x : Nat) : Nat := (acc * 1000003 + x + 1) % P
def mixG1 (acc : Nat) (p : G1) : Nat := mix (mix acc p.1) p.2
def mixG2 (acc : Nat) (p : G2) : Nat := mix (mix (mix (mix acc p.1) p.2.1) p.2.2.1) p.2.2.2
def mixRows (acc : Nat) (rows : List (List (Nat × Nat))) : Nat :=
  rows.foldl (fun acc row => row.foldl (fun acc e => mix (mix acc e.1) e.2) (mix acc row.length)) acc

def digest (pk : PKey) (m : Matrices) : String :=
  let d := mixG2 (mixG1 (mixG2 (mixG2 (mixG1 (mixG1 0 pk.hdr.alphaG1) pk.hdr.betaG1) pk.hdr.betaG2) pk.hdr.gammaG2) pk.hdr.deltaG1) pk.hdr.deltaG2
  let d := pk.ic.foldl mixG1 (mix d pk.ic.length)
  let d := pk.a.foldl mixG1 (mix d pk.a.length)
  let d := pk.b1.foldl mixG1 (mix d pk.b1.length)
  let d := pk.b2.foldl mixG2 (mix d pk.b2.length)
  let d := pk.l.foldl mixG1 (mix d pk.l.length)
  let d := pk.h.foldl mixG1 (mix d pk.h.length)
  let e := mixRows (mixRows 0 m.a) m.b
  s!"ok inst={m.numInstance} wit={m.numWitness} nc={m.numConstraints} annz={m.aNonZero} bnnz={m.bNonZero} rows={m.a.length},{m.b.length} pk={hexOfNat d} mat={hexOfNat e}"

def run (data : Bytes) : String :=
  match readZkey (fun _ => false) (fun _ => true) data with
  | .ok (pk, m) => digest pk m
  | .err => "err"
  | .panic => "panic"

end Zk.Zkey
