import Std.Data.HashMap
/-!
# Finite maps behind a small interface

Models of `HashMap`-based code are written against `MapLike`; theorems hold for every lawful
instance. The driver uses `Std.HashMap`; kernel-evaluated witnesses use association lists.
-/
namespace Zk

class MapLike (M : Type) (K : outParam Type) (V : outParam Type) where
  empty : M
  get? : M → K → Option V
  insert : M → K → V → M

class LawfulMapLike (M : Type) (K : outParam Type) (V : outParam Type) [DecidableEq K] [MapLike M K V] : Prop where
  get?_empty : ∀ k : K, MapLike.get? (MapLike.empty : M) k = none
  get?_insert : ∀ (m : M) (k k' : K) (v : V),
    MapLike.get? (MapLike.insert m k v) k' = if k = k' then some v else MapLike.get? m k'

/-- association list, newest binding first -/
structure AList (K V : Type) where
  l : List (K × V)

instance {K V : Type} [BEq K] : MapLike (AList K V) K V where
  empty := ⟨[]⟩
  get? m k := m.l.lookup k
  insert m k v := ⟨(k, v) :: m.l⟩

instance {K V : Type} [DecidableEq K] : LawfulMapLike (AList K V) K V where
  get?_empty := by intro k; rfl
  get?_insert := by
    intro m k k' v
    show List.lookup k' ((k, v) :: m.l) = _
    simp only [List.lookup]
    by_cases h : k = k'
    · subst h; simp
    · have : (k' == k) = false := by simp [Ne.symm h]
      simp only [this, h, if_false]
      rfl

instance {K V : Type} [BEq K] [Hashable K] : MapLike (Std.HashMap K V) K V where
  empty := {}
  get? m k := m[k]?
  insert m k v := m.insert k v

instance {K V : Type} [DecidableEq K] [Hashable K] [LawfulHashable K] :
    LawfulMapLike (Std.HashMap K V) K V where
  get?_empty := by intro k; show (∅ : Std.HashMap K V)[k]? = none; simp
  get?_insert := by
    intro m k k' v
    show (m.insert k v)[k']? = _
    rw [Std.HashMap.getElem?_insert]
    by_cases h : k = k'
    · simp [h]
    · simp only [beq_iff_eq, h, if_false]
      rfl

end Zk
