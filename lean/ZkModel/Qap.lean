import ZkModel.Basic
/-!
# ZkModel.Qap — `CircomReduction::witness_map_from_matrices` (`rln/src/circuit/qap.rs:26-103`; C18, C01)

Model: the code's pipeline as it is — rows of A and B evaluated on the assignment, the public inputs appended to `a`,
`c = a ∘ b` on the constraint rows, then for each of the three vectors inverse transform on the domain of size `n`, scaling
of coefficient `i` by `g^i` (`g` = the generator of the domain of size `2n`), forward transform, and `a·b − c` cell by cell.
The domain transforms themselves are ark-poly's (not zerokit's): they are modelled by their DEFINITION (the discrete Fourier
transform written out, O(n²)), which is their contract.

Specification: the sentence in the doc comment of `CircomReduction` — "the odd coefficients of (AB − C) in a domain twice as
large": `h_i = A(g·ωⁱ)·B(g·ωⁱ) − C(g·ωⁱ)`, where `A`, `B`, `C` are the polynomials of degree `< n` through the row values,
written with LAGRANGE interpolation (no transform at all).

Both are executable; the C18 stream `qap` runs the real `witness_map_from_matrices` on small matrices against both.
-/
namespace Zk.Qap

/-- `Fr::TWO_ADIC_ROOT_OF_UNITY` of BN254 (order 2^28) -/
def twoAdicRoot : Nat := 19103219067921713944291392827692070036145651957329286315305642004821462161904

/-- smallest `k` with `2^k ≥ n` (`n.next_power_of_two().trailing_zeros()`), searched up to 64 -/
def logSize (n : Nat) : Nat := ((List.range 65).find? (fun k => n ≤ 2 ^ k)).getD 64

/-- generator of the radix-2 domain of size `2^k` (`k ≤ 28`) -/
def omega (k : Nat) : Nat := powMod twoAdicRoot (2 ^ (28 - k)) P

def sumF (l : List Nat) : Nat := l.foldl fadd 0

/-- discrete Fourier transform with root `w`: `out_i = Σ_j x_j · w^(i·j)` -/
def dft (w : Nat) (xs : List Nat) : List Nat :=
  (List.range xs.length).map (fun i => sumF (xs.mapIdx (fun j x => fmul x (powMod w (i * j) P))))

/-- `domain.fft_in_place` -/
def fft (k : Nat) (xs : List Nat) : List Nat := dft (omega k) xs
/-- `domain.ifft_in_place` -/
def ifft (k : Nat) (xs : List Nat) : List Nat := (dft (finv (omega k)) xs).map (fun v => fmul v (finv (xs.length % P)))
/-- `distribute_powers_and_mul_by_const(v, g, 1)` -/
def distribute (g : Nat) (xs : List Nat) : List Nat := xs.mapIdx (fun i x => fmul x (powMod g i P))

/-- `evaluate_constraint(terms, assignment)`: an index outside the assignment is a panic -/
def evalRow (w : List Nat) : List (Nat × Nat) → Outcome Nat
  | [] => .ok 0
  | (c, i) :: r =>
    match w[i]?, evalRow w r with
    | some v, .ok acc => .ok (fadd (fmul c v) acc)
    | none, _ => .panic
    | _, o => o

def evalRows (w : List Nat) : List (List (Nat × Nat)) → Outcome (List Nat)
  | [] => .ok []
  | r :: rs => match evalRow w r, evalRows w rs with
    | .ok v, .ok vs => .ok (v :: vs)
    | .panic, _ => .panic
    | _, .panic => .panic
    | _, _ => .err

def padTo (n : Nat) (l : List Nat) : List Nat := l ++ List.replicate (n - l.length) 0

/-- the vectors `a`, `b`, `c` of the evaluation domain before any transform, and the domain's log-size -/
def rowsOf (A B : List (List (Nat × Nat))) (numInputs numConstraints : Nat) (w : List Nat) :
    Outcome (Nat × List Nat × List Nat × List Nat) :=
  let k := logSize (numConstraints + numInputs)
  if k > 28 then .err else
  let n := 2 ^ k
  -- the zip stops at the shorter of `a[..nc]`, `b[..nc]`, `matrices.a`, `matrices.b`
  let m := min numConstraints (min A.length B.length)
  match evalRows w (A.take m), evalRows w (B.take m) with
  | .ok av, .ok bv =>
    if numInputs ≤ w.length then
      let a := padTo n (padTo numConstraints av ++ w.take numInputs)
      let b := padTo n bv
      let c := padTo n ((List.zipWith fmul a b).take numConstraints)
      .ok (k, a, b, c)
    else .panic
  | .panic, _ => .panic
  | _, .panic => .panic
  | _, _ => .err

/-- MODEL: the pipeline of the code -/
def witnessMap (A B : List (List (Nat × Nat))) (numInputs numConstraints : Nat) (w : List Nat) : Outcome (List Nat) :=
  match rowsOf A B numInputs numConstraints w with
  | .ok (k, a, b, c) =>
    if k + 1 > 28 then .err else
    let g := omega (k + 1)
    let shift := fun v => fft k (distribute g (ifft k v))
    .ok (List.zipWith fsub (List.zipWith fmul (shift a) (shift b)) (shift c))
  | .err => .err
  | .panic => .panic

/-- Lagrange interpolation through `(ωʲ, e_j)`, evaluated at `x` -/
def lagrangeEval (om : Nat) (es : List Nat) (x : Nat) : Nat :=
  let n := es.length
  sumF (es.mapIdx (fun kk e =>
    let xk := powMod om kk P
    let num := (List.range n).foldl (fun acc j => if j = kk then acc else fmul acc (fsub x (powMod om j P))) 1
    let den := (List.range n).foldl (fun acc j => if j = kk then acc else fmul acc (fsub xk (powMod om j P))) 1
    fmul e (fdiv num den)))

/-- SPECIFICATION: `(A·B − C)` at the odd points of the domain twice as large -/
def witnessMapSpec (A B : List (List (Nat × Nat))) (numInputs numConstraints : Nat) (w : List Nat) : Outcome (List Nat) :=
  match rowsOf A B numInputs numConstraints w with
  | .ok (k, a, b, c) =>
    if k + 1 > 28 then .err else
    let om := omega k
    let g := omega (k + 1)
    .ok ((List.range (2 ^ k)).map (fun i =>
      let x := fmul g (powMod om i P)
      fsub (fmul (lagrangeEval om a x) (lagrangeEval om b x)) (lagrangeEval om c x)))
  | .err => .err
  | .panic => .panic

end Zk.Qap
