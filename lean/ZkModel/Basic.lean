/-!
# ZkModel.Basic — outcomes, the BN254 scalar field as `Nat` arithmetic, bytes.

Core Lean only (no Mathlib): everything here also compiles into the native
driver `zkmodel`.
-/

namespace Zk

/-- Three-way result of a modelled Rust call: `Ok v`, `Err _`, or a panic/abort. -/
inductive Outcome (α : Type) where
  | ok (a : α)
  | err
  | panic
deriving Repr, DecidableEq, Inhabited

namespace Outcome
def bind {α β : Type} (o : Outcome α) (f : α → Outcome β) : Outcome β :=
  match o with
  | ok a => f a
  | err => err
  | panic => panic
def map {α β : Type} (f : α → β) (o : Outcome α) : Outcome β :=
  match o with
  | ok a => ok (f a)
  | err => err
  | panic => panic
def isOk {α : Type} : Outcome α → Bool
  | ok _ => true
  | _ => false
instance : Monad Outcome where
  pure := ok
  bind := bind
end Outcome

/-- BN254 scalar field modulus (`ark_bn254::Fr::MODULUS`, `graph.rs::M`). -/
def P : Nat := 21888242871839275222246405745257275088548364400416034343698204186575808495617

theorem P_pos : 0 < P := by decide

/-! ## Field arithmetic on canonical representatives (`Nat` below `P`) -/

def fadd (a b : Nat) : Nat := (a + b) % P
def fsub (a b : Nat) : Nat := (a + (P - b % P)) % P
def fmul (a b : Nat) : Nat := (a * b) % P
def fneg (a : Nat) : Nat := (P - a % P) % P

/-- Square-and-multiply with structural fuel, so the kernel can evaluate it. -/
def powModAux : Nat → Nat → Nat → Nat → Nat → Nat
  | 0, _, _, _, acc => acc
  | fuel+1, b, e, m, acc =>
    if e = 0 then acc else
    powModAux fuel (b*b % m) (e/2) m (if e % 2 = 1 then acc*b % m else acc)

def powMod (b e m : Nat) : Nat := powModAux 256 (b % m) e m (1 % m)

/-- Field inverse by Fermat (`0 ↦ 0`). -/
def finv (a : Nat) : Nat := powMod a (P - 2) P

/-- `a / b` in the field; the *code* decides separately what to do when `b = 0`. -/
def fdiv (a b : Nat) : Nat := fmul a (finv b)

/-! ## Bytes -/

/-- little-endian bytes → Nat -/
def leNat : List UInt8 → Nat
  | [] => 0
  | b :: r => b.toNat + 256 * leNat r

/-- Nat → exactly `n` little-endian bytes (truncating) -/
def natLE : Nat → Nat → List UInt8
  | 0, _ => []
  | n+1, v => (v % 256).toUInt8 :: natLE n (v / 256)

/-- big-endian bytes → Nat -/
def beNat (l : List UInt8) : Nat := l.foldl (fun acc b => acc * 256 + b.toNat) 0

/-! ## Hex (driver I/O) -/

def hexDigit (n : Nat) : Char :=
  if n < 10 then Char.ofNat (48 + n) else Char.ofNat (87 + n)

def hexOfNat (n : Nat) : String :=
  "0x" ++ String.ofList (Nat.toDigits 16 n)

def hexByte (b : UInt8) : String :=
  String.ofList [hexDigit (b.toNat / 16), hexDigit (b.toNat % 16)]

def hexOfBytes (bs : List UInt8) : String :=
  bs.foldl (fun s b => s ++ hexByte b) ""

def hexVal (c : Char) : Option Nat :=
  if '0' ≤ c ∧ c ≤ '9' then some (c.toNat - 48)
  else if 'a' ≤ c ∧ c ≤ 'f' then some (c.toNat - 87)
  else if 'A' ≤ c ∧ c ≤ 'F' then some (c.toNat - 55)
  else none

def parseHexNat (s : String) : Option Nat :=
  let cs := if s.startsWith "0x" then (s.drop 2).toString.toList else s.toList
  if cs.isEmpty then none else
  cs.foldl (fun acc c => match acc, hexVal c with
    | some a, some v => some (a * 16 + v)
    | _, _ => none) (some 0)

/-- "-" is the empty byte string; otherwise an even number of hex digits. -/
def parseHexBytes (s : String) : Option (List UInt8) :=
  if s == "-" then some [] else
  let rec go : List Char → List UInt8 → Option (List UInt8)
    | [], acc => some acc.reverse
    | [_], _ => none
    | a :: b :: r, acc =>
      match hexVal a, hexVal b with
      | some x, some y => go r ((x * 16 + y).toUInt8 :: acc)
      | _, _ => none
  go s.toList []

def showBytes (bs : List UInt8) : String := if bs.isEmpty then "-" else hexOfBytes bs

end Zk
