import ZkModel.Basic
/-!
# Keccak-256 (pre-standard `0x01` padding, as `tiny_keccak::Keccak::v256`)

Written from FIPS-202 / the Keccak reference: 1600-bit state as 25 lanes,
24 rounds of θ ρ π χ ι, rate 136 bytes, output 32 bytes. tiny-keccak is a
dependency of zerokit, so there is no repo code to mirror here; this is the
specification, tied to the implementation by the correspondence run (C09, C14).
-/
namespace Zk.Keccak

def RC : Array UInt64 := #[
  0x0000000000000001, 0x0000000000008082, 0x800000000000808A, 0x8000000080008000,
  0x000000000000808B, 0x0000000080000001, 0x8000000080008081, 0x8000000000008009,
  0x000000000000008A, 0x0000000000000088, 0x0000000080008009, 0x000000008000000A,
  0x000000008000808B, 0x800000000000008B, 0x8000000000008089, 0x8000000000008003,
  0x8000000000008002, 0x8000000000000080, 0x000000000000800A, 0x800000008000000A,
  0x8000000080008081, 0x8000000000008080, 0x0000000080000001, 0x8000000080008008]

/-- rotation offsets r[x][y] indexed by x + 5*y -/
def ROT : Array Nat := #[0,1,62,28,27, 36,44,6,55,20, 3,10,43,25,39, 41,45,15,21,8, 18,2,61,56,14]

def rotl (x : UInt64) (n : Nat) : UInt64 :=
  if n % 64 = 0 then x else (x <<< (n % 64).toUInt64) ||| (x >>> (64 - n % 64).toUInt64)

def round (a : Array UInt64) (rc : UInt64) : Array UInt64 := Id.run do
  -- theta
  let c := (Array.range 5).map fun x => a[x]! ^^^ a[x+5]! ^^^ a[x+10]! ^^^ a[x+15]! ^^^ a[x+20]!
  let d := (Array.range 5).map fun x => c[(x+4)%5]! ^^^ rotl c[(x+1)%5]! 1
  let a1 := (Array.range 25).map fun i => a[i]! ^^^ d[i%5]!
  -- rho + pi : B[y, 2x+3y] = rot(A[x,y])
  let mut b : Array UInt64 := Array.replicate 25 0
  for x in [0:5] do
    for y in [0:5] do
      b := b.set! (y + 5*((2*x+3*y)%5)) (rotl a1[x+5*y]! ROT[x+5*y]!)
  -- chi
  let a2 := (Array.range 25).map fun i => let x := i%5; let y := i/5
    b[i]! ^^^ ((~~~ b[(x+1)%5 + 5*y]!) &&& b[(x+2)%5 + 5*y]!)
  -- iota
  return a2.set! 0 (a2[0]! ^^^ rc)

def f1600 (a : Array UInt64) : Array UInt64 := RC.foldl round a

def absorbBlock (st : Array UInt64) (blk : List UInt8) : Array UInt64 := Id.run do
  let b := blk.toArray
  let mut st := st
  for i in [0:17] do
    let mut w : UInt64 := 0
    for j in [0:8] do w := w ||| ((b[8*i+j]!).toUInt64 <<< (8*j).toUInt64)
    st := st.set! i (st[i]! ^^^ w)
  return f1600 st

/-- multi-rate padding with the original Keccak domain byte `0x01` -/
def pad (msg : List UInt8) : List UInt8 :=
  let q := 136 - msg.length % 136
  if q = 1 then msg ++ [0x81] else msg ++ [0x01] ++ List.replicate (q-2) 0 ++ [0x80]

def chunksAux : Nat → List UInt8 → List (List UInt8)
  | 0, _ => []
  | f+1, l => if l.isEmpty then [] else l.take 136 :: chunksAux f (l.drop 136)

def chunks (l : List UInt8) : List (List UInt8) := chunksAux (l.length + 1) l

def keccak256 (msg : List UInt8) : List UInt8 :=
  let st := (chunks (pad msg)).foldl absorbBlock (Array.replicate 25 (0:UInt64))
  (List.range 32).map fun k => ((st[k/8]! >>> (8*(k%8)).toUInt64) &&& 0xff).toUInt8

end Zk.Keccak
