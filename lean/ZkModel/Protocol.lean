import ZkModel.Basic
import ZkModel.Hashers
import ZkModel.Codec
/-!
# `rln/src/protocol.rs` — witness, proof values, byte layouts, secret recovery

Model of the code as it is (after the `fix:` commits). The Poseidon hash is a parameter
`H : List Nat → Nat` (`rln::hashers::poseidon_hash`, total on 1…8 inputs — C09) and so is the
signal hash `h2f`; the driver instantiates them with the Lean Poseidon / Keccak.
-/
namespace Zk.Protocol
open Zk.Codec

structure Witness where
  identitySecret : Nat
  userMessageLimit : Nat
  messageId : Nat
  pathElements : List Nat
  identityPathIndex : List UInt8
  x : Nat
  externalNullifier : Nat
deriving DecidableEq, Repr, Inhabited

structure ProofValues where
  y : Nat
  nullifier : Nat
  root : Nat
  x : Nat
  externalNullifier : Nat
deriving DecidableEq, Repr, Inhabited

/-- `message_id_range_check` (after the `fix:` commit): `Err` unless `message_id < user_message_limit` -/
def messageIdRangeCheck (messageId limit : Nat) : Outcome Unit :=
  if messageId ≥ limit then .err else .ok ()

/-- `serialize_witness` -/
def serializeWitness (w : Witness) : Outcome (List UInt8) :=
  match messageIdRangeCheck w.messageId w.userMessageLimit with
  | .ok _ =>
    .ok (frToBytesLe w.identitySecret ++ frToBytesLe w.userMessageLimit ++ frToBytesLe w.messageId ++
         vecFrToBytesLe w.pathElements ++ vecU8ToBytesLe w.identityPathIndex ++
         frToBytesLe w.x ++ frToBytesLe w.externalNullifier)
  | .err => .err
  | .panic => .panic

def fr32 (bs : List UInt8) (off : Nat) : Nat := leNat ((bs.drop off).take 32) % P

/-- `deserialize_witness` (after the `fix:` commit) -/
def deserializeWitness (bs : List UInt8) : Outcome (Witness × Nat) :=
  if bs.length < 96 then .err else
  let s := fr32 bs 0
  let lim := fr32 bs 32
  let mid := fr32 bs 64
  match messageIdRangeCheck mid lim with
  | .err => .err
  | .panic => .panic
  | .ok _ =>
  match bytesLeToVecFr (bs.drop 96) with
  | .err => .err
  | .panic => .panic
  | .ok (path, r1) =>
  match bytesLeToVecU8 (bs.drop (96 + r1)) with
  | .err => .err
  | .panic => .panic
  | .ok (idx, r2) =>
  let off := 96 + r1 + r2
  if bs.length - off ≠ 64 then .err else
  .ok ({ identitySecret := s, userMessageLimit := lim, messageId := mid, pathElements := path,
         identityPathIndex := idx, x := fr32 bs off, externalNullifier := fr32 bs (off + 32) }, off + 64)

/-- `compute_tree_root`: fold the rate commitment along the path; a direction byte other than 0
    is treated as 1; indexing `path_elements[i]` panics when the path is shorter than the index list -/
def foldPath (H : List Nat → Nat) : Nat → List Nat → List UInt8 → Outcome Nat
  | acc, _, [] => .ok acc
  | _, [], _ :: _ => .panic
  | acc, e :: es, b :: bs => foldPath H (if b = 0 then H [acc, e] else H [e, acc]) es bs

def computeTreeRoot (H : List Nat → Nat) (secret limit : Nat) (path : List Nat) (idx : List UInt8) : Outcome Nat :=
  foldPath H (H [H [secret], limit]) path idx

/-- `proof_values_from_witness` -/
def proofValuesFromWitness (H : List Nat → Nat) (w : Witness) : Outcome ProofValues :=
  match messageIdRangeCheck w.messageId w.userMessageLimit with
  | .err => .err
  | .panic => .panic
  | .ok _ =>
    let a1 := H [w.identitySecret, w.externalNullifier, w.messageId]
    match computeTreeRoot H w.identitySecret w.userMessageLimit w.pathElements w.identityPathIndex with
    | .ok root => .ok { y := fadd w.identitySecret (fmul w.x a1), nullifier := H [a1], root := root,
                        x := w.x, externalNullifier := w.externalNullifier }
    | .err => .err
    | .panic => .panic

/-- `serialize_proof_values`: `[ root | external_nullifier | x | y | nullifier ]` -/
def serializeProofValues (v : ProofValues) : List UInt8 :=
  frToBytesLe v.root ++ frToBytesLe v.externalNullifier ++ frToBytesLe v.x ++ frToBytesLe v.y ++ frToBytesLe v.nullifier

/-- `deserialize_proof_values`: panics when fewer than 160 bytes; values `≥ P` are reduced -/
def deserializeProofValues (bs : List UInt8) : Outcome (ProofValues × Nat) :=
  if bs.length < 160 then .panic else
  .ok ({ root := fr32 bs 0, externalNullifier := fr32 bs 32, x := fr32 bs 64, y := fr32 bs 96, nullifier := fr32 bs 128 }, 160)

/-- `prepare_prove_input` -/
def prepareProveInput (secret idIndex limit messageId extNull : Nat) (signal : List UInt8) : List UInt8 :=
  frToBytesLe secret ++ normalizeUsize idIndex ++ frToBytesLe limit ++ frToBytesLe messageId ++
  frToBytesLe extNull ++ normalizeUsize signal.length ++ signal

/-- `prepare_verify_input` -/
def prepareVerifyInput (proofData signal : List UInt8) : List UInt8 :=
  proofData ++ normalizeUsize signal.length ++ signal

/-- `proof_inputs_to_rln_witness` (after the `fix:` commits); `treeProof i` is the tree's
    `proof(i)` as `(sibling, bit)` pairs. Does NOT run the message-id check (the callers do). -/
def proofInputsToWitness (h2f : List UInt8 → Nat) (treeProof : Nat → Outcome (List (Nat × Nat)))
    (bs : List UInt8) : Outcome (Witness × Nat) :=
  if bs.length < 144 then .err else
  let secret := fr32 bs 0
  let idIndex := leNat ((bs.drop 32).take 8)
  let limit := fr32 bs 40
  let mid := fr32 bs 72
  let ext := fr32 bs 104
  let slen := leNat ((bs.drop 136).take 8)
  if slen > bs.length - 144 then .err else
  let signal := (bs.drop 144).take slen
  match treeProof idIndex with
  | .err => .err
  | .panic => .panic
  | .ok p =>
    .ok ({ identitySecret := secret, userMessageLimit := limit, messageId := mid,
           pathElements := p.map (·.1), identityPathIndex := p.map (fun x => x.2.toUInt8),
           x := h2f signal, externalNullifier := ext }, 144)

/-- `compute_id_secret` (after the `fix:` commit) -/
def computeIdSecret (x1 y1 x2 y2 : Nat) : Outcome Nat :=
  if x1 = x2 then .err else
  let a1 := fdiv (fsub y1 y2) (fsub x1 x2)
  .ok (fsub y1 (fmul x1 a1))

/-- `inputs_for_witness_calculation`: the seven named input vectors in the order of the source -/
def inputsForWitnessCalculation (w : Witness) : Outcome (List (String × List Nat)) :=
  match messageIdRangeCheck w.messageId w.userMessageLimit with
  | .err => .err
  | .panic => .panic
  | .ok _ => .ok [("identitySecret", [w.identitySecret]), ("userMessageLimit", [w.userMessageLimit]),
                  ("messageId", [w.messageId]), ("pathElements", w.pathElements),
                  ("identityPathIndex", w.identityPathIndex.map (·.toNat)), ("x", [w.x]),
                  ("externalNullifier", [w.externalNullifier])]

/-! ## Specification side -/

/-- RLN-v2 relation of the circuit (DEPTH = 20, LIMIT_BIT_SIZE = 16), written from `rln.circom`:
    `Num2Bits(16)(messageId)`, `LessThan(16)([messageId, limit]) = 1` i.e.
    `messageId + 2^16 - limit` fits 17 bits with bit 16 clear, binary direction values, path of
    the tree's depth. -/
def CircuitSat (depth : Nat) (w : Witness) : Prop :=
  w.messageId < 2 ^ 16 ∧ w.messageId < w.userMessageLimit ∧ w.userMessageLimit ≤ w.messageId + 2 ^ 16 ∧
  w.pathElements.length = depth ∧ w.identityPathIndex.length = depth ∧
  (∀ b ∈ w.identityPathIndex, b = 0 ∨ b = 1)

instance (depth : Nat) (w : Witness) : Decidable (CircuitSat depth w) := by
  unfold CircuitSat; exact inferInstance

/-- the documented formulas: `y = s + x·H(s,e,m)`, `nullifier = H(H(s,e,m))`,
    `root` = the ideal path recomputation from the rate commitment `H(H(s), limit)` -/
def specRoot (H : List Nat → Nat) (leaf : Nat) : List Nat → List UInt8 → Nat
  | [], _ => leaf
  | _, [] => leaf
  | e :: es, b :: bs => specRoot H (if b = 0 then H [leaf, e] else H [e, leaf]) es bs

def specProofValues (H : List Nat → Nat) (w : Witness) : ProofValues :=
  let a1 := H [w.identitySecret, w.externalNullifier, w.messageId]
  { y := (w.identitySecret + w.x * a1) % P, nullifier := H [a1],
    root := specRoot H (H [H [w.identitySecret], w.userMessageLimit]) w.pathElements w.identityPathIndex,
    x := w.x, externalNullifier := w.externalNullifier }

end Zk.Protocol
