import ZkModel.Basic
import ZkModel.Keccak
import ZkModel.Poseidon
import ZkModel.Generated.RoundParams
/-!
# `rln/src/hashers.rs` and the field codec of `rln/src/utils.rs`
-/
namespace Zk

/-- `fr_byte_size()` = 32 for BN254 -/
def FR_BYTES : Nat := 32

/-- `bytes_le_to_fr(input)`: slices `input[0..32]` (panics when shorter), little-endian integer,
    reduced modulo `P` (`Fr::from(BigUint)` reduces silently). Returns value and bytes read. -/
def bytesLeToFr (input : List UInt8) : Outcome (Nat × Nat) :=
  if input.length < FR_BYTES then .panic
  else .ok (leNat (input.take FR_BYTES) % P, FR_BYTES)

/-- `fr_to_bytes_le` -/
def frToBytesLe (v : Nat) : List UInt8 := natLE FR_BYTES v

/-- `hash_to_field` (model): Keccak-256, then `bytes_le_to_fr`. -/
def hashToField (signal : List UInt8) : Nat :=
  match bytesLeToFr (Keccak.keccak256 signal) with
  | .ok (v, _) => v
  | _ => 0   -- unreachable: the digest has 32 bytes (`keccak256_length`)

/-- `hash_to_field` (specification): Keccak-256 digest read as a little-endian integer mod `P`. -/
def hashToFieldSpec (signal : List UInt8) : Nat := leNat (Keccak.keccak256 signal) % P

/-- circomlib's number of partial rounds for `t = 2 … 17` (`N_ROUNDS_P` in `poseidon.circom`) -/
def circomlibRP : List Nat := [56, 57, 56, 60, 60, 63, 64, 63, 60, 66, 60, 65, 70, 60, 64, 68]

/-- circomlib parameters for width `t`: RF = 8, RP from the table, first Cauchy matrix. -/
def circomlibParams (t : Nat) : Option (Nat × Nat × Nat × Nat) :=
  if 2 ≤ t ∧ t ≤ 17 then some (t, 8, circomlibRP.getD (t - 2) 0, 0) else none

end Zk
