import ZkModel.Tree.Pm
/-!
# Schedule independence of the data-parallel parts (C18)

* pmtree's `batch_recalculate` runs the two recursive calls of every node under `rayon::join` on a
  map shared behind a lock. `valOf` / `writesOf` describe what each task reads and writes in terms of
  the map *before* the batch: values flow through the join results, every task writes only its own
  key, and the keys read from the map are never written. The theorems (ZkProofs/C18) say that the
  sequential model `batchRecalc` returns `valOf` and that writing `writesOf` back in ANY order gives
  the map it produces.
* `witness_map_from_matrices` (qap.rs) fills vectors cell by cell with `cfg_iter_mut!`; `parFill` is
  a fill in an arbitrary order of the cells.
-/
namespace Zk.Par
open Zk.Tree

variable {α : Type} [Inhabited α] {S : Type} [MapLike S (Nat × Nat) α]

/-- the value task `(d, i)` returns, computed from the initial map only -/
def valOf (H : α → α → α) (sub0 : S) : Nat → Nat → Nat → Option α
  | 0, d, i => MapLike.get? sub0 (d, i)
  | f+1, d, i =>
    match MapLike.get? sub0 (d + 1, 2 * i) with
    | none => MapLike.get? sub0 (d, i)
    | some _ =>
      match valOf H sub0 f (d + 1) (2 * i), valOf H sub0 f (d + 1) (2 * i + 1) with
      | some l, some r => some (H l r)
      | _, _ => none

/-- the writes `(key, value)` performed by the task tree below `(d, i)`, children before parents,
    left before right (one of the possible completion orders) -/
def writesOf (H : α → α → α) (sub0 : S) : Nat → Nat → Nat → List ((Nat × Nat) × α)
  | 0, _, _ => []
  | f+1, d, i =>
    match MapLike.get? sub0 (d + 1, 2 * i) with
    | none => []
    | some _ =>
      match valOf H sub0 (f + 1) d i with
      | some v => writesOf H sub0 f (d + 1) (2 * i) ++ writesOf H sub0 f (d + 1) (2 * i + 1) ++ [((d, i), v)]
      | none => []

/-- apply a list of writes in the given order -/
def applyWrites (m : S) (ws : List ((Nat × Nat) × α)) : S := ws.foldl (fun m w => MapLike.insert m w.1 w.2) m

/-- fill cells `idx` of a vector with `f idx` in the order given (a `cfg_iter_mut!().for_each` under any schedule) -/
def parFill {β : Type} (f : Nat → β) (order : List Nat) (v : Array β) : Array β :=
  order.foldl (fun a i => a.setIfInBounds i (f i)) v

end Zk.Par

namespace Zk.Retry
/-!
# `SledDB::new_with_tries` — retry on a busy database file (C18)
-/

inductive OpenResult where
  | ok | wouldBlock | otherError
deriving DecidableEq, Repr

structure Result where
  success : Bool
  /-- number of `config.open()` calls made -/
  attempts : Nat
  /-- total milliseconds slept -/
  sleptMs : Nat
deriving DecidableEq, Repr

/-- `new_with_tries(config, tries)`: gives up at `tries >= 10`; `outcomes k` is what the `k`-th open returns;
    `fuel` bounds the recursion (11 suffices) -/
def newWithTries (outcomes : Nat → OpenResult) : Nat → Nat → Result → Result
  | 0, _, acc => { acc with success := false }
  | fuel+1, tries, acc =>
    if tries ≥ 10 then { acc with success := false } else
    match outcomes tries with
    | .ok => { acc with success := true, attempts := acc.attempts + 1 }
    | .wouldBlock => newWithTries outcomes fuel (tries + 1) { acc with attempts := acc.attempts + 1, sleptMs := acc.sleptMs + 10 ^ tries }
    | .otherError => { acc with success := false, attempts := acc.attempts + 1 }

def open_ (outcomes : Nat → OpenResult) : Result := newWithTries outcomes 11 0 ⟨false, 0, 0⟩

/-!
## Re-opening an existing tree: `PmTree::new` = `MerkleTree::load` or else `MerkleTree::new`

`PmTree::new` (rln/src/pm_tree_adapter.rs) first tries `pmtree::MerkleTree::load`, whose first step is `SledDB::load`,
and on ANY error falls back to `pmtree::MerkleTree::new`, whose first step is `SledDB::new` and which then WRITES a fresh
depth / leaf count / root path. On a location that holds a flushed tree the fallback therefore destroys acknowledged data.
`loadRetries` says whether `SledDB::load` opens the database through `new_with_tries` (regenerated from the source:
`Generated.Sled.loadOpensThroughRetry`); before fix 630b389 it called `config.open()` once.
`outcomes k` is what the k-th `config.open()` of the whole reopening returns (the two calls share the stream).
Assumed (trusted base): on a flushed database `was_recovered()` is true once the open succeeds.
-/
inductive Reopen where
  | kept | reinitialised | failed
deriving DecidableEq, Repr

def loadOpen (loadRetries : Bool) (outcomes : Nat → OpenResult) : Result :=
  if loadRetries then open_ outcomes
  else match outcomes 0 with
    | .ok => ⟨true, 1, 0⟩
    | _ => ⟨false, 1, 0⟩

def reopenExisting (loadRetries : Bool) (outcomes : Nat → OpenResult) : Reopen :=
  let l := loadOpen loadRetries outcomes
  if l.success then .kept
  else if (open_ (fun k => outcomes (k + l.attempts))).success then .reinitialised else .failed

end Zk.Retry
