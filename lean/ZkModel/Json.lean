import ZkModel.Basic
import ZkModel.Hashers
import ZkModel.Codec
import ZkModel.Protocol
/-!
# `rln/src/protocol.rs:728-803` — the JSON witness codec

Model of `rln_witness_to_json`, `rln_witness_from_json`, `rln_witness_to_bigint_json` with the
serde helpers `ark_se` / `ark_de` as they are. `serde_json::Value` is modelled by the fragment
these functions produce or inspect (`JVal`); serde_json itself, serde's derive and ark-serialize's
`serialize_compressed` / `deserialize_compressed_unchecked` enter by their contracts, which are
spelt out on the definitions below and exercised by the correspondence streams `json_text`,
`json_from`, `bigint_text` of C10 (the exact JSON text of the implementation is compared with
`render` of the model).

* `ark_se` writes a field element as the JSON array of its 32 little-endian bytes and the vector
  `path_elements` as ONE array: `u64` little-endian count followed by 32 bytes per element.
* `identity_path_index: Vec<u8>` has no `serialize_with`: serde writes it as an array of numbers
  WITHOUT a count (unlike the byte layout of `serialize_witness`).
* the object is a `serde_json::Map`, a `BTreeMap` in this build: keys come out sorted.
* `rln_witness_from_json` is `serde_json::from_value(v).unwrap()` followed by the range check:
  every decoding error (missing key, element that is not a byte, short array, value ≥ p) is a
  PANIC, the range check is an `Err`. Unknown keys are ignored; bytes after the 32nd of a field
  (after the declared elements of `path_elements`) are not read.
-/
namespace Zk.Json
open Zk.Codec Zk.Protocol

/-- the fragment of `serde_json::Value` the witness codecs produce or inspect -/
inductive JVal where
  /-- an array of non-negative integers (the empty array is `nums []`) -/
  | nums (l : List Nat)
  | str (s : String)
  /-- a non-empty array of strings -/
  | strs (l : List String)
  /-- any other value (null, bool, float, negative number, nested array, object) -/
  | other
deriving DecidableEq, Repr, Inhabited

/-- a JSON object: key/value pairs in the map's iteration order -/
abbrev JObj := List (String × JVal)

def quote (s : String) : String := "\"" ++ s ++ "\""

/-- `serde_json::to_string` on the fragment (keys and strings here never need escaping) -/
def renderVal : JVal → String
  | .nums l => "[" ++ ",".intercalate (l.map toString) ++ "]"
  | .str s => quote s
  | .strs l => "[" ++ ",".intercalate (l.map quote) ++ "]"
  | .other => "null"

def render (o : JObj) : String :=
  "{" ++ ",".intercalate (o.map (fun kv => quote kv.1 ++ ":" ++ renderVal kv.2)) ++ "}"

def lookup (o : JObj) (k : String) : Option JVal := (o.find? (fun kv => kv.1 == k)).map (·.2)

/-- `Serializer::serialize_bytes` of `serde_json::value::Serializer`: an array of numbers -/
def bytesVal (bs : List UInt8) : JVal := .nums (bs.map (·.toNat))

/-- `rln_witness_to_json` -/
def witnessToJson (w : Witness) : Outcome JObj :=
  match messageIdRangeCheck w.messageId w.userMessageLimit with
  | .ok _ =>
    .ok [("external_nullifier", bytesVal (frToBytesLe w.externalNullifier)),
         ("identity_path_index", bytesVal w.identityPathIndex),
         ("identity_secret", bytesVal (frToBytesLe w.identitySecret)),
         ("message_id", bytesVal (frToBytesLe w.messageId)),
         ("path_elements", bytesVal (vecFrToBytesLe w.pathElements)),
         ("user_message_limit", bytesVal (frToBytesLe w.userMessageLimit)),
         ("x", bytesVal (frToBytesLe w.x))]
  | .err => .err
  | .panic => .panic

/-- `Vec<u8>::deserialize` of a `Value`: an array whose every element is an integer in `0..=255` -/
def asBytes : JVal → Option (List UInt8)
  | .nums l => if l.all (· < 256) then some (l.map (·.toUInt8)) else none
  | _ => none

/-- `Fr::deserialize_compressed_unchecked(bytes)`: the first 32 bytes, little-endian, refused
    unless below the modulus; fewer than 32 bytes is an error; later bytes are not read -/
def arkFr (bs : List UInt8) : Option Nat :=
  if bs.length < 32 then none
  else
    let v := leNat (bs.take 32)
    if v < P then some v else none

/-- the element loop of `Vec<Fr>::deserialize_compressed_unchecked` -/
def arkFrsLoop : Nat → List UInt8 → List Nat → Option (List Nat)
  | 0, _, acc => some acc.reverse
  | n+1, bs, acc =>
    match arkFr bs with
    | none => none
    | some v => arkFrsLoop n (bs.drop 32) (v :: acc)

/-- `Vec<Fr>::deserialize_compressed_unchecked(bytes)`: `u64` LE count, then that many elements -/
def arkFrs (bs : List UInt8) : Option (List Nat) :=
  if bs.length < 8 then none else arkFrsLoop (leNat (bs.take 8)) (bs.drop 8) []

def frField (o : JObj) (k : String) : Option Nat := ((lookup o k).bind asBytes).bind arkFr

/-- `serde_json::from_value::<RLNWitnessInput>` on an object -/
def decodeFields (o : JObj) : Option Witness :=
  match frField o "identity_secret", frField o "user_message_limit", frField o "message_id",
        ((lookup o "path_elements").bind asBytes).bind arkFrs,
        (lookup o "identity_path_index").bind asBytes,
        frField o "x", frField o "external_nullifier" with
  | some s, some lim, some mid, some path, some idx, some x, some e =>
    some { identitySecret := s, userMessageLimit := lim, messageId := mid, pathElements := path,
           identityPathIndex := idx, x := x, externalNullifier := e }
  | _, _, _, _, _, _, _ => none

/-- `rln_witness_from_json` on an object: `.unwrap()` of the decoding, then the range check -/
def witnessFromJson (o : JObj) : Outcome Witness :=
  match decodeFields o with
  | none => .panic
  | some w =>
    match messageIdRangeCheck w.messageId w.userMessageLimit with
    | .ok _ => .ok w
    | .err => .err
    | .panic => .panic

/-- an array of decimal strings as `json!` builds it (`[]` when empty) -/
def decimals (l : List Nat) : JVal := if l.isEmpty then .nums [] else .strs (l.map Nat.repr)

/-- `rln_witness_to_bigint_json`: the circom input file (decimal strings, camelCase keys) -/
def witnessToBigintJson (w : Witness) : Outcome JObj :=
  match messageIdRangeCheck w.messageId w.userMessageLimit with
  | .ok _ =>
    .ok [("externalNullifier", .str (Nat.repr w.externalNullifier)),
         ("identityPathIndex", decimals (w.identityPathIndex.map (·.toNat))),
         ("identitySecret", .str (Nat.repr w.identitySecret)),
         ("messageId", .str (Nat.repr w.messageId)),
         ("pathElements", decimals w.pathElements),
         ("userMessageLimit", .str (Nat.repr w.userMessageLimit)),
         ("x", .str (Nat.repr w.x))]
  | .err => .err
  | .panic => .panic

/-- what an independent reader of the circom input file does with a value -/
def readDecimal : JVal → Option Nat
  | .str s => s.toNat?
  | _ => none

def readDecimals : JVal → Option (List Nat)
  | .nums [] => some []
  | .strs l => l.mapM String.toNat?
  | _ => none

end Zk.Json
