import ZkModel.Zkey
import ZkModel.Qap
import ZkModel.Basic
import ZkModel.Hashers
import ZkModel.Codec
import ZkModel.TreeDriver
import ZkModel.Graph.Ops
import ZkModel.ProtoDriver
import ZkModel.GraphDriver
/-!
# Line-protocol driver: `zkmodel (model|spec) < ops` prints one canonical line per op.

`model` runs the hand-written model of the code (M); `spec` runs the specification (S).
-/
namespace Zk.Driver

inductive Mode | model | spec
deriving DecidableEq

/-- Poseidon parameter records by width `t` (index = t), computed on first use.
    model: widths listed in the *generated* ROUND_PARAMS, constants from the ring-buffer LFSR;
    spec: circomlib's (t, 8, RP_t) with the shift-register LFSR. -/
structure Env where
  mode : Mode
  params : Array (Thunk (Option RoundParams))

def mkEnv (mode : Mode) : Env :=
  { mode,
    params := (Array.range 20).map (fun t => Thunk.mk (fun _ =>
      match mode with
      | .model =>
        match Generated.roundParams with
        | none => none
        | some tbl => match tbl.find? (fun e => e.1 == t) with
          | none => none
          | some (t, rf, rp, skip) => Poseidon.implParams t rf rp skip
      | .spec =>
        match circomlibParams t with
        | none => none
        | some (t, rf, rp, skip) => Poseidon.specParams t rf rp skip)) }

def Env.paramsFor (e : Env) (t : Nat) : Option RoundParams :=
  match e.params[t]? with
  | some th => th.get
  | none => none

/-- model: `rln::hashers::poseidon_hash` (Err ⇒ panic); spec: Poseidon on 1..8 inputs -/
def Env.poseidon (e : Env) (inp : List Nat) : Outcome Nat :=
  match e.mode with
  | .model =>
    if inp.isEmpty then .panic else
    match e.paramsFor (inp.length + 1) with
    | some pr => .ok (Poseidon.implHashWith pr inp)
    | none => .panic
  | .spec =>
    if inp.isEmpty ∨ inp.length > 8 then .panic else
    match e.paramsFor (inp.length + 1) with
    | some pr => .ok (Poseidon.spec pr inp)
    | none => .panic

/-- two-to-one hash used by the trees; a panic cannot occur for width 3 unless the table lost it -/
def Env.H2 (e : Env) (a b : Nat) : Nat :=
  match e.poseidon [a, b] with
  | .ok v => v
  | _ => 0

def Env.h2f (e : Env) (b : List UInt8) : Nat :=
  match e.mode with | .model => hashToField b | .spec => hashToFieldSpec b

structure St where
  env : Env
  inst : Option TreeDriver.TInst := none
  /-- root of the current instance, computed once per tree state (the ideal tree recomputes it from the leaves) -/
  rootCache : Option Nat := none
  /-- storage location of the current RLN instance when it was created on a caller-chosen persistent location -/
  path : Option String := none
  /-- the current tree instance is over the toy hasher of the generic-tree streams (`H a b = 3a + 5b + 11`, default leaf 7) -/
  toy : Bool := false

def showOutcome (o : Outcome String) : String :=
  match o with
  | .ok s => s
  | .err => "err"
  | .panic => "panic"

def showOk (o : Outcome String) : String :=
  match o with
  | .ok s => "ok " ++ s
  | .err => "err"
  | .panic => "panic"

def fr (n : Nat) : String := hexOfNat n

/-- `public::poseidon_hash` / `ffi::poseidon_hash`: decode `vec_fr`, hash, encode -/
def pubPoseidon (e : Env) (input : List UInt8) : Outcome (List UInt8) :=
  match e.mode with
  | .model =>
    match Codec.bytesLeToVecFr input with
    | .ok (inp, _) => (e.poseidon inp).map frToBytesLe
    | .err => .err
    | .panic => .panic
  | .spec =>
    -- documented layout: [ len<8> | len × element<32> ] ; anything else is outside the specification
    if input.length < 8 then .panic else
    let n := leNat (input.take 8)
    if input.length < 8 + 32 * n then .panic else
    let els := (List.range n).map (fun i => leNat ((input.drop (8 + 32 * i)).take 32) % P)
    (e.poseidon els).map (natLE 32)

def pubHash (e : Env) (input : List UInt8) : Outcome (List UInt8) := .ok (natLE 32 (e.h2f input))

def parseNats (ws : List String) : Option (List Nat) :=
  ws.foldr (fun w acc => match parseHexNat w, acc with
    | some v, some l => some (v :: l)
    | _, _ => none) (some [])

/-- the byte-level hash entry points called with a reader that fails after delivering its bytes / an output that is too small -/
def isFailingIo (op : String) : Bool :=
  op == "pub_hash_rfail" || op == "pub_hash_wfail" || op == "pub_poseidon_rfail" || op == "pub_poseidon_wfail"

def isHashOp (op : String) : Bool :=
  op == "pub_poseidon" || op == "ffi_poseidon" || op == "h2f" || op == "pub_hash" || op == "ffi_hash" || op == "keccak" ||
  isFailingIo op

/-- the toy hasher of the generic-tree streams: any two-to-one function serves (the tree code is generic in its hasher) -/
def toyH (a b : Nat) : Nat := (3 * a + 5 * b + 11) % P

def tenv (st : St) : TreeDriver.TEnv :=
  if st.toy then { H := toyH, spec := st.env.mode == .spec, dflt := 7 } else { H := st.env.H2, spec := st.env.mode == .spec }

def treeStep (st : St) (w : List String) : St × String :=
  match st.inst with
  | some inst =>
    let (inst', r) := TreeDriver.stepT (tenv st) inst w
    let observer := w.head? == some "root" || w.head? == some "get" || w.head? == some "next" || w.head? == some "sub" ||
      w.head? == some "proof" || w.head? == some "pverify" || w.head? == some "obs" || w.head? == some "empty"
    ({ st with inst := some inst', rootCache := if observer then st.rootCache else none }, r)
  | none => (st, "bad-op")

/-- current RLN tree as (root, proof function, leaves_set, empty list) -/
def rlnView (st : St) : Option ((Unit → Nat) × (Nat → Outcome (List (Nat × Nat))) × Nat × List Nat) :=
  match st.inst with
  | some ti =>
    let H := st.env.H2
    match ti.inst with
    | .pm t => some (fun _ => t.root, fun i => t.proof i, t.next, t.emptyIdx)
    | .full t => some (fun _ => t.root, fun i => t.proof i, t.next, t.emptyIdx)
    | .opt t => some (fun _ => t.root, fun i => t.proof i, t.next, t.emptyIdx)
    | .ideal t _ => some (fun _ => t.nodeFast H 0 0 0,
        fun i => if i < t.cap then .ok (t.proofFast H 0 i) else .err, t.next, t.emptyIdx)
  | none => none

def protoEnv (e : Env) : ProtoDriver.PEnv :=
  { H := fun l => match e.poseidon l with | .ok v => v | _ => 0, h2f := e.h2f, spec := e.mode == .spec }

open ProtoDriver Protocol Public in
/-- the RLN object: tree calls are forwarded to the tree instance, proving / verification go
    through `Public` (model) or the specification predicates (spec) -/
def rlnStep (st : St) (w : List String) : St × String :=
  let pe := protoEnv st.env
  let spec := pe.spec
  let fwd (ws : List String) : St × String := treeStep st ws
  match w with
  -- an RLN object on a caller-chosen persistent location (`RLN::new` with a `tree_config`, `RLN::new_with_params` with a tree
  -- configuration): created empty the first time; the same location again is the same tree (everything was flushed before)
  | ["new_at", p] | ["new_params_at", p] =>
    if st.path == some p && st.inst.isSome then (st, "ok") else
    match TreeDriver.newInst { H := st.env.H2, spec := spec } "pm" 20 with
    | some inst => ({ st with inst := some { inst := inst }, rootCache := none, path := some p, toy := false }, "ok")
    | none => (st, "bad-op")
  | ["new"] | ["new_params"] =>      -- `RLN::new` and `RLN::new_with_params` on the repository's own key file and graph: the same object
    match TreeDriver.newInst { H := st.env.H2, spec := spec } "pm" 20 with
    | some inst => ({ st with inst := some { inst := inst }, rootCache := none, path := none, toy := false }, "ok")
    | none => (st, "bad-op")
  -- the same call with a reader that fails after delivering its bytes / an output that takes nothing: `read_to_end` or
  -- `write_all` returns the error before any state is touched (proving, reading and key generation have no state)
  | "io" :: _ => (st, "err")
  -- how many bytes the caller's readers deliver per `read()` call is not part of any result
  | ["chunk", _] => (st, "ok")
  | ["set_leaf", i, v] => fwd ["set", i, v]
  | ["set_next", v] => fwd ["app", v]
  | ["delete", i] => fwd ["del", i]
  | ["root"] => fwd ["root"]
  | ["get_leaf", i] => fwd ["get", i]
  | ["leaves_set"] => fwd ["next"]
  | ["set_leaves_from", i, vs] => fwd ["batch", i, vs, "-"]
  | ["init_leaves", vs] =>
    match TreeDriver.newInst { H := st.env.H2, spec := spec } "pm" 20 with
    | some inst =>
      -- the leaves are written into a NEW tree, which replaces the current one only when that succeeded (repaired code;
      -- the pinned code reset the tree first and kept it empty when the write was then rejected)
      let (st', r) := treeStep { st with inst := some { inst := inst }, rootCache := none } ["batch", "0x0", vs, "-"]
      if r == "ok" then (st', r) else (st, r)
    | none => (st, "bad-op")
  | ["atomic", i, vs, idx] => fwd ["batch", i, vs, idx]
  | ["empty"] => match rlnView st with
    | some (_, _, _, em) => (st, "ok " ++ showBytes (Codec.serializeVecUsize em))
    | none => (st, "bad-op")
  | ["get_proof", i] => match rlnView st, parseHexNat i with
    | some (_, pf, _, _), some i =>
      (st, match pf i with
        | .ok p => "ok " ++ showBytes (Codec.vecFrToBytesLe (p.map (·.1)) ++ Codec.vecU8ToBytesLe (p.map (fun x => x.2.toUInt8)))
        | .err => "err" | .panic => "panic")
    | _, _ => (st, "bad-op")
  | [op, b] =>
    match parseHexBytes b, rlnView st with
    | some bs, some (_, pf, _, _) =>
      let Z := unitSnark true true
      let Pv : Prover Unit := { prove := fun _ => some () }
      if op == "prove_req" then
        if spec then
          -- request layout [ secret | id_index<8> | limit | message_id | external_nullifier | signal_len<8> | signal ]
          if bs.length < 144 then (st, "err") else
          let slen := leNat ((bs.drop 136).take 8)
          if bs.length < 144 + slen then (st, "err") else
          match pf (leNat ((bs.drop 32).take 8)) with
          | .ok p =>
            let wi : Witness := { identitySecret := Spec.decFr bs 0, userMessageLimit := Spec.decFr bs 40, messageId := Spec.decFr bs 72,
                                  pathElements := p.map (·.1), identityPathIndex := p.map (fun x => x.2.toUInt8),
                                  x := pe.h2f ((bs.drop 144).take slen), externalNullifier := Spec.decFr bs 104 }
            (st, if decide (CircuitSat 20 wi) then "ok " ++ showBytes (Spec.encPv (specProofValues pe.H wi)) else "err")
          | _ => (st, "err")
        else (st, out (generateRlnProof Z Pv pe.H pe.h2f 20 pf bs) (fun m => "ok " ++ showBytes m))
      else if op == "prove_wit" || op == "prove_raw" || op == "prove_ext" then
        if spec then
          match Spec.decWitness bs with
          | some wi => (st, if decide (CircuitSat 20 wi) then
              (if op == "prove_raw" then "ok -" else "ok " ++ showBytes (Spec.encPv (specProofValues pe.H wi))) else "err")
          | none => (st, "err")
        else if op == "prove_wit" || op == "prove_ext" then (st, out (generateRlnProofWithWitness Z Pv pe.H 20 bs) (fun m => "ok " ++ showBytes m))
        else (st, out (Public.prove Z Pv 20 bs) (fun m => "ok " ++ showBytes m))
      else if op == "witness_req" then
        if spec then
          if bs.length < 144 then (st, "err") else
          let slen := leNat ((bs.drop 136).take 8)
          if bs.length < 144 + slen then (st, "err") else
          match pf (leNat ((bs.drop 32).take 8)) with
          | .ok p =>
            let wi : Witness := { identitySecret := Spec.decFr bs 0, userMessageLimit := Spec.decFr bs 40, messageId := Spec.decFr bs 72,
                                  pathElements := p.map (·.1), identityPathIndex := p.map (fun x => x.2.toUInt8),
                                  x := pe.h2f ((bs.drop 144).take slen), externalNullifier := Spec.decFr bs 104 }
            (st, if wi.messageId < wi.userMessageLimit then "ok " ++ showBytes (Spec.encWitness wi) else "err")
          | _ => (st, "err")
        else
          (st, match proofInputsToWitness pe.h2f pf bs with
            | .ok (wi, _) => out (serializeWitness wi) (fun m => "ok " ++ showBytes m)
            | .err => "err" | .panic => "panic")
      else (st, "bad-op")
    | _, _ => (st, "bad-op")
  | ["verify", b, dec, snark] =>
    match parseHexBytes b with
    | some bs =>
      if spec then
        (st, if decide (bs.length = 288) && (List.range 5).all (fun j => Spec.canonicalAt bs (128 + 32 * j)) && bool01 dec && bool01 snark
             then "accept" else "reject")
      else (st, verdict (Public.verify (unitSnark (bool01 dec) (bool01 snark)) bs))
    | none => (st, "bad-op")
  | ["verify_rln", b, dec, snark] =>
    match parseHexBytes b, rlnView st with
    | some bs, some (root0, _, _, _) =>
      let root := match st.rootCache with | some r => r | none => root0 ()
      let st := { st with rootCache := some root }
      if spec then (st, if Spec.acceptRln pe.h2f (some root) none bs (bool01 dec) (bool01 snark) then "accept" else "reject")
      else (st, verdict (verifyRlnProof (unitSnark (bool01 dec) (bool01 snark)) pe.h2f root bs))
    | _, _ => (st, "bad-op")
  | ["verify_roots", b, rb, dec, snark] =>
    match parseHexBytes b, parseHexBytes rb with
    | some bs, some rbs =>
      if spec then
        -- roots buffer: a whole number of 32-byte field elements; empty = no root check
        (st, if rbs.length % 32 ≠ 0 then "reject"
             else if Spec.acceptRln pe.h2f none (some ((Spec.chunks 32 (rbs.length / 32) rbs).map (fun c => leNat c % P))) bs (bool01 dec) (bool01 snark)
             then "accept" else "reject")
      else (st, verdict (verifyWithRoots (unitSnark (bool01 dec) (bool01 snark)) pe.h2f bs rbs))
    | _, _ => (st, "bad-op")
  | ["recover", a, b] =>
    match parseHexBytes a, parseHexBytes b with
    | some a, some b =>
      if spec then
        if a.length < 288 || b.length < 288 then (st, "err") else
        let (e1, x1, y1) := (Spec.decFr a 160, Spec.decFr a 192, Spec.decFr a 224)
        let (e2, x2, y2) := (Spec.decFr b 160, Spec.decFr b 192, Spec.decFr b 224)
        if e1 ≠ e2 then (st, "ok -") else
        if x1 = x2 then (st, "err") else
        let a1 := fmul (fsub y1 y2) (finv (fsub x1 x2))
        (st, "ok " ++ showBytes (natLE 32 (fsub y1 (fmul x1 a1))))
      else (st, out (recoverIdSecret a b) (fun m => "ok " ++ showBytes m))
    | _, _ => (st, "bad-op")
  | _ => (st, "bad-op")

/-- C11 lockstep ops: the same calls as `rln …`, results rendered the way the byte-level API returns them -/
def lockStep (st : St) (w : List String) : St × String :=
  let e := st.env
  let spec := e.mode == .spec
  match w with
  -- both constructors' verdict on a configuration buffer: whether the bytes are a JSON document is decided by the generator's
  -- JSON parser and carried on the line (`ok` / `err`); an accepted configuration gives a fresh default tree
  | ["newcfg", _, expect] =>
    if expect == "ok" then rlnStep st ["new"] else (st, "err")
  | ["root"] => match rlnView st with
    | some (r, _, _, _) => (st, "ok " ++ showBytes (natLE 32 (r ())))
    | none => (st, "bad-op")
  | ["get_leaf", i] => let (st', r) := rlnStep st ["get_leaf", i]
    (st', if r == "err" || r == "panic" || r == "bad-op" then r else match parseHexNat r with
      | some v => "ok " ++ showBytes (natLE 32 v) | none => r)
  | ["seq_atomic", vs, idx] => match rlnView st with
    | some (_, _, nxt, _) => rlnStep st ["atomic", hexOfNat nxt, vs, idx]
    | none => (st, "bad-op")
  | ["meta_set", b] => treeStep st ["meta", "set", b]
  | ["meta_get"] => let (st', r) := treeStep st ["meta", "get"]; (st', "ok " ++ r)
  | ["flush"] => treeStep st ["close"]
  | ["set_tree", h] => match h.toNat? with
    | some d => match TreeDriver.newInst { H := e.H2, spec := spec } "pm" d with
      | some inst => ({ st with inst := some { inst := inst }, rootCache := none }, "ok")
      | none => (st, "bad-op")
    | none => (st, "bad-op")
  | ["set_leaf_raw", i, b] => match parseHexBytes b with
    | some bs => if bs.length < 32 then (st, "n/a") else rlnStep st ["set_leaf", i, hexOfNat (leNat (bs.take 32) % P)]
    | none => (st, "bad-op")
  | ["hash", b] => match parseHexBytes b with
    | some bs => (st, showOk ((pubHash e bs).map showBytes))
    | none => (st, "bad-op")
  | ["poseidon", b] => match parseHexBytes b with
    | some bs => (st, match pubPoseidon e bs with
      | .ok r => "ok " ++ showBytes r | .err => "err" | .panic => "panic")
    | none => (st, "bad-op")
  | "seeded_key_gen" :: _ | "seeded_ext_key_gen" :: _ =>
    match ProtoDriver.stepPure (protoEnv e) ("rln" :: w) with
    | some r => (st, r)
    | none => (st, "bad-op")
  | _ => rlnStep st w

def step (st : St) (line : String) : St × String :=
  let e := st.env
  match line.trimAscii.toString.splitOn " " with
  | "lock" :: rest => lockStep st rest
  | "graph" :: rest => match GraphDriver.step (e.mode == .spec) ("graph" :: rest) with
    | some r => (st, r)
    | none => (st, "bad-op")
  | ["reframe", h, c] => match GraphDriver.step (e.mode == .spec) ["reframe", h, c] with
    | some r => (st, r)
    | none => (st, "bad-op")
  | ["bundled", ins] => match GraphDriver.step (e.mode == .spec) ["bundled", ins] with
    | some r => (st, r)
    | none => (st, "bad-op")
  | ["bundled_buf", ins, patch] => match GraphDriver.step (e.mode == .spec) ["bundled_buf", ins, patch] with
    | some r => (st, r)
    | none => (st, "bad-op")
  -- the typed layer: a fresh tree with one leaf, then the request through parser / prover / values / verifier — the same outcome
  -- as the RLN object gives for that history
  | ["typed_prove", i, v, b] =>
    let st0 : St := { env := st.env }
    let (st1, _) := rlnStep st0 ["new"]
    let (st2, r2) := rlnStep st1 ["set_leaf", i, v]
    if r2 != "ok" then (st, "bad-op") else
    let (st3, r) := rlnStep st2 ["prove_req", b]
    if r.startsWith "ok " then
      match rlnView st3 with
      | some (root0, _, _, _) =>
        let rootHex := showBytes (Zk.frToBytesLe (root0 ()))
        (st, r ++ (if ((r.drop 3).take 64).toString == rootHex then " accept" else " reject-false"))
      | none => (st, r)
    else (st, r)
  | "rln" :: rest =>
    match (if rest.head? == some "seeded_key_gen" || rest.head? == some "seeded_ext_key_gen" || rest.head? == some "key_gen" || rest.head? == some "ext_key_gen"
           then ProtoDriver.stepPure (protoEnv e) ("rln" :: rest) else none) with
    | some r => (st, r)
    | none =>
      match rest with
      | ["prove_verify", b, _sig] =>
        -- a request that proves must also verify (C01): `ok <values> accept`
        let (st', r) := rlnStep st ["prove_req", b]
        if r.startsWith "ok " then
          -- the stateful verifier compares the published root (first 32 bytes of the values) with the tree's root;
          -- the zk part holds for every message the prover returns (contract `Complete`)
          match rlnView st' with
          | some (root0, _, _, _) =>
            let root := match st'.rootCache with | some r => r | none => root0 ()
            let rootHex := showBytes (Zk.frToBytesLe root)
            ({ st' with rootCache := some root }, r ++ (if ((r.drop 3).take 64).toString == rootHex then " accept" else " reject-false"))
          | none => (st', r ++ " accept")
        else (st', r)
      | _ => rlnStep st rest
  | "poseidon" :: args =>
    match parseNats args with
    | some inp => (st, showOutcome ((e.poseidon inp).map fr))
    | none => (st, "bad-op")
  | ["op", name, a, b] =>
    match Graph.opOfString name, parseHexNat a, parseHexNat b with
    | some op, some a, some b => (st, match e.mode with
      | .model => showOutcome ((Graph.evalFr op a b).map fr)
      | .spec => fr (Graph.Circom.sem op a b))
    | _, _, _ => (st, "bad-op")
  | ["opu", name, a, b] =>
    match Graph.opOfString name, parseHexNat a, parseHexNat b with
    | some op, some a, some b => (st, match e.mode with
      | .model => showOutcome ((Graph.evalU op a b).map fr)
      | .spec => fr (Graph.Circom.sem op a b))
    | _, _, _ => (st, "bad-op")
  | ["uno", name, a] =>
    match (if name == "Neg" then some Graph.UnoOp.Neg else if name == "Id" then some Graph.UnoOp.Id else none), parseHexNat a with
    | some op, some a => (st, match e.mode with
      | .model => showOutcome ((Graph.evalFrUno op a).map fr)
      | .spec => fr (Graph.Circom.semUno op a))
    | _, _ => (st, "bad-op")
  | ["unou", name, a] =>
    match (if name == "Neg" then some Graph.UnoOp.Neg else if name == "Id" then some Graph.UnoOp.Id else none), parseHexNat a with
    | some op, some a => (st, match e.mode with
      | .model => showOutcome ((Graph.evalUUno op a).map fr)
      | .spec => fr (Graph.Circom.semUno op a))
    | _, _ => (st, "bad-op")
  | ["tres", a, b, c] =>
    match parseHexNat a, parseHexNat b, parseHexNat c with
    | some a, some b, some c => (st, match e.mode with
      | .model => showOutcome ((Graph.evalFrTres .TernCond a b c).map fr)
      | .spec => fr (Graph.Circom.semTres .TernCond a b c))
    | _, _, _ => (st, "bad-op")
  | ["tresu", a, b, c] =>
    match parseHexNat a, parseHexNat b, parseHexNat c with
    | some a, some b, some c => (st, match e.mode with
      | .model => showOutcome ((Graph.evalUTres .TernCond a b c).map fr)
      | .spec => fr (Graph.Circom.semTres .TernCond a b c))
    | _, _, _ => (st, "bad-op")
  -- a parameter TABLE of several rows in any order (`Poseidon::<Fr>::from(&rows).hash(inp)`): the row whose width is the
  -- number of inputs + 1 is the one that counts, wherever it stands; no such row is an error
  | "uposeidon_rows" :: rows :: args =>
    let parsed : List (Option (Nat × Nat × Nat × Nat)) := (rows.splitOn ",").map (fun r =>
      match (r.splitOn ":").map String.toNat? with
      | [some t, some rf, some rp, some sk] => some (t, rf, rp, sk)
      | _ => none)
    match parseNats args with
    | some inp =>
      if parsed.any Option.isNone then (st, "bad-op") else
      let tab := parsed.filterMap id
      match tab.find? (fun r => r.1 == inp.length + 1) with
      | none => (st, "err")
      | some (t, rf, rp, sk) =>
        let r : Outcome Nat :=
          match e.mode with
          | .model => match Poseidon.implParams t rf rp sk with
            | some pr => Poseidon.implHash [pr] inp
            | none => .panic
          | .spec => if inp.isEmpty then .err else
            match Poseidon.specParams t rf rp sk with
            | some pr => .ok (Poseidon.spec pr inp)
            | none => .panic
        (st, showOutcome (r.map fr))
    | none => (st, "bad-op")
  | "uposeidon" :: t :: rf :: rp :: sk :: args =>
    match t.toNat?, rf.toNat?, rp.toNat?, sk.toNat?, parseNats args with
    | some t, some rf, some rp, some sk, some inp =>
      -- `Poseidon::<Fr>::from(&[(t, rf, rp, skip)]).hash(inp)`; spec: the paper's permutation
      let r : Outcome Nat :=
        match e.mode with
        | .model => match Poseidon.implParams t rf rp sk with
          | some pr => Poseidon.implHash [pr] inp
          | none => .panic
        | .spec => if inp.isEmpty ∨ inp.length + 1 ≠ t then .err else
          match Poseidon.specParams t rf rp sk with
          | some pr => .ok (Poseidon.spec pr inp)
          | none => .panic
      (st, showOutcome (r.map fr))
    | _, _, _, _, _ => (st, "bad-op")
  -- `read_zkey(Cursor(bytes))`: digest of the proving key's raw points and of the two constraint matrices (ZkModel/Zkey.lean);
  -- the property (C17) does not say what a key file means, so there is no specification answer: a difference is a
  -- model / implementation disagreement, never by itself a violation
  | ["zkey", bs] =>
    match parseHexBytes bs with
    | some b => (st, match e.mode with | .model => Zkey.run b | .spec => "n/a")
    | none => (st, "bad-op")
  -- `CircomReduction::witness_map_from_matrices` on small matrices: rows `c:i,c:i;…` (`_` = empty row, `-` = no rows)
  | ["qap", sa, sb, ni, nc, sw] =>
    let parseRows : String → Option (List (List (Nat × Nat))) := fun t =>
      if t == "-" then some [] else
      (t.splitOn ";").mapM (fun r => if r == "_" then some [] else
        (r.splitOn ",").mapM (fun e => match e.splitOn ":" with
          | [c, i] => match parseHexNat c, parseHexNat i with
            | some c, some i => some (c, i)
            | _, _ => none
          | _ => none))
    let parseW : String → Option (List Nat) := fun t => if t == "-" then some [] else (t.splitOn ",").mapM parseHexNat
    match parseRows sa, parseRows sb, parseHexNat ni, parseHexNat nc, parseW sw with
    | some a, some b, some ni, some nc, some w =>
      let r := match e.mode with
        | .model => Qap.witnessMap a b ni nc w
        | .spec => Qap.witnessMapSpec a b ni nc w
      (st, showOutcome (r.map (fun l => String.intercalate "," (l.map fr))))
    | _, _, _, _, _ => (st, "bad-op")
  -- a reader that delivers a few bytes per `read()` call is still the same byte string (`read_exact` semantics)
  | ["zkey_chunk", _, bs] =>
    match parseHexBytes bs with
    | some b => (st, match e.mode with | .model => Zkey.run b | .spec => "n/a")
    | none => (st, "bad-op")
  | [op, bs] =>
    match (if isHashOp op then parseHexBytes bs else none) with
    | none => match ProtoDriver.stepPure (protoEnv e) [op, bs] with
      | some r => (st, r)
      | none => treeStep st [op, bs]
    | some b =>
      if isFailingIo op then (st, "err")       -- `read_to_end` / `write_all` fail: the error is returned, nothing else happens
      else if op == "pub_poseidon" || op == "ffi_poseidon" then (st, showOk ((pubPoseidon e b).map showBytes))
      else if op == "h2f" then (st, fr (e.h2f b))
      else if op == "pub_hash" || op == "ffi_hash" then (st, showOk ((pubHash e b).map showBytes))
      else if op == "keccak" then (st, showBytes (Keccak.keccak256 b))
      else treeStep st [op, bs]
  | ["tree", "new", backend, depth] =>
    match depth.toNat? with
    | some d =>
      let toy := backend == "fullT" || backend == "optT"
      match TreeDriver.newInst (tenv { st with toy := toy }) backend d with
      | some inst => ({ st with inst := some { inst := inst }, rootCache := none, toy := toy }, "ok")
      | none => (st, "bad-op")
    | none => (st, "bad-op")
  | w => match ProtoDriver.stepPure (protoEnv e) w with
    | some r => (st, r)
    | none => treeStep st w

partial def loop (h : IO.FS.Stream) (out : IO.FS.Stream) (st : St) : IO Unit := do
  let line ← h.getLine
  if line.isEmpty then return ()
  -- the only op that reads a file: the key file is 3.4 MB, too long for a line
  if line.startsWith "zkeyfile " || line.startsWith "zkeyfile_buf " || line.startsWith "zkeyfile_chunk " then
    let path := ((line.trimAscii.toString.splitOn " ").getLast?).getD ""
    let o ← try
        let b ← IO.FS.readBinFile path
        pure (match st.env.mode with | .model => Zk.Zkey.run b.toList | .spec => "n/a")
      catch _ => pure "bad-op"
    out.putStrLn o
    return (← loop h out st)
  let (st', o) := step st line
  out.putStrLn o
  loop h out st'

end Zk.Driver

def main (args : List String) : IO UInt32 := do
  let mode ← match args with
    | ["model"] => pure Zk.Driver.Mode.model
    | ["spec"] => pure Zk.Driver.Mode.spec
    | _ => do IO.eprintln "usage: zkmodel (model|spec) < ops"; return 2
  Zk.Driver.loop (← IO.getStdin) (← IO.getStdout) { env := Zk.Driver.mkEnv mode }
  return 0
