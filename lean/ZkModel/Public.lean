import ZkModel.Protocol
/-!
# `rln/src/public.rs` — verification, secret recovery and proving glue (after the `fix:` commits)

Groth16 is a contract: `Snark.decode` is arkworks' checked point decompression of the 128 proof
bytes, `Snark.verify` the pairing check on the public inputs `[y, root, nullifier, x, e]` (the order
of `protocol::verify_proof`, regenerated in `Generated/Layouts.lean`), `Snark.prove` the prover on a
witness. The correspondence run supplies the real verdicts as oracle bits.
-/
namespace Zk.Public
open Zk.Protocol Zk.Codec

structure Snark (Proof : Type) where
  /-- `ArkProof::deserialize_compressed` of exactly 128 bytes -/
  decode : List UInt8 → Option Proof
  /-- `Groth16::verify_proof` (an `Err` of the library is `none`) -/
  verify : Proof → List Nat → Option Bool
  /-- compressed serialisation, 128 bytes -/
  encode : Proof → List UInt8

/-- the public inputs in the order `verify_proof` passes them to Groth16 -/
def publicInputs (v : ProofValues) : List Nat := [v.y, v.root, v.nullifier, v.x, v.externalNullifier]

/-- `is_canonical_fr_bytes_le` on each 32-byte chunk -/
def allCanonical : Nat → List UInt8 → Bool
  | 0, _ => true
  | n+1, bs => decide (bs.length ≥ 32) && decide (leNat (bs.take 32) < P) && allCanonical n (bs.drop 32)

/-- `protocol::verify_proof` through the contract -/
def verifyProof {Pr : Type} (Z : Snark Pr) (proof : Pr) (v : ProofValues) : Outcome Bool :=
  match Z.verify proof (publicInputs v) with
  | some b => .ok b
  | none => .err

/-- `RLN::verify`: `[ proof<128> | root | external_nullifier | x | y | nullifier ]`, exactly 288 bytes -/
def verify {Pr : Type} (Z : Snark Pr) (bs : List UInt8) : Outcome Bool :=
  if bs.length ≠ 288 then .err else
  if !allCanonical 5 (bs.drop 128) then .ok false else
  match Z.decode (bs.take 128) with
  | none => .err
  | some proof =>
    match deserializeProofValues (bs.drop 128) with
    | .ok (v, _) => verifyProof Z proof v
    | .err => .err
    | .panic => .panic

/-- common front part of `verify_rln_proof` / `verify_with_roots`: returns the SNARK verdict, the
    decoded values and the signal -/
def verifyFront {Pr : Type} (Z : Snark Pr) (bs : List UInt8) : Outcome (Option (Bool × ProofValues × List UInt8)) :=
  if bs.length < 296 then .err else
  if !allCanonical 5 ((bs.drop 128).take 160) then .ok none else
  match Z.decode (bs.take 128) with
  | none => .err
  | some proof =>
    match deserializeProofValues (bs.drop 128) with
    | .err => .err
    | .panic => .panic
    | .ok (v, _) =>
      let slen := leNat ((bs.drop 288).take 8)
      if bs.length - 296 ≠ slen then .err else
      let signal := (bs.drop 296).take slen
      match verifyProof Z proof v with
      | .ok b => .ok (some (b, v, signal))
      | .err => .err
      | .panic => .panic

/-- `RLN::verify_rln_proof` against the tree root `root` -/
def verifyRlnProof {Pr : Type} (Z : Snark Pr) (h2f : List UInt8 → Nat) (root : Nat) (bs : List UInt8) : Outcome Bool :=
  match verifyFront Z bs with
  | .ok none => .ok false
  | .ok (some (b, v, signal)) => .ok (b && decide (root = v.root) && decide (h2f signal = v.x))
  | .err => .err
  | .panic => .panic

/-- the roots loop: `while all_read + 32 <= len { bytes_le_to_fr(..) }` on a buffer whose length is a
    multiple of 32 -/
def parseRoots : Nat → List UInt8 → List Nat
  | 0, _ => []
  | f+1, bs => if bs.length < 32 then [] else (leNat (bs.take 32) % P) :: parseRoots f (bs.drop 32)

/-- `RLN::verify_with_roots` -/
def verifyWithRoots {Pr : Type} (Z : Snark Pr) (h2f : List UInt8 → Nat) (bs rootsBs : List UInt8) : Outcome Bool :=
  match verifyFront Z bs with
  | .ok none => .ok false
  | .ok (some (b, v, signal)) =>
    let partialResult := b && decide (h2f signal = v.x)
    if !partialResult then .ok false else
    if rootsBs.length % 32 ≠ 0 then .err else
    let roots := parseRoots (rootsBs.length / 32 + 1) rootsBs
    .ok (if roots.isEmpty then true else roots.contains v.root)
  | .err => .err
  | .panic => .panic

/-- `RLN::recover_id_secret`: output bytes (empty when the external nullifiers differ) -/
def recoverIdSecret (bs1 bs2 : List UInt8) : Outcome (List UInt8) :=
  if bs1.length < 288 then .err else
  match deserializeProofValues (bs1.drop 128) with
  | .err => .err
  | .panic => .panic
  | .ok (v1, _) =>
  if bs2.length < 288 then .err else
  match deserializeProofValues (bs2.drop 128) with
  | .err => .err
  | .panic => .panic
  | .ok (v2, _) =>
  if v1.externalNullifier = v2.externalNullifier then
    match computeIdSecret v1.x v1.y v2.x v2.y with
    | .ok s => .ok (frToBytesLe s)
    | .err => .err
    | .panic => .panic
  else .ok []

/-! ## Proving glue -/

/-- the prover as a contract: from the witness to a proof (`none` = `ProofError`). The real
    `generate_proof` runs the witness graph and Groth16; it fails or panics only where stated in
    `proveOutcome`. -/
structure Prover (Pr : Type) where
  prove : Witness → Option Pr

/-- `generate_proof` seen from the callers: input-vector check, then `calc_witness` (panics in
    `populate_inputs` when a vector has not the declared length: path / index lists ≠ depth),
    then Groth16 -/
def generateProof {Pr : Type} (Pv : Prover Pr) (depth : Nat) (w : Witness) : Outcome Pr :=
  match inputsForWitnessCalculation w with
  | .err => .err
  | .panic => .panic
  | .ok _ =>
    if w.pathElements.length ≠ depth ∨ w.identityPathIndex.length ≠ depth then .panic else
    match Pv.prove w with
    | some p => .ok p
    | none => .err

/-- `RLN::generate_rln_proof_with_witness` (and `prove` without the values) -/
def generateRlnProofWithWitness {Pr : Type} (Z : Snark Pr) (Pv : Prover Pr) (H : List Nat → Nat) (depth : Nat)
    (bs : List UInt8) : Outcome (List UInt8) :=
  match deserializeWitness bs with
  | .err => .err
  | .panic => .panic
  | .ok (w, _) =>
    match proofValuesFromWitness H w with
    | .err => .err
    | .panic => .panic
    | .ok v =>
      match generateProof Pv depth w with
      | .ok p => .ok (Z.encode p ++ serializeProofValues v)
      | .err => .err
      | .panic => .panic

/-- `RLN::prove` -/
def prove {Pr : Type} (Z : Snark Pr) (Pv : Prover Pr) (depth : Nat) (bs : List UInt8) : Outcome (List UInt8) :=
  match deserializeWitness bs with
  | .err => .err
  | .panic => .panic
  | .ok (w, _) =>
    match generateProof Pv depth w with
    | .ok p => .ok (Z.encode p)
    | .err => .err
    | .panic => .panic

/-- `RLN::generate_rln_proof` -/
def generateRlnProof {Pr : Type} (Z : Snark Pr) (Pv : Prover Pr) (H : List Nat → Nat) (h2f : List UInt8 → Nat)
    (depth : Nat) (treeProof : Nat → Outcome (List (Nat × Nat))) (bs : List UInt8) : Outcome (List UInt8) :=
  match proofInputsToWitness h2f treeProof bs with
  | .err => .err
  | .panic => .panic
  | .ok (w, _) =>
    match proofValuesFromWitness H w with
    | .err => .err
    | .panic => .panic
    | .ok v =>
      match generateProof Pv depth w with
      | .ok p => .ok (Z.encode p ++ serializeProofValues v)
      | .err => .err
      | .panic => .panic

end Zk.Public
