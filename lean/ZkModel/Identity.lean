import ZkModel.Protocol
/-!
# `rln/src/protocol.rs:57-96` and `public.rs` key generation output — identity encodings

`key_gen` / `seeded_key_gen` write `fr_to_bytes_le` of the two values, the extended variants of the
four values; `deserialize_identity_pair` / `deserialize_identity_tuple` read them back with
`bytes_le_to_fr` at offsets 0, 32, 64, 96 (`&serialized[read..]`; a short buffer panics in the slice
`input[0..32]`), `serialize_field_element` / `deserialize_field_element` are the one-element case.
-/
namespace Zk.Protocol
open Zk.Codec

/-- `serialize_field_element` -/
def serializeFieldElement (v : Nat) : List UInt8 := frToBytesLe v

/-- `deserialize_field_element` -/
def deserializeFieldElement (bs : List UInt8) : Outcome Nat :=
  match bytesLeToFr bs with
  | .ok (v, _) => .ok v
  | .err => .err
  | .panic => .panic

/-- what `key_gen` and `seeded_key_gen` write: `[ identity_secret_hash<32> | id_commitment<32> ]` -/
def serializeIdentityPair (s c : Nat) : List UInt8 := frToBytesLe s ++ frToBytesLe c

/-- what `extended_key_gen` and `seeded_extended_key_gen` write:
    `[ trapdoor<32> | nullifier<32> | identity_secret_hash<32> | id_commitment<32> ]` -/
def serializeIdentityTuple (t n s c : Nat) : List UInt8 :=
  frToBytesLe t ++ frToBytesLe n ++ frToBytesLe s ++ frToBytesLe c

/-- `deserialize_identity_pair` -/
def deserializeIdentityPair (bs : List UInt8) : Outcome (Nat × Nat) :=
  match bytesLeToFr bs with
  | .ok (s, r) =>
    match bytesLeToFr (bs.drop r) with
    | .ok (c, _) => .ok (s, c)
    | .err => .err
    | .panic => .panic
  | .err => .err
  | .panic => .panic

/-- `deserialize_identity_tuple` -/
def deserializeIdentityTuple (bs : List UInt8) : Outcome (Nat × Nat × Nat × Nat) :=
  match bytesLeToFr bs with
  | .ok (t, r1) =>
    match bytesLeToFr (bs.drop r1) with
    | .ok (n, r2) =>
      match bytesLeToFr (bs.drop (r1 + r2)) with
      | .ok (s, r3) =>
        match bytesLeToFr (bs.drop (r1 + r2 + r3)) with
        | .ok (c, _) => .ok (t, n, s, c)
        | .err => .err
        | .panic => .panic
      | .err => .err
      | .panic => .panic
    | .err => .err
    | .panic => .panic
  | .err => .err
  | .panic => .panic

end Zk.Protocol
