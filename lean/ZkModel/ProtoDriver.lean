import ZkModel.Public
import ZkModel.TreeDriver
import ZkModel.Keygen
import ZkModel.Json
import ZkModel.Identity
/-!
# Protocol / codec / RLN-object part of the line protocol
-/
namespace Zk.ProtoDriver
open Zk.Codec Zk.Protocol Zk.Public

structure PEnv where
  H : List Nat → Nat
  h2f : List UInt8 → Nat
  spec : Bool

def fr (n : Nat) : String := hexOfNat n
def showFrs (l : List Nat) : String := "[" ++ ",".intercalate (l.map fr) ++ "]"

def parseList (s : String) : Option (List Nat) :=
  if s == "-" then some [] else
  -- `gen:<n>:<seed>` (hex): the n consecutive values seed+1, …, seed+n
  if s.startsWith "gen:" then
    match (s.drop 4).toString.splitOn ":" with
    | [n, sd] => match parseHexNat n, parseHexNat sd with
      | some n, some sd => some ((List.range n).map (fun i => sd + i + 1))
      | _, _ => none
    | _ => none
  else
  (s.splitOn ",").foldr (fun w acc => match parseHexNat w, acc with
    | some v, some l => some (v :: l)
    | _, _ => none) (some [])

def out {α : Type} (o : Outcome α) (f : α → String) : String :=
  match o with | .ok a => f a | .err => "err" | .panic => "panic"

def showWitness (w : Witness) : String :=
  s!"s={fr w.identitySecret} lim={fr w.userMessageLimit} mid={fr w.messageId} path={showFrs w.pathElements} idx={showFrs (w.identityPathIndex.map (·.toNat))} x={fr w.x} e={fr w.externalNullifier}"

def showPv (v : ProofValues) : String :=
  s!"y={fr v.y} n={fr v.nullifier} root={fr v.root} x={fr v.x} e={fr v.externalNullifier}"

/-! ## specification-side codecs, written from the documented layouts only -/
namespace Spec
def encFr (v : Nat) : List UInt8 := natLE 32 v
def encLen (n : Nat) : List UInt8 := natLE 8 n
def decFr (bs : List UInt8) (off : Nat) : Nat := leNat ((bs.drop off).take 32) % P
def chunks (n : Nat) : Nat → List UInt8 → List (List UInt8)
  | 0, _ => []
  | k+1, bs => bs.take n :: chunks n k (bs.drop n)

/-- `[ len<8> | len × element<32> ]`, exact -/
def decVecFr (bs : List UInt8) : Option (List Nat × Nat) :=
  if bs.length < 8 then none else
  let n := leNat (bs.take 8)
  if bs.length < 8 + 32 * n then none else
  some ((chunks 32 n (bs.drop 8)).map (fun c => leNat c % P), 8 + 32 * n)

def decVecU8 (bs : List UInt8) : Option (List UInt8 × Nat) :=
  if bs.length < 8 then none else
  let n := leNat (bs.take 8)
  if bs.length < 8 + n then none else some ((bs.drop 8).take n, 8 + n)

/-- `[ identity_secret<32> | user_message_limit<32> | message_id<32> | path_elements[<32>] | identity_path_index<8> | x<32> | external_nullifier<32> ]` -/
def encWitness (w : Witness) : List UInt8 :=
  encFr w.identitySecret ++ encFr w.userMessageLimit ++ encFr w.messageId ++
  encLen w.pathElements.length ++ (w.pathElements.map encFr).flatten ++
  encLen w.identityPathIndex.length ++ w.identityPathIndex ++ encFr w.x ++ encFr w.externalNullifier

def decWitness (bs : List UInt8) : Option Witness :=
  if bs.length < 96 then none else
  match decVecFr (bs.drop 96) with
  | none => none
  | some (path, r1) =>
    match decVecU8 (bs.drop (96 + r1)) with
    | none => none
    | some (idx, r2) =>
      if bs.length ≠ 96 + r1 + r2 + 64 then none else
      let w : Witness := { identitySecret := decFr bs 0, userMessageLimit := decFr bs 32, messageId := decFr bs 64,
                           pathElements := path, identityPathIndex := idx,
                           x := decFr bs (96 + r1 + r2), externalNullifier := decFr bs (96 + r1 + r2 + 32) }
      if w.messageId < w.userMessageLimit then some w else none

/-- `[ root<32> | external_nullifier<32> | x<32> | y<32> | nullifier<32> ]` -/
def encPv (v : ProofValues) : List UInt8 :=
  encFr v.root ++ encFr v.externalNullifier ++ encFr v.x ++ encFr v.y ++ encFr v.nullifier

def canonicalAt (bs : List UInt8) (off : Nat) : Bool := decide (leNat ((bs.drop off).take 32) < P)

/-- message `[ proof<128> | root | e | x | y | nullifier | signal_len<8> | signal ]`: accepted iff
    exact length, canonical values, valid proof for the carried values, x = H(signal), root matches -/
def acceptRln (h2f : List UInt8 → Nat) (root : Option Nat) (roots : Option (List Nat)) (bs : List UInt8) (dec snark : Bool) : Bool :=
  decide (bs.length ≥ 296) &&
  (let slen := leNat ((bs.drop 288).take 8)
   decide (bs.length = 296 + slen) &&
   (List.range 5).all (fun j => canonicalAt bs (128 + 32 * j)) && dec && snark &&
   decide (h2f ((bs.drop 296).take slen) = decFr bs 192) &&
   (match root with | some r => decide (r = decFr bs 128) | none => true) &&
   (match roots with | some rs => rs.isEmpty || rs.contains (decFr bs 128) | none => true))
end Spec

def bool01 (s : String) : Bool := s == "1" || s.endsWith "=1"

def unitSnark (dec snark : Bool) : Snark Unit :=
  { decode := fun _ => if dec then some () else none, verify := fun _ _ => some snark, encode := fun _ => [] }

def verdict (o : Outcome Bool) : String :=
  match o with | .ok true => "accept" | .ok false => "reject-false" | .err => "reject-err" | .panic => "panic"

/-! ## the JSON witness codec (`ZkModel/Json.lean`) -/
def utf8OfHex (h : String) : Option String :=
  (parseHexBytes h).bind (fun bs => String.fromUTF8? (ByteArray.mk bs.toArray))

/-- one `key=value` token of a `json_from` line -/
def parseJTok (tok : String) : Option (String × Json.JVal) :=
  match tok.splitOn "=" with
  | [k, v] =>
    if v == "o" then some (k, .other)
    else if v.startsWith "n:" then
      let r := (v.drop 2).toString
      if r == "-" then some (k, .nums []) else
      ((r.splitOn ",").mapM (fun (x : String) => x.toNat?)).map (fun l => (k, .nums l))
    else if v.startsWith "s:" then (utf8OfHex (v.drop 2).toString).map (fun s => (k, .str s))
    else if v.startsWith "t:" then
      (((v.drop 2).toString.splitOn ",").mapM utf8OfHex).map (fun l => (k, .strs l))
    else none
  | _ => none

def jsonOfWitnessBytes (b : List UInt8) (enc : Witness → Outcome Json.JObj) : String :=
  match deserializeWitness b with
  | .ok (wi, _) => out (enc wi) (fun o => "ok " ++ Json.render o)
  | .err => "err"
  | .panic => "panic"

/-- ops that need no tree -/
def stepPure (e : PEnv) (w : List String) : Option String :=
  match w with
  | ["ser_fr", v] => (parseHexNat v).map (fun v => showBytes (if e.spec then Spec.encFr v else frToBytesLe v))
  -- long generated vectors through the vector codecs: decode (encode l) = (l, 8 + size) for every l (C10_vecFr_roundtrip,
  -- C10_vecU8_roundtrip), so the summary is computed on l itself
  | ["bigvec", kind, n, sd] => match parseHexNat n, parseHexNat sd with
    | some n, some sd =>
      let l := (List.range n).map (fun i => if kind == "fr" then (sd + i + 1) % P else (sd + i + 1) % 256)
      let sum := l.foldl (· + ·) 0
      let sh := fun (v : Nat) => "0x" ++ String.ofList (Nat.toDigits 16 v)
      some (if kind == "fr" then s!"ok len={n} read={8 + 32 * n} first={match l.head? with | some v => fr v | none => "-"} last={match l.getLast? with | some v => fr v | none => "-"} sum={fr (sum % P)}"
            else s!"ok len={n} read={8 + n} first={match l.head? with | some v => sh v | none => "-"} last={match l.getLast? with | some v => sh v | none => "-"} sum={sh sum}")
    | _, _ => none
  | ["is_canonical", b] => (parseHexBytes b).map (fun b =>
      if decide (32 ≤ b.length) && decide (leNat (b.take 32) < P) then "true" else "false")
  | ["de_fr", b] => (parseHexBytes b).map (fun b =>
      if e.spec then (if b.length < 32 then "panic" else s!"{fr (Spec.decFr b 0)} 32")
      else out (bytesLeToFr b) (fun r => s!"{fr r.1} {r.2}"))
  | ["ser_vecfr", l] => (parseList l).map (fun l =>
      showBytes (if e.spec then Spec.encLen l.length ++ (l.map Spec.encFr).flatten else vecFrToBytesLe l))
  | ["de_vecfr", b] => (parseHexBytes b).map (fun b =>
      if e.spec then (match Spec.decVecFr b with | some (l, n) => s!"ok {showFrs l} {n}" | none => "err")
      else out (bytesLeToVecFr b) (fun r => s!"ok {showFrs r.1} {r.2}"))
  | ["ser_vecu8", b] => (parseHexBytes b).map (fun b => showBytes (if e.spec then Spec.encLen b.length ++ b else vecU8ToBytesLe b))
  | ["de_vecu8", b] => (parseHexBytes b).map (fun b =>
      if e.spec then (match Spec.decVecU8 b with | some (l, n) => s!"ok {showBytes l} {n}" | none => "err")
      else out (bytesLeToVecU8 b) (fun r => s!"ok {showBytes r.1} {r.2}"))
  | ["ser_usize", l] => (parseList l).map (fun l =>
      showBytes (if e.spec then Spec.encLen l.length ++ (l.map (natLE 8)).flatten else serializeVecUsize l))
  | ["de_usize", b] => (parseHexBytes b).map (fun b =>
      if e.spec then
        (if b.length < 8 then "panic" else
         let n := leNat (b.take 8)
         if n = 0 then "ok []" else
         if (b.length - 8) % 8 ≠ 0 then "panic" else
         "ok " ++ showFrs ((Spec.chunks 8 ((b.length - 8) / 8) (b.drop 8)).map leNat))
      else out (bytesLeToVecUsize b) (fun l => "ok " ++ showFrs l))
  | ["witness", s, lim, mid, path, idx, x, ext] =>
    match parseHexNat s, parseHexNat lim, parseHexNat mid, parseList path, parseHexBytes idx, parseHexNat x, parseHexNat ext with
    | some s, some lim, some mid, some path, some idx, some x, some ext =>
      let wi : Witness := { identitySecret := s % P, userMessageLimit := lim % P, messageId := mid % P, pathElements := path.map (· % P),
                            identityPathIndex := idx, x := x % P, externalNullifier := ext % P }
      -- `rln_witness_from_json` runs the range check first
      if wi.messageId ≥ wi.userMessageLimit then some "err" else
      if e.spec then
        some s!"ser={showBytes (Spec.encWitness wi)} pv={if wi.identityPathIndex.length ≤ wi.pathElements.length then showPv (specProofValues e.H wi) else "err"}"
      else
        some s!"ser={out (serializeWitness wi) showBytes} pv={out (proofValuesFromWitness e.H wi) showPv}"
    | _, _, _, _, _, _, _ => none
  | ["calcwit", s, lim, mid, path, idx, x, ext] =>
    match parseHexNat s, parseHexNat lim, parseHexNat mid, parseList path, parseHexBytes idx, parseHexNat x, parseHexNat ext with
    | some s, some lim, some mid, some path, some idx, some x, some ext =>
      let wi : Witness := { identitySecret := s % P, userMessageLimit := lim % P, messageId := mid % P, pathElements := path.map (· % P),
                            identityPathIndex := idx, x := x % P, externalNullifier := ext % P }
      if wi.messageId ≥ wi.userMessageLimit then some "err" else
      -- positions 0..5 of the circuit's witness: the constant 1, the outputs y, root, nullifier, the public inputs x, externalNullifier
      let v := specProofValues e.H wi
      some (showFrs [1, v.y, v.root, v.nullifier, v.x, v.externalNullifier])
    | _, _, _, _, _, _, _ => none
  | ["de_witness", b] => (parseHexBytes b).map (fun b =>
      if e.spec then (match Spec.decWitness b with | some wi => s!"ok {showWitness wi} read={b.length}" | none => "err")
      else out (deserializeWitness b) (fun r => s!"ok {showWitness r.1} read={r.2}"))
  | ["rln_wit_bigint", b] => (parseHexBytes b).map (fun b =>
      if e.spec then (match Spec.decWitness b with | some wi => s!"ok {showWitness wi} read={b.length}" | none => "err")
      else out (deserializeWitness b) (fun r => s!"ok {showWitness r.1} read={r.2}"))
  | ["rln_wit_json", b] => (parseHexBytes b).map (fun b =>
      if e.spec then (match Spec.decWitness b with | some wi => s!"ok {showWitness wi} same=true" | none => "err")
      else out (deserializeWitness b) (fun r => s!"ok {showWitness r.1} same=true"))
  | ["json_text", b] => (parseHexBytes b).map (fun b => jsonOfWitnessBytes b Json.witnessToJson)
  | ["bigint_text", b] => (parseHexBytes b).map (fun b => jsonOfWitnessBytes b Json.witnessToBigintJson)
  | "json_from" :: toks => (toks.mapM parseJTok).map (fun o => out (Json.witnessFromJson o) (fun wi => "ok " ++ showWitness wi))
  | ["json_rt", b] => (parseHexBytes b).map (fun b =>
      if e.spec then (match Spec.decWitness b with | some wi => s!"ok {showWitness wi} same=true" | none => "err")
      else out (deserializeWitness b) (fun r => s!"ok {showWitness r.1} same=true"))
  | ["pv_ser", y, n, root, x, ext] =>
    match parseHexNat y, parseHexNat n, parseHexNat root, parseHexNat x, parseHexNat ext with
    | some y, some n, some root, some x, some ext =>
      let v : ProofValues := { y := y % P, nullifier := n % P, root := root % P, x := x % P, externalNullifier := ext % P }
      some (showBytes (if e.spec then Spec.encPv v else serializeProofValues v))
    | _, _, _, _, _ => none
  | ["pv_de", b] => (parseHexBytes b).map (fun b =>
      if e.spec then
        (if b.length < 160 then "panic" else
         showPv { root := Spec.decFr b 0, externalNullifier := Spec.decFr b 32, x := Spec.decFr b 64, y := Spec.decFr b 96, nullifier := Spec.decFr b 128 } ++ " read=160")
      else out (deserializeProofValues b) (fun r => s!"{showPv r.1} read={r.2}"))
  | ["prep_prove", s, i, lim, mid, ext, sig] =>
    match parseHexNat s, parseHexNat i, parseHexNat lim, parseHexNat mid, parseHexNat ext, parseHexBytes sig with
    | some s, some i, some lim, some mid, some ext, some sig =>
      some (showBytes (if e.spec then Spec.encFr (s % P) ++ Spec.encLen i ++ Spec.encFr (lim % P) ++ Spec.encFr (mid % P) ++ Spec.encFr (ext % P) ++ Spec.encLen sig.length ++ sig
                       else prepareProveInput (s % P) i (lim % P) (mid % P) (ext % P) sig))
    | _, _, _, _, _, _ => none
  | ["prep_verify", pd, sig] =>
    match parseHexBytes pd, parseHexBytes sig with
    | some pd, some sig => some (showBytes (if e.spec then pd ++ Spec.encLen sig.length ++ sig else prepareVerifyInput pd sig))
    | _, _ => none
  | ["idsecret", x1, y1, x2, y2] =>
    match parseHexNat x1, parseHexNat y1, parseHexNat x2, parseHexNat y2 with
    | some x1, some y1, some x2, some y2 =>
      let (x1, y1, x2, y2) := (x1 % P, y1 % P, x2 % P, y2 % P)
      if e.spec then
        -- the line through (x1,y1), (x2,y2) at 0; no answer for a vertical pair
        some (if x1 = x2 then "err" else
          let a := fmul (fsub y1 y2) (finv (fsub x1 x2))
          "ok " ++ fr (fsub y1 (fmul x1 a)))
      else some (out (computeIdSecret x1 y1 x2 y2) (fun s => "ok " ++ fr s))
    | _, _, _, _ => none
  | ["id_pair_de", b] => (parseHexBytes b).map (fun b =>
      if e.spec then (if b.length < 64 then "panic" else s!"{fr (Spec.decFr b 0)} {fr (Spec.decFr b 32)}")
      else out (deserializeIdentityPair b) (fun r => s!"{fr r.1} {fr r.2}"))
  | ["id_tuple_de", b] => (parseHexBytes b).map (fun b =>
      if e.spec then (if b.length < 128 then "panic" else s!"{fr (Spec.decFr b 0)} {fr (Spec.decFr b 32)} {fr (Spec.decFr b 64)} {fr (Spec.decFr b 96)}")
      else out (deserializeIdentityTuple b) (fun r => s!"{fr r.1} {fr r.2.1} {fr r.2.2.1} {fr r.2.2.2}"))
  | ["fe_de", b] => (parseHexBytes b).map (fun b =>
      if e.spec then (if b.length < 32 then "panic" else fr (Spec.decFr b 0)) else out (deserializeFieldElement b) fr)
  | ["keygen_seeded", b] => (parseHexBytes b).map (fun b =>
      match Keygen.seededKeygen e.H b with | some (s, c) => s!"{fr s} {fr c}" | none => "model-out-of-fuel")
  | ["keygen_ext_seeded", b] => (parseHexBytes b).map (fun b =>
      match Keygen.extendedSeededKeygen e.H b with | some (t, n, s, c) => s!"{fr t} {fr n} {fr s} {fr c}" | none => "model-out-of-fuel")
  | ["rln", "seeded_key_gen", b] | ["ffi_seeded_key_gen", b] => (parseHexBytes b).map (fun b =>
      match Keygen.seededKeygen e.H b with | some (s, c) => "ok " ++ showBytes (natLE 32 s ++ natLE 32 c) | none => "model-out-of-fuel")
  | ["rln", "seeded_ext_key_gen", b] | ["ffi_seeded_ext_key_gen", b] => (parseHexBytes b).map (fun b =>
      match Keygen.extendedSeededKeygen e.H b with
      | some (t, n, s, c) => "ok " ++ showBytes (natLE 32 t ++ natLE 32 n ++ natLE 32 s ++ natLE 32 c) | none => "model-out-of-fuel")
  | ["keygen"] | ["keygen_ext"] | ["rln", "key_gen"] | ["rln", "ext_key_gen"] | ["ffi_key_gen"] | ["ffi_ext_key_gen"] => some "n/a"
  -- the circuit relation of the specification on a witness given by values (no software range check in between)
  | ["sat", s, lim, mid, path, idx, x, ext] =>
    match parseHexNat s, parseHexNat lim, parseHexNat mid, parseList path, parseHexBytes idx, parseHexNat x, parseHexNat ext with
    | some s, some lim, some mid, some path, some idx, some x, some ext =>
      let wi : Witness := { identitySecret := s % P, userMessageLimit := lim % P, messageId := mid % P, pathElements := path.map (· % P),
                            identityPathIndex := idx, x := x % P, externalNullifier := ext % P }
      some (toString (decide (CircuitSat 20 wi)))
    | _, _, _, _, _, _, _ => none
  | "witmap" :: _ => some "n/a"      -- the QAP reduction is not modelled (DESIGN §9); compared across thread counts only
  | ["oracle", _] => some "n/a"
  | _ => none

end Zk.ProtoDriver
