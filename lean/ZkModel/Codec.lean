import ZkModel.Basic
import ZkModel.Hashers
/-!
# `rln/src/utils.rs` — byte codecs (model of the code as it is, panics included)
-/
namespace Zk.Codec

def U64 : Nat := 2 ^ 64

/-- `normalize_usize` -/
def normalizeUsize (n : Nat) : List UInt8 := natLE 8 n

/-- `vec_fr_to_bytes_le` -/
def vecFrToBytesLe (l : List Nat) : List UInt8 :=
  normalizeUsize l.length ++ (l.map frToBytesLe).flatten

/-- `vec_u8_to_bytes_le` -/
def vecU8ToBytesLe (l : List UInt8) : List UInt8 := normalizeUsize l.length ++ l

/-- `input[0..8]` as a little-endian `u64` → `usize`; panics when fewer than 8 bytes -/
def readU64 (input : List UInt8) : Outcome Nat :=
  if input.length < 8 then .panic else .ok (leNat (input.take 8))

/-- `bytes_le_to_vec_u8` (after the `fix:` commit): `Err` when shorter than the header or when the
    declared length exceeds what follows; returns the bytes and the number of bytes read -/
def bytesLeToVecU8 (input : List UInt8) : Outcome (List UInt8 × Nat) :=
  if input.length < 8 then .err else
  let len := leNat (input.take 8)
  if len > input.length - 8 then .err
  else .ok ((input.drop 8).take len, 8 + len)

/-- elements `i = 0 … n-1` of `bytes_le_to_vec_fr`'s loop: `input[8+32i .. 8+32(i+1)]` -/
def readFrs (input : List UInt8) : Nat → Nat → List Nat → Outcome (List Nat)
  | 0, _, acc => .ok acc.reverse
  | n+1, i, acc =>
    if input.length < 8 + 32 * (i + 1) then .panic
    else readFrs input n (i + 1) ((leNat ((input.drop (8 + 32 * i)).take 32) % P) :: acc)

/-- `bytes_le_to_vec_fr` (after the `fix:` commit): `Err` when shorter than the header or when the
    declared count exceeds the number of whole elements that follow -/
def bytesLeToVecFr (input : List UInt8) : Outcome (List Nat × Nat) :=
  if input.length < 8 then .err else
  let len := leNat (input.take 8)
  if len > (input.length - 8) / 32 then .err else
  match readFrs input len 0 [] with
  | .ok l => .ok (l, 8 + 32 * len)
  | .err => .err
  | .panic => .panic

/-- 8-byte chunks of a list -/
def chunks8 : Nat → List UInt8 → List (List UInt8)
  | 0, _ => []
  | f+1, l => if l.isEmpty then [] else l.take 8 :: chunks8 f (l.drop 8)

/-- `bytes_le_to_vec_usize`: count from the first 8 bytes; zero ⇒ `[]`; otherwise *every* 8-byte
    chunk after the header (the count is not used), panicking on a short last chunk. -/
def bytesLeToVecUsize (input : List UInt8) : Outcome (List Nat) :=
  match readU64 input with
  | .ok n =>
    if n = 0 then .ok []
    else
      let cs := chunks8 (input.length + 1) (input.drop 8)
      if cs.any (fun c => c.length < 8) then .panic else .ok (cs.map leNat)
  | .err => .err
  | .panic => .panic

/-- `Vec<usize>::serialize_compressed` (ark-serialize): `u64` length then each element as `u64` LE -/
def serializeVecUsize (l : List Nat) : List UInt8 :=
  natLE 8 l.length ++ (l.map (natLE 8)).flatten

end Zk.Codec
