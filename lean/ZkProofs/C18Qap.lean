import ZkProofs.Lemmas.QapProofs
/-!
# C18 / C01 — the snarkjs-compatible witness map (`rln/src/circuit/qap.rs:26-103`)

`ZkModel/Qap.lean` holds the model (the code's pipeline: row evaluation, `c = a ∘ b`, inverse transform, scaling by powers of the
doubled domain's generator, forward transform, `a·b − c`; the domain transforms by their definition) and the specification (the
doc comment of `CircomReduction`: (A·B − C) at the odd points of the domain twice as large, written with Lagrange
interpolation).  The C18 stream `qap-witness-map-threads-{1,4}` runs the real function on generated constraint systems under 1
and 4 worker threads against both.  That the pipeline EQUALS the Lagrange form for every input is not a theorem here (it is
the orthogonality of the roots of unity; the two are compared by execution on every generated system); the theorems below are
about everything around the transforms: where the code can fail and what shape it returns.  The schedule-freeness of the
cell-by-cell fills (`cfg_iter_mut!`) is `C18_cellwise_fill_order_free` (ZkProofs/C18.lean).
-/
namespace Zk
open Zk.Qap

/-- model and specification fail on exactly the same inputs, in the same way -/
theorem C18_qap_outcomes_agree : QapOutcomeAgreeStmt := Qap.outcome_agree

/-- a returned vector has one entry per element of the evaluation domain -/
theorem C18_qap_length : QapLengthStmt := Qap.length_spec
/-- 3 constraints + 1 input → domain of 4 -/
example : (witnessMap [[(1, 0)], [(2, 1)], [(1, 1)]] [[(1, 1)], [(1, 0)], [(3, 0)]] 1 3 [1, 5]).map List.length = .ok 4 ∧
    (witnessMapSpec [[(1, 0)], [(2, 1)], [(1, 1)]] [[(1, 1)], [(1, 0)], [(3, 0)]] 1 3 [1, 5]).map List.length = .ok 4 := by
  decide +kernel
/-- on this system the transform pipeline and the Lagrange form give the same four values (a test, not the general claim) -/
example : witnessMap [[(1, 0)], [(2, 1)], [(1, 1)]] [[(1, 1)], [(1, 0)], [(3, 0)]] 1 3 [1, 5] =
    witnessMapSpec [[(1, 0)], [(2, 1)], [(1, 1)]] [[(1, 1)], [(1, 0)], [(3, 0)]] 1 3 [1, 5] := by decide +kernel

/-- the only error is a domain that does not exist -/
theorem C18_qap_only_error_is_domain : QapErrStmt := Qap.err_spec

/-- row evaluation never errs and panics exactly on a term outside the assignment -/
theorem C18_qap_row_evaluation : QapRowStmt := Qap.row_spec
example : evalRow [1, 5] [(2, 1), (3, 2)] = .panic ∧ evalRow [1, 5] [(2, 1), (3, 0)] = .ok 13 := by decide +kernel

end Zk
