import ZkModel.Zkey
/-!
# Statements about the snarkjs key-file reader (C17 / C01, anchor `rln/src/circuit/zkey.rs:56 read_zkey`)

STATEMENTS only; the proofs are in `ZkeyProofs.lean`, the property theorems in `C17Zkey.lean`.
-/
namespace Zk
open Zk.Zkey

/-- FIRST FORM OF THE CURSOR STATEMENT, FALSE (kept for the record; refuted by `Zkey.cursor_read_false`): it claimed an error
    whenever `data.length < p + n`, but a read of ZERO bytes succeeds at any position, beyond the end too — in the model
    as in `read_exact` on a `Cursor` (`data = []`, `p = 1`, `n = 0`). Found by the proof attempt. -/
def CursorReadStmtOriginal : Prop :=
  ∀ (data : Bytes) (p n : Nat),
    (p + n ≤ data.length → (Cur.at data p).read n = .ok ((data.drop p).take n, Cur.at data (p + n))) ∧
    (data.length < p + n → (Cur.at data p).read n = .err)

/-- the cursor of the model (position + remaining bytes) IS a `Cursor<&[u8]>`: a read of `n` bytes at position `p`
    succeeds when the bytes are there, returns `data[p .. p+n]` and moves to `p + n`; a read of at least one byte that
    does not fit is an error (never a panic), also when the position lies beyond the end -/
def CursorReadStmt : Prop :=
  ∀ (data : Bytes) (p n : Nat),
    (p + n ≤ data.length → (Cur.at data p).read n = .ok ((data.drop p).take n, Cur.at data (p + n))) ∧
    (0 < n → data.length < p + n → (Cur.at data p).read n = .err)

/-- `get_section` returns the FIRST section with the id, whatever stands before it under other ids -/
def SectionFirstWinsStmt : Prop :=
  ∀ (pre post : List Section) (s : Section), (∀ t ∈ pre, t.id ≠ s.id) →
    getSection (pre ++ s :: post) s.id = .ok s

/-- a missing section is a panic (the `unwrap` in `get_section`), never an error value -/
def SectionMissingStmt : Prop :=
  ∀ (ss : List Section) (id : Nat), (∀ t ∈ ss, t.id ≠ id) → getSection ss id = .panic

/-- the order of the sections in the file does not matter as long as no id occurs twice -/
def SectionOrderIrrelevantStmt : Prop :=
  ∀ (ss ss' : List Section), ss.Perm ss' → (ss.map (·.id)).Nodup →
    ∀ id, getSection ss id = getSection ss' id

/-- row `r` of matrix `m` as the file defines it: the records addressed to it, in file order -/
def rowOf (m r : Nat) (ks : List Coef) : List (Nat × Nat) :=
  (ks.filter (fun k => k.matrix = m ∧ k.constraint = r)).map (fun k => (coefValue k.raw, k.signal))

/-- what the record loop of `matrices()` builds: if every record addresses matrix 0 or 1 and a row of the domain, both
    matrices have one row per domain element and row `r` holds exactly the records addressed to it, in file order,
    each value divided by R²; otherwise the loop panics (index out of bounds); it never returns an error -/
def PushAllSpecStmt : Prop :=
  ∀ (n : Nat) (ks : List Coef),
    ((∀ k ∈ ks, k.matrix < 2 ∧ k.constraint < n) →
      ∃ a b : Rows, pushAll ks (Array.replicate n [], Array.replicate n []) = .ok (a, b) ∧ a.size = n ∧ b.size = n ∧
        ∀ r, r < n → a[r]! = rowOf 0 r ks ∧ b[r]! = rowOf 1 r ks) ∧
    ((∃ k ∈ ks, ¬ (k.matrix < 2 ∧ k.constraint < n)) →
      pushAll ks (Array.replicate n [], Array.replicate n []) = .panic)

/-- the stored coefficient is the value times R² (snarkjs writes coefficients in doubly-Montgomery form):
    multiplying the decoded value by R twice gives the stored number back, modulo the field -/
def CoefValueStmt : Prop :=
  ∀ raw : Nat, (coefValue raw * (2 ^ 256 % P) % P) * (2 ^ 256 % P) % P = raw % P

/-- the decoded value is a canonical field element -/
def CoefValueCanonicalStmt : Prop := ∀ raw : Nat, coefValue raw < P

/-- `matrices()` keeps the first `num_constraints` rows: with in-range records and no wrap, the result has exactly
    `max constraint index - n_public` rows per matrix (when the domain is at least that large), each the file's row -/
def BuildMatricesStmt : Prop :=
  ∀ (hd : Header) (ks : List Coef), (∀ k ∈ ks, k.matrix < 2 ∧ k.constraint < hd.domainSize) →
    hd.nPublic ≤ maxConstraint ks → maxConstraint ks < 2 ^ 64 →
    ∃ m, buildMatrices hd ks = .ok m ∧ m.numConstraints = maxConstraint ks - hd.nPublic ∧
      m.a.length = min (maxConstraint ks - hd.nPublic) hd.domainSize ∧ m.b.length = m.a.length ∧
      (∀ r, r < m.a.length → m.a[r]! = rowOf 0 r ks ∧ m.b[r]! = rowOf 1 r ks)

end Zk
