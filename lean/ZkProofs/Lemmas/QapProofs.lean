import ZkProofs.Lemmas.QapDefs
/-! Proofs of the statements in `QapDefs.lean`. -/
namespace Zk.Qap

theorem evalRow_ne_err (w : List Nat) (row : List (Nat × Nat)) : evalRow w row ≠ .err := by
  induction row with
  | nil => simp [evalRow]
  | cons t r ih =>
    obtain ⟨c, i⟩ := t
    simp only [evalRow]
    cases h1 : w[i]? <;> cases h2 : evalRow w r <;> simp_all

theorem evalRow_panic (w : List Nat) (row : List (Nat × Nat)) :
    evalRow w row = .panic ↔ ∃ t ∈ row, w.length ≤ t.2 := by
  induction row with
  | nil => simp [evalRow]
  | cons t r ih =>
    obtain ⟨c, i⟩ := t
    simp only [evalRow, List.mem_cons, exists_eq_or_imp]
    rw [← ih]
    cases h1 : w[i]? with
    | none =>
      have := List.getElem?_eq_none_iff.mp h1
      simp [this]
    | some v =>
      have hlt : i < w.length := by
        apply Classical.byContradiction
        intro hn
        have : w[i]? = none := List.getElem?_eq_none_iff.mpr (by omega)
        simp [this] at h1
      have hn : ¬ w.length ≤ i := by omega
      cases h2 : evalRow w r <;> simp [hn]

theorem row_spec : QapRowStmt := fun w row => ⟨evalRow_ne_err w row, evalRow_panic w row⟩

theorem evalRows_ne_err (w : List Nat) (l : List (List (Nat × Nat))) : evalRows w l ≠ .err := by
  induction l with
  | nil => simp [evalRows]
  | cons r rs ih =>
    have h0 := evalRow_ne_err w r
    simp only [evalRows]
    cases h1 : evalRow w r <;> cases h2 : evalRows w rs <;> simp_all

theorem evalRows_length (w : List Nat) (l : List (List (Nat × Nat))) :
    ∀ vs, evalRows w l = .ok vs → vs.length = l.length := by
  induction l with
  | nil => intro vs h; simp [evalRows] at h; subst h; rfl
  | cons r rs ih =>
    intro vs
    simp only [evalRows]
    cases h1 : evalRow w r <;> cases h2 : evalRows w rs <;> simp_all
    intro h; subst h; simp [ih]

theorem logSize_le (n : Nat) (h : logSize n ≤ 28) : n ≤ 2 ^ logSize n := by
  unfold logSize at *
  cases hf : (List.range 65).find? (fun k => n ≤ 2 ^ k) with
  | none => simp [hf] at h
  | some k =>
    have := List.find?_some hf
    simpa [hf] using this

theorem outcome_agree : QapOutcomeAgreeStmt := by
  intro A B ni nc w
  unfold witnessMap witnessMapSpec
  cases h : rowsOf A B ni nc w with
  | ok t =>
    obtain ⟨k, a, b, c⟩ := t
    simp only []
    split <;> simp
  | err => simp
  | panic => simp

theorem length_padTo (n : Nat) (l : List Nat) : (padTo n l).length = max n l.length := by
  simp [padTo]; omega

theorem length_dft (w : Nat) (xs : List Nat) : (dft w xs).length = xs.length := by
  simp [dft]

theorem length_shift (k g : Nat) (v : List Nat) :
    (fft k (distribute g (ifft k v))).length = v.length := by
  simp [fft, distribute, ifft, length_dft]

theorem rowsOf_ok {A B : List (List (Nat × Nat))} {ni nc : Nat} {w : List Nat} {k : Nat} {a b c : List Nat}
    (h : rowsOf A B ni nc w = .ok (k, a, b, c)) :
    k = logSize (nc + ni) ∧ a.length = 2 ^ k ∧ b.length = 2 ^ k ∧ c.length = 2 ^ k := by
  unfold rowsOf at h
  simp only [] at h
  split at h
  · cases h
  · rename_i hk
    have hle := logSize_le (nc + ni) (by omega)
    split at h
    · rename_i av bv ha hb
      have hla := evalRows_length _ _ _ ha
      have hlb := evalRows_length _ _ _ hb
      split at h
      · rename_i hni
        simp only [Outcome.ok.injEq, Prod.mk.injEq] at h
        obtain ⟨hk', ha', hb', hc'⟩ := h
        subst hk' ha' hb' hc'
        refine ⟨rfl, ?_, ?_, ?_⟩
        · simp [length_padTo, hla, List.length_take]; omega
        · simp [length_padTo, hlb, List.length_take]; omega
        · simp [length_padTo, hla, hlb, List.length_take]; omega
      · cases h
    · cases h
    · cases h
    · cases h

theorem rowsOf_err {A B : List (List (Nat × Nat))} {ni nc : Nat} {w : List Nat}
    (h : rowsOf A B ni nc w = .err) : 28 < logSize (nc + ni) := by
  unfold rowsOf at h
  simp only [] at h
  split at h
  · assumption
  · exfalso
    have e1 := evalRows_ne_err w (A.take (min nc (min A.length B.length)))
    have e2 := evalRows_ne_err w (B.take (min nc (min A.length B.length)))
    split at h
    · split at h <;> cases h
    · cases h
    · cases h
    · rename_i h1 h2 h3
      revert h1 h2 h3 e1 e2
      cases evalRows w (A.take (min nc (min A.length B.length))) <;>
        cases evalRows w (B.take (min nc (min A.length B.length))) <;> simp

theorem err_spec : QapErrStmt := by
  intro A B ni nc w h
  unfold witnessMap at h
  cases hr : rowsOf A B ni nc w with
  | ok t =>
    obtain ⟨k, a, b, c⟩ := t
    rw [hr] at h
    simp only [] at h
    have := (rowsOf_ok hr).1
    split at h
    · omega
    · cases h
  | err => have := rowsOf_err hr; omega
  | panic => rw [hr] at h; cases h

theorem length_model (A B : List (List (Nat × Nat))) (ni nc : Nat) (w h : List Nat)
    (hh : witnessMap A B ni nc w = .ok h) : h.length = 2 ^ logSize (nc + ni) := by
  unfold witnessMap at hh
  cases hr : rowsOf A B ni nc w with
  | ok t =>
    obtain ⟨k, a, b, c⟩ := t
    rw [hr] at hh
    simp only [] at hh
    obtain ⟨hk, ha, hb, hc⟩ := rowsOf_ok hr
    split at hh
    · cases hh
    · simp only [Outcome.ok.injEq] at hh
      subst hh
      simp only [List.length_zipWith, length_shift, ha, hb, hc]
      rw [← hk]; omega
  | err => rw [hr] at hh; cases hh
  | panic => rw [hr] at hh; cases hh

theorem length_specification (A B : List (List (Nat × Nat))) (ni nc : Nat) (w h : List Nat)
    (hh : witnessMapSpec A B ni nc w = .ok h) : h.length = 2 ^ logSize (nc + ni) := by
  unfold witnessMapSpec at hh
  cases hr : rowsOf A B ni nc w with
  | ok t =>
    obtain ⟨k, a, b, c⟩ := t
    rw [hr] at hh
    simp only [] at hh
    obtain ⟨hk, ha, hb, hc⟩ := rowsOf_ok hr
    split at hh
    · cases hh
    · simp only [Outcome.ok.injEq] at hh
      subst hh
      simp [hk]
  | err => rw [hr] at hh; cases hh
  | panic => rw [hr] at hh; cases hh

theorem length_spec : QapLengthStmt := fun A B ni nc w h =>
  ⟨length_model A B ni nc w h, length_specification A B ni nc w h⟩

end Zk.Qap
