import ZkModel.Public
/-!
# Generic byte lemmas: `leNat` / `natLE`, slicing
-/
namespace Zk

theorem natLE_length (n v : Nat) : (natLE n v).length = n := by
  induction n generalizing v with
  | zero => rfl
  | succ n ih => simp [natLE, ih]

theorem toUInt8_toNat_mod (v : Nat) : (v % 256).toUInt8.toNat = v % 256 := by
  simp [Nat.toUInt8]

theorem leNat_natLE_mod (n v : Nat) : leNat (natLE n v) = v % 256 ^ n := by
  induction n generalizing v with
  | zero => simp [natLE, leNat, Nat.mod_one]
  | succ n ih =>
    simp only [natLE, leNat, ih, toUInt8_toNat_mod]
    rw [Nat.pow_succ, Nat.mul_comm (256 ^ n) 256, Nat.mod_mul]

theorem leNat_natLE (n v : Nat) (h : v < 256 ^ n) : leNat (natLE n v) = v := by
  rw [leNat_natLE_mod, Nat.mod_eq_of_lt h]

theorem leNat_lt (bs : List UInt8) : leNat bs < 256 ^ bs.length := by
  induction bs with
  | nil => simp [leNat]
  | cons b r ih =>
    simp only [leNat, List.length_cons, Nat.pow_succ]
    have := b.toNat_lt
    omega

theorem leNat_inj (bs bs' : List UInt8) (h : leNat bs = leNat bs') (hl : bs.length = bs'.length) :
    bs = bs' := by
  induction bs generalizing bs' with
  | nil => cases bs' with
    | nil => rfl
    | cons _ _ => simp at hl
  | cons b r ih =>
    cases bs' with
    | nil => simp at hl
    | cons b' r' =>
      simp only [leNat] at h
      have h1 := b.toNat_lt
      have h2 := b'.toNat_lt
      have hb : b.toNat = b'.toNat := by omega
      have hr : leNat r = leNat r' := by omega
      rw [ih r' hr (by simpa using hl), UInt8.toNat_inj.mp hb]

theorem natLE_leNat (bs : List UInt8) : natLE bs.length (leNat bs) = bs :=
  leNat_inj _ _ (by rw [leNat_natLE _ _ (by simpa [natLE_length] using leNat_lt bs)])
    (natLE_length _ _)

theorem P_lt : P < 256 ^ 32 := by decide +kernel

theorem two64 : (256 : Nat) ^ 8 = 2 ^ 64 := by decide +kernel

/-! ## slicing -/

theorem slice_mid {α : Type} (pre mid post : List α) (off n : Nat) (h1 : pre.length = off)
    (h2 : mid.length = n) : ((pre ++ mid ++ post).drop off).take n = mid := by
  rw [List.append_assoc, List.drop_left' h1, List.take_left' h2]

theorem slice_mid0 {α : Type} (mid post : List α) (n : Nat)
    (h2 : mid.length = n) : ((mid ++ post).drop 0).take n = mid := by
  rw [List.drop_zero, List.take_left' h2]

theorem slice_append {α : Type} (l e : List α) (a b : Nat) (h : a + b ≤ l.length) :
    ((l ++ e).drop a).take b = (l.drop a).take b := by
  rw [List.drop_append_of_le_length (by omega), List.take_append_of_le_length (by simp; omega)]

theorem slice_take {α : Type} (l : List α) (k a b : Nat) (h : a + b ≤ k) :
    ((l.take k).drop a).take b = (l.drop a).take b := by
  rw [List.drop_take, List.take_take, Nat.min_eq_left (by omega)]

theorem slice_drop {α : Type} (l : List α) (c a b : Nat) :
    ((l.drop c).drop a).take b = (l.drop (c + a)).take b := by
  rw [List.drop_drop]

theorem flatten_const_length {α β : Type} (f : α → List β) (n : Nat) (l : List α)
    (h : ∀ a, (f a).length = n) : (l.map f).flatten.length = n * l.length := by
  induction l with
  | nil => simp
  | cons a r ih => simp [ih, h, Nat.mul_succ]; omega

end Zk
