import ZkProofs.Lemmas.TreeDefs
import ZkProofs.Lemmas.IdealProofs
/-!
# Helper lemmas for the persistent tree (`Pm`) refinement proofs
-/
set_option linter.unusedSectionVars false
namespace Zk.Tree

variable {α : Type} [Inhabited α] {D : Type} [MapLike D PmKey (PmVal α)]

/-! ## the state-and-result monad -/

theorem PmM.bind_ok {σ β γ : Type} {m : PmM σ β} {f : β → PmM σ γ} {s s' : σ} {b : β}
    (h : m s = (s', .ok b)) : (m >>= f) s = f b s' := by
  show PmM.bind' m f s = _
  unfold PmM.bind'
  rw [h]

theorem PmM.bind_err {σ β γ : Type} {m : PmM σ β} {f : β → PmM σ γ} {s s' : σ}
    (h : m s = (s', .err)) : (m >>= f) s = (s', .err) := by
  show PmM.bind' m f s = _
  unfold PmM.bind'
  rw [h]

namespace Pm

/-- the state after a successful storage write -/
def putKv (t : Pm α D) (k : PmKey) (v : PmVal α) : Pm α D :=
  { t with db := { t.db with kv := MapLike.insert t.db.kv k v, calls := t.db.calls + 1 } }

theorem put_ok (t : Pm α D) (k : PmKey) (v : PmVal α) (h : t.db.failAt = none) :
    put k v t = (t.putKv k v, .ok ()) := by
  unfold put putKv
  simp [h]

@[simp] theorem putKv_depth (t : Pm α D) (k v) : (t.putKv k v).depth = t.depth := rfl
@[simp] theorem putKv_next (t : Pm α D) (k v) : (t.putKv k v).next = t.next := rfl
@[simp] theorem putKv_cache (t : Pm α D) (k v) : (t.putKv k v).cache = t.cache := rfl
@[simp] theorem putKv_root (t : Pm α D) (k v) : (t.putKv k v).root = t.root := rfl
@[simp] theorem putKv_flags (t : Pm α D) (k v) : (t.putKv k v).flags = t.flags := rfl
@[simp] theorem putKv_metadata (t : Pm α D) (k v) : (t.putKv k v).metadata = t.metadata := rfl
@[simp] theorem putKv_failAt (t : Pm α D) (k v) : (t.putKv k v).db.failAt = t.db.failAt := rfl
@[simp] theorem putKv_kv (t : Pm α D) (k v) :
    (t.putKv k v).db.kv = MapLike.insert t.db.kv k v := rfl

variable [LawfulMapLike D PmKey (PmVal α)]

theorem getElem_putKv_node (t : Pm α D) (d i : Nat) (v : α) (d' i' : Nat) :
    (t.putKv (PmKey.node d i) (PmVal.fr v)).getElem d' i' =
      if d = d' ∧ i = i' then v else t.getElem d' i' := by
  unfold getElem
  simp only [putKv_kv, putKv_cache, LawfulMapLike.get?_insert]
  by_cases h : d = d' ∧ i = i'
  · obtain ⟨h1, h2⟩ := h
    subst h1; subst h2
    simp
  · have : ¬ (PmKey.node d i = PmKey.node d' i') := by
      intro hc; injection hc with h1 h2; exact h ⟨h1, h2⟩
    simp only [this, if_false, h]

theorem getElem_putKv_other (t : Pm α D) (k : PmKey) (v : PmVal α) (hk : ∀ d i, k ≠ PmKey.node d i)
    (d' i' : Nat) : (t.putKv k v).getElem d' i' = t.getElem d' i' := by
  unfold getElem
  simp only [putKv_kv, putKv_cache, LawfulMapLike.get?_insert]
  have : ¬ (k = PmKey.node d' i') := hk d' i'
  simp only [this, if_false]

theorem get?_putKv (t : Pm α D) (k k' : PmKey) (v : PmVal α) :
    MapLike.get? (t.putKv k v).db.kv k' = if k = k' then some v else MapLike.get? t.db.kv k' := by
  simp only [putKv_kv, LawfulMapLike.get?_insert]


/-! ## the default cache -/

/-- `[dfltAt k, …, dfltAt 0]` -/
def dl (H : α → α → α) (dflt : α) : Nat → List α
  | 0 => [dflt]
  | k+1 => Ideal.dfltAt H dflt (k+1) :: dl H dflt k

theorem dl_headD (H : α → α → α) (dflt : α) (k : Nat) :
    (dl H dflt k).headD dflt = Ideal.dfltAt H dflt k := by
  cases k <;> rfl

theorem dl_length (H : α → α → α) (dflt : α) (k : Nat) : (dl H dflt k).length = k + 1 := by
  induction k with
  | zero => rfl
  | succ k ih => simp [dl, ih]

theorem dl_getElem? (H : α → α → α) (dflt : α) :
    ∀ (k j : Nat), j ≤ k → (dl H dflt k)[j]? = some (Ideal.dfltAt H dflt (k - j))
  | 0, j, h => by
    have : j = 0 := by omega
    subst this; rfl
  | k+1, 0, _ => rfl
  | k+1, j+1, h => by
    simp only [dl, List.getElem?_cons_succ]
    rw [dl_getElem? H dflt k j (by omega)]
    congr 2
    omega

theorem mkCache_dl (H : α → α → α) (dflt : α) :
    ∀ (n k : Nat), mkCache H dflt n (dl H dflt k) = dl H dflt (n + k)
  | 0, k => by simp [mkCache]
  | n+1, k => by
    simp only [mkCache, dl_headD]
    have : H (Ideal.dfltAt H dflt k) (Ideal.dfltAt H dflt k) :: dl H dflt k = dl H dflt (k+1) := rfl
    rw [this, mkCache_dl H dflt n (k+1)]
    congr 1
    omega

theorem mkCache_size (H : α → α → α) (dflt : α) (n : Nat) :
    (mkCache H dflt n [dflt]).toArray.size = n + 1 := by
  have := mkCache_dl H dflt n 0
  simp only [dl] at this
  simp [this, dl_length]

theorem mkCache_get (H : α → α → α) (dflt : α) (n l : Nat) (h : l ≤ n) :
    (mkCache H dflt n [dflt]).toArray[l]! = Ideal.dfltAt H dflt (n - l) := by
  have := mkCache_dl H dflt n 0
  simp only [dl] at this
  rw [this, Nat.add_zero]
  simp [dl_getElem? H dflt n l h]


/-! ## frames -/

/-- what no tree operation changes -/
structure Frame (t t' : Pm α D) : Prop where
  depth : t'.depth = t.depth
  cache : t'.cache = t.cache
  flags : t'.flags = t.flags
  metadata : t'.metadata = t.metadata
  failAt : t'.db.failAt = t.db.failAt
  depthKey : MapLike.get? t'.db.kv PmKey.depthKey = MapLike.get? t.db.kv PmKey.depthKey

theorem Frame.refl (t : Pm α D) : Frame t t := ⟨rfl, rfl, rfl, rfl, rfl, rfl⟩

theorem Frame.trans {t t' t'' : Pm α D} (h1 : Frame t t') (h2 : Frame t' t'') : Frame t t'' :=
  ⟨h2.depth.trans h1.depth, h2.cache.trans h1.cache, h2.flags.trans h1.flags,
   h2.metadata.trans h1.metadata, h2.failAt.trans h1.failAt, h2.depthKey.trans h1.depthKey⟩

theorem Frame.putKv (t : Pm α D) (k : PmKey) (v : PmVal α) (hk : k ≠ PmKey.depthKey) :
    Frame t (t.putKv k v) := by
  refine ⟨rfl, rfl, rfl, rfl, rfl, ?_⟩
  rw [get?_putKv]
  simp [hk]

/-! ## `new` -/

theorem putDefaults_spec (c : Array α) :
    ∀ (n : Nat) (t : Pm α D), t.db.failAt = none →
      ∃ t', putDefaults c n t = (t', .ok ()) ∧ Frame t t' ∧ t'.next = t.next ∧ t'.root = t.root ∧
        MapLike.get? t'.db.kv PmKey.nextKey = MapLike.get? t.db.kv PmKey.nextKey ∧
        ((∀ d i, t.getElem d i = c[d]!) → ∀ d i, t'.getElem d i = c[d]!)
  | 0, t, _ => ⟨t, rfl, Frame.refl t, rfl, rfl, rfl, fun h => h⟩
  | n+1, t, hf => by
    obtain ⟨t', h1, h2, h3, h4, h5, h6⟩ :=
      putDefaults_spec c n (t.putKv (PmKey.node n 0) (PmVal.fr c[n]!)) (by simpa using hf)
    refine ⟨t', ?_, ?_, ?_, ?_, ?_, ?_⟩
    · unfold putDefaults
      rw [PmM.bind_ok (put_ok t _ _ hf)]
      exact h1
    · exact (Frame.putKv t _ _ (by simp)).trans h2
    · simpa using h3
    · simpa using h4
    · rw [h5, get?_putKv]; simp
    · intro h
      apply h6
      intro d i
      rw [getElem_putKv_node]
      split
      · rename_i hh; rw [← hh.1]
      · exact h d i


/-! ## nodes as `Ideal.nodeAux` -/

theorem nodeAux_congr (H : α → α → α) (lf lf' : Nat → α) :
    ∀ (k i : Nat), (∀ j, i * 2 ^ k ≤ j → j < (i + 1) * 2 ^ k → lf j = lf' j) →
      Ideal.nodeAux H lf k i = Ideal.nodeAux H lf' k i
  | 0, i, h => by
    simp only [Ideal.nodeAux]
    exact h i (by simp) (by simp)
  | k+1, i, h => by
    simp only [Ideal.nodeAux]
    have hp : 2 ^ (k+1) = 2 * 2 ^ k := by rw [Nat.pow_succ]; omega
    have e1 : 2 * i * 2 ^ k = i * 2 ^ (k+1) := by rw [hp, Nat.mul_comm 2 i, Nat.mul_assoc]
    have e2 : (2 * i + 1) * 2 ^ k = i * 2 ^ (k+1) + 2 ^ k := by rw [Nat.add_mul, e1]; simp
    have e3 : (2 * i + 1 + 1) * 2 ^ k = i * 2 ^ (k+1) + 2 ^ k + 2 ^ k := by
      rw [Nat.add_mul (2 * i + 1), e2]; simp
    have e4 : (i + 1) * 2 ^ (k+1) = i * 2 ^ (k+1) + 2 ^ k + 2 ^ k := by
      rw [Nat.add_mul i 1, hp]; omega
    have hpos := Nat.two_pow_pos k
    rw [nodeAux_congr H lf lf' k (2 * i), nodeAux_congr H lf lf' k (2 * i + 1)]
    · intro j h1 h2
      rw [e2] at h1; rw [e3] at h2
      exact h j (by omega) (by omega)
    · intro j h1 h2
      rw [e1] at h1; rw [e2] at h2
      exact h j h1 (by omega)

theorem getElem_nodeAux (H : α → α → α) (t : Pm α D)
    (cons : ∀ l i, l < t.depth → i < 2 ^ l →
      t.getElem l i = H (t.getElem (l + 1) (2 * i)) (t.getElem (l + 1) (2 * i + 1))) :
    ∀ (k l i : Nat), l + k = t.depth → i < 2 ^ l →
      t.getElem l i = Ideal.nodeAux H (fun j => t.getElem t.depth j) k i
  | 0, l, i, hl, _ => by
    have : l = t.depth := by omega
    subst this; rfl
  | k+1, l, i, hl, hi => by
    have hp : 2 ^ (l+1) = 2 * 2 ^ l := by rw [Nat.pow_succ]; omega
    rw [cons l i (by omega) hi, getElem_nodeAux H t cons k (l+1) (2*i) (by omega) (by omega),
      getElem_nodeAux H t cons k (l+1) (2*i+1) (by omega) (by omega)]
    rfl

theorem Rel.getElem_node {H : α → α → α} {dflt : α} {t : Pm α D} {s : Ideal α}
    (h : Rel H dflt t s) (l i : Nat) (hl : l ≤ s.depth) (hi : i < 2 ^ l) :
    t.getElem l i = s.node H dflt l i := by
  have hd := h.depth
  rw [getElem_nodeAux H t h.inv.cons (t.depth - l) l i (by omega) hi]
  unfold Ideal.node
  rw [hd]
  apply nodeAux_congr
  intro j _ h2
  show t.getElem s.depth j = _
  rw [← hd]
  apply h.leaves
  have : (i + 1) * 2 ^ (s.depth - l) ≤ 2 ^ l * 2 ^ (s.depth - l) := Nat.mul_le_mul_right _ hi
  rw [← Nat.pow_add] at this
  have e : l + (s.depth - l) = s.depth := by omega
  rw [e] at this
  rw [hd]; omega

/-! ## xor -/

theorem xor_one_div (i : Nat) : (i ^^^ 1) / 2 = i / 2 := by
  rw [Ideal.xor_one_eq]; split <;> omega

theorem xor_one_bit (i : Nat) : 1 - (i ^^^ 1) % 2 = i % 2 := by
  rw [Ideal.xor_one_eq]; split <;> omega

theorem xor_one_lt (i d : Nat) (h : i < 2 ^ (d + 1)) : (i ^^^ 1) < 2 ^ (d + 1) := by
  have hp : 2 ^ (d+1) = 2 * 2 ^ d := by rw [Nat.pow_succ]; omega
  rw [Ideal.xor_one_eq]; split <;> omega


/-! ## `recalcFrom` / `treeSet` -/

theorem div2_pow (i d l : Nat) (h : l ≤ d) : i / 2 / 2 ^ (d - l) = i / 2 ^ (d + 1 - l) := by
  have e : d + 1 - l = (d - l) + 1 := by omega
  rw [Nat.div_div_eq_div_mul, e, Nat.pow_succ, Nat.mul_comm]

/-- in-memory root update -/
def setRoot (t : Pm α D) (v : α) : Pm α D := { t with root := v }

@[simp] theorem getElem_setRoot (t : Pm α D) (v : α) (d i : Nat) :
    (t.setRoot v).getElem d i = t.getElem d i := rfl

theorem recalcFrom_spec (H : α → α → α) :
    ∀ (d i : Nat) (t : Pm α D), t.db.failAt = none →
      ∃ t', recalcFrom H d i t = (t', .ok ()) ∧ Frame t t' ∧ t'.next = t.next ∧
        MapLike.get? t'.db.kv PmKey.nextKey = MapLike.get? t.db.kv PmKey.nextKey ∧
        (∀ l j, (d ≤ l ∨ j ≠ i / 2 ^ (d - l)) → t'.getElem l j = t.getElem l j) ∧
        (∀ l, l < d → t'.getElem l (i / 2 ^ (d - l)) =
          H (t'.getElem (l + 1) (2 * (i / 2 ^ (d - l)))) (t'.getElem (l + 1) (2 * (i / 2 ^ (d - l)) + 1))) ∧
        (0 < d → i < 2 ^ d → t'.root = t'.getElem 0 0)
  | 0, i, t, _ => ⟨t, rfl, Frame.refl t, rfl, rfl, fun _ _ _ => rfl, fun l hl => by omega,
      fun h => by omega⟩
  | d+1, i, t, hf => by
    let value := hashCouple H t (d + 1) i
    let t1 := t.putKv (PmKey.node d (i / 2)) (PmVal.fr value)
    have hstep : recalcFrom H (d + 1) i t =
        (if d = 0 then modify (fun t => { t with root := value }) else recalcFrom H d (i / 2)) t1 := by
      rw [recalcFrom]
      exact PmM.bind_ok (put_ok t _ _ hf)
    have hg1 : ∀ l j, t1.getElem l j = if d = l ∧ i / 2 = j then value else t.getElem l j :=
      fun l j => getElem_putKv_node t d (i / 2) value l j
    have hval : value = H (t.getElem (d + 1) (2 * (i / 2))) (t.getElem (d + 1) (2 * (i / 2) + 1)) := by
      show H _ _ = _
      have : i - i % 2 = 2 * (i / 2) := by omega
      simp only [this]
    have hfr1 : Frame t t1 := Frame.putKv t _ _ (by simp)
    have hnk1 : MapLike.get? t1.db.kv PmKey.nextKey = MapLike.get? t.db.kv PmKey.nextKey := by
      rw [get?_putKv]; simp
    by_cases hd0 : d = 0
    · subst hd0
      refine ⟨t1.setRoot value, ?_, ⟨hfr1.1, hfr1.2, hfr1.3, hfr1.4, hfr1.5, hfr1.6⟩, rfl, hnk1, ?_, ?_, ?_⟩
      · rw [hstep]; rfl
      · intro l j hlj
        rw [getElem_setRoot, hg1]
        have : ¬ (0 = l ∧ i / 2 = j) := by
          rintro ⟨h1, h2⟩
          subst h1
          simp at hlj
          omega
        rw [if_neg this]
      · intro l hl
        have : l = 0 := by omega
        subst this
        simp only [getElem_setRoot, hg1, Nat.zero_add, Nat.sub_zero, Nat.pow_one]
        simp [hval]
      · intro _ hi
        have : i / 2 = 0 := by omega
        simp only [getElem_setRoot, hg1, this]
        simp [setRoot]
    · obtain ⟨t', h1, h2, h3, h4, h5, h6, h7⟩ := recalcFrom_spec H d (i / 2) t1 (hfr1.failAt.trans hf)
      have hun : ∀ l j, (d + 1 ≤ l ∨ j ≠ i / 2 ^ (d + 1 - l)) → t'.getElem l j = t.getElem l j := by
        intro l j hlj
        by_cases hl : d ≤ l
        · rw [h5 l j (Or.inl hl), hg1]
          have : ¬ (d = l ∧ i / 2 = j) := by
            rintro ⟨e1, e2⟩
            subst e1
            simp at hlj
            omega
          rw [if_neg this]
        · have hne : j ≠ i / 2 / 2 ^ (d - l) := by
            rw [div2_pow i d l (by omega)]
            rcases hlj with h | h
            · omega
            · exact h
          rw [h5 l j (Or.inr hne), hg1]
          have : ¬ (d = l ∧ i / 2 = j) := by omega
          rw [if_neg this]
      refine ⟨t', ?_, hfr1.trans h2, by rw [h3]; rfl, h4.trans hnk1, hun, ?_, ?_⟩
      · rw [hstep, if_neg hd0]; exact h1
      · intro l hl
        by_cases hld : l = d
        · subst hld
          have e : l + 1 - l = 1 := by omega
          rw [e, Nat.pow_one, h5 l (i / 2) (Or.inl (Nat.le_refl _)), hg1, if_pos ⟨rfl, rfl⟩,
            hun (l + 1) _ (Or.inl (Nat.le_refl _)), hun (l + 1) _ (Or.inl (Nat.le_refl _))]
          exact hval
        · have := h6 l (by omega)
          rw [div2_pow i d l (by omega)] at this
          exact this
      · intro _ hi
        have hp : 2 ^ (d+1) = 2 * 2 ^ d := by rw [Nat.pow_succ]; omega
        exact h7 (by omega) (by omega)


/-- in-memory `next` update -/
def setNext (t : Pm α D) (n : Nat) : Pm α D := { t with next := n }

@[simp] theorem getElem_setNext (t : Pm α D) (n : Nat) (d i : Nat) :
    (t.setNext n).getElem d i = t.getElem d i := rfl

theorem treeSet_spec (H : α → α → α) (t : Pm α D) (hinv : Inv H t) (key : Nat) (leaf : α)
    (hk : key < 2 ^ t.depth) :
    ∃ t', treeSet H key leaf t = (t', .ok ()) ∧ Inv H t' ∧ t'.depth = t.depth ∧ t'.flags = t.flags ∧
      t'.next = max t.next (key + 1) ∧
      ∀ j, t'.getElem t.depth j = if j = key then leaf else t.getElem t.depth j := by
  let t1 := t.putKv (PmKey.node t.depth key) (PmVal.fr leaf)
  have hfr1 : Frame t t1 := Frame.putKv t _ _ (by simp)
  have hg1 : ∀ l j, t1.getElem l j = if t.depth = l ∧ key = j then leaf else t.getElem l j :=
    fun l j => getElem_putKv_node t t.depth key leaf l j
  obtain ⟨t2, h1, h2, h3, h4, h5, h6, h7⟩ :=
    recalcFrom_spec H t.depth key t1 (hfr1.failAt.trans hinv.nofail)
  let t3 := t2.setNext (max t2.next (key + 1))
  let t4 := t3.putKv PmKey.nextKey (PmVal.num t3.next)
  have hfr23 : Frame t2 t3 := ⟨rfl, rfl, rfl, rfl, rfl, rfl⟩
  have hfr34 : Frame t3 t4 := Frame.putKv t3 PmKey.nextKey (PmVal.num t3.next) (by simp)
  have hfr4 : Frame t t4 := (hfr1.trans h2).trans (hfr23.trans hfr34)
  have hg4 : ∀ l j, t4.getElem l j = t2.getElem l j := by
    intro l j
    show (t3.putKv _ _).getElem l j = _
    rw [getElem_putKv_other _ _ _ (by simp)]
    rfl
  have hrun : treeSet H key leaf t = (t4, .ok ()) := by
    unfold treeSet
    have : ¬ (key ≥ t.cap) := by unfold cap; omega
    rw [if_neg this]
    rw [PmM.bind_ok (put_ok t _ _ hinv.nofail)]
    rw [PmM.bind_ok h1]
    rw [PmM.bind_ok (show modify (fun t => { t with next := max t.next (key + 1) }) t2 = (t3, .ok ()) from rfl)]
    exact put_ok t3 _ _ (by
      show t2.db.failAt = none
      rw [h2.failAt]; exact hfr1.failAt.trans hinv.nofail)
  have hn4 : t4.next = max t.next (key + 1) := by
    show max t2.next (key + 1) = _
    rw [h3]; rfl
  have hleaf : ∀ j, t4.getElem t.depth j = if j = key then leaf else t.getElem t.depth j := by
    intro j
    rw [hg4, h5 t.depth j (Or.inl (Nat.le_refl _)), hg1]
    by_cases hj : j = key
    · subst hj; simp
    · have : ¬ (t.depth = t.depth ∧ key = j) := by omega
      rw [if_neg this, if_neg hj]
  refine ⟨t4, hrun, ⟨?_, ?_, ?_, ?_, ?_, ?_, ?_, ?_, ?_⟩, hfr4.depth, hfr4.flags, hn4, hleaf⟩
  · rw [hfr4.cache, hfr4.depth]; exact hinv.csize
  · rw [hfr4.flags, hfr4.depth]; exact hinv.fsize
  · rw [hn4, hfr4.depth]
    have := hinv.next_le
    omega
  · rw [hfr4.depth]; exact hinv.depth_pos
  · rw [hfr4.failAt]; exact hinv.nofail
  · show t2.root = _
    rw [hg4]
    exact h7 hinv.depth_pos hk
  · intro l j hl hj
    rw [hfr4.depth] at hl
    rw [hg4, hg4, hg4]
    have hq : key / 2 ^ (t.depth - (l + 1)) / 2 = key / 2 ^ (t.depth - l) := by
      have e : t.depth - l = (t.depth - (l + 1)) + 1 := by omega
      rw [Nat.div_div_eq_div_mul, e, Nat.pow_succ]
    by_cases hjp : j = key / 2 ^ (t.depth - l)
    · subst hjp
      exact h6 l hl
    · have hc : ∀ x, x / 2 = j → t2.getElem (l + 1) x = t.getElem (l + 1) x := by
        intro x hx
        have hne : x ≠ key / 2 ^ (t.depth - (l + 1)) := by
          intro hc; subst hc; omega
        rw [h5 (l + 1) x (Or.inr hne), hg1]
        have : ¬ (t.depth = l + 1 ∧ key = x) := by
          rintro ⟨e1, e2⟩
          rw [e1, Nat.sub_self, Nat.pow_zero, Nat.div_one] at hne
          exact hne e2.symm
        rw [if_neg this]
      rw [h5 l j (Or.inr hjp), hg1, hc (2 * j) (by omega), hc (2 * j + 1) (by omega)]
      have : ¬ (t.depth = l ∧ key = j) := by omega
      rw [if_neg this]
      exact hinv.cons l j hl hj
  · rw [hfr4.depthKey, hfr4.depth]; exact hinv.stored_depth
  · show MapLike.get? (t3.putKv _ _).db.kv _ = _
    rw [get?_putKv]
    simp
    rfl


/-! ## flags -/

/-- the state after a successful flag write -/
def withFlag (t : Pm α D) (i v : Nat) : Pm α D := { t with flags := t.flags.setIfInBounds i v }

theorem setFlag_ok (t : Pm α D) (i v : Nat) (h : i < t.flags.size) :
    setFlag i v t = (t.withFlag i v, .ok ()) := by
  unfold setFlag withFlag
  rw [if_pos h]

@[simp] theorem getElem_withFlag (t : Pm α D) (i v : Nat) (d j : Nat) :
    (t.withFlag i v).getElem d j = t.getElem d j := rfl

theorem withFlag_get (t : Pm α D) (i v j : Nat) (h : i < t.flags.size) :
    (t.withFlag i v).flags[j]! = if j = i then v else t.flags[j]! := by
  show (t.flags.setIfInBounds i v)[j]! = _
  rw [Array.getElem!_eq_getD, Array.getD_eq_getD_getElem?, Array.getElem?_setIfInBounds]
  by_cases hj : j = i
  · subst hj; simp [h]
  · have : ¬ (i = j) := fun hc => hj hc.symm
    rw [if_neg this, if_neg hj, Array.getElem!_eq_getD, Array.getD_eq_getD_getElem?]

theorem Inv.withFlag {H : α → α → α} {t : Pm α D} (h : Inv H t) (i v : Nat) : Inv H (t.withFlag i v) :=
  ⟨h.csize, by show (t.flags.setIfInBounds i v).size = _; rw [Array.size_setIfInBounds]; exact h.fsize,
   h.next_le, h.depth_pos, h.nofail, h.root_eq, h.cons, h.stored_depth, h.stored_next⟩

/-- single write followed by the flag update, against any ideal successor with the right leaves -/
theorem rel_after_set {H : α → α → α} {dflt : α} {t : Pm α D} {s : Ideal α} (hrel : Rel H dflt t s)
    (key : Nat) (leaf : α) (b : Nat) (hk : key < 2 ^ t.depth) (s' : Ideal α)
    (hd : s'.depth = s.depth) (hn : s'.next = max s.next (key + 1))
    (hl : ∀ j, s'.leaf dflt j = if j = key then leaf else s.leaf dflt j)
    (hlive : ∀ j, ((s'.live.lookup j).getD false = false) ↔
      if j = key then b = 0 else ((s.live.lookup j).getD false = false)) :
    ∃ t'', (treeSet H key leaf >>= fun _ => setFlag key b) t = (t'', .ok ()) ∧ Rel H dflt t'' s' := by
  obtain ⟨t', h1, h2, h3, h4, h5, h6⟩ := treeSet_spec H t hrel.inv key leaf hk
  have hsz : key < t'.flags.size := by rw [h4, hrel.inv.fsize]; exact hk
  refine ⟨t'.withFlag key b, ?_, h2.withFlag key b, ?_, ?_, ?_, ?_⟩
  · rw [PmM.bind_ok h1]; exact setFlag_ok t' key b hsz
  · show t'.depth = _; rw [h3, hd]; exact hrel.depth
  · show t'.next = _; rw [h5, hn, hrel.next]
  · intro j hj
    show t'.getElem t'.depth j = _
    have hj' : j < 2 ^ t.depth := by
      have : (t'.withFlag key b).depth = t.depth := h3
      rw [this] at hj; exact hj
    rw [h3, h6, hl]
    by_cases hjk : j = key
    · simp [hjk]
    · rw [if_neg hjk, if_neg hjk]; exact hrel.leaves j hj'
  · intro j hj
    have hj' : j < 2 ^ t.depth := by
      have : (t'.withFlag key b).depth = t.depth := h3
      rw [this] at hj; exact hj
    rw [withFlag_get t' key b j hsz, hlive]
    by_cases hjk : j = key
    · simp [hjk]
    · rw [if_neg hjk, if_neg hjk, h4]; exact hrel.flags j hj'

end Pm
end Zk.Tree
