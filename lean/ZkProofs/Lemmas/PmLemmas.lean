import ZkProofs.Lemmas.TreeDefs
import ZkProofs.Lemmas.IdealProofs
/-!
# Helper lemmas for the persistent tree (`Pm`) refinement proofs
-/
set_option linter.unusedSectionVars false
namespace Zk.Tree

variable {α : Type} [Inhabited α] {D : Type} [MapLike D PmKey (PmVal α)]

/-! ## the state-and-result monad -/

theorem PmM.bind_ok {σ β γ : Type} {m : PmM σ β} {f : β → PmM σ γ} {s s' : σ} {b : β}
    (h : m s = (s', .ok b)) : (m >>= f) s = f b s' := by
  show PmM.bind' m f s = _
  unfold PmM.bind'
  rw [h]

theorem PmM.bind_err {σ β γ : Type} {m : PmM σ β} {f : β → PmM σ γ} {s s' : σ}
    (h : m s = (s', .err)) : (m >>= f) s = (s', .err) := by
  show PmM.bind' m f s = _
  unfold PmM.bind'
  rw [h]

namespace Pm

/-- the state after a successful storage write -/
def putKv (t : Pm α D) (k : PmKey) (v : PmVal α) : Pm α D :=
  { t with db := { t.db with kv := MapLike.insert t.db.kv k v, calls := t.db.calls + 1 } }

theorem put_ok (t : Pm α D) (k : PmKey) (v : PmVal α) (h : t.db.failAt = none) :
    put k v t = (t.putKv k v, .ok ()) := by
  unfold put putKv
  simp [h]

@[simp] theorem putKv_depth (t : Pm α D) (k v) : (t.putKv k v).depth = t.depth := rfl
@[simp] theorem putKv_next (t : Pm α D) (k v) : (t.putKv k v).next = t.next := rfl
@[simp] theorem putKv_cache (t : Pm α D) (k v) : (t.putKv k v).cache = t.cache := rfl
@[simp] theorem putKv_root (t : Pm α D) (k v) : (t.putKv k v).root = t.root := rfl
@[simp] theorem putKv_flags (t : Pm α D) (k v) : (t.putKv k v).flags = t.flags := rfl
@[simp] theorem putKv_metadata (t : Pm α D) (k v) : (t.putKv k v).metadata = t.metadata := rfl
@[simp] theorem putKv_failAt (t : Pm α D) (k v) : (t.putKv k v).db.failAt = t.db.failAt := rfl
@[simp] theorem putKv_kv (t : Pm α D) (k v) :
    (t.putKv k v).db.kv = MapLike.insert t.db.kv k v := rfl

variable [LawfulMapLike D PmKey (PmVal α)]

theorem getElem_putKv_node (t : Pm α D) (d i : Nat) (v : α) (d' i' : Nat) :
    (t.putKv (PmKey.node d i) (PmVal.fr v)).getElem d' i' =
      if d = d' ∧ i = i' then v else t.getElem d' i' := by
  unfold getElem
  simp only [putKv_kv, putKv_cache, LawfulMapLike.get?_insert]
  by_cases h : d = d' ∧ i = i'
  · obtain ⟨h1, h2⟩ := h
    subst h1; subst h2
    simp
  · have : ¬ (PmKey.node d i = PmKey.node d' i') := by
      intro hc; injection hc with h1 h2; exact h ⟨h1, h2⟩
    simp only [this, if_false, h]

theorem getElem_putKv_other (t : Pm α D) (k : PmKey) (v : PmVal α) (hk : ∀ d i, k ≠ PmKey.node d i)
    (d' i' : Nat) : (t.putKv k v).getElem d' i' = t.getElem d' i' := by
  unfold getElem
  simp only [putKv_kv, putKv_cache, LawfulMapLike.get?_insert]
  have : ¬ (k = PmKey.node d' i') := hk d' i'
  simp only [this, if_false]

theorem get?_putKv (t : Pm α D) (k k' : PmKey) (v : PmVal α) :
    MapLike.get? (t.putKv k v).db.kv k' = if k = k' then some v else MapLike.get? t.db.kv k' := by
  simp only [putKv_kv, LawfulMapLike.get?_insert]


/-! ## the default cache -/

/-- `[dfltAt k, …, dfltAt 0]` -/
def dl (H : α → α → α) (dflt : α) : Nat → List α
  | 0 => [dflt]
  | k+1 => Ideal.dfltAt H dflt (k+1) :: dl H dflt k

theorem dl_headD (H : α → α → α) (dflt : α) (k : Nat) :
    (dl H dflt k).headD dflt = Ideal.dfltAt H dflt k := by
  cases k <;> rfl

theorem dl_length (H : α → α → α) (dflt : α) (k : Nat) : (dl H dflt k).length = k + 1 := by
  induction k with
  | zero => rfl
  | succ k ih => simp [dl, ih]

theorem dl_getElem? (H : α → α → α) (dflt : α) :
    ∀ (k j : Nat), j ≤ k → (dl H dflt k)[j]? = some (Ideal.dfltAt H dflt (k - j))
  | 0, j, h => by
    have : j = 0 := by omega
    subst this; rfl
  | k+1, 0, _ => rfl
  | k+1, j+1, h => by
    simp only [dl, List.getElem?_cons_succ]
    rw [dl_getElem? H dflt k j (by omega)]
    congr 2
    omega

theorem mkCache_dl (H : α → α → α) (dflt : α) :
    ∀ (n k : Nat), mkCache H dflt n (dl H dflt k) = dl H dflt (n + k)
  | 0, k => by simp [mkCache]
  | n+1, k => by
    simp only [mkCache, dl_headD]
    have : H (Ideal.dfltAt H dflt k) (Ideal.dfltAt H dflt k) :: dl H dflt k = dl H dflt (k+1) := rfl
    rw [this, mkCache_dl H dflt n (k+1)]
    congr 1
    omega

theorem mkCache_size (H : α → α → α) (dflt : α) (n : Nat) :
    (mkCache H dflt n [dflt]).toArray.size = n + 1 := by
  have := mkCache_dl H dflt n 0
  simp only [dl] at this
  simp [this, dl_length]

theorem mkCache_get (H : α → α → α) (dflt : α) (n l : Nat) (h : l ≤ n) :
    (mkCache H dflt n [dflt]).toArray[l]! = Ideal.dfltAt H dflt (n - l) := by
  have := mkCache_dl H dflt n 0
  simp only [dl] at this
  rw [this, Nat.add_zero]
  simp [dl_getElem? H dflt n l h]


/-! ## frames -/

/-- what no tree operation changes -/
structure Frame (t t' : Pm α D) : Prop where
  depth : t'.depth = t.depth
  cache : t'.cache = t.cache
  flags : t'.flags = t.flags
  metadata : t'.metadata = t.metadata
  failAt : t'.db.failAt = t.db.failAt
  depthKey : MapLike.get? t'.db.kv PmKey.depthKey = MapLike.get? t.db.kv PmKey.depthKey

theorem Frame.refl (t : Pm α D) : Frame t t := ⟨rfl, rfl, rfl, rfl, rfl, rfl⟩

theorem Frame.trans {t t' t'' : Pm α D} (h1 : Frame t t') (h2 : Frame t' t'') : Frame t t'' :=
  ⟨h2.depth.trans h1.depth, h2.cache.trans h1.cache, h2.flags.trans h1.flags,
   h2.metadata.trans h1.metadata, h2.failAt.trans h1.failAt, h2.depthKey.trans h1.depthKey⟩

theorem Frame.putKv (t : Pm α D) (k : PmKey) (v : PmVal α) (hk : k ≠ PmKey.depthKey) :
    Frame t (t.putKv k v) := by
  refine ⟨rfl, rfl, rfl, rfl, rfl, ?_⟩
  rw [get?_putKv]
  simp [hk]

/-! ## `new` -/

theorem putDefaults_spec (c : Array α) :
    ∀ (n : Nat) (t : Pm α D), t.db.failAt = none →
      ∃ t', putDefaults c n t = (t', .ok ()) ∧ Frame t t' ∧ t'.next = t.next ∧ t'.root = t.root ∧
        MapLike.get? t'.db.kv PmKey.nextKey = MapLike.get? t.db.kv PmKey.nextKey ∧
        ((∀ d i, t.getElem d i = c[d]!) → ∀ d i, t'.getElem d i = c[d]!)
  | 0, t, _ => ⟨t, rfl, Frame.refl t, rfl, rfl, rfl, fun h => h⟩
  | n+1, t, hf => by
    obtain ⟨t', h1, h2, h3, h4, h5, h6⟩ :=
      putDefaults_spec c n (t.putKv (PmKey.node n 0) (PmVal.fr c[n]!)) (by simpa using hf)
    refine ⟨t', ?_, ?_, ?_, ?_, ?_, ?_⟩
    · unfold putDefaults
      rw [PmM.bind_ok (put_ok t _ _ hf)]
      exact h1
    · exact (Frame.putKv t _ _ (by simp)).trans h2
    · simpa using h3
    · simpa using h4
    · rw [h5, get?_putKv]; simp
    · intro h
      apply h6
      intro d i
      rw [getElem_putKv_node]
      split
      · rename_i hh; rw [← hh.1]
      · exact h d i


/-! ## nodes as `Ideal.nodeAux` -/

theorem nodeAux_congr (H : α → α → α) (lf lf' : Nat → α) :
    ∀ (k i : Nat), (∀ j, i * 2 ^ k ≤ j → j < (i + 1) * 2 ^ k → lf j = lf' j) →
      Ideal.nodeAux H lf k i = Ideal.nodeAux H lf' k i
  | 0, i, h => by
    simp only [Ideal.nodeAux]
    exact h i (by simp) (by simp)
  | k+1, i, h => by
    simp only [Ideal.nodeAux]
    have hp : 2 ^ (k+1) = 2 * 2 ^ k := by rw [Nat.pow_succ]; omega
    have e1 : 2 * i * 2 ^ k = i * 2 ^ (k+1) := by rw [hp, Nat.mul_comm 2 i, Nat.mul_assoc]
    have e2 : (2 * i + 1) * 2 ^ k = i * 2 ^ (k+1) + 2 ^ k := by rw [Nat.add_mul, e1]; simp
    have e3 : (2 * i + 1 + 1) * 2 ^ k = i * 2 ^ (k+1) + 2 ^ k + 2 ^ k := by
      rw [Nat.add_mul (2 * i + 1), e2]; simp
    have e4 : (i + 1) * 2 ^ (k+1) = i * 2 ^ (k+1) + 2 ^ k + 2 ^ k := by
      rw [Nat.add_mul i 1, hp]; omega
    have hpos := Nat.two_pow_pos k
    rw [nodeAux_congr H lf lf' k (2 * i), nodeAux_congr H lf lf' k (2 * i + 1)]
    · intro j h1 h2
      rw [e2] at h1; rw [e3] at h2
      exact h j (by omega) (by omega)
    · intro j h1 h2
      rw [e1] at h1; rw [e2] at h2
      exact h j h1 (by omega)

theorem getElem_nodeAux (H : α → α → α) (t : Pm α D)
    (cons : ∀ l i, l < t.depth → i < 2 ^ l →
      t.getElem l i = H (t.getElem (l + 1) (2 * i)) (t.getElem (l + 1) (2 * i + 1))) :
    ∀ (k l i : Nat), l + k = t.depth → i < 2 ^ l →
      t.getElem l i = Ideal.nodeAux H (fun j => t.getElem t.depth j) k i
  | 0, l, i, hl, _ => by
    have : l = t.depth := by omega
    subst this; rfl
  | k+1, l, i, hl, hi => by
    have hp : 2 ^ (l+1) = 2 * 2 ^ l := by rw [Nat.pow_succ]; omega
    rw [cons l i (by omega) hi, getElem_nodeAux H t cons k (l+1) (2*i) (by omega) (by omega),
      getElem_nodeAux H t cons k (l+1) (2*i+1) (by omega) (by omega)]
    rfl

theorem Rel.getElem_node {H : α → α → α} {dflt : α} {t : Pm α D} {s : Ideal α}
    (h : Rel H dflt t s) (l i : Nat) (hl : l ≤ s.depth) (hi : i < 2 ^ l) :
    t.getElem l i = s.node H dflt l i := by
  have hd := h.depth
  rw [getElem_nodeAux H t h.inv.cons (t.depth - l) l i (by omega) hi]
  unfold Ideal.node
  rw [hd]
  apply nodeAux_congr
  intro j _ h2
  show t.getElem s.depth j = _
  rw [← hd]
  apply h.leaves
  have : (i + 1) * 2 ^ (s.depth - l) ≤ 2 ^ l * 2 ^ (s.depth - l) := Nat.mul_le_mul_right _ hi
  rw [← Nat.pow_add] at this
  have e : l + (s.depth - l) = s.depth := by omega
  rw [e] at this
  rw [hd]; omega

/-! ## xor -/

theorem xor_one_div (i : Nat) : (i ^^^ 1) / 2 = i / 2 := by
  rw [Ideal.xor_one_eq]; split <;> omega

theorem xor_one_bit (i : Nat) : 1 - (i ^^^ 1) % 2 = i % 2 := by
  rw [Ideal.xor_one_eq]; split <;> omega

theorem xor_one_lt (i d : Nat) (h : i < 2 ^ (d + 1)) : (i ^^^ 1) < 2 ^ (d + 1) := by
  have hp : 2 ^ (d+1) = 2 * 2 ^ d := by rw [Nat.pow_succ]; omega
  rw [Ideal.xor_one_eq]; split <;> omega


/-! ## `recalcFrom` / `treeSet` -/

theorem div2_pow (i d l : Nat) (h : l ≤ d) : i / 2 / 2 ^ (d - l) = i / 2 ^ (d + 1 - l) := by
  have e : d + 1 - l = (d - l) + 1 := by omega
  rw [Nat.div_div_eq_div_mul, e, Nat.pow_succ, Nat.mul_comm]

/-- in-memory root update -/
def setRoot (t : Pm α D) (v : α) : Pm α D := { t with root := v }

@[simp] theorem getElem_setRoot (t : Pm α D) (v : α) (d i : Nat) :
    (t.setRoot v).getElem d i = t.getElem d i := rfl

theorem recalcFrom_spec (H : α → α → α) :
    ∀ (d i : Nat) (t : Pm α D), t.db.failAt = none →
      ∃ t', recalcFrom H d i t = (t', .ok ()) ∧ Frame t t' ∧ t'.next = t.next ∧
        MapLike.get? t'.db.kv PmKey.nextKey = MapLike.get? t.db.kv PmKey.nextKey ∧
        (∀ l j, (d ≤ l ∨ j ≠ i / 2 ^ (d - l)) → t'.getElem l j = t.getElem l j) ∧
        (∀ l, l < d → t'.getElem l (i / 2 ^ (d - l)) =
          H (t'.getElem (l + 1) (2 * (i / 2 ^ (d - l)))) (t'.getElem (l + 1) (2 * (i / 2 ^ (d - l)) + 1))) ∧
        (0 < d → i < 2 ^ d → t'.root = t'.getElem 0 0)
  | 0, i, t, _ => ⟨t, rfl, Frame.refl t, rfl, rfl, fun _ _ _ => rfl, fun l hl => by omega,
      fun h => by omega⟩
  | d+1, i, t, hf => by
    let value := hashCouple H t (d + 1) i
    let t1 := t.putKv (PmKey.node d (i / 2)) (PmVal.fr value)
    have hstep : recalcFrom H (d + 1) i t =
        (if d = 0 then modify (fun t => { t with root := value }) else recalcFrom H d (i / 2)) t1 := by
      rw [recalcFrom]
      exact PmM.bind_ok (put_ok t _ _ hf)
    have hg1 : ∀ l j, t1.getElem l j = if d = l ∧ i / 2 = j then value else t.getElem l j :=
      fun l j => getElem_putKv_node t d (i / 2) value l j
    have hval : value = H (t.getElem (d + 1) (2 * (i / 2))) (t.getElem (d + 1) (2 * (i / 2) + 1)) := by
      show H _ _ = _
      have : i - i % 2 = 2 * (i / 2) := by omega
      simp only [this]
    have hfr1 : Frame t t1 := Frame.putKv t _ _ (by simp)
    have hnk1 : MapLike.get? t1.db.kv PmKey.nextKey = MapLike.get? t.db.kv PmKey.nextKey := by
      rw [get?_putKv]; simp
    by_cases hd0 : d = 0
    · subst hd0
      refine ⟨t1.setRoot value, ?_, ⟨hfr1.1, hfr1.2, hfr1.3, hfr1.4, hfr1.5, hfr1.6⟩, rfl, hnk1, ?_, ?_, ?_⟩
      · rw [hstep]; rfl
      · intro l j hlj
        rw [getElem_setRoot, hg1]
        have : ¬ (0 = l ∧ i / 2 = j) := by
          rintro ⟨h1, h2⟩
          subst h1
          simp at hlj
          omega
        rw [if_neg this]
      · intro l hl
        have : l = 0 := by omega
        subst this
        simp only [getElem_setRoot, hg1, Nat.zero_add, Nat.sub_zero, Nat.pow_one]
        simp [hval]
      · intro _ hi
        have : i / 2 = 0 := by omega
        simp only [getElem_setRoot, hg1, this]
        simp [setRoot]
    · obtain ⟨t', h1, h2, h3, h4, h5, h6, h7⟩ := recalcFrom_spec H d (i / 2) t1 (hfr1.failAt.trans hf)
      have hun : ∀ l j, (d + 1 ≤ l ∨ j ≠ i / 2 ^ (d + 1 - l)) → t'.getElem l j = t.getElem l j := by
        intro l j hlj
        by_cases hl : d ≤ l
        · rw [h5 l j (Or.inl hl), hg1]
          have : ¬ (d = l ∧ i / 2 = j) := by
            rintro ⟨e1, e2⟩
            subst e1
            simp at hlj
            omega
          rw [if_neg this]
        · have hne : j ≠ i / 2 / 2 ^ (d - l) := by
            rw [div2_pow i d l (by omega)]
            rcases hlj with h | h
            · omega
            · exact h
          rw [h5 l j (Or.inr hne), hg1]
          have : ¬ (d = l ∧ i / 2 = j) := by omega
          rw [if_neg this]
      refine ⟨t', ?_, hfr1.trans h2, by rw [h3]; rfl, h4.trans hnk1, hun, ?_, ?_⟩
      · rw [hstep, if_neg hd0]; exact h1
      · intro l hl
        by_cases hld : l = d
        · subst hld
          have e : l + 1 - l = 1 := by omega
          rw [e, Nat.pow_one, h5 l (i / 2) (Or.inl (Nat.le_refl _)), hg1, if_pos ⟨rfl, rfl⟩,
            hun (l + 1) _ (Or.inl (Nat.le_refl _)), hun (l + 1) _ (Or.inl (Nat.le_refl _))]
          exact hval
        · have := h6 l (by omega)
          rw [div2_pow i d l (by omega)] at this
          exact this
      · intro _ hi
        have hp : 2 ^ (d+1) = 2 * 2 ^ d := by rw [Nat.pow_succ]; omega
        exact h7 (by omega) (by omega)


/-- in-memory `next` update -/
def setNext (t : Pm α D) (n : Nat) : Pm α D := { t with next := n }

@[simp] theorem getElem_setNext (t : Pm α D) (n : Nat) (d i : Nat) :
    (t.setNext n).getElem d i = t.getElem d i := rfl

theorem treeSet_spec (H : α → α → α) (t : Pm α D) (hinv : Inv H t) (key : Nat) (leaf : α)
    (hk : key < 2 ^ t.depth) :
    ∃ t', treeSet H key leaf t = (t', .ok ()) ∧ Inv H t' ∧ t'.depth = t.depth ∧ t'.flags = t.flags ∧
      t'.next = max t.next (key + 1) ∧
      ∀ j, t'.getElem t.depth j = if j = key then leaf else t.getElem t.depth j := by
  let t1 := t.putKv (PmKey.node t.depth key) (PmVal.fr leaf)
  have hfr1 : Frame t t1 := Frame.putKv t _ _ (by simp)
  have hg1 : ∀ l j, t1.getElem l j = if t.depth = l ∧ key = j then leaf else t.getElem l j :=
    fun l j => getElem_putKv_node t t.depth key leaf l j
  obtain ⟨t2, h1, h2, h3, h4, h5, h6, h7⟩ :=
    recalcFrom_spec H t.depth key t1 (hfr1.failAt.trans hinv.nofail)
  let t3 := t2.setNext (max t2.next (key + 1))
  let t4 := t3.putKv PmKey.nextKey (PmVal.num t3.next)
  have hfr23 : Frame t2 t3 := ⟨rfl, rfl, rfl, rfl, rfl, rfl⟩
  have hfr34 : Frame t3 t4 := Frame.putKv t3 PmKey.nextKey (PmVal.num t3.next) (by simp)
  have hfr4 : Frame t t4 := (hfr1.trans h2).trans (hfr23.trans hfr34)
  have hg4 : ∀ l j, t4.getElem l j = t2.getElem l j := by
    intro l j
    show (t3.putKv _ _).getElem l j = _
    rw [getElem_putKv_other _ _ _ (by simp)]
    rfl
  have hrun : treeSet H key leaf t = (t4, .ok ()) := by
    unfold treeSet
    have : ¬ (key ≥ t.cap) := by unfold cap; omega
    rw [if_neg this]
    rw [PmM.bind_ok (put_ok t _ _ hinv.nofail)]
    rw [PmM.bind_ok h1]
    rw [PmM.bind_ok (show modify (fun t => { t with next := max t.next (key + 1) }) t2 = (t3, .ok ()) from rfl)]
    exact put_ok t3 _ _ (by
      show t2.db.failAt = none
      rw [h2.failAt]; exact hfr1.failAt.trans hinv.nofail)
  have hn4 : t4.next = max t.next (key + 1) := by
    show max t2.next (key + 1) = _
    rw [h3]; rfl
  have hleaf : ∀ j, t4.getElem t.depth j = if j = key then leaf else t.getElem t.depth j := by
    intro j
    rw [hg4, h5 t.depth j (Or.inl (Nat.le_refl _)), hg1]
    by_cases hj : j = key
    · subst hj; simp
    · have : ¬ (t.depth = t.depth ∧ key = j) := by omega
      rw [if_neg this, if_neg hj]
  refine ⟨t4, hrun, ⟨?_, ?_, ?_, ?_, ?_, ?_, ?_, ?_, ?_⟩, hfr4.depth, hfr4.flags, hn4, hleaf⟩
  · rw [hfr4.cache, hfr4.depth]; exact hinv.csize
  · rw [hfr4.flags, hfr4.depth]; exact hinv.fsize
  · rw [hn4, hfr4.depth]
    have := hinv.next_le
    omega
  · rw [hfr4.depth]; exact hinv.depth_pos
  · rw [hfr4.failAt]; exact hinv.nofail
  · show t2.root = _
    rw [hg4]
    exact h7 hinv.depth_pos hk
  · intro l j hl hj
    rw [hfr4.depth] at hl
    rw [hg4, hg4, hg4]
    have hq : key / 2 ^ (t.depth - (l + 1)) / 2 = key / 2 ^ (t.depth - l) := by
      have e : t.depth - l = (t.depth - (l + 1)) + 1 := by omega
      rw [Nat.div_div_eq_div_mul, e, Nat.pow_succ]
    by_cases hjp : j = key / 2 ^ (t.depth - l)
    · subst hjp
      exact h6 l hl
    · have hc : ∀ x, x / 2 = j → t2.getElem (l + 1) x = t.getElem (l + 1) x := by
        intro x hx
        have hne : x ≠ key / 2 ^ (t.depth - (l + 1)) := by
          intro hc; subst hc; omega
        rw [h5 (l + 1) x (Or.inr hne), hg1]
        have : ¬ (t.depth = l + 1 ∧ key = x) := by
          rintro ⟨e1, e2⟩
          rw [e1, Nat.sub_self, Nat.pow_zero, Nat.div_one] at hne
          exact hne e2.symm
        rw [if_neg this]
      rw [h5 l j (Or.inr hjp), hg1, hc (2 * j) (by omega), hc (2 * j + 1) (by omega)]
      have : ¬ (t.depth = l ∧ key = j) := by omega
      rw [if_neg this]
      exact hinv.cons l j hl hj
  · rw [hfr4.depthKey, hfr4.depth]; exact hinv.stored_depth
  · show MapLike.get? (t3.putKv _ _).db.kv _ = _
    rw [get?_putKv]
    simp
    rfl


/-! ## flags -/

/-- the state after a successful flag write -/
def withFlag (t : Pm α D) (i v : Nat) : Pm α D := { t with flags := t.flags.setIfInBounds i v }

theorem setFlag_ok (t : Pm α D) (i v : Nat) (h : i < t.flags.size) :
    setFlag i v t = (t.withFlag i v, .ok ()) := by
  unfold setFlag withFlag
  rw [if_pos h]

@[simp] theorem getElem_withFlag (t : Pm α D) (i v : Nat) (d j : Nat) :
    (t.withFlag i v).getElem d j = t.getElem d j := rfl

theorem withFlag_get (t : Pm α D) (i v j : Nat) (h : i < t.flags.size) :
    (t.withFlag i v).flags[j]! = if j = i then v else t.flags[j]! := by
  show (t.flags.setIfInBounds i v)[j]! = _
  rw [Array.getElem!_eq_getD, Array.getD_eq_getD_getElem?, Array.getElem?_setIfInBounds]
  by_cases hj : j = i
  · subst hj; simp [h]
  · have : ¬ (i = j) := fun hc => hj hc.symm
    rw [if_neg this, if_neg hj, Array.getElem!_eq_getD, Array.getD_eq_getD_getElem?]

theorem Inv.withFlag {H : α → α → α} {t : Pm α D} (h : Inv H t) (i v : Nat) : Inv H (t.withFlag i v) :=
  ⟨h.csize, by show (t.flags.setIfInBounds i v).size = _; rw [Array.size_setIfInBounds]; exact h.fsize,
   h.next_le, h.depth_pos, h.nofail, h.root_eq, h.cons, h.stored_depth, h.stored_next⟩

/-- single write followed by the flag update, against any ideal successor with the right leaves -/
theorem rel_after_set {H : α → α → α} {dflt : α} {t : Pm α D} {s : Ideal α} (hrel : Rel H dflt t s)
    (key : Nat) (leaf : α) (b : Nat) (hk : key < 2 ^ t.depth) (s' : Ideal α)
    (hd : s'.depth = s.depth) (hn : s'.next = max s.next (key + 1))
    (hl : ∀ j, s'.leaf dflt j = if j = key then leaf else s.leaf dflt j)
    (hlive : ∀ j, ((s'.live.lookup j).getD false = false) ↔
      if j = key then b = 0 else ((s.live.lookup j).getD false = false)) :
    ∃ t'', (treeSet H key leaf >>= fun _ => setFlag key b) t = (t'', .ok ()) ∧ Rel H dflt t'' s' := by
  obtain ⟨t', h1, h2, h3, h4, h5, h6⟩ := treeSet_spec H t hrel.inv key leaf hk
  have hsz : key < t'.flags.size := by rw [h4, hrel.inv.fsize]; exact hk
  refine ⟨t'.withFlag key b, ?_, h2.withFlag key b, ?_, ?_, ?_, ?_⟩
  · rw [PmM.bind_ok h1]; exact setFlag_ok t' key b hsz
  · show t'.depth = _; rw [h3, hd]; exact hrel.depth
  · show t'.next = _; rw [h5, hn, hrel.next]
  · intro j hj
    show t'.getElem t'.depth j = _
    have hj' : j < 2 ^ t.depth := by
      have : (t'.withFlag key b).depth = t.depth := h3
      rw [this] at hj; exact hj
    rw [h3, h6, hl]
    by_cases hjk : j = key
    · simp [hjk]
    · rw [if_neg hjk, if_neg hjk]; exact hrel.leaves j hj'
  · intro j hj
    have hj' : j < 2 ^ t.depth := by
      have : (t'.withFlag key b).depth = t.depth := h3
      rw [this] at hj; exact hj
    rw [withFlag_get t' key b j hsz, hlive]
    by_cases hjk : j = key
    · simp [hjk]
    · rw [if_neg hjk, if_neg hjk, h4]; exact hrel.flags j hj'


/-! ## `treeSetRange`: subtrees -/

/-- `k` is a node of the subtree of height `f` below `(d, i)` -/
def InSub (f d i : Nat) (k : Nat × Nat) : Prop :=
  d ≤ k.1 ∧ k.1 ≤ d + f ∧ k.2 / 2 ^ (k.1 - d) = i

theorem InSub_self (f d i : Nat) : InSub f d i (d, i) := by
  simp [InSub]

theorem InSub_zero (d i : Nat) (k : Nat × Nat) : InSub 0 d i k ↔ k = (d, i) := by
  obtain ⟨a, b⟩ := k
  simp only [InSub, Prod.mk.injEq]
  constructor
  · rintro ⟨h1, h2, h3⟩
    have : a = d := by omega
    subst this
    simp at h3
    exact ⟨rfl, h3⟩
  · rintro ⟨rfl, rfl⟩
    simp

theorem InSub_succ (f d i : Nat) (k : Nat × Nat) :
    InSub (f + 1) d i k ↔ k = (d, i) ∨ InSub f (d + 1) (2 * i) k ∨ InSub f (d + 1) (2 * i + 1) k := by
  obtain ⟨a, b⟩ := k
  simp only [InSub, Prod.mk.injEq]
  constructor
  · rintro ⟨h1, h2, h3⟩
    by_cases ha : a = d
    · subst ha
      simp at h3
      exact Or.inl ⟨rfl, h3⟩
    · right
      have e : a - d = (a - (d + 1)) + 1 := by omega
      rw [e, Nat.pow_succ, ← Nat.div_div_eq_div_mul] at h3
      by_cases hx : b / 2 ^ (a - (d + 1)) = 2 * i
      · exact Or.inl ⟨by omega, by omega, hx⟩
      · exact Or.inr ⟨by omega, by omega, by omega⟩
  · rintro (⟨rfl, rfl⟩ | ⟨h1, h2, h3⟩ | ⟨h1, h2, h3⟩)
    · simp
    · have e : a - d = (a - (d + 1)) + 1 := by omega
      refine ⟨by omega, by omega, ?_⟩
      rw [e, Nat.pow_succ, ← Nat.div_div_eq_div_mul, h3]; omega
    · have e : a - d = (a - (d + 1)) + 1 := by omega
      refine ⟨by omega, by omega, ?_⟩
      rw [e, Nat.pow_succ, ← Nat.div_div_eq_div_mul, h3]; omega

theorem InSub_disj (f d i : Nat) (k : Nat × Nat) (h : InSub f (d + 1) (2 * i) k) :
    ¬ InSub f (d + 1) (2 * i + 1) k := by
  intro h'
  have := h.2.2
  have := h'.2.2
  omega

theorem not_InSub_up (f d c i : Nat) : ¬ InSub f (d + 1) c (d, i) := by
  intro h
  have : d + 1 ≤ d := h.1
  omega

theorem InSub_level (f d c c' : Nat) (h : InSub f d c (d, c')) : c' = c := by
  have := h.2.2
  simpa using this

theorem InSub_child (f d i c : Nat) (k : Nat × Nat) (hc : c = 2 * i ∨ c = 2 * i + 1)
    (h : InSub f (d + 1) c k) : InSub (f + 1) d i k ∧ k ≠ (d, i) := by
  refine ⟨?_, ?_⟩
  · rw [InSub_succ]
    rcases hc with rfl | rfl
    · exact Or.inr (Or.inl h)
    · exact Or.inr (Or.inr h)
  · intro hk
    subst hk
    exact not_InSub_up f d c i h


/-! ## `treeSetRange`: the filled map -/

variable {S : Type} [MapLike S (Nat × Nat) α] [LawfulMapLike S (Nat × Nat) α]

/-- leaves after the range write -/
def newLeaf (t : Pm α D) (L : Array α) (from_ : Nat) (j : Nat) : α :=
  if from_ ≤ j then (L[j - from_]?).getD (t.getElem t.depth j) else t.getElem t.depth j

/-- no leaf below `(·, i)` (height `f`) is written -/
def NoChange (L : Array α) (from_ f i : Nat) : Prop :=
  ∀ j, i * 2 ^ f ≤ j → j < (i + 1) * 2 ^ f → j < from_ ∨ from_ + L.size ≤ j

theorem newLeaf_old (t : Pm α D) (L : Array α) (from_ j : Nat) (h : j < from_ ∨ from_ + L.size ≤ j) :
    newLeaf t L from_ j = t.getElem t.depth j := by
  unfold newLeaf
  split
  · have : L.size ≤ j - from_ := by omega
    rw [Array.getElem?_eq_none this]; rfl
  · rfl

theorem newLeaf_new (t : Pm α D) (L : Array α) (from_ j : Nat) (v : α) (h1 : from_ ≤ j)
    (h : L[j - from_]? = some v) : newLeaf t L from_ j = v := by
  unfold newLeaf
  rw [if_pos h1, h]; rfl

/-- shape of the map after `fillNodes`: current values on the touched paths, new leaves, untouched
    subtrees cut off at their root -/
def Good (t : Pm α D) (L : Array α) (from_ : Nat) (sub : S) : Nat → Nat → Nat → Prop
  | 0, d, i => MapLike.get? sub (d, i) = some (newLeaf t L from_ i)
  | f+1, d, i => MapLike.get? sub (d, i) = some (t.getElem d i) ∧
      ((NoChange L from_ (f + 1) i ∧ ∀ k, InSub (f + 1) d i k → k ≠ (d, i) → MapLike.get? sub k = none) ∨
       (MapLike.get? sub (d + 1, 2 * i) ≠ none ∧ Good t L from_ sub f (d + 1) (2 * i) ∧
          Good t L from_ sub f (d + 1) (2 * i + 1)))

theorem Good_congr (t : Pm α D) (L : Array α) (from_ : Nat) (sub sub' : S) :
    ∀ (f d i : Nat), (∀ k, InSub f d i k → MapLike.get? sub' k = MapLike.get? sub k) →
      Good t L from_ sub f d i → Good t L from_ sub' f d i
  | 0, d, i, h, hg => by
    simp only [Good] at hg ⊢
    rw [h _ (InSub_self 0 d i)]; exact hg
  | f+1, d, i, h, hg => by
    simp only [Good] at hg ⊢
    obtain ⟨h1, h2⟩ := hg
    refine ⟨by rw [h _ (InSub_self _ d i)]; exact h1, ?_⟩
    rcases h2 with ⟨h3, h4⟩ | ⟨h3, h4, h5⟩
    · left
      exact ⟨h3, fun k hk hne => by rw [h k hk]; exact h4 k hk hne⟩
    · right
      refine ⟨?_, ?_, ?_⟩
      · rw [h _ (InSub_child f d i (2 * i) _ (Or.inl rfl) (InSub_self _ _ _)).1]; exact h3
      · exact Good_congr t L from_ sub sub' f (d + 1) (2 * i)
          (fun k hk => h k (InSub_child f d i (2 * i) k (Or.inl rfl) hk).1) h4
      · exact Good_congr t L from_ sub sub' f (d + 1) (2 * i + 1)
          (fun k hk => h k (InSub_child f d i (2 * i + 1) k (Or.inr rfl) hk).1) h5

theorem Good_some (t : Pm α D) (L : Array α) (from_ : Nat) (sub : S) (f d i : Nat)
    (h : Good t L from_ sub f d i) : MapLike.get? sub (d, i) ≠ none := by
  cases f with
  | zero => simp only [Good] at h; rw [h]; simp
  | succ f => simp only [Good] at h; rw [h.1]; simp

theorem Good_of_quiet (t : Pm α D) (L : Array α) (from_ : Nat) (sub : S) (f d i : Nat)
    (hd : d + f = t.depth) (hget : MapLike.get? sub (d, i) = some (t.getElem d i))
    (habs : ∀ k, InSub f d i k → k ≠ (d, i) → MapLike.get? sub k = none)
    (hnc : NoChange L from_ f i) : Good t L from_ sub f d i := by
  cases f with
  | zero =>
    simp only [Good]
    have : d = t.depth := by omega
    rw [newLeaf_old t L from_ i (hnc i (by simp) (by simp)), hget, this]
  | succ f =>
    simp only [Good]
    exact ⟨hget, Or.inl ⟨hnc, habs⟩⟩


theorem fillNodes_succ_eq (t : Pm α D) (L : Array α) (from_ f d i start end_ : Nat) (sub : S)
    (ks : List (Nat × Nat)) :
    fillNodes t L from_ (f + 1) d i start end_ (sub, ks) =
      match (if start < 2 ^ f then
          fillNodes t L from_ f (d + 1) (2 * i) start (min end_ (2 ^ f))
            (MapLike.insert (MapLike.insert sub (d + 1, 2 * i) (t.getElem (d + 1) (2 * i)))
              (d + 1, 2 * i + 1) (t.getElem (d + 1) (2 * i + 1)), (d + 1, 2 * i + 1) :: (d + 1, 2 * i) :: ks)
        else some (MapLike.insert (MapLike.insert sub (d + 1, 2 * i) (t.getElem (d + 1) (2 * i)))
              (d + 1, 2 * i + 1) (t.getElem (d + 1) (2 * i + 1)), (d + 1, 2 * i + 1) :: (d + 1, 2 * i) :: ks)) with
      | none => none
      | some acc =>
        if end_ > 2 ^ f then fillNodes t L from_ f (d + 1) (2 * i + 1) 0 (end_ - 2 ^ f) acc else some acc := by
  rw [fillNodes]
  rfl

theorem fillNodes_spec (t : Pm α D) (L : Array α) (from_ : Nat) :
    ∀ (f d i start end_ : Nat) (sub : S) (ks : List (Nat × Nat)),
      d + f = t.depth →
      start ≤ from_ - i * 2 ^ f → end_ = min (from_ + L.size - i * 2 ^ f) (2 ^ f) →
      i * 2 ^ f < from_ + L.size →
      MapLike.get? sub (d, i) = some (t.getElem d i) →
      (∀ k, InSub f d i k → k ≠ (d, i) → MapLike.get? sub k = none) →
      (∀ k, MapLike.get? sub k ≠ none ↔ k ∈ ks) →
      ∃ sub' ks', fillNodes t L from_ f d i start end_ (sub, ks) = some (sub', ks') ∧
        (∀ k, ¬ InSub f d i k → MapLike.get? sub' k = MapLike.get? sub k) ∧
        Good t L from_ sub' f d i ∧ (∀ k, MapLike.get? sub' k ≠ none ↔ k ∈ ks')
  | 0, d, i, start, end_, sub, ks, hd, hs, he, hb, hget, habs, hdom => by
    rw [fillNodes]
    simp only [Nat.pow_zero, Nat.mul_one] at hs he hb
    by_cases hi : i ≥ from_
    · have hlt : i - from_ < L.size := by omega
      rw [if_pos hi, Array.getElem?_eq_getElem hlt]
      refine ⟨_, _, rfl, ?_, ?_, ?_⟩
      · intro k hk
        rw [InSub_zero] at hk
        rw [LawfulMapLike.get?_insert, if_neg (fun hc => hk hc.symm)]
      · simp only [Good]
        rw [LawfulMapLike.get?_insert, if_pos rfl,
          newLeaf_new t L from_ i _ hi (Array.getElem?_eq_getElem hlt)]
      · intro k
        rw [LawfulMapLike.get?_insert, List.mem_cons, ← hdom k]
        by_cases hk : (d, i) = k
        · simp [hk]
        · rw [if_neg hk]
          constructor
          · exact Or.inr
          · rintro (h | h)
            · exact absurd h.symm hk
            · exact h
    · rw [if_neg hi]
      refine ⟨_, _, rfl, fun _ _ => rfl, ?_, hdom⟩
      simp only [Good]
      have : d = t.depth := by omega
      rw [newLeaf_old t L from_ i (Or.inl (by omega)), hget, this]
  | f+1, d, i, start, end_, sub, ks, hd, hs, he, hb, hget, habs, hdom => by
    -- arithmetic
    have hp : 2 ^ (f + 1) = 2 * 2 ^ f := by rw [Nat.pow_succ]; omega
    have e1 : 2 * i * 2 ^ f = i * 2 ^ (f + 1) := by rw [hp, Nat.mul_comm 2 i, Nat.mul_assoc]
    have e2 : (2 * i + 1) * 2 ^ f = i * 2 ^ (f + 1) + 2 ^ f := by rw [Nat.add_mul, e1]; simp
    have e3 : (2 * i + 1 + 1) * 2 ^ f = i * 2 ^ (f + 1) + 2 ^ f + 2 ^ f := by
      rw [Nat.add_mul (2 * i + 1), e2]; simp
    have hpos := Nat.two_pow_pos f
    have he' : end_ = min (from_ + L.size - i * 2 ^ (f + 1)) (2 * 2 ^ f) := by
      rw [he]; congr 1
    clear he
    have he := he'
    -- the two children
    let sub2 : S := MapLike.insert (MapLike.insert sub (d + 1, 2 * i) (t.getElem (d + 1) (2 * i)))
              (d + 1, 2 * i + 1) (t.getElem (d + 1) (2 * i + 1))
    let ks2 : List (Nat × Nat) := (d + 1, 2 * i + 1) :: (d + 1, 2 * i) :: ks
    have hs2 : ∀ k, MapLike.get? sub2 k =
        if (d + 1, 2 * i + 1) = k then some (t.getElem (d + 1) (2 * i + 1))
        else if (d + 1, 2 * i) = k then some (t.getElem (d + 1) (2 * i)) else MapLike.get? sub k := by
      intro k
      show MapLike.get? (MapLike.insert (MapLike.insert sub _ _) _ _) k = _
      rw [LawfulMapLike.get?_insert, LawfulMapLike.get?_insert]
    have hdom2 : ∀ k, MapLike.get? sub2 k ≠ none ↔ k ∈ ks2 := by
      intro k
      rw [hs2]
      show _ ↔ k ∈ (d + 1, 2 * i + 1) :: (d + 1, 2 * i) :: ks
      rw [List.mem_cons, List.mem_cons, ← hdom k]
      by_cases h1 : (d + 1, 2 * i + 1) = k
      · simp [h1]
      · rw [if_neg h1]
        by_cases h0 : (d + 1, 2 * i) = k
        · simp [h0]
        · rw [if_neg h0]
          constructor
          · exact fun h => Or.inr (Or.inr h)
          · rintro (h | h | h)
            · exact absurd h.symm h1
            · exact absurd h.symm h0
            · exact h
    have hs2out : ∀ k, k ≠ (d + 1, 2 * i) → k ≠ (d + 1, 2 * i + 1) →
        MapLike.get? sub2 k = MapLike.get? sub k := by
      intro k h0 h1
      rw [hs2, if_neg (fun hc => h1 hc.symm), if_neg (fun hc => h0 hc.symm)]
    have hget0 : MapLike.get? sub2 (d + 1, 2 * i) = some (t.getElem (d + 1) (2 * i)) := by
      rw [hs2, if_neg (by simp), if_pos rfl]
    have hget1 : MapLike.get? sub2 (d + 1, 2 * i + 1) = some (t.getElem (d + 1) (2 * i + 1)) := by
      rw [hs2, if_pos rfl]
    have habs2 : ∀ c, (c = 2 * i ∨ c = 2 * i + 1) → ∀ k, InSub f (d + 1) c k → k ≠ (d + 1, c) →
        MapLike.get? sub2 k = none := by
      intro c hc k hk hne
      have hpar := InSub_child f d i c k hc hk
      have hne' : ∀ c', k = (d + 1, c') → False := by
        intro c' hk'
        subst hk'
        exact hne (by rw [InSub_level f (d + 1) c c' hk])
      rw [hs2out k (fun h => hne' _ h) (fun h => hne' _ h)]
      exact habs k hpar.1 hpar.2
    -- left phase
    have hleft : ∃ s1 k1, (if start < 2 ^ f then
          fillNodes t L from_ f (d + 1) (2 * i) start (min end_ (2 ^ f)) (sub2, ks2)
        else some (sub2, ks2)) = some (s1, k1) ∧
        (∀ k, ¬ InSub f (d + 1) (2 * i) k → MapLike.get? s1 k = MapLike.get? sub2 k) ∧
        Good t L from_ s1 f (d + 1) (2 * i) ∧ (∀ k, MapLike.get? s1 k ≠ none ↔ k ∈ k1) := by
      by_cases hc : start < 2 ^ f
      · rw [if_pos hc]
        exact fillNodes_spec t L from_ f (d + 1) (2 * i) start (min end_ (2 ^ f)) sub2 ks2 (by omega)
          (by rw [e1]; exact hs) (by rw [e1, he]; omega) (by rw [e1]; exact hb) hget0
          (habs2 (2 * i) (Or.inl rfl)) hdom2
      · rw [if_neg hc]
        refine ⟨sub2, ks2, rfl, fun _ _ => rfl, ?_, hdom2⟩
        apply Good_of_quiet t L from_ sub2 f (d + 1) (2 * i) (by omega) hget0 (habs2 (2 * i) (Or.inl rfl))
        intro j h1 h2
        rw [e1] at h1; rw [e2] at h2
        left; omega
    obtain ⟨s1, k1, hr1, hout1, hgood1, hdom1⟩ := hleft
    -- right phase
    have hright : ∃ s2 k2, (if end_ > 2 ^ f then
          fillNodes t L from_ f (d + 1) (2 * i + 1) 0 (end_ - 2 ^ f) (s1, k1)
        else some (s1, k1)) = some (s2, k2) ∧
        (∀ k, ¬ InSub f (d + 1) (2 * i + 1) k → MapLike.get? s2 k = MapLike.get? s1 k) ∧
        Good t L from_ s2 f (d + 1) (2 * i + 1) ∧ (∀ k, MapLike.get? s2 k ≠ none ↔ k ∈ k2) := by
      have hget1' : MapLike.get? s1 (d + 1, 2 * i + 1) = some (t.getElem (d + 1) (2 * i + 1)) := by
        rw [hout1 _ (fun h => by have := InSub_level _ _ _ _ h; omega)]; exact hget1
      have habs1 : ∀ k, InSub f (d + 1) (2 * i + 1) k → k ≠ (d + 1, 2 * i + 1) →
          MapLike.get? s1 k = none := by
        intro k hk hne
        rw [hout1 k (fun h => InSub_disj f d i k h hk)]
        exact habs2 (2 * i + 1) (Or.inr rfl) k hk hne
      by_cases hc : end_ > 2 ^ f
      · rw [if_pos hc]
        exact fillNodes_spec t L from_ f (d + 1) (2 * i + 1) 0 (end_ - 2 ^ f) s1 k1 (by omega)
          (Nat.zero_le _) (by rw [e2, he]; omega) (by rw [e2]; omega) hget1' habs1 hdom1
      · rw [if_neg hc]
        refine ⟨s1, k1, rfl, fun _ _ => rfl, ?_, hdom1⟩
        apply Good_of_quiet t L from_ s1 f (d + 1) (2 * i + 1) (by omega) hget1' habs1
        intro j h1 h2
        rw [e2] at h1; rw [e3] at h2
        right; omega
    obtain ⟨s2, k2, hr2, hout2, hgood2, hdom2'⟩ := hright
    refine ⟨s2, k2, ?_, ?_, ?_, hdom2'⟩
    · rw [fillNodes_succ_eq]
      show (match (if start < 2 ^ f then
          fillNodes t L from_ f (d + 1) (2 * i) start (min end_ (2 ^ f)) (sub2, ks2)
        else some (sub2, ks2)) with
        | none => none
        | some acc =>
          if end_ > 2 ^ f then fillNodes t L from_ f (d + 1) (2 * i + 1) 0 (end_ - 2 ^ f) acc
          else some acc) = _
      rw [hr1]
      exact hr2
    · intro k hk
      rw [InSub_succ] at hk
      have h0 : ¬ InSub f (d + 1) (2 * i) k := fun h => hk (Or.inr (Or.inl h))
      have h1 : ¬ InSub f (d + 1) (2 * i + 1) k := fun h => hk (Or.inr (Or.inr h))
      rw [hout2 k h1, hout1 k h0]
      exact hs2out k (fun h => h0 (h ▸ InSub_self _ _ _)) (fun h => h1 (h ▸ InSub_self _ _ _))
    · simp only [Good]
      refine ⟨?_, Or.inr ⟨?_, ?_, hgood2⟩⟩
      · rw [hout2 _ (not_InSub_up _ _ _ _), hout1 _ (not_InSub_up _ _ _ _),
          hs2out _ (by simp) (by simp)]
        exact hget
      · rw [hout2 _ (InSub_disj f d i _ (InSub_self _ _ _))]
        exact Good_some t L from_ s1 f (d + 1) (2 * i) hgood1
      · exact Good_congr t L from_ s1 s2 f (d + 1) (2 * i)
          (fun k hk => hout2 k (InSub_disj f d i k hk)) hgood1


/-! ## `treeSetRange`: recomputation -/

theorem NoChange_child (L : Array α) (from_ f i : Nat) (h : NoChange L from_ (f + 1) i) :
    NoChange L from_ f (2 * i) ∧ NoChange L from_ f (2 * i + 1) := by
  have hp : 2 ^ (f + 1) = 2 * 2 ^ f := by rw [Nat.pow_succ]; omega
  have e1 : 2 * i * 2 ^ f = i * 2 ^ (f + 1) := by rw [hp, Nat.mul_comm 2 i, Nat.mul_assoc]
  have e2 : (2 * i + 1) * 2 ^ f = i * 2 ^ (f + 1) + 2 ^ f := by rw [Nat.add_mul, e1]; simp
  have e3 : (2 * i + 1 + 1) * 2 ^ f = i * 2 ^ (f + 1) + 2 ^ f + 2 ^ f := by
    rw [Nat.add_mul (2 * i + 1), e2]; simp
  have e4 : (i + 1) * 2 ^ (f + 1) = i * 2 ^ (f + 1) + 2 ^ f + 2 ^ f := by
    rw [Nat.add_mul i 1, hp]; omega
  have hpos := Nat.two_pow_pos f
  constructor
  · intro j h1 h2
    rw [e1] at h1; rw [e2] at h2
    exact h j h1 (by omega)
  · intro j h1 h2
    rw [e2] at h1; rw [e3] at h2
    exact h j (by omega) (by omega)

/-- an untouched subtree already holds the values of the updated tree -/
theorem quiet_node (H : α → α → α) (t : Pm α D) (L : Array α) (from_ : Nat)
    (cons : ∀ l i, l < t.depth → i < 2 ^ l →
      t.getElem l i = H (t.getElem (l + 1) (2 * i)) (t.getElem (l + 1) (2 * i + 1))) :
    ∀ (f d i : Nat), d + f = t.depth → i < 2 ^ d → NoChange L from_ f i →
      ∀ k, InSub f d i k → t.getElem k.1 k.2 = Ideal.nodeAux H (newLeaf t L from_) (t.depth - k.1) k.2
  | 0, d, i, hd, _, hnc, k, hk => by
    rw [InSub_zero] at hk
    subst hk
    have : d = t.depth := by omega
    subst this
    simp only [Nat.sub_self, Ideal.nodeAux]
    rw [newLeaf_old t L from_ i (hnc i (by simp) (by simp))]
  | f+1, d, i, hd, hi, hnc, k, hk => by
    have hp : 2 ^ (d + 1) = 2 * 2 ^ d := by rw [Nat.pow_succ]; omega
    obtain ⟨hn0, hn1⟩ := NoChange_child L from_ f i hnc
    rw [InSub_succ] at hk
    rcases hk with hk | hk | hk
    · subst hk
      have h0 := quiet_node H t L from_ cons f (d + 1) (2 * i) (by omega) (by omega) hn0 _ (InSub_self _ _ _)
      have h1 := quiet_node H t L from_ cons f (d + 1) (2 * i + 1) (by omega) (by omega) hn1 _ (InSub_self _ _ _)
      simp only at h0 h1 ⊢
      have e : t.depth - d = (t.depth - (d + 1)) + 1 := by omega
      rw [cons d i (by omega) hi, h0, h1, e]
      rfl
    · exact quiet_node H t L from_ cons f (d + 1) (2 * i) (by omega) (by omega) hn0 k hk
    · exact quiet_node H t L from_ cons f (d + 1) (2 * i + 1) (by omega) (by omega) hn1 k hk

theorem batchRecalc_spec (H : α → α → α) (t : Pm α D) (L : Array α) (from_ : Nat)
    (cons : ∀ l i, l < t.depth → i < 2 ^ l →
      t.getElem l i = H (t.getElem (l + 1) (2 * i)) (t.getElem (l + 1) (2 * i + 1))) :
    ∀ (f d i : Nat) (sub : S) (ks : List (Nat × Nat)), d + f = t.depth → i < 2 ^ d →
      Good t L from_ sub f d i →
      ∃ sub2 ks2, batchRecalc H f d i sub ks =
          some (Ideal.nodeAux H (newLeaf t L from_) f i, sub2, ks2) ∧
        (∀ k, ¬ InSub f d i k → MapLike.get? sub2 k = MapLike.get? sub k) ∧
        (∀ k, MapLike.get? sub2 k = none ↔ MapLike.get? sub k = none) ∧
        (∀ k, InSub f d i k → (MapLike.get? sub2 k).getD (t.getElem k.1 k.2) =
          Ideal.nodeAux H (newLeaf t L from_) (t.depth - k.1) k.2)
  | 0, d, i, sub, ks, hd, _, hg => by
    simp only [Good] at hg
    refine ⟨sub, ks, ?_, fun _ _ => rfl, fun _ => Iff.rfl, ?_⟩
    · rw [batchRecalc, hg]; rfl
    · intro k hk
      rw [InSub_zero] at hk
      subst hk
      have : d = t.depth := by omega
      subst this
      simp only [hg, Nat.sub_self, Ideal.nodeAux, Option.getD_some]
  | f+1, d, i, sub, ks, hd, hi, hg => by
    have hp : 2 ^ (d + 1) = 2 * 2 ^ d := by rw [Nat.pow_succ]; omega
    simp only [Good] at hg
    obtain ⟨hget, hq | ⟨hc, hg0, hg1⟩⟩ := hg
    · -- untouched subtree
      obtain ⟨hnc, habs⟩ := hq
      have hself := quiet_node H t L from_ cons (f + 1) d i hd hi hnc _ (InSub_self _ _ _)
      simp only at hself
      have e : t.depth - d = f + 1 := by omega
      rw [e] at hself
      have hnone : MapLike.get? sub (d + 1, 2 * i) = none :=
        habs _ (InSub_child f d i (2 * i) _ (Or.inl rfl) (InSub_self _ _ _)).1
          (InSub_child f d i (2 * i) _ (Or.inl rfl) (InSub_self _ _ _)).2
      refine ⟨sub, ks, ?_, fun _ _ => rfl, fun _ => Iff.rfl, ?_⟩
      · rw [batchRecalc, hnone]
        simp only [hget, Option.map_some, hself]
      · intro k hk
        by_cases hkk : k = (d, i)
        · subst hkk
          simp only [hget, Option.getD_some, e, hself]
        · rw [habs k hk hkk]
          exact quiet_node H t L from_ cons (f + 1) d i hd hi hnc k hk
    · -- recomputed node
      obtain ⟨x, hx⟩ := Option.ne_none_iff_exists'.mp hc
      obtain ⟨s1, k1, hr1, hout1, hnone1, hval1⟩ :=
        batchRecalc_spec H t L from_ cons f (d + 1) (2 * i) sub ks (by omega) (by omega) hg0
      have hg1' : Good t L from_ s1 f (d + 1) (2 * i + 1) :=
        Good_congr t L from_ sub s1 f (d + 1) (2 * i + 1)
          (fun k hk => hout1 k (fun h => InSub_disj f d i k h hk)) hg1
      obtain ⟨s2, k2, hr2, hout2, hnone2, hval2⟩ :=
        batchRecalc_spec H t L from_ cons f (d + 1) (2 * i + 1) s1 k1 (by omega) (by omega) hg1'
      refine ⟨MapLike.insert s2 (d, i) (Ideal.nodeAux H (newLeaf t L from_) (f + 1) i), k2, ?_, ?_, ?_, ?_⟩
      · rw [batchRecalc, hx]
        simp only [hr1, hr2]
        rfl
      · intro k hk
        rw [InSub_succ] at hk
        have hne : ¬ ((d, i) = k) := fun h => hk (Or.inl h.symm)
        rw [LawfulMapLike.get?_insert, if_neg hne,
          hout2 k (fun h => hk (Or.inr (Or.inr h))), hout1 k (fun h => hk (Or.inr (Or.inl h)))]
      · intro k
        rw [LawfulMapLike.get?_insert]
        by_cases hk : (d, i) = k
        · subst hk
          simp [hget]
        · rw [if_neg hk, hnone2, hnone1]
      · intro k hk
        rw [LawfulMapLike.get?_insert]
        rw [InSub_succ] at hk
        rcases hk with hk | hk | hk
        · subst hk
          have e : t.depth - d = f + 1 := by omega
          simp only [if_true, Option.getD_some, e]
        · have hne : ¬ ((d, i) = k) := fun h => not_InSub_up f d (2 * i) i (h ▸ hk)
          rw [if_neg hne, hout2 k (InSub_disj f d i k hk)]
          exact hval1 k hk
        · have hne : ¬ ((d, i) = k) := fun h => not_InSub_up f d (2 * i + 1) i (h ▸ hk)
          rw [if_neg hne]
          exact hval2 k hk


/-! ## `treeSetRange`: the batch write -/

/-- the state after a successful batch write -/
def batchKv (t : Pm α D) (kvs : List (PmKey × PmVal α)) : Pm α D :=
  { t with db := { t.db with kv := kvs.foldl (fun m kv => MapLike.insert m kv.1 kv.2) t.db.kv,
                             calls := t.db.calls + 1 } }

theorem putBatch_ok (t : Pm α D) (kvs : List (PmKey × PmVal α)) (h : t.db.failAt = none) :
    putBatch kvs t = (t.batchKv kvs, .ok ()) := by
  unfold putBatch batchKv
  simp [h]

theorem foldl_insert_node (g : Nat × Nat → Option α) (d i : Nat) :
    ∀ (ks : List (Nat × Nat)) (m : D),
      MapLike.get? ((ks.filterMap (fun k => (g k).map (fun v => (PmKey.node k.1 k.2, PmVal.fr v)))).foldl
        (fun m kv => MapLike.insert m kv.1 kv.2) m) (PmKey.node d i) =
      if (d, i) ∈ ks ∧ g (d, i) ≠ none then (g (d, i)).map PmVal.fr else MapLike.get? m (PmKey.node d i)
  | [], m => by simp
  | k :: r, m => by
    cases hg : g k with
    | none =>
      rw [List.filterMap_cons_none (by rw [hg]; rfl), foldl_insert_node g d i r m]
      by_cases hk : (d, i) = k
      · subst hk; simp [hg]
      · simp [hk]
    | some v =>
      rw [List.filterMap_cons_some (by rw [hg]; rfl), List.foldl_cons, foldl_insert_node g d i r _,
        LawfulMapLike.get?_insert]
      by_cases hk : (d, i) = k
      · subst hk
        simp [hg]
      · have : ¬ (PmKey.node k.1 k.2 = PmKey.node d i) := by
          intro hc; injection hc with h1 h2
          apply hk; rw [← h1, ← h2]
        simp [hk, this]

theorem foldl_insert_other (g : Nat × Nat → Option α) (key : PmKey) (hkey : ∀ d i, key ≠ PmKey.node d i) :
    ∀ (ks : List (Nat × Nat)) (m : D),
      MapLike.get? ((ks.filterMap (fun k => (g k).map (fun v => (PmKey.node k.1 k.2, PmVal.fr v)))).foldl
        (fun m kv => MapLike.insert m kv.1 kv.2) m) key = MapLike.get? m key
  | [], m => by simp
  | k :: r, m => by
    cases hg : g k with
    | none =>
      rw [List.filterMap_cons_none (by rw [hg]; rfl), foldl_insert_other g key hkey r m]
    | some v =>
      rw [List.filterMap_cons_some (by rw [hg]; rfl), List.foldl_cons, foldl_insert_other g key hkey r _,
        LawfulMapLike.get?_insert, if_neg (fun h => hkey _ _ h.symm)]


theorem treeSetRange_spec (S : Type) [MapLike S (Nat × Nat) α] [LawfulMapLike S (Nat × Nat) α]
    (H : α → α → α) (t : Pm α D) (hinv : Inv H t) (start : Nat) (vs : List α) (hne : vs ≠ [])
    (hfit : start + vs.length ≤ 2 ^ t.depth) :
    ∃ t', treeSetRange S H start vs t = (t', .ok ()) ∧ Inv H t' ∧ t'.depth = t.depth ∧
      t'.flags = t.flags ∧ t'.next = max t.next (start + vs.length) ∧
      ∀ j, j < 2 ^ t.depth → t'.getElem t.depth j = newLeaf t vs.toArray start j := by
  have hlen : 0 < vs.length := List.length_pos_iff.mpr hne
  have hsz : vs.toArray.size = vs.length := by simp
  let sub0 : S := MapLike.insert (MapLike.empty : S) (0, 0) t.root
  have hs0 : ∀ k, MapLike.get? sub0 k = if (0, 0) = k then some t.root else none := by
    intro k
    show MapLike.get? (MapLike.insert _ _ _) k = _
    rw [LawfulMapLike.get?_insert, LawfulMapLike.get?_empty]
  -- phase 1
  obtain ⟨sub1, keys, hfill, -, hgood, hdom⟩ :=
    fillNodes_spec t vs.toArray start t.depth 0 0 start (start + vs.length) sub0 [(0, 0)]
      (by omega) (by simp) (by rw [hsz]; simp; omega) (by rw [hsz]; omega)
      (by rw [hs0, if_pos rfl, hinv.root_eq])
      (fun k _ hk => by rw [hs0, if_neg (fun h => hk h.symm)])
      (fun k => by
        rw [hs0]
        by_cases h : (0, 0) = k
        · subst h; simp
        · rw [if_neg h]; simp; exact fun hc => h hc.symm)
  -- phase 2
  obtain ⟨sub2, ks2, hbatch, -, hnone, hval⟩ :=
    batchRecalc_spec H t vs.toArray start hinv.cons t.depth 0 0 sub1 [] (by omega) (by simp) hgood
  let rootVal := Ideal.nodeAux H (newLeaf t vs.toArray start) t.depth 0
  let kvs : List (PmKey × PmVal α) := keys.filterMap (fun k =>
        (MapLike.get? sub2 k).map (fun v => (PmKey.node k.1 k.2, PmVal.fr v)))
  let t1 := t.batchKv kvs
  have hg1 : ∀ d i, d ≤ t.depth → i < 2 ^ d →
      t1.getElem d i = Ideal.nodeAux H (newLeaf t vs.toArray start) (t.depth - d) i := by
    intro d i hd hi
    rw [← hval (d, i) ⟨Nat.zero_le _, by omega, by simp [Nat.div_eq_of_lt hi]⟩]
    unfold getElem
    show (match MapLike.get? (kvs.foldl (fun m kv => MapLike.insert m kv.1 kv.2) t.db.kv)
        (PmKey.node d i) with
      | some (.fr v) => v
      | _ => t.cache[d]!) = _
    rw [foldl_insert_node (fun k => MapLike.get? sub2 k) d i keys]
    cases hc : MapLike.get? sub2 (d, i) with
    | none => simp; rfl
    | some v =>
      have : (d, i) ∈ keys := by
        rw [← hdom]
        intro hn
        rw [← hnone, hc] at hn
        exact absurd hn (by simp)
      simp [this]
  have hcapn : ¬ (start + vs.length > t.cap) := by unfold cap; omega
  unfold treeSetRange
  have hfill' : fillNodes t vs.toArray start t.depth 0 0 start (start + vs.length)
      ((MapLike.insert (MapLike.empty : S) (0, 0) t.root), [(0, 0)]) = some (sub1, keys) := hfill
  simp only [hcapn, if_false, hfill', hbatch]
  have hf1 : t1.db.failAt = none := hinv.nofail
  let e := start + vs.length
  let t2 : Pm α D := if e > t1.next then (t1.setNext e).putKv PmKey.nextKey (PmVal.num e) else t1
  have h2 : (fun t : Pm α D =>
        if start + vs.length > t.next then
          ((modify fun t => { t with next := start + vs.length }) >>=
              fun _ => put PmKey.nextKey (PmVal.num (start + vs.length))) t
        else (t, Outcome.ok ())) t1 = (t2, .ok ()) := by
    show (if e > t1.next then _ else _) = _
    by_cases hc : e > t1.next
    · rw [if_pos hc]
      show _ = (if e > t1.next then _ else _, _)
      rw [if_pos hc]
      rw [PmM.bind_ok (show modify (fun t => { t with next := start + vs.length }) t1 = (t1.setNext e, .ok ()) from rfl)]
      exact put_ok _ _ _ hf1
    · rw [if_neg hc]
      show _ = (if e > t1.next then _ else _, _)
      rw [if_neg hc]
  have hg2 : ∀ d i, t2.getElem d i = t1.getElem d i := by
    intro d i
    show Pm.getElem (if e > t1.next then _ else _) d i = _
    split
    · rw [getElem_putKv_other _ _ _ (by simp)]; rfl
    · rfl
  have hfr2 : Frame t t2 := by
    show Frame t (if e > t1.next then _ else _)
    have h01 : Frame t t1 := by
      refine ⟨rfl, rfl, rfl, rfl, rfl, ?_⟩
      exact foldl_insert_other (fun k => MapLike.get? sub2 k) PmKey.depthKey (by simp) keys t.db.kv
    split
    · have ha : Frame t1 (t1.setNext e) := ⟨rfl, rfl, rfl, rfl, rfl, rfl⟩
      have hb : Frame (t1.setNext e) ((t1.setNext e).putKv PmKey.nextKey (PmVal.num e)) :=
        Frame.putKv (t1.setNext e) PmKey.nextKey (PmVal.num e) (by simp)
      exact h01.trans (ha.trans hb)
    · exact h01
  have hn2 : t2.next = max t.next e := by
    show Pm.next (if e > t1.next then _ else _) = _
    have : t1.next = t.next := rfl
    split
    · show e = _; omega
    · omega
  refine ⟨t2.setRoot rootVal, ?_, ⟨?_, ?_, ?_, ?_, ?_, ?_, ?_, ?_, ?_⟩, hfr2.depth, hfr2.flags, hn2, ?_⟩
  · rw [PmM.bind_ok (putBatch_ok t kvs hinv.nofail)]
    rw [PmM.bind_ok h2]
    rfl
  · show t2.cache.size = t2.depth + 1
    rw [hfr2.cache, hfr2.depth]; exact hinv.csize
  · show t2.flags.size = 2 ^ t2.depth
    rw [hfr2.flags, hfr2.depth]; exact hinv.fsize
  · show t2.next ≤ 2 ^ t2.depth
    rw [hn2, hfr2.depth]
    have := hinv.next_le
    omega
  · show 0 < t2.depth
    rw [hfr2.depth]; exact hinv.depth_pos
  · show t2.db.failAt = none
    rw [hfr2.failAt]; exact hinv.nofail
  · show rootVal = t2.getElem 0 0
    rw [hg2, hg1 0 0 (Nat.zero_le _) (by simp)]
    rfl
  · intro l i hl hi
    have hl' : l < t.depth := by
      have : (t2.setRoot rootVal).depth = t.depth := hfr2.depth
      omega
    have hp : 2 ^ (l + 1) = 2 * 2 ^ l := by rw [Nat.pow_succ]; omega
    show t2.getElem l i = H (t2.getElem (l + 1) (2 * i)) (t2.getElem (l + 1) (2 * i + 1))
    rw [hg2, hg2, hg2, hg1 l i (by omega) hi, hg1 (l + 1) (2 * i) (by omega) (by omega),
      hg1 (l + 1) (2 * i + 1) (by omega) (by omega)]
    have e : t.depth - l = (t.depth - (l + 1)) + 1 := by omega
    rw [e]; rfl
  · show MapLike.get? t2.db.kv PmKey.depthKey = some (PmVal.num t2.depth)
    rw [hfr2.depthKey, hfr2.depth]; exact hinv.stored_depth
  · show MapLike.get? t2.db.kv PmKey.nextKey = some (PmVal.num t2.next)
    rw [hn2]
    show MapLike.get? (Pm.db (if e > t1.next then _ else _)).kv _ = _
    have hn1 : t1.next = t.next := rfl
    split
    · rw [get?_putKv, if_pos rfl]
      congr 2; omega
    · have : MapLike.get? t1.db.kv PmKey.nextKey = MapLike.get? t.db.kv PmKey.nextKey :=
        foldl_insert_other (fun k => MapLike.get? sub2 k) PmKey.nextKey (by simp) keys t.db.kv
      rw [this, hinv.stored_next]
      congr 2; omega
  · intro j hj
    show t2.getElem t.depth j = _
    rw [hg2, hg1 t.depth j (Nat.le_refl _) hj, Nat.sub_self]
    rfl


/-! ## `setFlags` and `Ideal.writeMany` -/

theorem setFlags_spec (v : Nat) :
    ∀ (l : List Nat) (t : Pm α D), (∀ i ∈ l, i < t.flags.size) →
      ∃ t', setFlags v l t = (t', .ok ()) ∧ (∀ H : α → α → α, Inv H t → Inv H t') ∧
        t'.depth = t.depth ∧ t'.next = t.next ∧ (∀ d j, t'.getElem d j = t.getElem d j) ∧
        t'.flags.size = t.flags.size ∧ (∀ j, t'.flags[j]! = if j ∈ l then v else t.flags[j]!)
  | [], t, _ => ⟨t, rfl, fun _ h => h, rfl, rfl, fun _ _ => rfl, rfl, fun j => by simp⟩
  | i :: r, t, h => by
    have hi : i < t.flags.size := h i (by simp)
    have hsz : (t.withFlag i v).flags.size = t.flags.size := by
      show (t.flags.setIfInBounds i v).size = _
      rw [Array.size_setIfInBounds]
    obtain ⟨t', h1, h2, h3, h4, h5, h6, h7⟩ := setFlags_spec v r (t.withFlag i v)
      (fun j hj => by rw [hsz]; exact h j (by simp [hj]))
    refine ⟨t', ?_, fun H hinv => h2 H (hinv.withFlag i v), h3, h4, h5, h6.trans hsz, ?_⟩
    · unfold setFlags
      rw [PmM.bind_ok (setFlag_ok t i v hi)]
      exact h1
    · intro j
      rw [h7, withFlag_get t i v j hi]
      by_cases hjr : j ∈ r
      · simp [hjr]
      · by_cases hji : j = i
        · simp [hji]
        · simp [hjr, hji]

end Pm

variable {α : Type}

theorem Ideal.pm_writeMany_depth (s : Ideal α) (start : Nat) (vs : List α) :
    (s.writeMany start vs).depth = s.depth := by
  induction vs generalizing s start with
  | nil => rfl
  | cons v r ih => simp only [Ideal.writeMany]; rw [ih]; rfl

theorem Ideal.pm_writeMany_next (s : Ideal α) (start : Nat) (vs : List α) :
    (s.writeMany start vs).next = s.next := by
  induction vs generalizing s start with
  | nil => rfl
  | cons v r ih => simp only [Ideal.writeMany]; rw [ih]; rfl

theorem Ideal.pm_leaf_write (dflt : α) (s : Ideal α) (i : Nat) (v : α) (j : Nat) :
    (s.write i v).leaf dflt j = if j = i then v else s.leaf dflt j := by
  unfold Ideal.leaf Ideal.write
  simp only [List.lookup_cons]
  by_cases h : j = i
  · subst h; simp
  · have : (j == i) = false := by simp [h]
    rw [this, if_neg h]

theorem Ideal.pm_writeMany_leaf (dflt : α) (s : Ideal α) (start : Nat) (vs : List α) (j : Nat) :
    (s.writeMany start vs).leaf dflt j =
      if start ≤ j then (vs[j - start]?).getD (s.leaf dflt j) else s.leaf dflt j := by
  induction vs generalizing s start with
  | nil => simp [Ideal.writeMany]
  | cons v r ih =>
    simp only [Ideal.writeMany]
    rw [ih, Ideal.pm_leaf_write]
    by_cases h1 : start + 1 ≤ j
    · have h2 : start ≤ j := by omega
      have e : j - start = (j - (start + 1)) + 1 := by omega
      have h3 : ¬ (j = start) := by omega
      rw [if_pos h1, if_pos h2, if_neg h3, e, List.getElem?_cons_succ]
    · rw [if_neg h1]
      by_cases h2 : j = start
      · subst h2
        simp
      · have : ¬ (start ≤ j) := by omega
        rw [if_neg h2, if_neg this]

theorem Ideal.pm_writeMany_live (s : Ideal α) (start : Nat) (vs : List α) (j : Nat) :
    (s.writeMany start vs).live.lookup j =
      if start ≤ j ∧ j < start + vs.length then some true else s.live.lookup j := by
  induction vs generalizing s start with
  | nil =>
    have : ¬ (start ≤ j ∧ j < start + ([] : List α).length) := by simp
    rw [if_neg this]; rfl
  | cons v r ih =>
    simp only [Ideal.writeMany]
    rw [ih]
    simp only [Ideal.write, List.lookup_cons, List.length_cons]
    by_cases h1 : start + 1 ≤ j ∧ j < start + 1 + r.length
    · rw [if_pos h1, if_pos (by omega)]
    · rw [if_neg h1]
      by_cases h2 : j = start
      · subst h2
        simp
      · have : (j == start) = false := by simp [h2]
        rw [this]
        have : ¬ (start ≤ j ∧ j < start + (r.length + 1)) := by omega
        rw [if_neg this]

end Zk.Tree
