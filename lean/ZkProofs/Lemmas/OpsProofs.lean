import ZkProofs.Lemmas.OpsDefs
import Mathlib.Tactic.Ring
/-!
# Proofs of the statements of `OpsDefs.lean` (C19)
-/
namespace Zk.Graph

open Zk.Generated

/-! ## constants -/

theorem P_val : P = 21888242871839275222246405745257275088548364400416034343698204186575808495617 := rfl

theorem halfP_val : P / 2 = 10944121435919637611123202872628637544274182200208017171849102093287904247808 := by
  decide +kernel

theorem P_lt_254 : P < 2 ^ 254 := by decide +kernel
theorem two254_lt : 2 ^ 254 < 2 * P := by decide +kernel

theorem consts_ok : ConstsStmt := by
  refine ⟨rfl, ?_⟩
  rw [halfP_val]; rfl

/-! ## signed comparisons -/

theorem signedCmp_rows (r00 r10 r01 r11 : CmpRow) (a b : Nat) :
    signedCmp (some [((false, false), r00), ((true, false), r10), ((false, true), r01), ((true, true), r11)]) a b
      = some (applyRow (if P / 2 < a then (if P / 2 < b then r11 else r10)
                        else (if P / 2 < b then r01 else r00)) a b) := by
  unfold signedCmp halfM
  simp only [← halfP_val]
  by_cases h1 : P / 2 < a <;> by_cases h2 : P / 2 < b <;>
    simp only [h1, h2, decide_true, decide_false, if_true, if_false] <;> rfl

theorem signedCmp_ok : SignedCmpStmt := by
  intro a b ha hb
  have hP := P_val
  have hH := halfP_val
  unfold uLt uGt uLte uGte
  simp only [signedCmp_rows]
  unfold Circom.sval
  by_cases h1 : P / 2 < a <;> by_cases h2 : P / 2 < b <;>
    simp [h1, h2, applyRow, b2n] <;> omega

/-! ## limbs -/

theorem U64_val : U64 = 2 ^ 64 := rfl

theorem ofLimbs4 (c0 c1 c2 c3 : Nat) :
    ofLimbs [c0, c1, c2, c3] = c0 + U64 * (c1 + U64 * (c2 + U64 * c3)) := by
  simp [ofLimbs]

theorem ofLimbs_toLimbs (a : Nat) (ha : a < 2 ^ 256) : ofLimbs (toLimbs a) = a := by
  unfold toLimbs
  rw [ofLimbs4]
  simp only [U64_val]
  omega

theorem toLimbs_and (a b : Nat) :
    List.zipWith Nat.land (toLimbs a) (toLimbs b) = toLimbs (a &&& b) := by
  simp only [toLimbs, U64_val, ← Nat.pow_mul, List.zipWith_cons_cons, List.zipWith_nil_right,
    Nat.and_mod_two_pow, Nat.and_div_two_pow]
  rfl

theorem toLimbs_or (a b : Nat) :
    List.zipWith Nat.lor (toLimbs a) (toLimbs b) = toLimbs (a ||| b) := by
  simp only [toLimbs, U64_val, ← Nat.pow_mul, List.zipWith_cons_cons, List.zipWith_nil_right,
    Nat.or_mod_two_pow, Nat.or_div_two_pow]
  rfl

theorem toLimbs_xor (a b : Nat) :
    List.zipWith Nat.xor (toLimbs a) (toLimbs b) = toLimbs (a ^^^ b) := by
  simp only [toLimbs, U64_val, ← Nat.pow_mul, List.zipWith_cons_cons, List.zipWith_nil_right,
    Nat.xor_mod_two_pow, Nat.xor_div_two_pow]
  rfl

theorem limbwise_ok : LimbwiseStmt := by
  intro a b ha hb
  rw [toLimbs_and, toLimbs_or, toLimbs_xor]
  exact ⟨ofLimbs_toLimbs _ (Nat.and_lt_two_pow _ hb),
    ofLimbs_toLimbs _ (Nat.or_lt_two_pow ha hb),
    ofLimbs_toLimbs _ (Nat.xor_lt_two_pow ha hb)⟩

/-! ## the limb-level right shift -/

/-- one limb of the carry loop: OR of disjoint bit ranges is the sum -/
theorem limb_step (n x y : Nat) (hn0 : 0 < n) (hn : n < 64) (hx : x < 2 ^ 64) :
    (x / 2 ^ n) ||| ((y &&& (2 ^ n - 1)) * 2 ^ (64 - n) % U64)
      = x / 2 ^ n + (y % 2 ^ n) * 2 ^ (64 - n) := by
  have hts : 2 ^ n * 2 ^ (64 - n) = 2 ^ 64 := by rw [← Nat.pow_add]; congr 1; omega
  have ht : 0 < 2 ^ n := Nat.two_pow_pos n
  have hs : 0 < 2 ^ (64 - n) := Nat.two_pow_pos _
  rw [Nat.and_two_pow_sub_one_eq_mod]
  have hy : y % 2 ^ n < 2 ^ n := Nat.mod_lt _ ht
  have hlt : (y % 2 ^ n) * 2 ^ (64 - n) < 2 ^ 64 := by
    rw [← hts]; exact Nat.mul_lt_mul_of_pos_right hy hs
  rw [U64_val, Nat.mod_eq_of_lt hlt]
  have hq : x / 2 ^ n < 2 ^ (64 - n) := by
    rw [Nat.div_lt_iff_lt_mul ht, Nat.mul_comm, hts]; exact hx
  rw [Nat.or_comm, Nat.mul_comm, ← Nat.two_pow_add_eq_or_of_lt hq, Nat.add_comm]

theorem shrBits4 (n c0 c1 c2 c3 : Nat) (hn0 : 0 < n) (hn : n < 64)
    (h0 : c0 < 2 ^ 64) (h1 : c1 < 2 ^ 64) (h2 : c2 < 2 ^ 64) (h3 : c3 < 2 ^ 64) :
    ofLimbs (shrBits n [c3, c2, c1, c0]).reverse = ofLimbs [c0, c1, c2, c3] / 2 ^ n := by
  have e : (shrBits n [c3, c2, c1, c0]).reverse =
      [ (c0 / 2 ^ n) ||| ((c1 &&& (2 ^ n - 1)) * 2 ^ (64 - n) % U64),
        (c1 / 2 ^ n) ||| ((c2 &&& (2 ^ n - 1)) * 2 ^ (64 - n) % U64),
        (c2 / 2 ^ n) ||| ((c3 &&& (2 ^ n - 1)) * 2 ^ (64 - n) % U64),
        c3 / 2 ^ n ] := by
    simp [shrBits]
  rw [e, limb_step n c0 c1 hn0 hn h0, limb_step n c1 c2 hn0 hn h1, limb_step n c2 c3 hn0 hn h2,
    ofLimbs4, ofLimbs4, U64_val]
  have hts : 2 ^ n * 2 ^ (64 - n) = 2 ^ 64 := by rw [← Nat.pow_add]; congr 1; omega
  have ht : 0 < 2 ^ n := Nat.two_pow_pos n
  generalize 2 ^ n = t at *
  generalize 2 ^ (64 - n) = s at *
  rw [← hts]
  have d0 := Nat.div_add_mod c0 t
  have d1 := Nat.div_add_mod c1 t
  have d2 := Nat.div_add_mod c2 t
  have d3 := Nat.div_add_mod c3 t
  have hr0 : c0 % t < t := Nat.mod_lt _ ht
  generalize c0 / t = q0 at *
  generalize c1 / t = q1 at *
  generalize c2 / t = q2 at *
  generalize c3 / t = q3 at *
  generalize c0 % t = r0 at *
  generalize c1 % t = r1 at *
  generalize c2 % t = r2 at *
  generalize c3 % t = r3 at *
  subst d0 d1 d2 d3
  have key : t * q0 + r0 + t * s * (t * q1 + r1 + t * s * (t * q2 + r2 + t * s * (t * q3 + r3)))
      = r0 + t * (q0 + r1 * s + t * s * (q1 + r2 * s + t * s * (q2 + r3 * s + t * s * q3))) := by
    ring
  rw [key, Nat.add_mul_div_left _ _ ht, Nat.div_eq_of_lt hr0, Nat.zero_add]

/-- the tail of `shr` after the word moves -/
def shrTail (m : Nat) (c : List Nat) : Nat :=
  if m = 0 then ofLimbs c else ofLimbs (shrBits m c.reverse).reverse

theorem shrTail4 (m c0 c1 c2 c3 : Nat) (hm : m < 64)
    (h0 : c0 < 2 ^ 64) (h1 : c1 < 2 ^ 64) (h2 : c2 < 2 ^ 64) (h3 : c3 < 2 ^ 64) :
    shrTail m [c0, c1, c2, c3] = ofLimbs [c0, c1, c2, c3] / 2 ^ m := by
  unfold shrTail
  by_cases h : m = 0
  · simp [h]
  · rw [if_neg h]
    exact shrBits4 m c0 c1 c2 c3 (by omega) hm h0 h1 h2 h3

theorem div_split (x n k : Nat) (h : k ≤ n) : x / 2 ^ k / 2 ^ (n - k) = x / 2 ^ n := by
  rw [Nat.div_div_eq_div_mul, ← Nat.pow_add]; congr 2; omega

theorem shrWords_lt (f n : Nat) (c : List Nat) (h : n < 64) : shrWords (f + 1) n c = (n, c) := by
  rw [shrWords, if_neg (by omega)]

theorem shrWords_ge (f n : Nat) (c : List Nat) (h : 64 ≤ n) :
    shrWords (f + 1) n c = shrWords f (n - 64) (c.drop 1 ++ [0]) := by
  rw [shrWords, if_pos h]

theorem shr_core (n c0 c1 c2 c3 : Nat) (hn : n < 254)
    (h0 : c0 < 2 ^ 64) (h1 : c1 < 2 ^ 64) (h2 : c2 < 2 ^ 64) (h3 : c3 < 2 ^ 64) :
    shrTail (shrWords 4 n [c0, c1, c2, c3]).1 (shrWords 4 n [c0, c1, c2, c3]).2
      = ofLimbs [c0, c1, c2, c3] / 2 ^ n := by
  have hz : (0 : Nat) < 2 ^ 64 := by decide
  by_cases k1 : n < 64
  · have e : shrWords 4 n [c0, c1, c2, c3] = (n, [c0, c1, c2, c3]) := by
      exact shrWords_lt 3 n _ k1
    rw [e]; exact shrTail4 n c0 c1 c2 c3 k1 h0 h1 h2 h3
  by_cases k2 : n < 128
  · have e : shrWords 4 n [c0, c1, c2, c3] = (n - 64, [c1, c2, c3, 0]) := by
      rw [shrWords_ge 3 n _ (by omega), shrWords_lt 2 _ _ (by omega)]; rfl
    rw [e]; simp only []
    rw [shrTail4 _ _ _ _ _ (by omega) h1 h2 h3 hz, ← div_split _ n 64 (by omega)]
    congr 1
    rw [ofLimbs4, ofLimbs4, U64_val]; omega
  by_cases k3 : n < 192
  · have e : shrWords 4 n [c0, c1, c2, c3] = (n - 64 - 64, [c2, c3, 0, 0]) := by
      rw [shrWords_ge 3 n _ (by omega), shrWords_ge 2 _ _ (by omega), shrWords_lt 1 _ _ (by omega)]; rfl
    rw [e]; simp only []
    rw [shrTail4 _ _ _ _ _ (by omega) h2 h3 hz hz, show n - 64 - 64 = n - 128 by omega,
      ← div_split _ n 128 (by omega)]
    congr 1
    rw [ofLimbs4, ofLimbs4, U64_val]; omega
  · have e : shrWords 4 n [c0, c1, c2, c3] = (n - 64 - 64 - 64, [c3, 0, 0, 0]) := by
      rw [shrWords_ge 3 n _ (by omega), shrWords_ge 2 _ _ (by omega), shrWords_ge 1 _ _ (by omega),
        shrWords_lt 0 _ _ (by omega)]; rfl
    rw [e]; simp only []
    rw [shrTail4 _ _ _ _ _ (by omega) h3 hz hz hz, show n - 64 - 64 - 64 = n - 192 by omega,
      ← div_split _ n 192 (by omega)]
    congr 1
    rw [ofLimbs4, ofLimbs4, U64_val]; omega

theorem shr_limbs : ShrLimbsStmt := by
  intro a n ha hn0 hn
  have hW : (0 : Nat) < 2 ^ 64 := by decide
  have core := shr_core n (a % U64) (a / U64 % U64) (a / U64 ^ 2 % U64) (a / U64 ^ 3 % U64) hn
    (Nat.mod_lt _ hW) (Nat.mod_lt _ hW) (Nat.mod_lt _ hW) (Nat.mod_lt _ hW)
  have hl : ofLimbs [a % U64, a / U64 % U64, a / U64 ^ 2 % U64, a / U64 ^ 3 % U64] = a :=
    ofLimbs_toLimbs a ha
  rw [hl] at core
  unfold shrFr
  rw [if_neg (by omega), if_neg (by omega)]
  simp only [Nat.mod_eq_of_lt (show n < 256 by omega)]
  unfold shrTail toLimbs at *
  split at core <;> simp_all

/-! ## Montgomery evaluator against circom -/

/-- one conditional subtraction reduces a value below `2 * P` -/
theorem condsub_mod (r : Nat) (h : r < 2 * P) : (if r ≥ P then r - P else r) = r % P := by
  have := P_pos
  split
  · rw [Nat.mod_eq_sub_mod (by omega), Nat.mod_eq_of_lt (by omega)]
  · rw [Nat.mod_eq_of_lt (by omega)]

theorem shlFr_ok (a b : Nat) (ha : a < P) (hb : b < 254) :
    shlFr a b = .ok (((a * 2 ^ b) &&& Circom.mask) % P) := by
  have hP := P_lt_254
  have h2 := two254_lt
  unfold shlFr Circom.mask
  rw [Nat.and_two_pow_sub_one_eq_mod]
  by_cases h0 : b = 0
  · subst h0
    rw [if_pos rfl, Nat.pow_zero, Nat.mul_one, Nat.mod_eq_of_lt (show a < 2 ^ 254 by omega),
      Nat.mod_eq_of_lt ha]
  · rw [if_neg h0, if_neg (by omega)]
    have hn : b % U64 % 2 ^ 32 = b := by rw [U64_val]; omega
    simp only [hn, U256]
    rw [Nat.mod_mod_of_dvd _ (Nat.pow_dvd_pow 2 (by omega : 254 ≤ 256))]
    have hr : a * 2 ^ b % 2 ^ 254 < 2 * P := by
      have := Nat.mod_lt (a * 2 ^ b) (Nat.two_pow_pos 254); omega
    rw [condsub_mod _ hr, if_neg (Nat.not_le_of_lt (Nat.mod_lt _ P_pos))]

theorem bitFr_ok (f : Nat → Nat → Nat) (strict : Bool) (a b : Nat) (h : f a b < 2 ^ 254)
    (hs : strict = true → f a b < P) : bitFr f strict a b = .ok (f a b % P) := by
  have h2 := two254_lt
  have hpos := P_pos
  unfold bitFr
  cases strict
  · simp only [Bool.false_eq_true, if_false]
    rw [condsub_mod _ (by omega), if_neg (Nat.not_le_of_lt (Nat.mod_lt _ P_pos))]
  · have := hs rfl
    simp only [if_true]
    rw [if_neg (show ¬ f a b > P by omega), if_neg (show ¬ f a b ≥ P by omega), Nat.mod_eq_of_lt this]

theorem shrFr_ok (a b : Nat) (ha : a < P) :
    shrFr a b = .ok (if b ≥ 254 then 0 else a / 2 ^ b) := by
  have hP := P_lt_254
  by_cases h0 : b = 0
  · subst h0; simp [shrFr]
  by_cases h1 : b ≥ 254
  · unfold shrFr; rw [if_neg h0, if_pos h1, if_pos h1]
  · rw [if_neg h1]
    exact shr_limbs a b (by omega) (by omega) (by omega)

theorem cmpOut_some (v : Nat) : cmpOut (some v) = .ok v := rfl

theorem b2n_lt (b : Bool) : b2n b < P := by
  have := P_pos
  cases b <;> simp [b2n] <;> (rw [P_val]; omega)

theorem evalFr_sem : EvalFrSemStmt := by
  intro op a b ha hb hc
  have hpos := P_pos
  have hP := P_lt_254
  have hcmp := signedCmp_ok a b ha hb
  cases op
  case Pow => exact absurd rfl hc.1
  case Mul => exact ⟨rfl, Nat.mod_lt _ hpos⟩
  case Div =>
    by_cases h : b = 0
    · simp [evalFr, Circom.sem, h, hpos]
    · simp only [evalFr, Circom.sem, if_neg h, fdiv, fmul]
      exact ⟨trivial, Nat.mod_lt _ hpos⟩
  case Add => exact ⟨rfl, Nat.mod_lt _ hpos⟩
  case Sub =>
    simp only [evalFr, Circom.sem, fsub, Nat.mod_eq_of_lt hb]
    exact ⟨trivial, Nat.mod_lt _ hpos⟩
  case Idiv =>
    by_cases h : b = 0
    · simp [evalFr, Circom.sem, h, hpos]
    · simp only [evalFr, Circom.sem, if_neg h]
      exact ⟨trivial, Nat.lt_of_le_of_lt (Nat.div_le_self _ _) ha⟩
  case Mod =>
    by_cases h : b = 0
    · simp [evalFr, Circom.sem, h, hpos]
    · simp only [evalFr, Circom.sem, if_neg h]
      exact ⟨trivial, Nat.lt_of_le_of_lt (Nat.mod_le _ _) ha⟩
  case Eq => exact ⟨rfl, b2n_lt _⟩
  case Neq => exact ⟨rfl, b2n_lt _⟩
  case Lt => simp only [evalFr, Circom.sem, hcmp.1, cmpOut_some]; exact ⟨trivial, b2n_lt _⟩
  case Gt => simp only [evalFr, Circom.sem, hcmp.2.1, cmpOut_some]; exact ⟨trivial, b2n_lt _⟩
  case Leq => simp only [evalFr, Circom.sem, hcmp.2.2.1, cmpOut_some]; exact ⟨trivial, b2n_lt _⟩
  case Geq => simp only [evalFr, Circom.sem, hcmp.2.2.2, cmpOut_some]; exact ⟨trivial, b2n_lt _⟩
  case Land => exact ⟨rfl, b2n_lt _⟩
  case Lor => exact ⟨rfl, b2n_lt _⟩
  case Shl =>
    have hb2 : b ≤ P / 2 := hc.2 (Or.inl rfl)
    simp only [evalFr, Circom.sem, Circom.shl, if_pos hb2]
    by_cases h : b ≥ 254
    · rw [if_pos h]
      refine ⟨?_, hpos⟩
      unfold shlFr; rw [if_neg (by omega), if_pos h]
    · rw [if_neg h]
      exact ⟨shlFr_ok a b ha (by omega), Nat.mod_lt _ hpos⟩
  case Shr =>
    have hb2 : b ≤ P / 2 := hc.2 (Or.inr rfl)
    simp only [evalFr, Circom.sem, Circom.shr, if_pos hb2]
    refine ⟨shrFr_ok a b ha, ?_⟩
    split
    · exact hpos
    · exact Nat.lt_of_le_of_lt (Nat.div_le_self _ _) ha
  case Bor =>
    simp only [evalFr, Circom.sem]
    exact ⟨bitFr_ok Nat.lor false a b (Nat.or_lt_two_pow (by omega) (by omega)) (by simp),
      Nat.mod_lt _ hpos⟩
  case Band =>
    simp only [evalFr, Circom.sem]
    have hle : a &&& b ≤ a := Nat.and_le_left
    exact ⟨bitFr_ok Nat.land true a b (show a &&& b < 2 ^ 254 by omega)
      (fun _ => show a &&& b < P by omega), Nat.mod_lt _ hpos⟩
  case Bxor =>
    simp only [evalFr, Circom.sem]
    exact ⟨bitFr_ok Nat.xor false a b (Nat.xor_lt_two_pow (by omega) (by omega)) (by simp),
      Nat.mod_lt _ hpos⟩

theorem evalFr_no_panic : EvalFrNoPanicStmt := by
  intro op a b ha hb hop
  have hpos := P_pos
  by_cases hs : op = .Shl ∨ op = .Shr
  · rcases hs with hs | hs <;> subst hs
    · by_cases h : b ≥ 254
      · refine ⟨0, ?_, hpos⟩
        simp only [evalFr]; unfold shlFr; rw [if_neg (by omega), if_pos h]
      · exact ⟨_, shlFr_ok a b ha (by omega), Nat.mod_lt _ hpos⟩
    · refine ⟨_, shrFr_ok a b ha, ?_⟩
      split
      · exact hpos
      · exact Nat.lt_of_le_of_lt (Nat.div_le_self _ _) ha
  · have := evalFr_sem op a b ha hb ⟨hop, fun h => absurd h hs⟩
    exact ⟨_, this.1, this.2⟩

theorem evalFrUno_sem : EvalFrUnoStmt := by
  intro a ha
  have hpos := P_pos
  simp only [evalFrUno, Circom.semUno]
  by_cases h : a = 0
  · subst h; simp [hpos]
  · rw [if_neg h, Nat.mod_eq_of_lt (by omega)]
    exact ⟨rfl, by omega⟩

theorem evalFrTres_sem : EvalFrTresStmt := by
  intro a b c ha hb hc
  simp only [evalFrTres, Circom.semTres]
  refine ⟨trivial, ?_⟩
  split <;> assumption

/-! ## the two evaluators -/

theorem evalU_unfold (op : Op) (a b : Nat) : evalU op a b =
  match op with
  | .Mul => .ok (a * b % P)
  | .Div => if b = 0 then .ok 0 else
      if b % P = 0 then .panic else .ok (a * powMod (b % P) (P - 2) P % P)
  | .Add => .ok ((a + b) % P)
  | .Sub => .ok ((a + (P + U256 - b) % U256) % P)
  | .Pow => .ok (powMod a b P)
  | .Mod => if b = 0 then .panic else .ok (a % b)
  | .Idiv => if b = 0 then .panic else .ok (a / b)
  | .Eq => .ok (b2n (a = b))
  | .Neq => .ok (b2n (a ≠ b))
  | .Lt => cmpOut (signedCmp uLt a b)
  | .Gt => cmpOut (signedCmp uGt a b)
  | .Leq => cmpOut (signedCmp uLte a b)
  | .Geq => cmpOut (signedCmp uGte a b)
  | .Land => .ok (b2n (a ≠ 0 ∧ b ≠ 0))
  | .Lor => .ok (b2n (a ≠ 0 ∨ b ≠ 0))
  | .Shl => .ok (if b % U64 ≥ 256 then 0 else a * 2 ^ (b % U64) % U256)
  | .Shr => .ok (if b % U64 ≥ 256 then 0 else a / 2 ^ (b % U64))
  | .Bor => .ok (a ||| b)
  | .Band => .ok (a &&& b)
  | .Bxor => .ok (a ^^^ b) := rfl

theorem eval_agree : EvalAgreeStmt := by
  intro op a b ha hb hc
  have hpos := P_pos
  have hP := P_lt_254
  obtain ⟨c1, c2, c3, c4, c5, c6⟩ := hc
  rw [evalU_unfold]
  cases op
  case Pow => exact absurd rfl c1
  case Shl => exact absurd rfl c2
  case Mul => rfl
  case Div =>
    simp only [evalFr, fdiv, fmul, finv, Nat.mod_eq_of_lt hb]
    by_cases h : b = 0
    · rw [if_pos h, if_pos h]
    · rw [if_neg h, if_neg h, if_neg h]
  case Add => rfl
  case Sub =>
    simp only [evalFr, fsub, Nat.mod_eq_of_lt hb, U256]
    have : (P + 2 ^ 256 - b) % 2 ^ 256 = P - b := by omega
    rw [this]
  case Idiv =>
    have h := c6 (Or.inl rfl)
    simp only [evalFr, if_neg h]
  case Mod =>
    have h := c6 (Or.inr rfl)
    simp only [evalFr, if_neg h]
  case Eq => rfl
  case Neq => rfl
  case Lt => rfl
  case Gt => rfl
  case Leq => rfl
  case Geq => rfl
  case Land => rfl
  case Lor => rfl
  case Shr =>
    have h := c3 rfl
    have hm : b % U64 = b := by rw [U64_val]; omega
    simp only [evalFr, hm]
    rw [shrFr_ok a b ha, if_neg (by omega), if_neg (by omega)]
  case Bor =>
    have h := c4 rfl
    simp only [evalFr]
    rw [bitFr_ok Nat.lor false a b (show a ||| b < 2 ^ 254 by omega) (by simp)]
    show Outcome.ok (a ||| b) = .ok ((a ||| b) % P)
    rw [Nat.mod_eq_of_lt h]
  case Band =>
    have hle : a &&& b ≤ a := Nat.and_le_left
    simp only [evalFr]
    rw [bitFr_ok Nat.land true a b (show a &&& b < 2 ^ 254 by omega) (fun _ => show a &&& b < P by omega)]
    show Outcome.ok (a &&& b) = .ok ((a &&& b) % P)
    rw [Nat.mod_eq_of_lt (by omega)]
  case Bxor =>
    have h := c5 rfl
    simp only [evalFr]
    rw [bitFr_ok Nat.xor false a b (show a ^^^ b < 2 ^ 254 by omega) (by simp)]
    show Outcome.ok (a ^^^ b) = .ok ((a ^^^ b) % P)
    rw [Nat.mod_eq_of_lt h]

theorem evalUno_agree : EvalAgreeUnoStmt := by
  intro a ha
  have hP := P_lt_254
  show (if a = 0 then Outcome.ok 0 else .ok ((P + U256 - a) % U256)) = (if a = 0 then .ok 0 else .ok (P - a))
  by_cases h : a = 0
  · rw [if_pos h, if_pos h]
  · rw [if_neg h, if_neg h, U256]
    have : (P + 2 ^ 256 - a) % 2 ^ 256 = P - a := by omega
    rw [this]

end Zk.Graph
