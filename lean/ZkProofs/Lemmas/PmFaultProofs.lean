import ZkProofs.Lemmas.PmFaultDefs
/-!
# Persistence and injected storage failures on the persistent tree (C16)

One relation (`Pm.Upd`) describes what any adapter call may do to the store, whatever its result and
wherever an injected failure hits; `Pm.Cnt` is the accounting of the failure schedule. `Pm.Spec`
bundles both and is closed under the sequencing of the state-and-result monad, so every model
function is walked through once.
-/
set_option linter.unusedSectionVars false
namespace Zk.Tree

variable {α : Type} [Inhabited α] {D : Type} [MapLike D PmKey (PmVal α)]

namespace Pm

/-- what a call may do to the store: `dp` is the leaf level, `A` the leaf positions it may change -/
structure Upd (dp : Nat) (A : Nat → Prop) (t t' : Pm α D) : Prop where
  depth : t'.depth = t.depth
  cache : t'.cache = t.cache
  depthKey : MapLike.get? t'.db.kv PmKey.depthKey = MapLike.get? t.db.kv PmKey.depthKey
  fr : ∀ d i, (∃ v, MapLike.get? t.db.kv (PmKey.node d i) = some (PmVal.fr v)) →
    ∃ v, MapLike.get? t'.db.kv (PmKey.node d i) = some (PmVal.fr v)
  leaf : 0 < dp → ∀ p, ¬ A p →
    MapLike.get? t'.db.kv (PmKey.node dp p) = MapLike.get? t.db.kv (PmKey.node dp p) ∨
    MapLike.get? t'.db.kv (PmKey.node dp p) = some (PmVal.fr (t.getElem dp p))

theorem getElem_congr {t t' : Pm α D} {d i : Nat} (hc : t'.cache = t.cache)
    (h : MapLike.get? t'.db.kv (PmKey.node d i) = MapLike.get? t.db.kv (PmKey.node d i)) :
    t'.getElem d i = t.getElem d i := by
  unfold getElem
  rw [h, hc]

theorem getElem_of_get? {t : Pm α D} {d i : Nat} {v : α}
    (h : MapLike.get? t.db.kv (PmKey.node d i) = some (PmVal.fr v)) : t.getElem d i = v := by
  unfold getElem
  rw [h]

theorem Upd.getElem {dp : Nat} {A : Nat → Prop} {t t' : Pm α D} (h : Upd dp A t t') (hd : 0 < dp)
    (p : Nat) (hp : ¬ A p) : t'.getElem dp p = t.getElem dp p := by
  rcases h.leaf hd p hp with h1 | h1
  · exact getElem_congr h.cache h1
  · exact getElem_of_get? h1

theorem Upd.refl (dp : Nat) (A : Nat → Prop) (t : Pm α D) : Upd dp A t t :=
  ⟨rfl, rfl, rfl, fun _ _ h => h, fun _ _ _ => Or.inl rfl⟩

theorem Upd.trans {dp : Nat} {A : Nat → Prop} {t t' t'' : Pm α D} (h1 : Upd dp A t t')
    (h2 : Upd dp A t' t'') : Upd dp A t t'' := by
  refine ⟨h2.depth.trans h1.depth, h2.cache.trans h1.cache, h2.depthKey.trans h1.depthKey,
    fun d i h => h2.fr d i (h1.fr d i h), ?_⟩
  intro hd p hp
  rcases h2.leaf hd p hp with h3 | h3
  · rw [h3]; exact h1.leaf hd p hp
  · right; rw [h3, h1.getElem hd p hp]

theorem Upd.mono {dp : Nat} {A A' : Nat → Prop} {t t' : Pm α D} (h : Upd dp A t t')
    (hA : ∀ p, A p → A' p) : Upd dp A' t t' :=
  ⟨h.depth, h.cache, h.depthKey, h.fr, fun hd p hp => h.leaf hd p (fun ha => hp (hA p ha))⟩

/-- same store, same depth, same default cache -/
theorem Upd.of_kv {dp : Nat} {A : Nat → Prop} {t t' : Pm α D} (hk : t'.db.kv = t.db.kv)
    (hd : t'.depth = t.depth) (hc : t'.cache = t.cache) : Upd dp A t t' :=
  ⟨hd, hc, by rw [hk], fun _ _ h => by rw [hk]; exact h, fun _ _ _ => Or.inl (by rw [hk])⟩

/-- accounting of the failure schedule -/
def Cnt {β : Type} (t : Pm α D) (r : Pm α D × Outcome β) : Prop :=
  ∀ f, t.db.failAt = some f → t.db.calls ≤ f →
    r.1.db.failAt = some f ∧ t.db.calls ≤ r.1.db.calls ∧ (∀ b, r.2 = .ok b → r.1.db.calls ≤ f)

def Spec {β : Type} (dp : Nat) (A : Nat → Prop) (m : PmM (Pm α D) β) (t : Pm α D) : Prop :=
  Upd dp A t (m t).1 ∧ Cnt t (m t)

theorem Spec.congr {β : Type} {dp : Nat} {A : Nat → Prop} {m m' : PmM (Pm α D) β} {t : Pm α D}
    (he : m t = m' t) (h : Spec dp A m' t) : Spec dp A m t := by
  unfold Spec at h ⊢
  rw [he]; exact h

theorem Spec.mono {β : Type} {dp : Nat} {A A' : Nat → Prop} {m : PmM (Pm α D) β} {t : Pm α D}
    (h : Spec dp A m t) (hA : ∀ p, A p → A' p) : Spec dp A' m t :=
  ⟨h.1.mono hA, h.2⟩

/-- the action leaves the store (contents and schedule), the depth and the cache alone -/
theorem Spec.same {β : Type} {dp : Nat} {A : Nat → Prop} {m : PmM (Pm α D) β} {t : Pm α D}
    (hdb : (m t).1.db = t.db) (hd : (m t).1.depth = t.depth) (hc : (m t).1.cache = t.cache) :
    Spec dp A m t := by
  refine ⟨Upd.of_kv (by rw [hdb]) hd hc, ?_⟩
  intro f hf hle
  rw [hdb]
  exact ⟨hf, Nat.le_refl _, fun _ _ => hle⟩

theorem Spec.pure {β : Type} {dp : Nat} {A : Nat → Prop} (b : β) (t : Pm α D) :
    Spec dp A (PmM.pure' b) t := Spec.same rfl rfl rfl

theorem Spec.bind {β γ : Type} {dp : Nat} {A : Nat → Prop} {m : PmM (Pm α D) β}
    {g : β → PmM (Pm α D) γ} {t : Pm α D} (h1 : Spec dp A m t)
    (h2 : ∀ b s', m t = (s', .ok b) → Spec dp A (g b) s') : Spec dp A (m >>= g) t := by
  show Spec dp A (PmM.bind' m g) t
  unfold Spec PmM.bind'
  obtain ⟨hu, hc⟩ := h1
  cases hm : m t with
  | mk s' o =>
    rw [hm] at hu hc
    cases o with
    | ok b =>
      obtain ⟨hu2, hc2⟩ := h2 b s' hm
      refine ⟨hu.trans hu2, ?_⟩
      intro f hf hle
      obtain ⟨a1, a2, a3⟩ := hc f hf hle
      obtain ⟨b1, b2, b3⟩ := hc2 f a1 (a3 b rfl)
      exact ⟨b1, Nat.le_trans a2 b2, b3⟩
    | err =>
      refine ⟨hu, ?_⟩
      intro f hf hle
      obtain ⟨a1, a2, _⟩ := hc f hf hle
      exact ⟨a1, a2, fun b hb => by cases hb⟩
    | panic =>
      refine ⟨hu, ?_⟩
      intro f hf hle
      obtain ⟨a1, a2, _⟩ := hc f hf hle
      exact ⟨a1, a2, fun b hb => by cases hb⟩

/-! ## the storage primitives -/

/-- one counted write that leaves `kv` behind -/
def tick (t : Pm α D) (kv : D) : Pm α D :=
  { t with db := { t.db with kv := kv, calls := t.db.calls + 1 } }

theorem put_eq (k : PmKey) (v : PmVal α) (t : Pm α D) :
    put k v t = if t.db.failAt = some t.db.calls then (t.tick t.db.kv, .err)
      else (t.tick (MapLike.insert t.db.kv k v), .ok ()) := rfl

theorem putBatch_eq (kvs : List (PmKey × PmVal α)) (t : Pm α D) :
    putBatch kvs t = if t.db.failAt = some t.db.calls then (t.tick t.db.kv, .err)
      else (t.tick (kvs.foldl (fun m kv => MapLike.insert m kv.1 kv.2) t.db.kv), .ok ()) := rfl

theorem flush_eq (t : Pm α D) :
    flush t = if t.db.failAt = some t.db.calls then (t.tick t.db.kv, .err)
      else (t.tick t.db.kv, .ok ()) := rfl

theorem Spec.tick {dp : Nat} {A : Nat → Prop} {m : PmM (Pm α D) Unit} {t : Pm α D} (kv' : D)
    (hm : m t = if t.db.failAt = some t.db.calls then (t.tick t.db.kv, .err) else (t.tick kv', .ok ()))
    (hu : Upd dp A t (t.tick kv')) : Spec dp A m t := by
  unfold Spec
  rw [hm]
  by_cases hf : t.db.failAt = some t.db.calls
  · rw [if_pos hf]
    refine ⟨Upd.of_kv rfl rfl rfl, ?_⟩
    intro f hf' _
    refine ⟨hf', Nat.le_succ _, fun b hb => by cases hb⟩
  · rw [if_neg hf]
    refine ⟨hu, ?_⟩
    intro f hf' hle
    refine ⟨hf', Nat.le_succ _, fun _ _ => ?_⟩
    show t.db.calls + 1 ≤ f
    have : t.db.calls ≠ f := fun h => hf (by rw [hf', h])
    omega

variable [LawfulMapLike D PmKey (PmVal α)]

theorem sp_put_node {dp : Nat} {A : Nat → Prop} (d i : Nat) (x : α) (t : Pm α D)
    (h : d = dp → A i) : Spec dp A (put (PmKey.node d i) (PmVal.fr x)) t := by
  apply Spec.tick _ (put_eq _ _ t)
  refine ⟨rfl, rfl, ?_, ?_, ?_⟩
  · show MapLike.get? (MapLike.insert t.db.kv _ _) _ = _
    rw [LawfulMapLike.get?_insert, if_neg (by simp)]
  · intro d' i' hx
    show ∃ v, MapLike.get? (MapLike.insert t.db.kv _ _) _ = _
    rw [LawfulMapLike.get?_insert]
    split
    · exact ⟨x, rfl⟩
    · exact hx
  · intro _ p hp
    left
    show MapLike.get? (MapLike.insert t.db.kv _ _) _ = _
    rw [LawfulMapLike.get?_insert, if_neg]
    intro hc
    injection hc with h1 h2
    exact hp (h2 ▸ h h1)

theorem sp_put_other {dp : Nat} {A : Nat → Prop} (k : PmKey) (v : PmVal α) (t : Pm α D)
    (hk : ∀ d i, k ≠ PmKey.node d i) (hk' : k ≠ PmKey.depthKey) : Spec dp A (put k v) t := by
  apply Spec.tick _ (put_eq _ _ t)
  refine ⟨rfl, rfl, ?_, ?_, ?_⟩
  · show MapLike.get? (MapLike.insert t.db.kv _ _) _ = _
    rw [LawfulMapLike.get?_insert, if_neg hk']
  · intro d' i' hx
    show ∃ v, MapLike.get? (MapLike.insert t.db.kv _ _) _ = _
    rw [LawfulMapLike.get?_insert, if_neg (hk d' i')]
    exact hx
  · intro _ p hp
    left
    show MapLike.get? (MapLike.insert t.db.kv _ _) _ = _
    rw [LawfulMapLike.get?_insert, if_neg (hk dp p)]

theorem sp_flush {dp : Nat} {A : Nat → Prop} (t : Pm α D) : Spec dp A flush t :=
  Spec.tick _ (flush_eq t) (Upd.of_kv rfl rfl rfl)

theorem sp_modify {dp : Nat} {A : Nat → Prop} (g : Pm α D → Pm α D) (t : Pm α D)
    (hdb : (g t).db = t.db) (hd : (g t).depth = t.depth) (hc : (g t).cache = t.cache) :
    Spec dp A (modify g) t := Spec.same hdb hd hc

theorem sp_setFlag {dp : Nat} {A : Nat → Prop} (i v : Nat) (t : Pm α D) :
    Spec dp A (setFlag i v) t := by
  apply Spec.same <;> (unfold Pm.setFlag; split <;> rfl)

theorem sp_setFlags {dp : Nat} {A : Nat → Prop} (v : Nat) :
    ∀ (l : List Nat) (t : Pm α D), Spec dp A (setFlags v l) t
  | [], t => Spec.pure () t
  | i :: r, t => by
    unfold Pm.setFlags
    exact Spec.bind (sp_setFlag i v t) (fun _ s' _ => sp_setFlags v r s')

/-! ## pmtree `set` -/

theorem sp_recalcFrom {dp : Nat} {A : Nat → Prop} (H : α → α → α) :
    ∀ (d i : Nat) (t : Pm α D), d ≤ dp → Spec dp A (recalcFrom H d i) t
  | 0, i, t, _ => Spec.pure () t
  | d+1, i, t, hd => by
    apply Spec.congr (m' := (do put (PmKey.node d (i / 2)) (PmVal.fr (hashCouple H t (d + 1) i))
                                if d = 0 then modify (fun u => { u with root := hashCouple H t (d + 1) i })
                                else recalcFrom H d (i / 2)))
    · rw [Pm.recalcFrom]
    · apply Spec.bind (sp_put_node _ _ _ t (by omega))
      intro _ s' _
      split
      · exact sp_modify _ s' rfl rfl rfl
      · exact sp_recalcFrom H d (i / 2) s' (by omega)

theorem sp_treeSet {dp : Nat} {A : Nat → Prop} (H : α → α → α) (key : Nat) (leaf : α) (t : Pm α D)
    (hdp : t.depth = dp) (hA : A key) : Spec dp A (treeSet H key leaf) t := by
  by_cases hk : key ≥ t.cap
  · apply Spec.same <;> (unfold Pm.treeSet; rw [if_pos hk])
  · apply Spec.congr (m' := (do put (PmKey.node t.depth key) (PmVal.fr leaf)
                                Pm.recalcFrom H t.depth key
                                modify (fun t => { t with next := max t.next (key + 1) })
                                (fun t => put PmKey.nextKey (PmVal.num t.next) t)))
    · unfold Pm.treeSet; rw [if_neg hk]
    · apply Spec.bind (sp_put_node _ _ _ t (fun _ => hA))
      intro _ s1 _
      apply Spec.bind (sp_recalcFrom H _ _ s1 (by omega))
      intro _ s2 _
      apply Spec.bind (sp_modify _ s2 rfl rfl rfl)
      intro _ s3 _
      exact sp_put_other _ _ s3 (by simp) (by simp)

theorem sp_treeDelete {dp : Nat} {A : Nat → Prop} (H : α → α → α) (dflt : α) (key : Nat) (t : Pm α D)
    (hdp : t.depth = dp) (hA : A key) : Spec dp A (treeDelete H dflt key) t := by
  by_cases hk : key ≥ t.next
  · apply Spec.same <;> (unfold Pm.treeDelete; rw [if_pos hk])
  · apply Spec.congr (m' := Pm.treeSet H key dflt)
    · unfold Pm.treeDelete; rw [if_neg hk]
    · exact sp_treeSet H key dflt t hdp hA

/-! ## pmtree `set_range` -/

variable {S : Type} [MapLike S (Nat × Nat) α] [LawfulMapLike S (Nat × Nat) α]

/-- an unaddressed leaf key is absent from the batch map or carries the value it already reads as -/
def LeafOk (t : Pm α D) (dp : Nat) (A : Nat → Prop) (sub : S) : Prop :=
  ∀ p, ¬ A p → MapLike.get? sub (dp, p) = none ∨ MapLike.get? sub (dp, p) = some (t.getElem dp p)

theorem LeafOk.insert_cur {t : Pm α D} {dp : Nat} {A : Nat → Prop} {sub : S} (h : LeafOk t dp A sub)
    (d i : Nat) : LeafOk t dp A (MapLike.insert sub (d, i) (t.getElem d i)) := by
  intro p hp
  rw [LawfulMapLike.get?_insert]
  split
  · rename_i he
    injection he with h1 h2
    right; rw [h1, h2]
  · exact h p hp

theorem fillNodes_leafOk (t : Pm α D) (L : Array α) (from_ dp : Nat) :
    ∀ (f d i start end_ : Nat) (sub : S) (ks : List (Nat × Nat)) (sub' : S) (ks' : List (Nat × Nat)),
      LeafOk t dp (fun p => from_ ≤ p ∧ p < from_ + L.size) sub →
      fillNodes t L from_ f d i start end_ (sub, ks) = some (sub', ks') →
      LeafOk t dp (fun p => from_ ≤ p ∧ p < from_ + L.size) sub'
  | 0, d, i, start, end_, sub, ks, sub', ks', h, he => by
    rw [fillNodes] at he
    by_cases hi : i ≥ from_
    · rw [if_pos hi] at he
      cases hl : L[i - from_]? with
      | none => rw [hl] at he; cases he
      | some v =>
        rw [hl] at he
        injection he with he
        injection he with h1 h2
        subst h1
        intro p hp
        rw [LawfulMapLike.get?_insert]
        split
        · rename_i hk
          injection hk with h3 h4
          exfalso
          apply hp
          have := (Array.getElem?_eq_some_iff.mp hl).1
          omega
        · exact h p hp
    · rw [if_neg hi] at he
      injection he with he
      injection he with h1 h2
      subst h1
      exact h
  | f+1, d, i, start, end_, sub, ks, sub', ks', h, he => by
    rw [fillNodes_succ_eq] at he
    have h2 := (h.insert_cur (d + 1) (2 * i)).insert_cur (d + 1) (2 * i + 1)
    split at he
    · cases he
    · rename_i acc hacc
      obtain ⟨s1, k1⟩ := acc
      have h3 : LeafOk t dp (fun p => from_ ≤ p ∧ p < from_ + L.size) s1 := by
        split at hacc
        · exact fillNodes_leafOk t L from_ dp f (d + 1) (2 * i) _ _ _ _ s1 k1 h2 hacc
        · injection hacc with hacc
          injection hacc with e1 e2
          subst e1
          exact h2
      split at he
      · exact fillNodes_leafOk t L from_ dp f (d + 1) (2 * i + 1) _ _ _ _ sub' ks' h3 he
      · injection he with he
        injection he with e1 e2
        subst e1
        exact h3

theorem batchRecalc_low (H : α → α → α) :
    ∀ (f d i : Nat) (sub : S) (ks : List (Nat × Nat)) (v : α) (sub2 : S) (ks2 : List (Nat × Nat)),
      batchRecalc H f d i sub ks = some (v, sub2, ks2) →
      ∀ k : Nat × Nat, d + f ≤ k.1 → MapLike.get? sub2 k = MapLike.get? sub k
  | 0, d, i, sub, ks, v, sub2, ks2, he, k, _ => by
    rw [batchRecalc] at he
    cases hg : MapLike.get? sub (d, i) with
    | none => rw [hg] at he; cases he
    | some x =>
      rw [hg] at he
      simp only [Option.map_some, Option.some.injEq, Prod.mk.injEq] at he
      rw [← he.2.1]
  | f+1, d, i, sub, ks, v, sub2, ks2, he, k, hk => by
    rw [batchRecalc] at he
    cases hc : MapLike.get? sub (d + 1, 2 * i) with
    | none =>
      rw [hc] at he
      cases hg : MapLike.get? sub (d, i) with
      | none => rw [hg] at he; cases he
      | some x =>
        rw [hg] at he
        simp only [Option.map_some, Option.some.injEq, Prod.mk.injEq] at he
        rw [← he.2.1]
    | some x =>
      rw [hc] at he
      simp only at he
      cases h1 : batchRecalc H f (d + 1) (2 * i) sub ks with
      | none => rw [h1] at he; cases he
      | some r1 =>
        obtain ⟨l, s1, k1⟩ := r1
        rw [h1] at he
        simp only at he
        cases h2 : batchRecalc H f (d + 1) (2 * i + 1) s1 k1 with
        | none => rw [h2] at he; cases he
        | some r2 =>
          obtain ⟨r, s2, k2⟩ := r2
          rw [h2] at he
          simp only [Option.some.injEq, Prod.mk.injEq] at he
          rw [← he.2.1, LawfulMapLike.get?_insert, if_neg,
            batchRecalc_low H f (d + 1) (2 * i + 1) s1 k1 r s2 k2 h2 k (by omega),
            batchRecalc_low H f (d + 1) (2 * i) sub ks l s1 k1 h1 k (by omega)]
          intro hk'
          rw [← hk'] at hk
          simp only at hk
          omega

/-- the batch write of `treeSetRange` -/
theorem Upd.batch {dp : Nat} {A : Nat → Prop} (t : Pm α D) (g : Nat × Nat → Option α)
    (keys : List (Nat × Nat))
    (hg : 0 < dp → ∀ p, ¬ A p → g (dp, p) = none ∨ g (dp, p) = some (t.getElem dp p)) :
    Upd dp A t (t.tick ((keys.filterMap (fun k => (g k).map (fun v => (PmKey.node k.1 k.2, PmVal.fr v)))).foldl
      (fun m kv => MapLike.insert m kv.1 kv.2) t.db.kv)) := by
  refine ⟨rfl, rfl, ?_, ?_, ?_⟩
  · exact foldl_insert_other g PmKey.depthKey (by simp) keys t.db.kv
  · intro d i hx
    show ∃ v, MapLike.get? (List.foldl _ _ _) _ = _
    rw [foldl_insert_node g d i keys t.db.kv]
    split
    · rename_i hc
      obtain ⟨x, hx'⟩ := Option.ne_none_iff_exists'.mp hc.2
      exact ⟨x, by rw [hx']; rfl⟩
    · exact hx
  · intro hd p hp
    show MapLike.get? (List.foldl _ _ _) _ = _ ∨ MapLike.get? (List.foldl _ _ _) _ = _
    rw [foldl_insert_node g dp p keys t.db.kv]
    split
    · rename_i hc
      rcases hg hd p hp with h1 | h1
      · exact absurd h1 hc.2
      · right; rw [h1]; rfl
    · left; rfl

theorem sp_treeSetRange {dp : Nat} (S : Type) [MapLike S (Nat × Nat) α] [LawfulMapLike S (Nat × Nat) α]
    (H : α → α → α) (start : Nat) (leaves : List α) (t : Pm α D) (hdp : t.depth = dp) :
    Spec dp (fun p => start ≤ p ∧ p < start + leaves.length) (treeSetRange S H start leaves) t := by
  by_cases hcap : start + leaves.length > t.cap
  · apply Spec.same <;> (unfold Pm.treeSetRange; simp only [hcap, if_true])
  cases hfill : fillNodes t leaves.toArray start t.depth 0 0 start (start + leaves.length)
      ((MapLike.insert (MapLike.empty : S) (0, 0) t.root), [(0, 0)]) with
  | none => apply Spec.same <;> (unfold Pm.treeSetRange; simp only [hcap, if_false, hfill])
  | some r1 =>
    obtain ⟨sub1, keys⟩ := r1
    cases hbatch : batchRecalc H t.depth 0 0 sub1 [] with
    | none => apply Spec.same <;> (unfold Pm.treeSetRange; simp only [hcap, if_false, hfill, hbatch])
    | some r2 =>
      obtain ⟨rootVal, sub2, ks2⟩ := r2
      apply Spec.congr (m' := (do
          putBatch (keys.filterMap (fun k =>
            (MapLike.get? sub2 k).map (fun v => (PmKey.node k.1 k.2, PmVal.fr v))))
          (fun t => if start + leaves.length > t.next then
              (do modify (fun t => { t with next := start + leaves.length })
                  put PmKey.nextKey (PmVal.num (start + leaves.length))) t
            else (t, .ok ()))
          modify (fun t => { t with root := rootVal })))
      · unfold Pm.treeSetRange; simp only [hcap, if_false, hfill, hbatch]
      · apply Spec.bind
        · apply Spec.tick _ (putBatch_eq _ t)
          apply Upd.batch t (fun k => MapLike.get? sub2 k) keys
          intro hd p hp
          rw [batchRecalc_low H t.depth 0 0 sub1 [] rootVal sub2 ks2 hbatch (dp, p) (by simp [hdp])]
          have h0 : LeafOk t dp (fun p => start ≤ p ∧ p < start + leaves.toArray.size)
              (MapLike.insert (MapLike.empty : S) (0, 0) t.root) := by
            intro q _
            left
            rw [LawfulMapLike.get?_insert, if_neg, LawfulMapLike.get?_empty]
            intro hc
            injection hc with h1 h2
            omega
          exact fillNodes_leafOk t leaves.toArray start dp _ _ _ _ _ _ _ sub1 keys h0 hfill p
            (by simpa using hp)
        · intro _ s1 _
          apply Spec.bind
          · by_cases hn : start + leaves.length > s1.next
            · apply Spec.congr (m' := (do modify (fun t => { t with next := start + leaves.length })
                                          put PmKey.nextKey (PmVal.num (start + leaves.length))))
              · simp only [hn, if_true]
              · apply Spec.bind (sp_modify _ s1 rfl rfl rfl)
                intro _ s2 _
                exact sp_put_other _ _ s2 (by simp) (by simp)
            · apply Spec.same <;> simp only [hn, if_false]
          · intro _ s2 _
            exact sp_modify _ s2 rfl rfl rfl

/-! ## the adapter -/

theorem sp_set {dp : Nat} {A : Nat → Prop} (H : α → α → α) (i : Nat) (leaf : α) (t : Pm α D)
    (hdp : t.depth = dp) (hA : A i) : Spec dp A (Pm.set H i leaf) t := by
  unfold Pm.set
  exact Spec.bind (sp_treeSet H i leaf t hdp hA) (fun _ s' _ => sp_setFlag i 1 s')

theorem sp_delete {dp : Nat} {A : Nat → Prop} (H : α → α → α) (dflt : α) (i : Nat) (t : Pm α D)
    (hdp : t.depth = dp) (hA : A i) : Spec dp A (Pm.delete H dflt i) t := by
  unfold Pm.delete
  exact Spec.bind (sp_treeDelete H dflt i t hdp hA) (fun _ s' _ => sp_setFlag i 0 s')

theorem sp_updateNext {dp : Nat} {A : Nat → Prop} (H : α → α → α) (leaf : α) (t : Pm α D)
    (hdp : t.depth = dp) (hA : A t.next) : Spec dp A (Pm.updateNext H leaf) t := by
  apply Spec.congr (m' := (do Pm.treeSet H t.next leaf; Pm.setFlag t.next 1))
  · rfl
  · exact Spec.bind (sp_treeSet H t.next leaf t hdp hA) (fun _ s' _ => sp_setFlag t.next 1 s')

theorem sp_setRange {dp : Nat} (S : Type) [MapLike S (Nat × Nat) α] [LawfulMapLike S (Nat × Nat) α]
    (H : α → α → α) (start : Nat) (vs : List α) (t : Pm α D) (hdp : t.depth = dp) :
    Spec dp (fun p => start ≤ p ∧ p < start + vs.length) (Pm.setRange S H start vs) t := by
  unfold Pm.setRange
  split
  · exact Spec.pure () t
  · exact Spec.bind (sp_treeSetRange S H start vs t hdp) (fun _ s' _ => sp_setFlags 1 _ s')

theorem sp_removeIndices {dp : Nat} (S : Type) [MapLike S (Nat × Nat) α] [LawfulMapLike S (Nat × Nat) α]
    (H : α → α → α) (dflt : α) (idx : List Nat) (t : Pm α D) (hdp : t.depth = dp) :
    Spec dp (fun p => idx.headD 0 ≤ p ∧ p ≤ idx.getLastD 0) (Pm.removeIndices S H dflt idx) t := by
  unfold Pm.removeIndices
  refine Spec.mono (Spec.bind (sp_treeSetRange S H _ _ t hdp) (fun _ s' _ => sp_setFlags 0 _ s')) ?_
  intro p hp
  rw [List.length_replicate] at hp
  omega

theorem foldl_size {β γ : Type} (F : Array β → γ → Array β) (hF : ∀ a x, (F a x).size = a.size) :
    ∀ (l : List γ) (a : Array β), (l.foldl F a).size = a.size
  | [], a => rfl
  | x :: r, a => by rw [List.foldl_cons, foldl_size F hF r, hF]

theorem sp_removeIndicesAndSetLeaves {dp : Nat} (S : Type) [MapLike S (Nat × Nat) α]
    [LawfulMapLike S (Nat × Nat) α] (H : α → α → α) (dflt : α) (start : Nat) (leaves : List α)
    (idx : List Nat) (t : Pm α D) (hdp : t.depth = dp) :
    Spec dp (fun p => start ≤ p ∧ p < start + (start + leaves.length - idx.headD 0))
      (Pm.removeIndicesAndSetLeaves S H dflt start leaves idx) t := by
  unfold Spec Pm.removeIndicesAndSetLeaves
  dsimp only
  have hstop : ∀ o : Outcome Unit, Upd dp (fun p => start ≤ p ∧ p < start + (start + leaves.length - idx.headD 0))
      t (t, o).1 ∧ Cnt t (t, o) := fun o =>
    (Spec.same rfl rfl rfl : Spec dp _ (fun s => (s, o)) t)
  split
  · exact hstop _
  split
  · exact hstop _
  split
  · exact hstop _
  split
  · exact hstop _
  split
  · exact hstop _
  refine Spec.mono (Spec.bind (sp_treeSetRange S H _ _ t hdp) (fun _ s1 _ =>
    Spec.bind (sp_setFlags 0 _ s1) (fun _ s2 _ => sp_setFlags 1 _ s2))) ?_
  intro p hp
  rw [Array.length_toList, foldl_size _ (fun a x => by simp), foldl_size _ (fun a x => by simp),
    Array.size_replicate] at hp
  exact hp

/-! ## `override_range` -/

theorem mem_insertSorted (x y : Nat) : ∀ l : List Nat, y ∈ insertSorted x l ↔ y = x ∨ y ∈ l
  | [] => by simp [insertSorted]
  | z :: r => by
    unfold insertSorted
    split
    · simp
    · rw [List.mem_cons, mem_insertSorted x y r, List.mem_cons]
      constructor
      · rintro (h | h | h)
        · exact Or.inr (Or.inl h)
        · exact Or.inl h
        · exact Or.inr (Or.inr h)
      · rintro (h | h | h)
        · exact Or.inr (Or.inl h)
        · exact Or.inl h
        · exact Or.inr (Or.inr h)

theorem mem_sortNat (y : Nat) : ∀ l : List Nat, y ∈ sortNat l ↔ y ∈ l
  | [] => by simp [sortNat]
  | x :: r => by
    show y ∈ insertSorted x (sortNat r) ↔ _
    rw [mem_insertSorted, mem_sortNat y r, List.mem_cons]

theorem getLastD_mem (x : Nat) : ∀ (l : List Nat) (a : Nat), (x :: l).getLastD a ∈ x :: l
  | [], a => by simp
  | y :: r, a => by
    have := getLastD_mem y r a
    simp only [List.getLastD_cons] at this ⊢
    exact List.mem_cons_of_mem _ this

/-- positions `remove_indices_and_set_leaves` writes although the call does not address them: it
    passes `start` instead of the smallest index to `set_range` (open finding C08-pm-batch) -/
def overshoot : PmCall α → Nat → Prop
  | .op (.batch start vs rem), p =>
    vs ≠ [] ∧ rem ≠ [] ∧ start ≤ p ∧ p < start + (start + vs.length - (sortNat rem).headD 0)
  | _, _ => False

theorem sp_overrideRange (S : Type) [MapLike S (Nat × Nat) α] [LawfulMapLike S (Nat × Nat) α]
    (H : α → α → α) (dflt : α) (start : Nat) (vs : List α) (rem : List Nat) (t : Pm α D) :
    Spec t.depth (fun p => addressed t (.op (.batch start vs rem)) p ∨ overshoot (.op (.batch start vs rem)) p)
      (Pm.overrideRange S H dflt start vs rem) t := by
  have hrem : ∀ x r, sortNat rem = x :: r → rem ≠ [] := by
    intro x r h hc
    rw [hc] at h
    cases h
  cases hidx : sortNat rem with
  | nil =>
    match vs with
    | [] =>
      have e : (Pm.overrideRange S H dflt start ([] : List α) rem : PmM (Pm α D) Unit) = PmM.fail := by
        unfold Pm.overrideRange; rw [hidx]; rfl
      rw [e]
      exact Spec.same rfl rfl rfl
    | [v] =>
      have e : (Pm.overrideRange S H dflt start [v] rem : PmM (Pm α D) Unit) = Pm.set H start v := by
        unfold Pm.overrideRange; rw [hidx]; rfl
      rw [e]
      apply sp_set H start v t rfl
      left; left
      simp
    | a :: b :: r =>
      have e : (Pm.overrideRange S H dflt start (a :: b :: r) rem : PmM (Pm α D) Unit) = Pm.setRange S H start (a :: b :: r) := by
        unfold Pm.overrideRange; rw [hidx]; rfl
      rw [e]
      exact Spec.mono (sp_setRange S H start (a :: b :: r) t rfl) (fun p hp => Or.inl (Or.inl hp))
  | cons x r' =>
    have hne := hrem x r' hidx
    have hx : x ∈ rem := (mem_sortNat x rem).mp (by rw [hidx]; simp)
    match vs, r' with
    | [], [] =>
      have e : (Pm.overrideRange S H dflt start ([] : List α) rem : PmM (Pm α D) Unit) = Pm.delete H dflt x := by
        unfold Pm.overrideRange; rw [hidx]; rfl
      rw [e]
      apply sp_delete H dflt x t rfl
      left; right
      exact ⟨hne, x, x, List.mem_cons_of_mem _ hx, List.mem_cons_of_mem _ hx, Nat.le_refl _, Nat.le_refl _⟩
    | [], y :: r'' =>
      have e : (Pm.overrideRange S H dflt start ([] : List α) rem : PmM (Pm α D) Unit) = Pm.removeIndices S H dflt (x :: y :: r'') := by
        unfold Pm.overrideRange; rw [hidx]; rfl
      rw [e]
      refine Spec.mono (sp_removeIndices S H dflt (x :: y :: r'') t rfl) ?_
      intro p hp
      left; right
      have hl : (x :: y :: r'').getLastD 0 ∈ rem :=
        (mem_sortNat _ rem).mp (by rw [hidx]; exact getLastD_mem x (y :: r'') 0)
      exact ⟨hne, x, _, List.mem_cons_of_mem _ hx, List.mem_cons_of_mem _ hl, hp.1, hp.2⟩
    | [a], r' =>
      have e : (Pm.overrideRange S H dflt start ([a]) rem : PmM (Pm α D) Unit) =
          Pm.removeIndicesAndSetLeaves S H dflt start ([a]) (x :: r') := by
        unfold Pm.overrideRange; rw [hidx]; rfl
      rw [e]
      refine Spec.mono (sp_removeIndicesAndSetLeaves S H dflt start ([a]) (x :: r') t rfl) ?_
      intro p hp
      right
      refine ⟨by simp, hne, hp.1, ?_⟩
      rw [hidx]
      exact hp.2
    | a :: b :: r, r' =>
      have e : (Pm.overrideRange S H dflt start (a :: b :: r) rem : PmM (Pm α D) Unit) =
          Pm.removeIndicesAndSetLeaves S H dflt start (a :: b :: r) (x :: r') := by
        unfold Pm.overrideRange; rw [hidx]; rfl
      rw [e]
      refine Spec.mono (sp_removeIndicesAndSetLeaves S H dflt start (a :: b :: r) (x :: r') t rfl) ?_
      intro p hp
      right
      refine ⟨by simp, hne, hp.1, ?_⟩
      rw [hidx]
      exact hp.2

theorem sp_setMetadata {dp : Nat} {A : Nat → Prop} (md : List UInt8) (t : Pm α D) :
    Spec dp A (Pm.setMetadata md) t := by
  unfold Pm.setMetadata
  exact Spec.bind (sp_put_other _ _ t (by simp) (by simp)) (fun _ s' _ => sp_modify _ s' rfl rfl rfl)

/-- every mutating call but `reset`: what it does to the store and to the failure schedule -/
theorem call_spec (S : Type) [MapLike S (Nat × Nat) α] [LawfulMapLike S (Nat × Nat) α]
    (H : α → α → α) (dflt : α) (t : Pm α D) (c : PmCall α) (hc : c ≠ .op .reset) :
    Spec t.depth (fun p => addressed t c p ∨ overshoot c p) (fun t => Pm.call S H dflt t c) t := by
  cases c with
  | op o =>
    cases o with
    | set i v => exact sp_set H i v t rfl (Or.inl rfl)
    | delete i => exact sp_delete H dflt i t rfl (Or.inl rfl)
    | append v => exact sp_updateNext H v t rfl (Or.inl rfl)
    | setRange start vs => exact Spec.mono (sp_setRange S H start vs t rfl) (fun p hp => Or.inl hp)
    | batch start vs rem => exact sp_overrideRange S H dflt start vs rem t
    | reset => exact absurd rfl hc
  | setMetadata md => exact sp_setMetadata md t
  | flush => exact sp_flush t

/-! ## creation and histories -/

/-- the root node is in the store (what `load` reads the root from) -/
def RootStored (t : Pm α D) : Prop :=
  ∃ v, MapLike.get? t.db.kv (PmKey.node 0 0) = some (PmVal.fr v)

theorem putDefaults_stored (c : Array α) :
    ∀ (n : Nat) (t : Pm α D), t.db.failAt = none → (0 < n ∨ RootStored t) →
      RootStored (putDefaults c n t).1
  | 0, t, _, h => h.resolve_left (by omega)
  | n+1, t, hf, _ => by
    unfold putDefaults
    rw [PmM.bind_ok (put_ok t _ _ hf)]
    apply putDefaults_stored c n _ (by simpa using hf)
    by_cases hn : n = 0
    · right
      subst hn
      exact ⟨c[0]!, by rw [get?_putKv, if_pos rfl]⟩
    · left; omega

theorem new_facts (H : α → α → α) (dflt : α) (d : Nat) :
    ((Pm.new (D := D) H dflt d { kv := MapLike.empty }).1).cache = (mkCache H dflt d [dflt]).toArray ∧
    ((Pm.new (D := D) H dflt d { kv := MapLike.empty }).1).depth = d ∧
    RootStored (Pm.new (D := D) H dflt d { kv := MapLike.empty }).1 := by
  let c : Array α := (Pm.mkCache H dflt d [dflt]).toArray
  let t0 : Pm α D := { db := { kv := MapLike.empty }, depth := d, next := 0, cache := c, root := c[0]!,
                       flags := Array.replicate (2 ^ d) 0, metadata := [] }
  let t1 := t0.putKv PmKey.depthKey (PmVal.num d)
  let t2 := t1.putKv PmKey.nextKey (PmVal.num 0)
  let t3 := t2.putKv (PmKey.node d 0) (PmVal.fr c[d]!)
  obtain ⟨t', h1, h2, -⟩ := Pm.putDefaults_spec c d t3 rfl
  have hnew : Pm.new (D := D) H dflt d { kv := MapLike.empty } = (t', .ok ()) := by
    show (do Pm.put PmKey.depthKey (PmVal.num d)
             Pm.put PmKey.nextKey (PmVal.num 0)
             Pm.put (PmKey.node d 0) (PmVal.fr c[d]!)
             Pm.putDefaults c d) t0 = _
    rw [PmM.bind_ok (Pm.put_ok t0 _ _ rfl)]
    rw [PmM.bind_ok (Pm.put_ok t1 _ _ rfl)]
    rw [PmM.bind_ok (Pm.put_ok t2 _ _ rfl)]
    exact h1
  have hst := putDefaults_stored c d t3 rfl (by
    by_cases hd : d = 0
    · right
      subst hd
      exact ⟨c[0]!, by show MapLike.get? (t2.putKv _ _).db.kv _ = _; rw [get?_putKv, if_pos rfl]⟩
    · left; omega)
  rw [h1] at hst
  rw [hnew]
  exact ⟨h2.cache, h2.depth, hst⟩

/-- what every state of a history keeps -/
def Hist (H : α → α → α) (dflt : α) (d : Nat) (t : Pm α D) : Prop :=
  t.depth = d ∧ t.cache = (mkCache H dflt d [dflt]).toArray ∧ RootStored t

theorem step_hist (S : Type) [MapLike S (Nat × Nat) α] [LawfulMapLike S (Nat × Nat) α]
    (H : α → α → α) (dflt : α) (d : Nat) (t : Pm α D) (h : Hist H dflt d t) (op : TreeOp α) :
    Hist H dflt d (Pm.step S H dflt t op) := by
  by_cases hop : op = .reset
  · subst hop
    show Hist H dflt d (Pm.new H dflt t.depth { kv := MapLike.empty }).1
    rw [h.1]
    obtain ⟨a, b, c⟩ := new_facts (D := D) H dflt d
    exact ⟨b, a, c⟩
  · have hu := (call_spec S H dflt t (.op op) (by intro hc; injection hc with hc; exact hop hc)).1
    exact ⟨hu.depth.trans h.1, hu.cache.trans h.2.1, hu.fr 0 0 h.2.2⟩

theorem run_hist (S : Type) [MapLike S (Nat × Nat) α] [LawfulMapLike S (Nat × Nat) α]
    (H : α → α → α) (dflt : α) (d : Nat) (ops : List (TreeOp α)) :
    Hist H dflt d (Pm.run (D := D) S H dflt d ops) := by
  have : ∀ (ops : List (TreeOp α)) (t : Pm α D), Hist H dflt d t →
      Hist H dflt d (ops.foldl (Pm.step S H dflt) t) := by
    intro ops
    induction ops with
    | nil => intro t h; exact h
    | cons op r ih => intro t h; exact ih _ (step_hist S H dflt d t h op)
  obtain ⟨a, b, c⟩ := new_facts (D := D) H dflt d
  exact this ops _ ⟨b, a, c⟩

/-! ## reopening -/

theorem load_depth (H : α → α → α) (dflt : α) (a : Nat) (kv : D) (n : Nat)
    (h : MapLike.get? kv PmKey.depthKey = some (PmVal.num n)) :
    (load H dflt a { kv := kv }).depth = n := by
  show (match MapLike.get? kv PmKey.depthKey with
    | some (.num d) => d
    | _ => 20) = n
  rw [h]

theorem load_next (H : α → α → α) (dflt : α) (a : Nat) (kv : D) (n : Nat)
    (h : MapLike.get? kv PmKey.nextKey = some (PmVal.num n)) :
    (load H dflt a { kv := kv }).next = n := by
  show (match MapLike.get? kv PmKey.nextKey with
    | some (.num d) => d
    | _ => 0) = n
  rw [h]

theorem load_root (H : α → α → α) (dflt : α) (a : Nat) (kv : D) (v : α)
    (h : MapLike.get? kv (PmKey.node 0 0) = some (PmVal.fr v)) :
    (load H dflt a { kv := kv }).root = v := by
  show (match MapLike.get? kv (PmKey.node 0 0) with
    | some (.fr v) => v
    | _ => dflt) = v
  rw [h]

/-- a reloaded tree reads every node like a tree over the same store with the recomputed cache -/
theorem load_getElem (H : α → α → α) (dflt : α) (a : Nat) (t : Pm α D)
    (hd : (load H dflt a { kv := t.db.kv }).depth = t.depth)
    (hc : t.cache = (mkCache H dflt t.depth [dflt]).toArray) (l i : Nat) :
    (load H dflt a { kv := t.db.kv }).getElem l i = t.getElem l i := by
  have hc' : (load H dflt a { kv := t.db.kv }).cache = t.cache := by
    show (mkCache H dflt (load H dflt a { kv := t.db.kv }).depth [dflt]).toArray = t.cache
    rw [hd, hc]
  exact getElem_congr (t' := load H dflt a { kv := t.db.kv }) (t := t) hc' rfl

end Pm

/-! ## the statements -/

section Main
variable (D : Type) [MapLike D PmKey (PmVal α)] [LawfulMapLike D PmKey (PmVal α)]
  (S : Type) [MapLike S (Nat × Nat) α] [LawfulMapLike S (Nat × Nat) α] (H : α → α → α) (dflt : α)

/-- `Pm.ReopenStmt` with the root node stored (true along every history, `Pm.run_hist`) -/
theorem Pm.reopen_shows_ideal_partial :
    ∀ (t : Pm α D) (s : Ideal α) (argDepth : Nat), Pm.Rel H dflt t s →
      t.cache = (Pm.mkCache H dflt t.depth [dflt]).toArray →
      (∃ v, MapLike.get? t.db.kv (PmKey.node 0 0) = some (PmVal.fr v)) →
      Pm.Reopened H dflt (Pm.load H dflt argDepth { kv := t.db.kv }) s := by
  intro t s a h hc ⟨v, hv⟩
  have hd := Pm.load_depth H dflt a t.db.kv _ h.inv.stored_depth
  have hg := Pm.load_getElem H dflt a t hd hc
  refine ⟨hd.trans h.depth, (Pm.load_next H dflt a t.db.kv _ h.inv.stored_next).trans h.next, ?_, ?_, ?_⟩
  · rw [Pm.load_root H dflt a t.db.kv v hv, ← (Pm.obs_eq D H dflt t s h).1, h.inv.root_eq,
      Pm.getElem_of_get? hv]
  · intro i hi
    rw [hd] at hi ⊢
    rw [hg]
    exact h.leaves i hi
  · intro l i hl hi
    rw [hd] at hl
    rw [hg]
    exact h.getElem_node l i (by rw [← h.depth]; exact hl) hi

/-- `Pm.ReopenInvStmt` with the root node stored -/
theorem Pm.reopen_inv_partial :
    ∀ (t : Pm α D) (s : Ideal α), Pm.Rel H dflt t s →
      t.cache = (Pm.mkCache H dflt t.depth [dflt]).toArray →
      (∃ v, MapLike.get? t.db.kv (PmKey.node 0 0) = some (PmVal.fr v)) →
      Pm.Inv H (Pm.load H dflt t.depth { kv := t.db.kv }) := by
  intro t s h hc ⟨v, hv⟩
  have hd := Pm.load_depth H dflt t.depth t.db.kv _ h.inv.stored_depth
  have hn := Pm.load_next H dflt t.depth t.db.kv _ h.inv.stored_next
  have hg := Pm.load_getElem H dflt t.depth t hd hc
  refine ⟨?_, ?_, ?_, ?_, rfl, ?_, ?_, ?_, ?_⟩
  · show (Pm.mkCache H dflt (Pm.load H dflt t.depth { kv := t.db.kv }).depth [dflt]).toArray.size = _
    rw [Pm.mkCache_size]
  · show (Array.replicate (2 ^ t.depth) 0).size = _
    rw [hd, Array.size_replicate]
  · rw [hn, hd]; exact h.inv.next_le
  · rw [hd]; exact h.inv.depth_pos
  · rw [Pm.load_root H dflt t.depth t.db.kv v hv, hg, Pm.getElem_of_get? hv]
  · intro l i hl hi
    rw [hd] at hl
    rw [hg, hg, hg]
    exact h.inv.cons l i hl hi
  · rw [hd]; exact h.inv.stored_depth
  · rw [hn]; exact h.inv.stored_next

theorem Pm.cache_stable : Pm.CacheStmt D S H dflt := by
  refine ⟨fun d => (Pm.new_facts H dflt d).1, ?_⟩
  intro t op hop
  have h := (Pm.call_spec S H dflt t (.op op) (by intro hc; injection hc with hc; exact hop hc)).1
  exact ⟨h.cache, h.depth⟩

theorem Pm.metadata_survives : Pm.MetadataStmt D H dflt := by
  intro t md a hf
  have hrun : Pm.setMetadata md t =
      ({ t.putKv PmKey.metaKey (PmVal.bytes md) with metadata := md }, .ok ()) := by
    unfold Pm.setMetadata
    rw [PmM.bind_ok (Pm.put_ok t _ _ hf)]
    rfl
  have hk : MapLike.get? (t.putKv PmKey.metaKey (PmVal.bytes md)).db.kv PmKey.metaKey =
      some (PmVal.bytes md) := by rw [Pm.get?_putKv, if_pos rfl]
  show (Pm.setMetadata md t).2 = .ok () ∧ Pm.getMetadata (Pm.setMetadata md t).1 = md ∧
    Pm.getMetadata (Pm.load H dflt a { kv := (Pm.setMetadata md t).1.db.kv }) = md
  rw [hrun]
  refine ⟨rfl, ?_, ?_⟩
  · unfold Pm.getMetadata
    split
    · rfl
    · rename_i hm
      show (match MapLike.get? (t.putKv PmKey.metaKey (PmVal.bytes md)).db.kv PmKey.metaKey with
        | some (.bytes b) => b
        | _ => []) = md
      rw [hk]
  · show (match MapLike.get? (t.putKv PmKey.metaKey (PmVal.bytes md)).db.kv PmKey.metaKey with
        | some (.bytes b) => b
        | _ => []) = md
    rw [hk]

theorem Pm.failure_reported : Pm.FailureReportedStmt D S H dflt := by
  intro t c f hc hf hle
  obtain ⟨h1, h2, h3⟩ := (Pm.call_spec S H dflt t c hc).2 f hf hle
  exact ⟨h1, h2, h3 ()⟩

/-- `Pm.LeafFrameStmt` with the positions `remove_indices_and_set_leaves` overshoots to excluded,
    and the stored leaf allowed to be rewritten with the value it already reads as -/
theorem Pm.leaf_frame_partial :
    ∀ (t : Pm α D) (c : PmCall α) (p : Nat), 0 < t.depth → ¬ addressed t c p → ¬ Pm.overshoot c p →
      let r := Pm.call S H dflt t c
      (MapLike.get? r.1.db.kv (PmKey.node t.depth p) = MapLike.get? t.db.kv (PmKey.node t.depth p) ∨
        MapLike.get? r.1.db.kv (PmKey.node t.depth p) = some (PmVal.fr (t.getElem t.depth p))) ∧
      r.1.getElem t.depth p = t.getElem t.depth p ∧
      MapLike.get? r.1.db.kv PmKey.depthKey = MapLike.get? t.db.kv PmKey.depthKey := by
  intro t c p hd ha ho
  have hc : c ≠ .op .reset := by
    intro hc; subst hc; exact ha trivial
  have hu := (Pm.call_spec S H dflt t c hc).1
  have hp : ¬ (addressed t c p ∨ Pm.overshoot c p) := fun h => h.elim ha ho
  exact ⟨hu.leaf hd p hp, hu.getElem hd p hp, hu.depthKey⟩

theorem addressed_congr (t t' : Pm α D) (h : t'.next = t.next) (c : PmCall α) (p : Nat) :
    addressed t' c p ↔ addressed t c p := by
  cases c with
  | op o => cases o <;> simp [addressed, h]
  | setMetadata md => exact Iff.rfl
  | flush => exact Iff.rfl

/-- `Pm.AckedPreservedStmt` with the overshoot positions excluded -/
theorem Pm.acked_preserved_partial :
    ∀ (t : Pm α D) (s : Ideal α) (c : PmCall α) (f : Nat) (argDepth p : Nat),
      Pm.Rel H dflt { t with db := { t.db with failAt := none } } s →
      t.cache = (Pm.mkCache H dflt t.depth [dflt]).toArray →
      c ≠ .op .reset → p < 2 ^ t.depth → ¬ addressed t c p → ¬ Pm.overshoot c p →
      let t' := Pm.load H dflt argDepth
        { kv := (Pm.call S H dflt { t with db := { t.db with failAt := some f } } c).1.db.kv }
      t'.depth = s.depth ∧ t'.getElem t'.depth p = s.leaf dflt p := by
  intro t s c f a p hrel hcache hc hp ha ho
  let t0 : Pm α D := { t with db := { t.db with failAt := some f } }
  have hdpos : 0 < t0.depth := hrel.inv.depth_pos
  have hu := (Pm.call_spec S H dflt t0 c hc).1
  have hnp : ¬ (addressed t0 c p ∨ Pm.overshoot c p) :=
    fun h => h.elim (fun h' => ha ((addressed_congr D t t0 rfl c p).mp h')) ho
  have hg := hu.getElem hdpos p hnp
  have hsd : MapLike.get? (Pm.call S H dflt t0 c).1.db.kv PmKey.depthKey = some (PmVal.num t.depth) :=
    hu.depthKey.trans hrel.inv.stored_depth
  have hd : (Pm.load H dflt a { kv := (Pm.call S H dflt t0 c).1.db.kv }).depth = t.depth :=
    Pm.load_depth H dflt a _ _ hsd
  have hd' : (Pm.load H dflt a { kv := (Pm.call S H dflt t0 c).1.db.kv }).depth =
      (Pm.call S H dflt t0 c).1.depth := hd.trans hu.depth.symm
  have hcache' : (Pm.call S H dflt t0 c).1.cache =
      (Pm.mkCache H dflt (Pm.call S H dflt t0 c).1.depth [dflt]).toArray := by
    rw [hu.cache, hu.depth]; exact hcache
  have hl := Pm.load_getElem H dflt a (Pm.call S H dflt t0 c).1 hd' hcache' t.depth p
  show (Pm.load H dflt a { kv := (Pm.call S H dflt t0 c).1.db.kv }).depth = s.depth ∧
    (Pm.load H dflt a { kv := (Pm.call S H dflt t0 c).1.db.kv }).getElem
      (Pm.load H dflt a { kv := (Pm.call S H dflt t0 c).1.db.kv }).depth p = s.leaf dflt p
  rw [hd]
  refine ⟨hrel.depth, ?_⟩
  rw [hl, hg]
  exact hrel.leaves p hp

end Main

end Zk.Tree
