import ZkModel.Tree.Ideal
import ZkModel.Tree.Full
import ZkModel.Tree.Optimal
import ZkModel.Tree.Pm
/-!
# Invariants, refinement relations and the exact statements proved for the tree backends

Each `…Stmt` below is a `Prop`; the lemma files prove `theorem … : …Stmt …`, and the property
files (C06, C07, C08, C15) re-export them. Keeping the statements here, apart from the proofs,
means a proof can never be made to pass by quietly weakening what it says.

Generic in the node type `α`, the two-to-one hash `H` and the default leaf `dflt`.
-/
namespace Zk.Tree

variable {α : Type} [Inhabited α]

/-- outcome of a mutator on a backend (`Outcome (new state)`) against the ideal tree's outcome,
    through a refinement relation `R` -/
def RefinesOutcome {σ : Type} (R : σ → Ideal α → Prop) (t : σ) (s : Ideal α)
    (ot : Outcome σ) (os : Outcome (Ideal α)) : Prop :=
  match ot, os with
  | .ok t', .ok s' => R t' s'
  | .err, .err => R t s          -- rejected on both sides: nothing changes
  | _, _ => False

/-! ## FullMerkleTree -/

/-- every inner node of the flat array is the hash of its two children; sizes; high-water mark -/
structure Full.Inv (H : α → α → α) (t : Full α) : Prop where
  size : t.nodes.size = 2 ^ (t.depth + 1) - 1
  fsize : t.flags.size = 2 ^ t.depth
  next_le : t.next ≤ 2 ^ t.depth
  cons : ∀ j, j < 2 ^ t.depth - 1 → t.nodes[j]! = H t.nodes[2 * j + 1]! t.nodes[2 * j + 2]!

/-- the flat array seen as the ideal tree `s` -/
structure Full.Rel (H : α → α → α) (dflt : α) (t : Full α) (s : Ideal α) : Prop where
  inv : Full.Inv H t
  depth : t.depth = s.depth
  next : t.next = s.next
  leaves : ∀ i, i < 2 ^ t.depth → t.nodes[2 ^ t.depth - 1 + i]! = s.leaf dflt i
  flags : ∀ i, i < 2 ^ t.depth → (t.flags[i]! = 0 ↔ (s.live.lookup i).getD false = false)

def Full.NewStmt (H : α → α → α) (dflt : α) : Prop :=
  ∀ d : Nat, Full.Rel H dflt (Full.new H dflt d) (Ideal.new d)

def Full.SetStmt (H : α → α → α) (dflt : α) : Prop :=
  ∀ (t : Full α) (s : Ideal α) (i : Nat) (v : α), Full.Rel H dflt t s →
    RefinesOutcome (Full.Rel H dflt) t s (Full.set H t i v) (Ideal.set s i v)

def Full.DeleteStmt (H : α → α → α) (dflt : α) : Prop :=
  ∀ (t : Full α) (s : Ideal α) (i : Nat), Full.Rel H dflt t s →
    ∃ t', Full.delete H dflt t i = .ok t' ∧ Full.Rel H dflt t' (Ideal.delete dflt s i)

def Full.AppendStmt (H : α → α → α) (dflt : α) : Prop :=
  ∀ (t : Full α) (s : Ideal α) (v : α), Full.Rel H dflt t s →
    RefinesOutcome (Full.Rel H dflt) t s (Full.updateNext H t v) (Ideal.append s v)

def Full.SetRangeStmt (H : α → α → α) (dflt : α) : Prop :=
  ∀ (t : Full α) (s : Ideal α) (start : Nat) (vs : List α), Full.Rel H dflt t s →
    RefinesOutcome (Full.Rel H dflt) t s (Full.setRange H t start vs) (Ideal.setRange s start vs)

/-- C08 for the flat tree -/
def Full.BatchStmt (H : α → α → α) (dflt : α) : Prop :=
  ∀ (t : Full α) (s : Ideal α) (start : Nat) (vs : List α) (rem : List Nat), Full.Rel H dflt t s →
    RefinesOutcome (Full.Rel H dflt) t s (Full.overrideRange H dflt t start vs rem) (Ideal.batch dflt s start vs rem)

/-- every observable of a related pair coincides (C06 observables, C15 empty list, C07 proof) -/
def Full.ObsStmt (H : α → α → α) (dflt : α) : Prop :=
  ∀ (t : Full α) (s : Ideal α), Full.Rel H dflt t s →
    t.root = s.root H dflt ∧
    t.next = s.next ∧
    (∀ i, t.get i = if i < 2 ^ s.depth then .ok (s.leaf dflt i) else .err) ∧
    (∀ l i, t.getSubtreeRoot l i =
      if l > s.depth ∨ i ≥ 2 ^ s.depth then .err else .ok (s.node H dflt l (i / 2 ^ (s.depth - l)))) ∧
    t.emptyIdx = s.emptyIdx ∧
    (∀ i, t.proof i = if i < 2 ^ s.depth then .ok (s.proof H dflt i) else .err)

/-! ## OptimalMerkleTree -/

variable {M : Type} [MapLike M (Nat × Nat) α]

/-- every inner position reads (stored value or per-level default) as the hash of its children -/
structure Optimal.Inv (H : α → α → α) (t : Optimal α M) : Prop where
  csize : t.cached.size = t.depth + 1
  fsize : t.flags.size = 2 ^ t.depth
  next_le : t.next ≤ 2 ^ t.depth
  depth_pos : 0 < t.depth
  cons : ∀ l i, l < t.depth → i < 2 ^ l → t.getNode l i = H (t.getNode (l + 1) (2 * i)) (t.getNode (l + 1) (2 * i + 1))

structure Optimal.Rel (H : α → α → α) (dflt : α) (t : Optimal α M) (s : Ideal α) : Prop where
  inv : Optimal.Inv H t
  depth : t.depth = s.depth
  next : t.next = s.next
  leaves : ∀ i, i < 2 ^ t.depth → t.getNode t.depth i = s.leaf dflt i
  flags : ∀ i, i < 2 ^ t.depth → (t.flags[i]! = 0 ↔ (s.live.lookup i).getD false = false)

def Optimal.NewStmt (M : Type) [MapLike M (Nat × Nat) α] (H : α → α → α) (dflt : α) : Prop :=
  ∀ d : Nat, 0 < d → Optimal.Rel H dflt (Optimal.new (M := M) H dflt d) (Ideal.new d)

def Optimal.SetStmt (M : Type) [MapLike M (Nat × Nat) α] (H : α → α → α) (dflt : α) : Prop :=
  ∀ (t : Optimal α M) (s : Ideal α) (i : Nat) (v : α), Optimal.Rel H dflt t s →
    RefinesOutcome (Optimal.Rel H dflt) t s (Optimal.set H t i v) (Ideal.set s i v)

def Optimal.DeleteStmt (M : Type) [MapLike M (Nat × Nat) α] (H : α → α → α) (dflt : α) : Prop :=
  ∀ (t : Optimal α M) (s : Ideal α) (i : Nat), Optimal.Rel H dflt t s →
    ∃ t', Optimal.delete H dflt t i = .ok t' ∧ Optimal.Rel H dflt t' (Ideal.delete dflt s i)

def Optimal.AppendStmt (M : Type) [MapLike M (Nat × Nat) α] (H : α → α → α) (dflt : α) : Prop :=
  ∀ (t : Optimal α M) (s : Ideal α) (v : α), Optimal.Rel H dflt t s →
    RefinesOutcome (Optimal.Rel H dflt) t s (Optimal.updateNext H t v) (Ideal.append s v)

def Optimal.SetRangeStmt (M : Type) [MapLike M (Nat × Nat) α] (H : α → α → α) (dflt : α) : Prop :=
  ∀ (t : Optimal α M) (s : Ideal α) (start : Nat) (vs : List α), Optimal.Rel H dflt t s →
    RefinesOutcome (Optimal.Rel H dflt) t s (Optimal.setRange H t start vs) (Ideal.setRange s start vs)

def Optimal.BatchStmt (M : Type) [MapLike M (Nat × Nat) α] (H : α → α → α) (dflt : α) : Prop :=
  ∀ (t : Optimal α M) (s : Ideal α) (start : Nat) (vs : List α) (rem : List Nat), Optimal.Rel H dflt t s →
    RefinesOutcome (Optimal.Rel H dflt) t s (Optimal.overrideRange H dflt t start vs rem) (Ideal.batch dflt s start vs rem)

def Optimal.ObsStmt (M : Type) [MapLike M (Nat × Nat) α] (H : α → α → α) (dflt : α) : Prop :=
  ∀ (t : Optimal α M) (s : Ideal α), Optimal.Rel H dflt t s →
    t.root = s.root H dflt ∧
    t.next = s.next ∧
    (∀ i, t.get i = if i < 2 ^ s.depth then .ok (s.leaf dflt i) else .err) ∧
    (∀ l i, t.getSubtreeRoot l i =
      if l > s.depth ∨ i ≥ 2 ^ s.depth then .err else .ok (s.node H dflt l (i / 2 ^ (s.depth - l)))) ∧
    t.emptyIdx = s.emptyIdx ∧
    (∀ i, t.proof i = if i < 2 ^ s.depth then .ok (s.proof H dflt i) else .err)

/-! ## Persistent tree (pmtree + adapter), no storage failure injected -/

variable {D : Type} [MapLike D PmKey (PmVal α)]

structure Pm.Inv (H : α → α → α) (t : Pm α D) : Prop where
  csize : t.cache.size = t.depth + 1
  fsize : t.flags.size = 2 ^ t.depth
  next_le : t.next ≤ 2 ^ t.depth
  depth_pos : 0 < t.depth
  nofail : t.db.failAt = none
  root_eq : t.root = t.getElem 0 0
  cons : ∀ l i, l < t.depth → i < 2 ^ l → t.getElem l i = H (t.getElem (l + 1) (2 * i)) (t.getElem (l + 1) (2 * i + 1))
  /-- what `load` reads back: the two counters are stored -/
  stored_depth : MapLike.get? t.db.kv PmKey.depthKey = some (PmVal.num t.depth)
  stored_next : MapLike.get? t.db.kv PmKey.nextKey = some (PmVal.num t.next)

structure Pm.Rel (H : α → α → α) (dflt : α) (t : Pm α D) (s : Ideal α) : Prop where
  inv : Pm.Inv H t
  depth : t.depth = s.depth
  next : t.next = s.next
  leaves : ∀ i, i < 2 ^ t.depth → t.getElem t.depth i = s.leaf dflt i
  flags : ∀ i, i < 2 ^ t.depth → (t.flags[i]! = 0 ↔ (s.live.lookup i).getD false = false)

/-- result of a `PmM` action against the ideal outcome -/
def PmRefines (H : α → α → α) (dflt : α) (t : Pm α D) (s : Ideal α)
    (r : Pm α D × Outcome Unit) (os : Outcome (Ideal α)) : Prop :=
  match r.2, os with
  | .ok _, .ok s' => Pm.Rel H dflt r.1 s'
  | .err, .err => Pm.Rel H dflt r.1 s
  | _, _ => False

def Pm.NewStmt (D : Type) [MapLike D PmKey (PmVal α)] (H : α → α → α) (dflt : α) : Prop :=
  ∀ d : Nat, 0 < d →
    let r := Pm.new (D := D) H dflt d { kv := MapLike.empty }
    r.2 = .ok () ∧ Pm.Rel H dflt r.1 (Ideal.new d)

def Pm.SetStmt (D : Type) [MapLike D PmKey (PmVal α)] (H : α → α → α) (dflt : α) : Prop :=
  ∀ (t : Pm α D) (s : Ideal α) (i : Nat) (v : α), Pm.Rel H dflt t s →
    PmRefines H dflt t s (Pm.set H i v t) (Ideal.set s i v)

/-- pmtree rejects a deletion at or above the high-water mark with `Err`; the state is unchanged -/
def Pm.DeleteStmt (D : Type) [MapLike D PmKey (PmVal α)] (H : α → α → α) (dflt : α) : Prop :=
  ∀ (t : Pm α D) (s : Ideal α) (i : Nat), Pm.Rel H dflt t s →
    let r := Pm.delete H dflt i t
    (r.2 = if i < s.next then .ok () else .err) ∧ Pm.Rel H dflt r.1 (Ideal.delete dflt s i)

def Pm.AppendStmt (D : Type) [MapLike D PmKey (PmVal α)] (H : α → α → α) (dflt : α) : Prop :=
  ∀ (t : Pm α D) (s : Ideal α) (v : α), Pm.Rel H dflt t s →
    PmRefines H dflt t s (Pm.updateNext H v t) (Ideal.append s v)

/-- range write through `fill_nodes` / `batch_recalculate`; `S` is the batch's in-memory map.
    The adapter accepts the empty range unconditionally (a no-op). -/
def Pm.SetRangeStmt (D : Type) [MapLike D PmKey (PmVal α)] (S : Type) [MapLike S (Nat × Nat) α]
    (H : α → α → α) (dflt : α) : Prop :=
  ∀ (t : Pm α D) (s : Ideal α) (start : Nat) (vs : List α), Pm.Rel H dflt t s → vs ≠ [] →
    PmRefines H dflt t s (Pm.setRange S H start vs t) (Ideal.setRange s start vs)

/-- C08 for the persistent tree, partial: the adapter's `remove_indices` /
    `remove_indices_and_set_leaves` are wrong on most shapes (open finding C08-pm-batch, pinned by
    an existing test); what holds is the part of the dispatch that never reaches them. -/
def Pm.BatchStmtPartial (D : Type) [MapLike D PmKey (PmVal α)] (S : Type) [MapLike S (Nat × Nat) α]
    (H : α → α → α) (dflt : α) : Prop :=
  ∀ (t : Pm α D) (s : Ideal α) (start : Nat) (vs : List α), Pm.Rel H dflt t s →
    PmRefines H dflt t s (Pm.overrideRange S H dflt start vs [] t) (Ideal.batch dflt s start vs [])

def Pm.ObsStmt (D : Type) [MapLike D PmKey (PmVal α)] (H : α → α → α) (dflt : α) : Prop :=
  ∀ (t : Pm α D) (s : Ideal α), Pm.Rel H dflt t s →
    t.root = s.root H dflt ∧
    t.next = s.next ∧
    (∀ i, t.get i = if i < 2 ^ s.depth then .ok (s.leaf dflt i) else .err) ∧
    (∀ l i, t.getSubtreeRoot l i =
      if l > s.depth ∨ i ≥ 2 ^ s.depth then .err else .ok (s.node H dflt l (i / 2 ^ (s.depth - l)))) ∧
    t.emptyIdx = s.emptyIdx ∧
    (∀ i, t.proof i = if i < 2 ^ s.depth then .ok (s.proof H dflt i) else .err)

/-! ## Facts about the ideal tree itself (C07 and the executable short cuts of the driver) -/

/-- the driver's short cut equals the specification -/
def Ideal.NodeFastStmt (H : α → α → α) (dflt : α) : Prop :=
  ∀ (t : Ideal α) (l i : Nat), t.nodeFast H dflt l i = t.node H dflt l i

/-- bottom-up pairwise hashing yields exactly the `node` values -/
def Ideal.LevelsStmt (H : α → α → α) (dflt : α) : Prop :=
  ∀ (t : Ideal α) (k i : Nat), k ≤ t.depth → i < 2 ^ (t.depth - k) →
    ((t.levels H dflt).getD k []).getD i dflt = t.node H dflt (t.depth - k) i

/-- C07 completeness: one sibling per level, decodes to the position, recomputes the root -/
def Ideal.ProofCompleteStmt (H : α → α → α) (dflt : α) : Prop :=
  ∀ (t : Ideal α) (i : Nat), i < 2 ^ t.depth →
    (t.proof H dflt i).length = t.depth ∧
    (t.proof H dflt i).foldr (fun x acc => 2 * acc + x.2) 0 = i ∧
    (∀ x ∈ t.proof H dflt i, x.2 = 0 ∨ x.2 = 1) ∧
    Ideal.computeRoot H (t.leaf dflt i) (t.proof H dflt i) = t.root H dflt

/-- C07 binding as collision extraction: two different (leaf, siblings) with the same direction
    bits that recompute the same root exhibit a collision of `H`. -/
def Ideal.BindingStmt (H : α → α → α) : Prop :=
  ∀ (l l' : α) (p p' : List (α × Nat)),
    p.map (·.2) = p'.map (·.2) →
    Ideal.computeRoot H l p = Ideal.computeRoot H l' p' →
    (l, p.map (·.1)) ≠ (l', p'.map (·.1)) →
    ∃ a b c d : α, (a, b) ≠ (c, d) ∧ H a b = H c d

/-- flipping the direction bit at a level where the running node and the sibling differ, all else
    equal, and still recomputing the same root exhibits a collision of `H` -/
def Ideal.DirFlipStmt (H : α → α → α) : Prop :=
  ∀ (l : α) (pre post : List (α × Nat)) (sib : α) (b : Nat), (b = 0 ∨ b = 1) →
    Ideal.computeRoot H l pre ≠ sib →
    Ideal.computeRoot H l (pre ++ (sib, b) :: post) = Ideal.computeRoot H l (pre ++ (sib, 1 - b) :: post) →
    ∃ a b c d : α, (a, b) ≠ (c, d) ∧ H a b = H c d

end Zk.Tree
