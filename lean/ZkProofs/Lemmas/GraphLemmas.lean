import ZkProofs.Lemmas.GraphDefs
import ZkProofs.Lemmas.OpsProofs
import ZkProofs.Lemmas.BytesLemmas
/-!
# Helper lemmas for `GraphProofs.lean` (C20, C05)
-/
namespace Zk.Graph
open Zk.Graph.Storage

/-! ## the reference interpretation is monotone in its fuel -/

theorem denote_mono (nodes : Array Node) (inputs : Array Nat) :
    ∀ (f f' i v : Nat), denote nodes inputs f i = .ok v → f ≤ f' → denote nodes inputs f' i = .ok v := by
  intro f
  induction f with
  | zero => intro f' i v h; simp [denote] at h
  | succ f ih =>
    intro f' i v h hle
    obtain ⟨f'', rfl⟩ : ∃ f'', f' = f'' + 1 := ⟨f' - 1, by omega⟩
    have hle' : f ≤ f'' := by omega
    unfold denote at h ⊢
    cases hn : nodes[i]? with
    | none => simp [hn] at h
    | some n =>
      simp only [hn] at h ⊢
      cases n with
      | input k => exact h
      | constant c => exact h
      | montConstant c => exact h
      | uno op a =>
        simp only at h ⊢
        by_cases ha : a < i
        · simp only [ha, if_true] at h ⊢
          cases hd : denote nodes inputs f a with
          | ok x => rw [hd] at h; rw [ih f'' a x hd hle']; exact h
          | err => simp [hd] at h
          | panic => simp [hd] at h
        · simp [ha] at h
      | duo op a b =>
        simp only at h ⊢
        by_cases ha : a < i ∧ b < i
        · simp only [ha, and_self, if_true] at h ⊢
          cases hd : denote nodes inputs f a with
          | ok x =>
            cases he : denote nodes inputs f b with
            | ok y => rw [hd, he] at h; rw [ih f'' a x hd hle', ih f'' b y he hle']; exact h
            | err => simp [hd, he] at h
            | panic => simp [hd, he] at h
          | err => simp [hd] at h
          | panic => simp [hd] at h
        · simp [ha] at h
      | tres op a b c =>
        simp only at h ⊢
        by_cases ha : a < i ∧ b < i ∧ c < i
        · simp only [ha, and_self, if_true] at h ⊢
          cases hd : denote nodes inputs f a with
          | ok x =>
            cases he : denote nodes inputs f b with
            | ok y =>
              cases hg : denote nodes inputs f c with
              | ok z =>
                rw [hd, he, hg] at h
                rw [ih f'' a x hd hle', ih f'' b y he hle', ih f'' c z hg hle']; exact h
              | err => simp [hd, he, hg] at h
              | panic => simp [hd, he, hg] at h
            | err => simp [hd, he] at h
            | panic => simp [hd, he] at h
          | err => simp [hd] at h
          | panic => simp [hd] at h
        · simp [ha] at h

/-! ## one step of the single pass is the reference interpretation -/

theorem getElem?_lt_of_some {α : Type} (a : Array α) (i : Nat) (x : α) (h : a[i]? = some x) : i < a.size := by
  rcases Nat.lt_or_ge i a.size with h' | h'
  · exact h'
  · rw [Array.getElem?_eq_none h'] at h; cases h

theorem getElem!_of_some (a : Array Nat) (i : Nat) (x : Nat) (h : a[i]? = some x) : a[i]! = x := by
  simp [Array.getElem!_eq_getD, Array.getD_eq_getD_getElem?, h]

theorem denote_of_values (nodes : Array Node) (inputs values : Array Nat) (k a x : Nat)
    (hsz : values.size = k)
    (hinv : ∀ i, i < k → denote nodes inputs (i + 1) i = .ok values[i]!)
    (h : values[a]? = some x) : a < k ∧ denote nodes inputs k a = .ok x := by
  have hlt : a < k := hsz ▸ getElem?_lt_of_some _ _ _ h
  refine ⟨hlt, ?_⟩
  have := hinv a hlt
  rw [getElem!_of_some _ _ _ h] at this
  exact denote_mono nodes inputs (a + 1) k a x this (by omega)

theorem evalNode_denote (nodes : Array Node) (inputs values : Array Nat) (k : Nat) (n : Node) (v : Nat)
    (hsz : values.size = k) (hn : nodes[k]? = some n)
    (hinv : ∀ i, i < k → denote nodes inputs (i + 1) i = .ok values[i]!)
    (h : evalNode values inputs n = .ok v) : denote nodes inputs (k + 1) k = .ok v := by
  unfold denote
  simp only [hn]
  cases n with
  | input i => exact h
  | constant c => exact h
  | montConstant c => exact h
  | uno op a =>
    simp only [evalNode] at h ⊢
    cases ha : values[a]? with
    | none => simp [ha] at h
    | some x =>
      obtain ⟨hlt, hd⟩ := denote_of_values nodes inputs values k a x hsz hinv ha
      simp only [ha] at h
      simp only [hlt, if_true, hd]; exact h
  | duo op a b =>
    simp only [evalNode] at h ⊢
    cases ha : values[a]? with
    | none => simp [ha] at h
    | some x =>
      cases hb : values[b]? with
      | none => simp [ha, hb] at h
      | some y =>
        obtain ⟨hlt, hd⟩ := denote_of_values nodes inputs values k a x hsz hinv ha
        obtain ⟨hlt', hd'⟩ := denote_of_values nodes inputs values k b y hsz hinv hb
        simp only [ha, hb] at h
        simp only [hlt, hlt', and_self, if_true, hd, hd']; exact h
  | tres op a b c =>
    simp only [evalNode] at h ⊢
    cases ha : values[a]? with
    | none => simp [ha] at h
    | some x =>
      cases hb : values[b]? with
      | none => simp [ha, hb] at h
      | some y =>
        cases hc : values[c]? with
        | none => simp [ha, hb, hc] at h
        | some z =>
          obtain ⟨hlt, hd⟩ := denote_of_values nodes inputs values k a x hsz hinv ha
          obtain ⟨hlt', hd'⟩ := denote_of_values nodes inputs values k b y hsz hinv hb
          obtain ⟨hlt'', hd''⟩ := denote_of_values nodes inputs values k c z hsz hinv hc
          simp only [ha, hb, hc] at h
          simp only [hlt, hlt', hlt'', and_self, if_true, hd, hd', hd'']; exact h

theorem getElem!_push_lt (a : Array Nat) (v i : Nat) (h : i < a.size) : (a.push v)[i]! = a[i]! := by
  simp [Array.getElem!_eq_getD, Array.getD_eq_getD_getElem?, Array.getElem?_push, Nat.ne_of_lt h]

theorem getElem!_push_eq (a : Array Nat) (v : Nat) : (a.push v)[a.size]! = v := by
  simp

theorem evalAll_inv (nodes : List Node) (inputs : Array Nat) :
    ∀ (rest pre : List Node) (values0 values : Array Nat), pre ++ rest = nodes →
      values0.size = pre.length →
      (∀ i, i < pre.length → denote nodes.toArray inputs (i + 1) i = .ok values0[i]!) →
      evalAll inputs rest values0 = .ok values →
      values.size = nodes.length ∧
      ∀ i, i < nodes.length → denote nodes.toArray inputs (i + 1) i = .ok values[i]! := by
  intro rest
  induction rest with
  | nil =>
    intro pre values0 values hpre hsz hinv h
    simp only [evalAll] at h
    cases h
    simp only [List.append_nil] at hpre
    subst hpre
    exact ⟨hsz, hinv⟩
  | cons n rest ih =>
    intro pre values0 values hpre hsz hinv h
    simp only [evalAll] at h
    cases hv : evalNode values0 inputs n with
    | err => simp [hv] at h
    | panic => simp [hv] at h
    | ok v =>
      simp only [hv] at h
      have hn : nodes.toArray[pre.length]? = some n := by
        subst hpre; simp
      have hstep := evalNode_denote nodes.toArray inputs values0 pre.length n v hsz hn hinv hv
      refine ih (pre ++ [n]) (values0.push v) values (by simpa using hpre) (by simp [hsz]) ?_ h
      intro i hi
      simp only [List.length_append, List.length_singleton] at hi
      rcases Nat.lt_or_ge i pre.length with h' | h'
      · rw [getElem!_push_lt _ _ _ (hsz ▸ h')]; exact hinv i h'
      · have : i = pre.length := by omega
        subst this
        rw [← hsz, getElem!_push_eq]; rw [hsz]; exact hstep

/-! ## a well-formed graph never crashes -/

theorem getElem?_of_lt (a : Array Nat) (i : Nat) (h : i < a.size) : a[i]? = some a[i]! := by
  simp [h]

theorem evalNode_total (inputs values : Array Nat) (n : Node)
    (hin : ∀ i, i < inputs.size → inputs[i]! < P)
    (hv : ∀ i, i < values.size → values[i]! < P)
    (hok : nodeOk inputs.size values.size n = true) :
    ∃ v, evalNode values inputs n = .ok v ∧ v < P := by
  cases n with
  | input k =>
    simp only [nodeOk, decide_eq_true_eq] at hok
    refine ⟨inputs[k]!, ?_, hin k hok⟩
    simp only [evalNode, getElem?_of_lt _ _ hok, hin k hok, if_true]
  | constant c =>
    simp only [nodeOk, decide_eq_true_eq] at hok
    exact ⟨c, by simp only [evalNode, hok, if_true], hok⟩
  | montConstant c =>
    simp only [nodeOk, decide_eq_true_eq] at hok
    exact ⟨c, rfl, hok⟩
  | uno op a =>
    simp only [nodeOk, Bool.and_eq_true, decide_eq_true_eq] at hok
    obtain ⟨ha, rfl⟩ := hok
    have := evalFrUno_sem values[a]! (hv a ha)
    refine ⟨_, ?_, this.2⟩
    simp only [evalNode, getElem?_of_lt _ _ ha]; exact this.1
  | duo op a b =>
    simp only [nodeOk, Bool.and_eq_true, decide_eq_true_eq] at hok
    obtain ⟨⟨ha, hb⟩, hop⟩ := hok
    obtain ⟨v, h1, h2⟩ := evalFr_no_panic op values[a]! values[b]! (hv a ha) (hv b hb) hop
    refine ⟨v, ?_, h2⟩
    simp only [evalNode, getElem?_of_lt _ _ ha, getElem?_of_lt _ _ hb]; exact h1
  | tres op a b c =>
    simp only [nodeOk, Bool.and_eq_true, decide_eq_true_eq] at hok
    obtain ⟨⟨ha, hb⟩, hc⟩ := hok
    refine ⟨if values[a]! = 0 then values[c]! else values[b]!, ?_, ?_⟩
    · simp only [evalNode, getElem?_of_lt _ _ ha, getElem?_of_lt _ _ hb, getElem?_of_lt _ _ hc, evalFrTres]
    · split
      · exact hv c hc
      · exact hv b hb

theorem evalAll_total (inputs : Array Nat) (hin : ∀ i, i < inputs.size → inputs[i]! < P) :
    ∀ (rest : List Node) (values0 : Array Nat), wfAux inputs.size rest values0.size = true →
      (∀ i, i < values0.size → values0[i]! < P) →
      ∃ values, evalAll inputs rest values0 = .ok values ∧ values.size = values0.size + rest.length ∧
        ∀ i, i < values.size → values[i]! < P := by
  intro rest
  induction rest with
  | nil => intro values0 _ hv; exact ⟨values0, rfl, rfl, hv⟩
  | cons n rest ih =>
    intro values0 hwf hv
    simp only [wfAux, Bool.and_eq_true] at hwf
    obtain ⟨v, h1, h2⟩ := evalNode_total inputs values0 n hin hv hwf.1
    have hv' : ∀ i, i < (values0.push v).size → (values0.push v)[i]! < P := by
      intro i hi
      simp only [Array.size_push] at hi
      rcases Nat.lt_or_ge i values0.size with h' | h'
      · rw [getElem!_push_lt _ _ _ h']; exact hv i h'
      · have : i = values0.size := by omega
        subst this
        rw [getElem!_push_eq]; exact h2
    obtain ⟨values, e1, e2, e3⟩ := ih (values0.push v) (by simpa using hwf.2) hv'
    refine ⟨values, ?_, ?_, e3⟩
    · simp only [evalAll, h1]; exact e1
    · simp only [Array.size_push] at e2; simp only [List.length_cons]; omega

/-! ## input placement -/

theorem get!_set (buf : Array Nat) (off v p : Nat) :
    (buf.setIfInBounds off v)[p]! = if p = off ∧ off < buf.size then v else buf[p]! := by
  simp only [Array.getElem!_eq_getD, Array.getD_eq_getD_getElem?, Array.getElem?_setIfInBounds]
  by_cases h : off = p
  · subst h
    by_cases h' : off < buf.size
    · simp [h']
    · simp [h']
  · have : ¬ p = off := fun e => h e.symm
    simp [h, this]

theorem ext_of_get (a b : Array Nat) (hs : a.size = b.size) (h : ∀ p : Nat, a[p]! = b[p]!) : a = b := by
  apply Array.ext hs
  intro i h1 h2
  have := h i
  simpa [Array.getElem!_eq_getD, Array.getD_eq_getD_getElem?, h1, h2] using this

theorem list_get!_cons_succ (v : Nat) (r : List Nat) (i : Nat) : (v :: r)[i + 1]! = r[i]! := by
  simp

theorem writeAt_spec : ∀ (vals : List Nat) (buf : Array Nat) (off : Nat), off + vals.length ≤ buf.size →
    ∃ b, writeAt buf off vals = some b ∧ b.size = buf.size ∧
      ∀ p, b[p]! = if off ≤ p ∧ p < off + vals.length then vals[p - off]! else buf[p]! := by
  intro vals
  induction vals with
  | nil =>
    intro buf off _
    refine ⟨buf, rfl, rfl, ?_⟩
    intro p
    have : ¬ (off ≤ p ∧ p < off + ([] : List Nat).length) := by simp only [List.length_nil]; omega
    simp only [this, if_false]
  | cons v r ih =>
    intro buf off h
    simp only [List.length_cons] at h
    have hlt : off < buf.size := by omega
    obtain ⟨b, e1, e2, e3⟩ := ih (buf.setIfInBounds off v) (off + 1) (by simp only [Array.size_setIfInBounds]; omega)
    refine ⟨b, ?_, by simpa using e2, ?_⟩
    · simp only [writeAt, hlt, if_true]; exact e1
    · intro p
      rw [e3 p, get!_set]
      simp only [List.length_cons]
      by_cases hp : p = off
      · subst hp
        have h1 : ¬ (p + 1 ≤ p ∧ p < p + 1 + r.length) := by omega
        have h2 : p ≤ p ∧ p < p + (r.length + 1) := by omega
        simp only [h1, if_false, h2, if_true, hlt, and_self, Nat.sub_self]
        simp
      · by_cases hr : off + 1 ≤ p ∧ p < off + 1 + r.length
        · have h2 : off ≤ p ∧ p < off + (r.length + 1) := by omega
          simp only [hr, and_self, if_true, h2]
          have : p - off = (p - (off + 1)) + 1 := by omega
          rw [this, list_get!_cons_succ]
        · have h2 : ¬ (off ≤ p ∧ p < off + (r.length + 1)) := by omega
          simp only [hr, if_false, h2, hp, false_and]

theorem lookup_mem {β : Type} : ∀ (info : List (String × β)) (name : String) (v : β),
    info.lookup name = some v → (name, v) ∈ info := by
  intro info
  induction info with
  | nil => intro name v h; simp at h
  | cons e r ih =>
    intro name v h
    obtain ⟨k, w⟩ := e
    simp only [List.lookup] at h
    by_cases hk : name = k
    · subst hk; simp only [beq_self_eq_true] at h; cases h; exact List.mem_cons_self
    · have : (name == k) = false := by simpa using hk
      simp only [this] at h
      exact List.mem_cons_of_mem _ (ih name v h)

theorem pairwise_sym {α : Type} (R : α → α → Prop) (hR : ∀ a b, R a b → R b a) :
    ∀ (l : List α), l.Pairwise R → ∀ a ∈ l, ∀ b ∈ l, a ≠ b → R a b := by
  intro l
  induction l with
  | nil => intro _ a ha; cases ha
  | cons x r ih =>
    intro hp a ha b hb hne
    rw [List.pairwise_cons] at hp
    rcases List.mem_cons.mp ha with rfl | ha'
    · rcases List.mem_cons.mp hb with rfl | hb'
      · exact absurd rfl hne
      · exact hp.1 b hb'
    · rcases List.mem_cons.mp hb with rfl | hb'
      · exact hR _ _ (hp.1 a ha')
      · exact ih hp.2 a ha' b hb' hne

theorem layout_bounds (info : List (String × Nat × Nat)) (size : Nat) (h : LayoutOk info size)
    (name : String) (off len : Nat) (hl : info.lookup name = some (off, len)) :
    1 ≤ off ∧ off + len ≤ size :=
  h.2.1 _ (lookup_mem info name (off, len) hl)

theorem layout_disj (info : List (String × Nat × Nat)) (size : Nat) (h : LayoutOk info size)
    (n1 n2 : String) (o1 l1 o2 l2 : Nat) (hne : n1 ≠ n2)
    (h1 : info.lookup n1 = some (o1, l1)) (h2 : info.lookup n2 = some (o2, l2)) :
    o1 + l1 ≤ o2 ∨ o2 + l2 ≤ o1 := by
  have := pairwise_sym (fun (e f : String × Nat × Nat) => e.2.1 + e.2.2 ≤ f.2.1 ∨ f.2.1 + f.2.2 ≤ e.2.1)
    (fun a b hab => hab.symm) info h.2.2 _ (lookup_mem info n1 _ h1) _ (lookup_mem info n2 _ h2)
    (by intro e; apply hne; exact congrArg Prod.fst e)
  exact this

theorem fit_cons (info : List (String × Nat × Nat)) (name : String) (vals : List Nat) (rest : List (String × List Nat))
    (h : InputsFit info ((name, vals) :: rest)) :
    InputsFit info rest ∧ (∃ off, info.lookup name = some (off, vals.length)) ∧ ∀ e' ∈ rest, e'.1 ≠ name := by
  obtain ⟨hn, hf⟩ := h
  simp only [List.map_cons, List.nodup_cons] at hn
  refine ⟨⟨hn.2, fun e' he' => hf e' (List.mem_cons_of_mem _ he')⟩, ?_, ?_⟩
  · obtain ⟨off, len, h1, h2⟩ := hf (name, vals) List.mem_cons_self
    exact ⟨off, h2 ▸ h1⟩
  · intro e' he' heq
    apply hn.1
    rw [← heq]
    exact List.mem_map_of_mem he'

theorem fit_perm (info : List (String × Nat × Nat)) (l1 l2 : List (String × List Nat)) (hp : l1.Perm l2)
    (h : InputsFit info l2) : InputsFit info l1 :=
  ⟨(hp.map (·.1)).nodup_iff.mpr h.1, fun e he => h.2 e (hp.mem_iff.mp he)⟩

theorem populate_cons (info : List (String × Nat × Nat)) (name : String) (vals : List Nat)
    (rest : List (String × List Nat)) (buf : Array Nat) (off : Nat)
    (hlay : LayoutOk info buf.size) (hl : info.lookup name = some (off, vals.length)) :
    ∃ b, populateInputs info ((name, vals) :: rest) buf = populateInputs info rest b ∧ b.size = buf.size ∧
      ∀ p, b[p]! = if off ≤ p ∧ p < off + vals.length then vals[p - off]! else buf[p]! := by
  obtain ⟨b, e1, e2, e3⟩ := writeAt_spec vals buf off (layout_bounds info _ hlay name off _ hl).2
  refine ⟨b, ?_, e2, e3⟩
  simp only [populateInputs, hl, ne_eq, not_true_eq_false, if_false, e1]

theorem populate_ok (info : List (String × Nat × Nat)) :
    ∀ (ins : List (String × List Nat)) (buf : Array Nat), LayoutOk info buf.size → InputsFit info ins →
      ∃ b, populateInputs info ins buf = .ok b ∧ b.size = buf.size := by
  intro ins
  induction ins with
  | nil => intro buf _ _; exact ⟨buf, rfl, rfl⟩
  | cons e rest ih =>
    intro buf hlay hfit
    obtain ⟨name, vals⟩ := e
    obtain ⟨hfit', ⟨off, hl⟩, _⟩ := fit_cons info _ _ _ hfit
    obtain ⟨b, e1, e2, _⟩ := populate_cons info name vals rest buf off hlay hl
    obtain ⟨b', f1, f2⟩ := ih b (e2 ▸ hlay) hfit'
    exact ⟨b', e1 ▸ f1, f2.trans e2⟩

theorem populate_perm_aux (info : List (String × Nat × Nat)) :
    ∀ (ins' ins : List (String × List Nat)), ins'.Perm ins → ∀ (buf : Array Nat),
      LayoutOk info buf.size → InputsFit info ins →
      populateInputs info ins' buf = populateInputs info ins buf := by
  intro ins' ins hp
  induction hp with
  | nil => intro buf _ _; rfl
  | cons x _ ih =>
    intro buf hlay hfit
    obtain ⟨name, vals⟩ := x
    obtain ⟨hfit', ⟨off, hl⟩, _⟩ := fit_cons info _ _ _ hfit
    obtain ⟨b, e1, e2, _⟩ := populate_cons info name vals _ buf off hlay hl
    obtain ⟨b', e1', e2', e3'⟩ := populate_cons info name vals ‹_› buf off hlay hl
    rw [e1, e1']
    have : b = b' := ext_of_get _ _ (e2.trans e2'.symm) (fun p => by rw [‹∀ p, b[p]! = _› p, e3' p])
    subst this
    exact ih b (e2 ▸ hlay) hfit'
  | swap x y l =>
    intro buf hlay hfit
    obtain ⟨nx, vx⟩ := x
    obtain ⟨ny, vy⟩ := y
    obtain ⟨hfit1, ⟨ox, hlx⟩, hne⟩ := fit_cons info _ _ _ hfit
    obtain ⟨hfit2, ⟨oy, hly⟩, _⟩ := fit_cons info _ _ _ hfit1
    have hxy : ny ≠ nx := hne (ny, vy) List.mem_cons_self
    have hdis := layout_disj info _ hlay ny nx oy vy.length ox vx.length hxy hly hlx
    -- left: y then x
    obtain ⟨b1, e1, s1, g1⟩ := populate_cons info ny vy ((nx, vx) :: l) buf oy hlay hly
    obtain ⟨b2, e2, s2, g2⟩ := populate_cons info nx vx l b1 ox (s1 ▸ hlay) hlx
    -- right: x then y
    obtain ⟨c1, f1, t1, k1⟩ := populate_cons info nx vx ((ny, vy) :: l) buf ox hlay hlx
    obtain ⟨c2, f2, t2, k2⟩ := populate_cons info ny vy l c1 oy (t1 ▸ hlay) hly
    rw [e1, e2, f1, f2]
    have : b2 = c2 := by
      apply ext_of_get _ _ (by omega)
      intro p
      rw [g2 p, g1 p, k2 p, k1 p]
      by_cases hx : ox ≤ p ∧ p < ox + vx.length
      · have hy : ¬ (oy ≤ p ∧ p < oy + vy.length) := by omega
        simp only [hx, hy, and_self, if_true, if_false]
      · simp only [hx, if_false]
    rw [this]
  | trans h1 _ ih1 ih2 =>
    intro buf hlay hfit
    rw [ih1 buf hlay (fit_perm info _ _ ‹_› hfit), ih2 buf hlay hfit]

theorem populate_frame (info : List (String × Nat × Nat)) :
    ∀ (ins : List (String × List Nat)) (buf b : Array Nat), LayoutOk info buf.size → InputsFit info ins →
      populateInputs info ins buf = .ok b →
      ∀ p, (∀ e ∈ ins, ∀ off len, info.lookup e.1 = some (off, len) → p < off ∨ off + len ≤ p) →
        b[p]! = buf[p]! := by
  intro ins
  induction ins with
  | nil => intro buf b _ _ h p _; simp only [populateInputs] at h; cases h; rfl
  | cons e rest ih =>
    intro buf b hlay hfit h p hp
    obtain ⟨name, vals⟩ := e
    obtain ⟨hfit', ⟨off, hl⟩, _⟩ := fit_cons info _ _ _ hfit
    obtain ⟨b1, e1, e2, e3⟩ := populate_cons info name vals rest buf off hlay hl
    rw [e1] at h
    rw [ih b1 b (e2 ▸ hlay) hfit' h p (fun e he => hp e (List.mem_cons_of_mem _ he)), e3 p]
    have := hp (name, vals) List.mem_cons_self off vals.length hl
    have hx : ¬ (off ≤ p ∧ p < off + vals.length) := by omega
    simp only [hx, if_false]

theorem populate_place (info : List (String × Nat × Nat)) :
    ∀ (ins : List (String × List Nat)) (buf b : Array Nat), LayoutOk info buf.size → InputsFit info ins →
      populateInputs info ins buf = .ok b →
      ∀ e ∈ ins, ∀ off len, info.lookup e.1 = some (off, len) → ∀ j, j < len → b[off + j]! = e.2[j]! := by
  intro ins
  induction ins with
  | nil => intro buf b _ _ _ e he; cases he
  | cons e0 rest ih =>
    intro buf b hlay hfit h e he off len hl j hj
    obtain ⟨name, vals⟩ := e0
    obtain ⟨hfit', ⟨off0, hl0⟩, hne⟩ := fit_cons info _ _ _ hfit
    obtain ⟨b1, e1, e2, e3⟩ := populate_cons info name vals rest buf off0 hlay hl0
    rw [e1] at h
    rcases List.mem_cons.mp he with rfl | he'
    · simp only at hl
      rw [hl0] at hl
      cases hl
      rw [populate_frame info rest b1 b (e2 ▸ hlay) hfit' h (off + j) ?_, e3]
      · have hx : off ≤ off + j ∧ off + j < off + vals.length := by omega
        simp only [hx, and_self, if_true, Nat.add_sub_cancel_left]
      · intro e' he' off' len' hl'
        have := layout_disj info _ hlay e'.1 name off' len' off vals.length (hne e' he') hl' hl0
        omega
    · exact ih b1 b (e2 ▸ hlay) hfit' h e he' off len hl j hj

/-! ## container framing -/

theorem toUInt8_toNat_lt (n : Nat) (h : n < 256) : n.toUInt8.toNat = n := by
  have := Zk.toUInt8_toNat_mod n
  rwa [Nat.mod_eq_of_lt h] at this

theorem varint_spec : ∀ (f n : Nat) (rest : List UInt8), n < 128 ^ (f + 1) →
    (varint (f + 1) n).length ≤ f + 1 ∧ 0 < (varint (f + 1) n).length ∧
    decVarint (f + 1) (varint (f + 1) n ++ rest) = some (n, (varint (f + 1) n).length) := by
  intro f
  induction f with
  | zero =>
    intro n rest h
    have h' : n < 128 := by simpa using h
    simp only [varint, h', if_true, List.length_singleton, List.singleton_append, decVarint,
      toUInt8_toNat_lt n (by omega)]
    simp
  | succ f ih =>
    intro n rest h
    by_cases h' : n < 128
    · simp only [varint, h', if_true, List.length_singleton, List.singleton_append, decVarint,
        toUInt8_toNat_lt n (by omega)]
      simp
    · have hdiv : n / 128 < 128 ^ (f + 1) := by
        rw [Nat.div_lt_iff_lt_mul (by omega)]
        rw [Nat.pow_succ] at h; exact h
      obtain ⟨i1, i2, i3⟩ := ih (n / 128) rest hdiv
      have hb : (n % 128 + 128).toUInt8.toNat = n % 128 + 128 := toUInt8_toNat_lt _ (by omega)
      have hnb : ¬ (n % 128 + 128 < 128) := by omega
      rw [show varint (f + 1 + 1) n = (n % 128 + 128).toUInt8 :: varint (f + 1) (n / 128) by
        rw [varint]; simp only [h', if_false]]
      refine ⟨by simp only [List.length_cons]; omega, by simp, ?_⟩
      simp only [List.cons_append, decVarint, hb, hnb, if_false, i3, List.length_cons]
      congr 2
      omega

/-! ## the push-back reader -/

/-- the bytes still to be delivered, in order -/
def stream (r : WBR) : List UInt8 := r.buffer.reverse ++ r.reader

theorem read_spec (r : WBR) (n : Nat) :
    (r.read n).1 = (stream r).take n ∧ stream (r.read n).2 = (stream r).drop n := by
  obtain ⟨reader, buffer⟩ := r
  simp only [WBR.read, stream]
  rcases Nat.le_total n buffer.length with h | h
  · have hk : min n buffer.length = n := Nat.min_eq_left h
    simp only [hk, Nat.sub_self, List.take_zero, List.append_nil, List.drop_zero,
      List.take_append, List.drop_append, List.length_reverse,
      show n - buffer.length = 0 by omega, List.take_reverse, List.drop_reverse, and_self]
  · have hk : min n buffer.length = buffer.length := Nat.min_eq_right h
    simp only [hk, Nat.sub_self, List.drop_zero, List.take_zero, List.reverse_nil, List.nil_append,
      List.take_append, List.drop_append, List.length_reverse]
    have h1 : buffer.reverse.length ≤ n := by simpa using h
    rw [List.take_of_length_le h1, List.drop_of_length_le h1]
    simp

theorem write_spec (r : WBR) (bs : List UInt8) : stream (r.write bs) = bs ++ stream r := by
  simp [WBR.write, stream]

theorem take_drop_split (L : List UInt8) (k : Nat) (hk : k ≤ 10) :
    (L.take 10).drop k ++ L.drop 10 = L.drop k := by
  rw [List.drop_take]
  have : L.drop 10 = (L.drop k).drop (10 - k) := by rw [List.drop_drop]; congr 1; omega
  rw [this, List.take_append_drop]

theorem encVarint_spec (n : Nat) (rest : List UInt8) (h : n < 2 ^ 64) :
    (encVarint n).length ≤ 10 ∧ 0 < (encVarint n).length ∧
    decVarint 10 (encVarint n ++ rest) = some (n, (encVarint n).length) :=
  varint_spec 9 n rest (Nat.lt_of_lt_of_le h (by decide))

theorem readMessageLength_spec (r : WBR) (m rest : List UInt8) (hm : m.length < 2 ^ 64)
    (hs : stream r = encVarint m.length ++ (m ++ rest)) :
    ∃ r', readMessageLength r = some (m.length, r') ∧ stream r' = m ++ rest := by
  obtain ⟨h1, h2⟩ := read_spec r 10
  rcases hrd : r.read 10 with ⟨buf, r1⟩
  rw [hrd] at h1 h2
  simp only at h1 h2
  rw [hs] at h1 h2
  obtain ⟨e1, e2, _⟩ := encVarint_spec m.length [] hm
  have hbuf : buf = encVarint m.length ++ (m ++ rest).take (10 - (encVarint m.length).length) := by
    rw [h1, List.take_append, List.take_of_length_le e1]
  have hne : buf.isEmpty = false := by
    cases hb : buf with
    | nil => rw [hb] at hbuf; have := congrArg List.length hbuf; simp at this; omega
    | cons _ _ => rfl
  have hdec : decVarint 10 (buf ++ List.replicate (10 - buf.length) 0) =
      some (m.length, (encVarint m.length).length) := by
    rw [hbuf, List.append_assoc]
    exact (encVarint_spec m.length _ hm).2.2
  have hle : (encVarint m.length).length ≤ buf.length := by
    rw [hbuf]; simp
  refine ⟨_, by simp only [readMessageLength, hrd, hne, hdec]; rfl, ?_⟩
  have key : buf.drop (encVarint m.length).length ++ stream r1 = m ++ rest := by
    rw [h2, h1, take_drop_split _ _ e1, List.drop_left]
  split
  · rw [write_spec]; exact key
  · have : buf.drop (encVarint m.length).length = [] := List.drop_of_length_le (by omega)
    rw [this] at key; exact key

theorem readMessage_spec (r : WBR) (m rest : List UInt8) (hm : m.length < 2 ^ 64)
    (hs : stream r = encVarint m.length ++ (m ++ rest)) :
    ∃ r', readMessage r = some (m, r') ∧ stream r' = rest := by
  obtain ⟨r1, h1, h2⟩ := readMessageLength_spec r m rest hm hs
  obtain ⟨g1, g2⟩ := read_spec r1 m.length
  rw [h2] at g1 g2
  rw [List.take_left] at g1
  rw [List.drop_left] at g2
  refine ⟨(r1.read m.length).2, ?_, g2⟩
  rcases hrd : r1.read m.length with ⟨body, r2⟩
  rw [hrd] at g1
  simp only at g1
  subst g1
  simp only [readMessage, h1, hrd, ne_eq, not_true_eq_false, if_false]

theorem readMessages_spec : ∀ (msgs : List (List UInt8)) (r : WBR) (rest : List UInt8),
    (∀ m ∈ msgs, m.length < 2 ^ 64) →
    stream r = (msgs.map (fun m => encVarint m.length ++ m)).flatten ++ rest →
    ∃ r', readMessages msgs.length r = some (msgs, r') ∧ stream r' = rest := by
  intro msgs
  induction msgs with
  | nil => intro r rest _ hs; exact ⟨r, rfl, by simpa using hs⟩
  | cons m ms ih =>
    intro r rest hm hs
    simp only [List.map_cons, List.flatten_cons, List.append_assoc] at hs
    obtain ⟨r1, h1, h2⟩ := readMessage_spec r m _ (hm m List.mem_cons_self) hs
    obtain ⟨r2, k1, k2⟩ := ih r1 rest (fun m' hm' => hm m' (List.mem_cons_of_mem _ hm')) h2
    exact ⟨r2, by simp only [List.length_cons, readMessages, h1, k1], k2⟩

theorem unframe_frame (msgs : List (List UInt8)) (md : List UInt8) (hn : msgs.length < 2 ^ 64)
    (hm : ∀ m ∈ msgs, m.length < 2 ^ 64) (hmd : md.length < 2 ^ 64) :
    unframe (frame msgs md) = some (msgs, md) := by
  generalize htl : natLE 8 (MAGIC.length + 8 + ((msgs.map (fun m => encVarint m.length ++ m)).flatten).length) = tl
  have hfr : frame msgs md = MAGIC ++ (natLE 8 msgs.length ++
      ((msgs.map (fun m => encVarint m.length ++ m)).flatten ++ (encVarint md.length ++ (md ++ tl)))) := by
    simp only [frame, htl, List.append_assoc]
  have hlen : ¬ (frame msgs md).length < MAGIC.length + 8 := by
    rw [hfr]; simp only [List.length_append, Zk.natLE_length]; omega
  have htake : (frame msgs md).take MAGIC.length = MAGIC := by rw [hfr, List.take_left]
  have hcnt : leNat (((frame msgs md).drop MAGIC.length).take 8) = msgs.length := by
    rw [hfr, List.drop_left]
    have : (natLE 8 msgs.length).length = 8 := Zk.natLE_length _ _
    rw [List.take_left' this]
    exact Zk.leNat_natLE 8 _ (by rw [Zk.two64]; exact hn)
  have hdrop : (frame msgs md).drop (MAGIC.length + 8) =
      (msgs.map (fun m => encVarint m.length ++ m)).flatten ++ (encVarint md.length ++ (md ++ tl)) := by
    rw [hfr, ← List.drop_drop, List.drop_left]
    have : (natLE 8 msgs.length).length = 8 := Zk.natLE_length _ _
    rw [List.drop_left' this]
  obtain ⟨r1, h1, h2⟩ := readMessages_spec msgs ⟨(frame msgs md).drop (MAGIC.length + 8), []⟩ _ hm
    (by simp only [stream, List.reverse_nil, List.nil_append]; exact hdrop)
  obtain ⟨r2, k1, _⟩ := readMessage_spec r1 md tl hmd h2
  simp only [unframe, hlen, if_false, htake, ne_eq, not_true_eq_false, hcnt, h1, k1]

theorem leNat_minLE : ∀ (f v : Nat), v < 256 ^ f → leNat (minLE f v) = v := by
  intro f
  induction f with
  | zero => intro v h; simp only [Nat.pow_zero] at h; simp [minLE, leNat]; omega
  | succ f ih =>
    intro v h
    by_cases h' : v < 256
    · simp only [minLE, h', if_true, leNat, toUInt8_toNat_lt v h']; omega
    · have hdiv : v / 256 < 256 ^ f := by
        rw [Nat.div_lt_iff_lt_mul (by omega)]
        rw [Nat.pow_succ] at h; exact h
      simp only [minLE, h', if_false, leNat, Zk.toUInt8_toNat_mod, ih _ hdiv]
      omega

theorem opOfCode_opCode (op : Op) : opOfCode (opCode op) = some op := by
  cases op <;> rfl

/-! ## a node list given as a list of chunks (the bundled graph is generated that way) -/

def wfChunks (k : Nat) : List (List Node) → Nat → Bool
  | [], _ => true
  | c :: r, i => wfAux k c i && wfChunks k r (i + c.length)

def lenChunks : List (List Node) → Nat
  | [] => 0
  | c :: r => c.length + lenChunks r

def getChunks? : List (List Node) → Nat → Option Node
  | [], _ => none
  | c :: r, i => if i < c.length then c[i]? else getChunks? r (i - c.length)

def isAdd : Option Node → Bool
  | some (.duo .Add _ _) => true
  | _ => false

theorem isAdd_spec (o : Option Node) (h : isAdd o = true) : ∃ a b, o = some (.duo .Add a b) := by
  match o, h with
  | some (.duo .Add a b), _ => exact ⟨a, b, rfl⟩

theorem wfAux_append (k : Nat) : ∀ (a b : List Node) (i : Nat),
    wfAux k (a ++ b) i = (wfAux k a i && wfAux k b (i + a.length)) := by
  intro a
  induction a with
  | nil => intro b i; simp [wfAux]
  | cons n r ih =>
    intro b i
    simp only [List.cons_append, wfAux, ih, List.length_cons, Bool.and_assoc]
    congr 3; omega

theorem wfAux_flatten (k : Nat) : ∀ (cs : List (List Node)) (i : Nat),
    wfAux k cs.flatten i = wfChunks k cs i := by
  intro cs
  induction cs with
  | nil => intro i; rfl
  | cons c r ih => intro i; simp only [List.flatten_cons, wfAux_append, ih, wfChunks]

theorem length_flatten_chunks : ∀ (cs : List (List Node)), cs.flatten.length = lenChunks cs := by
  intro cs
  induction cs with
  | nil => rfl
  | cons c r ih => simp only [List.flatten_cons, List.length_append, ih, lenChunks]

theorem getElem?_flatten_chunks : ∀ (cs : List (List Node)) (i : Nat), cs.flatten[i]? = getChunks? cs i := by
  intro cs
  induction cs with
  | nil => intro i; rfl
  | cons c r ih =>
    intro i
    simp only [List.flatten_cons, getChunks?, List.getElem?_append, ih]

theorem foldl_append_flatten {α : Type} : ∀ (cs : List (List α)) (acc : List α),
    cs.foldl (fun a c => a ++ c) acc = acc ++ cs.flatten := by
  intro cs
  induction cs with
  | nil => intro acc; simp
  | cons c r ih => intro acc; simp only [List.foldl_cons, ih, List.flatten_cons, List.append_assoc]

end Zk.Graph
