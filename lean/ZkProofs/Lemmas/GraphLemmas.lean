import ZkProofs.Lemmas.GraphDefs
import ZkProofs.Lemmas.OpsProofs
import ZkProofs.Lemmas.BytesLemmas
/-!
# Helper lemmas for `GraphProofs.lean` (C20, C05)
-/
namespace Zk.Graph
open Zk.Graph.Storage

/-! ## the reference interpretation is monotone in its fuel -/

theorem denote_mono (nodes : Array Node) (inputs : Array Nat) :
    ∀ (f f' i v : Nat), denote nodes inputs f i = .ok v → f ≤ f' → denote nodes inputs f' i = .ok v := by
  intro f
  induction f with
  | zero => intro f' i v h; simp [denote] at h
  | succ f ih =>
    intro f' i v h hle
    obtain ⟨f'', rfl⟩ : ∃ f'', f' = f'' + 1 := ⟨f' - 1, by omega⟩
    have hle' : f ≤ f'' := by omega
    unfold denote at h ⊢
    cases hn : nodes[i]? with
    | none => simp [hn] at h
    | some n =>
      simp only [hn] at h ⊢
      cases n with
      | input k => exact h
      | constant c => exact h
      | montConstant c => exact h
      | uno op a =>
        simp only at h ⊢
        by_cases ha : a < i
        · simp only [ha, if_true] at h ⊢
          cases hd : denote nodes inputs f a with
          | ok x => rw [hd] at h; rw [ih f'' a x hd hle']; exact h
          | err => simp [hd] at h
          | panic => simp [hd] at h
        · simp [ha] at h
      | duo op a b =>
        simp only at h ⊢
        by_cases ha : a < i ∧ b < i
        · simp only [ha, and_self, if_true] at h ⊢
          cases hd : denote nodes inputs f a with
          | ok x =>
            cases he : denote nodes inputs f b with
            | ok y => rw [hd, he] at h; rw [ih f'' a x hd hle', ih f'' b y he hle']; exact h
            | err => simp [hd, he] at h
            | panic => simp [hd, he] at h
          | err => simp [hd] at h
          | panic => simp [hd] at h
        · simp [ha] at h
      | tres op a b c =>
        simp only at h ⊢
        by_cases ha : a < i ∧ b < i ∧ c < i
        · simp only [ha, and_self, if_true] at h ⊢
          cases hd : denote nodes inputs f a with
          | ok x =>
            cases he : denote nodes inputs f b with
            | ok y =>
              cases hg : denote nodes inputs f c with
              | ok z =>
                rw [hd, he, hg] at h
                rw [ih f'' a x hd hle', ih f'' b y he hle', ih f'' c z hg hle']; exact h
              | err => simp [hd, he, hg] at h
              | panic => simp [hd, he, hg] at h
            | err => simp [hd, he] at h
            | panic => simp [hd, he] at h
          | err => simp [hd] at h
          | panic => simp [hd] at h
        · simp [ha] at h

end Zk.Graph
