import ZkProofs.Lemmas.JsonDefs
import ZkProofs.Lemmas.BytesLemmas
import Std.Data.String.ToNat
/-!
# Proofs of the statements about the JSON witness codec
-/
namespace Zk
open Zk.Codec Zk.Protocol Zk.Json Zk.Proto

namespace Json

theorem asBytes_bytesVal (bs : List UInt8) : asBytes (bytesVal bs) = some bs := by
  have h1 : (bs.map (·.toNat)).all (· < 256) = true := by
    simp only [List.all_map, List.all_eq_true]
    intro b _
    simpa using b.toNat_lt
  have h2 : (bs.map (·.toNat)).map (·.toUInt8) = bs := by
    induction bs with
    | nil => rfl
    | cons b r ih =>
      simp only [List.map_cons, List.map_map] at ih ⊢
      rw [ih (by simp only [List.all_map, List.all_eq_true]; intro b _; simpa using b.toNat_lt)]
      congr 1
      exact UInt8.ofNat_toNat
  simp only [asBytes, bytesVal, h1, if_true, h2]

theorem frToBytesLe_length (v : Nat) : (frToBytesLe v).length = 32 := by
  simp [frToBytesLe, FR_BYTES, natLE_length]

theorem arkFr_append (v : Nat) (h : v < P) (rest : List UInt8) :
    arkFr (frToBytesLe v ++ rest) = some v := by
  have hl := frToBytesLe_length v
  have ht : (frToBytesLe v ++ rest).take 32 = frToBytesLe v := List.take_left' hl
  have hv : leNat (frToBytesLe v) = v := by
    unfold frToBytesLe FR_BYTES
    exact leNat_natLE _ _ (Nat.lt_trans h P_lt)
  unfold arkFr
  rw [if_neg (by simp [hl])]
  simp only [ht, hv, h, if_true]

theorem arkFr_frToBytesLe (v : Nat) (h : v < P) : arkFr (frToBytesLe v) = some v := by
  simpa using arkFr_append v h []

theorem arkFrsLoop_flatten (l : List Nat) (hl : ∀ e ∈ l, e < P) (acc : List Nat) :
    arkFrsLoop l.length (l.map frToBytesLe).flatten acc = some (acc.reverse ++ l) := by
  induction l generalizing acc with
  | nil => simp [arkFrsLoop]
  | cons e r ih =>
    simp only [List.length_cons, List.map_cons, List.flatten_cons, arkFrsLoop]
    rw [arkFr_append e (hl e (by simp))]
    simp only
    rw [List.drop_left' (frToBytesLe_length e), ih (fun x hx => hl x (by simp [hx]))]
    simp

theorem arkFrs_vec (l : List Nat) (hl : ∀ e ∈ l, e < P) (hn : l.length < 2 ^ 64) :
    arkFrs (vecFrToBytesLe l) = some l := by
  have h8 : (normalizeUsize l.length).length = 8 := natLE_length _ _
  unfold arkFrs vecFrToBytesLe
  rw [if_neg (by simp [h8]), List.take_left' h8, List.drop_left' h8]
  have : leNat (normalizeUsize l.length) = l.length :=
    leNat_natLE _ _ (by rw [two64]; exact hn)
  rw [this, arkFrsLoop_flatten l hl]
  simp

theorem arkFr_lt (bs : List UInt8) (v : Nat) (h : arkFr bs = some v) : v < P := by
  unfold arkFr at h
  split at h
  · simp at h
  · simp only at h
    split at h
    · simp at h; omega
    · simp at h

theorem arkFrsLoop_lt (n : Nat) (bs : List UInt8) (acc l : List Nat)
    (h : arkFrsLoop n bs acc = some l) (ha : ∀ e ∈ acc, e < P) : ∀ e ∈ l, e < P := by
  induction n generalizing bs acc with
  | zero =>
    simp only [arkFrsLoop, Option.some.injEq] at h
    subst h
    simpa using ha
  | succ n ih =>
    simp only [arkFrsLoop] at h
    split at h
    · simp at h
    · rename_i v hv
      refine ih _ _ h ?_
      intro e he
      rcases List.mem_cons.mp he with rfl | he
      · exact arkFr_lt _ _ hv
      · exact ha e he

theorem arkFrs_lt (bs : List UInt8) (l : List Nat) (h : arkFrs bs = some l) : ∀ e ∈ l, e < P := by
  unfold arkFrs at h
  split at h
  · simp at h
  · exact arkFrsLoop_lt _ _ _ _ h (by simp)

theorem frField_lt (o : JObj) (k : String) (v : Nat) (h : frField o k = some v) : v < P := by
  unfold frField at h
  rcases Option.bind_eq_some_iff.mp h with ⟨bs, _, hb⟩
  exact arkFr_lt _ _ hb

theorem rangeCheck_ok (a b : Nat) : messageIdRangeCheck a b = .ok () ↔ a < b := by
  unfold messageIdRangeCheck
  split <;> simp <;> omega

theorem rangeCheck_err (a b : Nat) : messageIdRangeCheck a b = .err ↔ b ≤ a := by
  unfold messageIdRangeCheck
  split <;> simp <;> omega

end Json

open Json

theorem Json.encode_err : JsonEncodeErrStmt := by
  intro w
  unfold witnessToJson witnessToBigintJson messageIdRangeCheck
  by_cases h : w.messageId ≥ w.userMessageLimit
  · simp [h]
  · simp [h]

theorem asBytes_append (l extra : List Nat) (bs : List UInt8) (h : asBytes (.nums l) = some bs)
    (he : ∀ b ∈ extra, b < 256) :
    asBytes (.nums (l ++ extra)) = some (bs ++ extra.map (·.toUInt8)) := by
  simp only [asBytes] at h ⊢
  split at h
  · rename_i hall
    have : (l ++ extra).all (· < 256) = true := by
      simp only [List.all_append, hall, Bool.true_and, List.all_eq_true]
      intro b hb; simpa using he b hb
    simp only [this, if_true, List.map_append]
    simp only [Option.some.injEq] at h
    rw [h]
  · simp at h

theorem arkFr_append_any (bs extra : List UInt8) (v : Nat) (h : arkFr bs = some v) :
    arkFr (bs ++ extra) = some v := by
  unfold arkFr at h ⊢
  split at h
  · simp at h
  · rename_i hlen
    rw [if_neg (by simp; omega), List.take_append_of_le_length (by omega)]
    exact h

theorem lookup_cons_ne (k k' : String) (v : JVal) (o : JObj) (h : (k == k') = false) :
    lookup ((k, v) :: o) k' = lookup o k' := by
  simp [lookup, List.find?, h]

theorem lookup_cons_eq (k : String) (v : JVal) (o : JObj) :
    lookup ((k, v) :: o) k = some v := by
  simp [lookup, List.find?]

theorem Json.decoder_ignores_trailing : JsonDecoderIgnoresTrailingStmt := by
  intro o w extra h he l hl
  have e1 : frField (("x", .nums (l ++ extra)) :: o) "identity_secret" = frField o "identity_secret" := by
    unfold frField; rw [lookup_cons_ne _ _ _ _ (by decide)]
  have e2 : frField (("x", .nums (l ++ extra)) :: o) "user_message_limit" = frField o "user_message_limit" := by
    unfold frField; rw [lookup_cons_ne _ _ _ _ (by decide)]
  have e3 : frField (("x", .nums (l ++ extra)) :: o) "message_id" = frField o "message_id" := by
    unfold frField; rw [lookup_cons_ne _ _ _ _ (by decide)]
  have e4 : frField (("x", .nums (l ++ extra)) :: o) "external_nullifier" = frField o "external_nullifier" := by
    unfold frField; rw [lookup_cons_ne _ _ _ _ (by decide)]
  have e5 : lookup (("x", .nums (l ++ extra)) :: o) "path_elements" = lookup o "path_elements" :=
    lookup_cons_ne _ _ _ _ (by decide)
  have e6 : lookup (("x", .nums (l ++ extra)) :: o) "identity_path_index" = lookup o "identity_path_index" :=
    lookup_cons_ne _ _ _ _ (by decide)
  have e7 : frField (("x", .nums (l ++ extra)) :: o) "x" = frField o "x" := by
    have hx : (frField o "x").isSome := by
      unfold witnessFromJson decodeFields at h
      split at h
      · simp at h
      · rename_i w' hw
        split at hw
        · rename_i hx _; simp [hx]
        · simp at hw
    unfold frField at hx ⊢
    rw [lookup_cons_eq, hl] at *
    simp only [Option.bind_some] at hx ⊢
    cases hb : asBytes (.nums l) with
    | none => simp [hb] at hx
    | some bs =>
      rw [asBytes_append l extra bs hb he]
      simp only [Option.bind_some]
      cases hv : arkFr bs with
      | none => simp [hb, hv] at hx
      | some v => rw [arkFr_append_any _ _ _ hv]
  unfold witnessFromJson decodeFields at h ⊢
  rw [e1, e2, e3, e4, e5, e6, e7]
  exact h

/-- the object the encoder builds -/
def Json.encObj (w : Witness) : JObj :=
  [("external_nullifier", bytesVal (frToBytesLe w.externalNullifier)),
   ("identity_path_index", bytesVal w.identityPathIndex),
   ("identity_secret", bytesVal (frToBytesLe w.identitySecret)),
   ("message_id", bytesVal (frToBytesLe w.messageId)),
   ("path_elements", bytesVal (vecFrToBytesLe w.pathElements)),
   ("user_message_limit", bytesVal (frToBytesLe w.userMessageLimit)),
   ("x", bytesVal (frToBytesLe w.x))]

theorem Json.toJson_ok (w : Witness) (o : JObj) (h : witnessToJson w = .ok o) :
    o = Json.encObj w ∧ w.messageId < w.userMessageLimit := by
  unfold witnessToJson messageIdRangeCheck at h
  by_cases hc : w.messageId ≥ w.userMessageLimit
  · simp [hc] at h
  · simp only [hc, if_false, Outcome.ok.injEq] at h
    exact ⟨h.symm, by omega⟩

theorem Json.toJson_of_lt (w : Witness) (h : w.messageId < w.userMessageLimit) :
    witnessToJson w = .ok (Json.encObj w) := by
  unfold witnessToJson messageIdRangeCheck
  rw [if_neg (by omega)]
  rfl

theorem Json.lk1 (w : Witness) : (lookup (encObj w) "external_nullifier").bind asBytes =
    some (frToBytesLe w.externalNullifier) := by
  simp [encObj, lookup, asBytes_bytesVal]
theorem Json.lk2 (w : Witness) : (lookup (encObj w) "identity_path_index").bind asBytes =
    some w.identityPathIndex := by
  simp [encObj, lookup, List.find?, asBytes_bytesVal]
theorem Json.lk3 (w : Witness) : (lookup (encObj w) "identity_secret").bind asBytes =
    some (frToBytesLe w.identitySecret) := by
  simp [encObj, lookup, List.find?, asBytes_bytesVal]
theorem Json.lk4 (w : Witness) : (lookup (encObj w) "message_id").bind asBytes =
    some (frToBytesLe w.messageId) := by
  simp [encObj, lookup, List.find?, asBytes_bytesVal]
theorem Json.lk5 (w : Witness) : (lookup (encObj w) "path_elements").bind asBytes =
    some (vecFrToBytesLe w.pathElements) := by
  simp [encObj, lookup, List.find?, asBytes_bytesVal]
theorem Json.lk6 (w : Witness) : (lookup (encObj w) "user_message_limit").bind asBytes =
    some (frToBytesLe w.userMessageLimit) := by
  simp [encObj, lookup, List.find?, asBytes_bytesVal]
theorem Json.lk7 (w : Witness) : (lookup (encObj w) "x").bind asBytes =
    some (frToBytesLe w.x) := by
  simp [encObj, lookup, List.find?, asBytes_bytesVal]

theorem Json.roundtrip : JsonRoundtripStmt := by
  intro w hc hlt
  obtain ⟨h1, h2, h3, h4, h5, h6, h7, h8⟩ := hc
  refine ⟨Json.encObj w, Json.toJson_of_lt w hlt, ?_⟩
  have hd : decodeFields (Json.encObj w) = some w := by
    unfold decodeFields frField
    rw [Json.lk1, Json.lk2, Json.lk3, Json.lk4, Json.lk5, Json.lk6, Json.lk7]
    simp only [Option.bind_some, arkFr_frToBytesLe _ h1, arkFr_frToBytesLe _ h2,
      arkFr_frToBytesLe _ h3, arkFr_frToBytesLe _ h4, arkFr_frToBytesLe _ h5,
      arkFrs_vec _ h6 h7]
  unfold witnessFromJson
  rw [hd]
  simp only
  rw [(rangeCheck_ok _ _).mpr hlt]

theorem Json.encode_injective : JsonEncodeInjectiveStmt := by
  intro w w' o hc hc' h h'
  obtain ⟨o1, ho1, hd1⟩ := Json.roundtrip w hc (Json.toJson_ok w o h).2
  obtain ⟨o2, ho2, hd2⟩ := Json.roundtrip w' hc' (Json.toJson_ok w' o h').2
  rw [h] at ho1
  rw [h'] at ho2
  cases ho1
  cases ho2
  rw [hd1] at hd2
  exact Outcome.ok.inj hd2

theorem Json.matches_bytes : JsonMatchesBytesStmt := by
  intro w o h
  obtain ⟨rfl, hlt⟩ := Json.toJson_ok w o h
  refine ⟨_, _, _, _, _, _, _, Json.lk3 w, Json.lk6 w, Json.lk4 w, Json.lk5 w, Json.lk2 w,
    Json.lk7 w, Json.lk1 w, ?_⟩
  unfold serializeWitness
  rw [(rangeCheck_ok _ _).mpr hlt]
  rfl

theorem Json.decode_canonical : JsonDecodeCanonicalStmt := by
  intro o w h
  unfold witnessFromJson at h
  split at h
  · simp at h
  · rename_i w' hw
    have hr : w' = w ∧ w'.messageId < w'.userMessageLimit := by
      cases hm : messageIdRangeCheck w'.messageId w'.userMessageLimit with
      | ok u =>
        rw [hm] at h
        simp only [Outcome.ok.injEq] at h
        cases u
        exact ⟨h, (rangeCheck_ok _ _).mp hm⟩
      | err => rw [hm] at h; simp at h
      | panic => rw [hm] at h; simp at h
    obtain ⟨rfl, hlt⟩ := hr
    unfold decodeFields at hw
    split at hw
    · rename_i s lim mid path idx x e hs hlim hmid hpath hidx hx he
      simp only [Option.some.injEq] at hw
      subst hw
      refine ⟨frField_lt _ _ _ hs, frField_lt _ _ _ hlim, frField_lt _ _ _ hmid,
        frField_lt _ _ _ hx, frField_lt _ _ _ he, ?_, hlt⟩
      rcases Option.bind_eq_some_iff.mp hpath with ⟨bs, _, hb⟩
      exact arkFrs_lt _ _ hb
    · simp at hw

theorem Json.mapM_toNat_repr (l : List Nat) : (l.map Nat.repr).mapM String.toNat? = some l := by
  induction l with
  | nil => rfl
  | cons a r ih =>
    simp only [List.map_cons, List.mapM_cons, Nat.toNat?_repr, ih]
    rfl

theorem Json.readDecimals_decimals (l : List Nat) : readDecimals (decimals l) = some l := by
  cases l with
  | nil => rfl
  | cons a r =>
    simp only [decimals, List.isEmpty_cons, Bool.false_eq_true, if_false, readDecimals]
    exact Json.mapM_toNat_repr _

theorem Json.bigint : BigintJsonStmt := by
  intro w o h
  unfold witnessToBigintJson messageIdRangeCheck at h
  by_cases hc : w.messageId ≥ w.userMessageLimit
  · simp [hc] at h
  · simp only [hc, if_false, Outcome.ok.injEq] at h
    subst h
    simp [lookup, List.find?, readDecimal, Nat.toNat?_repr, Json.readDecimals_decimals]

end Zk
