import ZkModel.Poseidon
/-!
# Grain LFSR: the ring-buffer implementation simulates the shift-register specification
-/
namespace Zk.Grain

def Impl.Inv (l : Impl) : Prop := l.state.size = 80 ∧ l.head < 80

theorem toSpec_length (l : Impl) : (Impl.toSpec l).length = 80 := by simp [Impl.toSpec]

theorem toSpec_getD (l : Impl) (i : Nat) (hi : i < 80) :
    (Impl.toSpec l).getD i false = l.state.getD ((l.head + i) % 80) false := by
  simp [Impl.toSpec, List.getD_eq_getElem?_getD, hi]

theorem newBit_toSpec (l : Impl) (h : Impl.Inv l) :
    Spec.newBit (Impl.toSpec l) = (Impl.update l).2 := by
  obtain ⟨_, hh⟩ := h
  simp only [Spec.newBit, Impl.update]
  rw [toSpec_getD l 62 (by omega), toSpec_getD l 51 (by omega), toSpec_getD l 38 (by omega),
      toSpec_getD l 23 (by omega), toSpec_getD l 13 (by omega), toSpec_getD l 0 (by omega)]
  have : (l.head + 0) % 80 = l.head := by omega
  rw [this]

theorem update_inv (l : Impl) (h : Impl.Inv l) : Impl.Inv (Impl.update l).1 := by
  obtain ⟨hs, hh⟩ := h
  refine ⟨?_, ?_⟩
  · simp [Impl.update, hs]
  · simp only [Impl.update]; omega

theorem getD_setIfInBounds (a : Array Bool) (i j : Nat) (v : Bool) (hi : i < a.size) :
    (a.setIfInBounds i v).getD j false = if i = j then v else a.getD j false := by
  simp only [Array.getD_eq_getD_getElem?, Array.getElem?_setIfInBounds]
  by_cases hij : i = j
  · subst hij; simp [hi]
  · simp [hij]

theorem getElem_eq_getD (l : List Bool) (i : Nat) (h : i < l.length) : l[i] = l.getD i false := by
  simp [List.getD_eq_getElem?_getD, List.getElem?_eq_getElem h]

theorem ext_getD (l₁ l₂ : List Bool) (hl : l₁.length = l₂.length)
    (h : ∀ i, i < l₁.length → l₁.getD i false = l₂.getD i false) : l₁ = l₂ := by
  apply List.ext_getElem hl
  intro i h1 h2
  rw [getElem_eq_getD l₁ i h1, getElem_eq_getD l₂ i h2]
  exact h i h1

theorem getD_drop_append (l : List Bool) (v : Bool) (i : Nat) (hl : 0 < l.length) (hi : i < l.length) :
    (l.drop 1 ++ [v]).getD i false = if i = l.length - 1 then v else l.getD (1 + i) false := by
  simp only [List.getD_eq_getElem?_getD]
  by_cases h : i = l.length - 1
  · subst h
    rw [List.getElem?_append_right (by simp)]
    simp
  · have hlt : i < (l.drop 1).length := by simp; omega
    rw [List.getElem?_append_left hlt, List.getElem?_drop]
    simp [h]

/-- one step of the implementation is one step of the specification through `toSpec` -/
theorem step_sim (l : Impl) (h : Impl.Inv l) :
    Spec.step (Impl.toSpec l) = (Impl.toSpec (Impl.update l).1, (Impl.update l).2) := by
  have hnb := newBit_toSpec l h
  obtain ⟨hs, hh⟩ := h
  simp only [Spec.step]
  rw [hnb]
  congr 1
  apply ext_getD
  · simp [toSpec_length]
  · intro i h1
    have hi : i < 80 := by simpa [toSpec_length] using h1
    rw [getD_drop_append _ _ _ (by simp [toSpec_length]) (by simpa [toSpec_length] using hi)]
    rw [toSpec_getD _ i hi, toSpec_length]
    simp only [Impl.update]
    rw [getD_setIfInBounds _ _ _ _ (by omega)]
    by_cases h79 : i = 79
    · subst h79
      have : l.head = ((l.head + 1) % 80 + 79) % 80 := by omega
      simp [← this]
    · have hne : ¬ l.head = ((l.head + 1) % 80 + i) % 80 := by omega
      have h79' : ¬ i = 80 - 1 := by omega
      rw [if_neg hne, if_neg h79', toSpec_getD _ (1 + i) (by omega)]
      congr 1
      omega

/-! ## A simulation lifts through every sampling function -/

section Sim
variable {σ₁ σ₂ : Type} (R : σ₁ → σ₂ → Prop) (u₁ : σ₁ → σ₁ × Bool) (u₂ : σ₂ → σ₂ × Bool)

def Sim : Prop := ∀ a b, R a b → R (u₁ a).1 (u₂ b).1 ∧ (u₁ a).2 = (u₂ b).2

def RelOpt {α : Type} (x : Option (σ₁ × α)) (y : Option (σ₂ × α)) : Prop :=
  match x, y with
  | none, none => True
  | some (a, v), some (b, w) => R a b ∧ v = w
  | _, _ => False

variable {R u₁ u₂}

theorem nextBit_sim (hs : Sim R u₁ u₂) : ∀ (fuel : Nat) (a : σ₁) (b : σ₂), R a b →
    RelOpt R (nextBit u₁ fuel a) (nextBit u₂ fuel b) := by
  intro fuel
  induction fuel with
  | zero => intro a b _; simp [nextBit, RelOpt]
  | succ n ih =>
    intro a b hab
    obtain ⟨r1, e1⟩ := hs a b hab
    obtain ⟨r2, e2⟩ := hs _ _ r1
    simp only [nextBit]
    rw [e1]
    by_cases hb : (u₂ b).2 = true
    · simp only [hb, if_true, RelOpt]; exact ⟨r2, e2⟩
    · simp only [hb]; exact ih _ _ r2

theorem getBitsNat_sim (hs : Sim R u₁ u₂) : ∀ (n : Nat) (a : σ₁) (b : σ₂) (acc : Nat), R a b →
    RelOpt R (getBitsNat u₁ n a acc) (getBitsNat u₂ n b acc) := by
  intro n
  induction n with
  | zero => intro a b acc hab; simp [getBitsNat, RelOpt, hab]
  | succ n ih =>
    intro a b acc hab
    have h := nextBit_sim hs BITFUEL a b hab
    simp only [getBitsNat]
    cases h1 : nextBit u₁ BITFUEL a with
    | none =>
      cases h2 : nextBit u₂ BITFUEL b with
      | none => simp [RelOpt]
      | some y => rw [h1, h2] at h; simp [RelOpt] at h
    | some x =>
      cases h2 : nextBit u₂ BITFUEL b with
      | none => rw [h1, h2] at h; obtain ⟨_, _⟩ := x; simp [RelOpt] at h
      | some y =>
        rw [h1, h2] at h
        obtain ⟨a', v⟩ := x; obtain ⟨b', w⟩ := y
        simp only [RelOpt] at h
        obtain ⟨hr, hv⟩ := h
        subst hv
        exact ih a' b' _ hr

theorem fieldRej_sim (hs : Sim R u₁ u₂) (nbits : Nat) : ∀ (fuel : Nat) (a : σ₁) (b : σ₂), R a b →
    RelOpt R (fieldRej u₁ nbits fuel a) (fieldRej u₂ nbits fuel b) := by
  intro fuel
  induction fuel with
  | zero => intro a b _; simp [fieldRej, RelOpt]
  | succ n ih =>
    intro a b hab
    have h := getBitsNat_sim hs nbits a b 0 hab
    simp only [fieldRej]
    cases h1 : getBitsNat u₁ nbits a 0 with
    | none =>
      cases h2 : getBitsNat u₂ nbits b 0 with
      | none => simp [RelOpt]
      | some y => rw [h1, h2] at h; simp [RelOpt] at h
    | some x =>
      cases h2 : getBitsNat u₂ nbits b 0 with
      | none => rw [h1, h2] at h; obtain ⟨_, _⟩ := x; simp [RelOpt] at h
      | some y =>
        rw [h1, h2] at h
        obtain ⟨a', v⟩ := x; obtain ⟨b', w⟩ := y
        simp only [RelOpt] at h
        obtain ⟨hr, hv⟩ := h
        subst hv
        by_cases hv : v < P
        · simp [hv, RelOpt, hr]
        · simp only [hv, if_false]; exact ih a' b' hr

theorem fieldMod_sim (hs : Sim R u₁ u₂) (nbits : Nat) (a : σ₁) (b : σ₂) (hab : R a b) :
    RelOpt R (fieldMod u₁ nbits a) (fieldMod u₂ nbits b) := by
  have h := getBitsNat_sim hs nbits a b 0 hab
  simp only [fieldMod]
  cases h1 : getBitsNat u₁ nbits a 0 with
  | none =>
    cases h2 : getBitsNat u₂ nbits b 0 with
    | none => simp [RelOpt]
    | some y => rw [h1, h2] at h; simp [RelOpt] at h
  | some x =>
    cases h2 : getBitsNat u₂ nbits b 0 with
    | none => rw [h1, h2] at h; obtain ⟨_, _⟩ := x; simp [RelOpt] at h
    | some y =>
      rw [h1, h2] at h
      obtain ⟨a', v⟩ := x; obtain ⟨b', w⟩ := y
      simp only [RelOpt] at h
      obtain ⟨hr, hv⟩ := h
      subst hv
      simp [RelOpt, hr]

theorem manyAux_sim (f₁ : σ₁ → Option (σ₁ × Nat)) (f₂ : σ₂ → Option (σ₂ × Nat))
    (hf : ∀ a b, R a b → RelOpt R (f₁ a) (f₂ b)) : ∀ (n : Nat) (a : σ₁) (b : σ₂) (acc : List Nat), R a b →
    RelOpt R (manyAux f₁ n a acc) (manyAux f₂ n b acc) := by
  intro n
  induction n with
  | zero => intro a b acc hab; simp [manyAux, RelOpt, hab]
  | succ n ih =>
    intro a b acc hab
    have h := hf a b hab
    simp only [manyAux]
    cases h1 : f₁ a with
    | none =>
      cases h2 : f₂ b with
      | none => simp [RelOpt]
      | some y => rw [h1, h2] at h; simp [RelOpt] at h
    | some x =>
      cases h2 : f₂ b with
      | none => rw [h1, h2] at h; obtain ⟨_, _⟩ := x; simp [RelOpt] at h
      | some y =>
        rw [h1, h2] at h
        obtain ⟨a', v⟩ := x; obtain ⟨b', w⟩ := y
        simp only [RelOpt] at h
        obtain ⟨hr, hv⟩ := h
        subst hv
        exact ih a' b' _ hr

theorem many_sim (f₁ : σ₁ → Option (σ₁ × Nat)) (f₂ : σ₂ → Option (σ₂ × Nat))
    (hf : ∀ a b, R a b → RelOpt R (f₁ a) (f₂ b)) (n : Nat) (a : σ₁) (b : σ₂) (hab : R a b) :
    RelOpt R (many f₁ n a) (many f₂ n b) := manyAux_sim f₁ f₂ hf n a b [] hab

end Sim
end Zk.Grain

namespace Zk.Grain

/-- the relation between the two registers -/
def RImpl (l : Impl) (s : List Bool) : Prop := Impl.Inv l ∧ Impl.toSpec l = s

theorem sim_impl_spec : Sim RImpl Impl.update Spec.step := by
  intro a b ⟨hinv, heq⟩
  subst heq
  rw [step_sim a hinv]
  exact ⟨⟨update_inv a hinv, rfl⟩, rfl⟩

theorem updateN_sim : ∀ (n : Nat) (a : Impl) (b : List Bool), RImpl a b →
    RImpl (Impl.updateN n a) (Spec.stepN n b) := by
  intro n
  induction n with
  | zero => intro a b h; exact h
  | succ n ih => intro a b h; exact ih _ _ (sim_impl_spec a b h).1

theorem bitsBE_length (v n : Nat) : (bitsBE v n).length = n := by simp [bitsBE]

theorem initBits_length (nbits t rf rp : Nat) : (initBits nbits t rf rp).length = 80 := by
  simp [initBits, bitsBE_length]

theorem init_rel (nbits t rf rp : Nat) :
    RImpl { state := (initBits nbits t rf rp).toArray, head := 0 } (initBits nbits t rf rp) := by
  refine ⟨⟨by simp [initBits_length], by show 0 < 80; omega⟩, ?_⟩
  apply ext_getD
  · simp [toSpec_length, initBits_length]
  · intro i hi
    have hi' : i < 80 := by simpa [toSpec_length] using hi
    rw [toSpec_getD _ i hi']
    have : (0 + i) % 80 = i := by omega
    simp only [this]
    simp [Array.getD_eq_getD_getElem?, List.getD_eq_getElem?_getD]

theorem new_rel (nbits t rf rp : Nat) : RImpl (Impl.new nbits t rf rp) (Spec.init nbits t rf rp) :=
  updateN_sim 160 _ _ (init_rel nbits t rf rp)

end Zk.Grain

namespace Zk.Poseidon
open Zk.Grain

theorem skipLoop_sim {σ₁ σ₂ : Type} {R : σ₁ → σ₂ → Prop} {u₁ : σ₁ → σ₁ × Bool} {u₂ : σ₂ → σ₂ × Bool}
    (hs : Sim R u₁ u₂) (t : Nat) : ∀ (k : Nat) (a : σ₁) (b : σ₂), R a b →
    match findArkAndMds.skipLoop u₁ t k a, findArkAndMds.skipLoop u₂ t k b with
    | none, none => True
    | some a', some b' => R a' b'
    | _, _ => False := by
  intro k
  induction k with
  | zero => intro a b hab; simpa [findArkAndMds.skipLoop] using hab
  | succ k ih =>
    intro a b hab
    have h := many_sim (fieldMod u₁ 254) (fieldMod u₂ 254) (fieldMod_sim hs 254) (2 * t) a b hab
    simp only [findArkAndMds.skipLoop]
    cases h1 : many (fieldMod u₁ 254) (2 * t) a with
    | none =>
      cases h2 : many (fieldMod u₂ 254) (2 * t) b with
      | none => simp
      | some y => rw [h1, h2] at h; simp [RelOpt] at h
    | some x =>
      cases h2 : many (fieldMod u₂ 254) (2 * t) b with
      | none => rw [h1, h2] at h; obtain ⟨_, _⟩ := x; simp [RelOpt] at h
      | some y =>
        rw [h1, h2] at h
        obtain ⟨a', v⟩ := x; obtain ⟨b', w⟩ := y
        simp only [RelOpt] at h
        exact ih a' b' h.1

/-- related registers yield equal parameter records -/
theorem findArkAndMds_sim {σ₁ σ₂ : Type} {R : σ₁ → σ₂ → Prop} {u₁ : σ₁ → σ₁ × Bool} {u₂ : σ₂ → σ₂ × Bool}
    (hs : Sim R u₁ u₂) (a : σ₁) (b : σ₂) (hab : R a b) (t rf rp skip : Nat) :
    findArkAndMds u₁ a t rf rp skip = findArkAndMds u₂ b t rf rp skip := by
  have h := many_sim (fieldRej u₁ 254 1000) (fieldRej u₂ 254 1000)
    (fun a b hab => fieldRej_sim hs 254 1000 a b hab) ((rf + rp) * t) a b hab
  unfold findArkAndMds
  cases h1 : many (fieldRej u₁ 254 1000) ((rf + rp) * t) a with
  | none =>
    cases h2 : many (fieldRej u₂ 254 1000) ((rf + rp) * t) b with
    | none => rfl
    | some y => rw [h1, h2] at h; simp [RelOpt] at h
  | some x =>
    cases h2 : many (fieldRej u₂ 254 1000) ((rf + rp) * t) b with
    | none => rw [h1, h2] at h; obtain ⟨_, _⟩ := x; simp [RelOpt] at h
    | some y =>
      rw [h1, h2] at h
      obtain ⟨a1, ark⟩ := x; obtain ⟨b1, ark'⟩ := y
      simp only [RelOpt] at h
      obtain ⟨hr1, hark⟩ := h
      subst hark
      simp only []
      have hsk := skipLoop_sim hs t skip a1 b1 hr1
      cases h3 : findArkAndMds.skipLoop u₁ t skip a1 with
      | none =>
        cases h4 : findArkAndMds.skipLoop u₂ t skip b1 with
        | none => rfl
        | some y => rw [h3, h4] at hsk; simp at hsk
      | some a2 =>
        cases h4 : findArkAndMds.skipLoop u₂ t skip b1 with
        | none => rw [h3, h4] at hsk; simp at hsk
        | some b2 =>
          rw [h3, h4] at hsk
          simp only at hsk
          have hx := many_sim (fieldMod u₁ 254) (fieldMod u₂ 254) (fieldMod_sim hs 254) t a2 b2 hsk
          simp only []
          cases h5 : many (fieldMod u₁ 254) t a2 with
          | none =>
            cases h6 : many (fieldMod u₂ 254) t b2 with
            | none => rfl
            | some y => rw [h5, h6] at hx; simp [RelOpt] at hx
          | some x =>
            cases h6 : many (fieldMod u₂ 254) t b2 with
            | none => rw [h5, h6] at hx; obtain ⟨_, _⟩ := x; simp [RelOpt] at hx
            | some y =>
              rw [h5, h6] at hx
              obtain ⟨a3, xs⟩ := x; obtain ⟨b3, xs'⟩ := y
              simp only [RelOpt] at hx
              obtain ⟨hr3, hxs⟩ := hx
              subst hxs
              have hy := many_sim (fieldMod u₁ 254) (fieldMod u₂ 254) (fieldMod_sim hs 254) t a3 b3 hr3
              simp only []
              cases h7 : many (fieldMod u₁ 254) t a3 with
              | none =>
                cases h8 : many (fieldMod u₂ 254) t b3 with
                | none => rfl
                | some y => rw [h7, h8] at hy; simp [RelOpt] at hy
              | some x =>
                cases h8 : many (fieldMod u₂ 254) t b3 with
                | none => rw [h7, h8] at hy; obtain ⟨_, _⟩ := x; simp [RelOpt] at hy
                | some y =>
                  rw [h7, h8] at hy
                  obtain ⟨a4, ys⟩ := x; obtain ⟨b4, ys'⟩ := y
                  simp only [RelOpt] at hy
                  obtain ⟨_, hys⟩ := hy
                  subst hys
                  rfl

/-- **C09(ii)**: for every `(t, RF, RP, skip)` the constants and MDS matrix derived by the
ring-buffer LFSR of `poseidon_constants.rs` are those of the shift-register specification. -/
theorem grain_impl_eq_spec (t rf rp skip : Nat) : implParams t rf rp skip = specParams t rf rp skip :=
  findArkAndMds_sim sim_impl_spec _ _ (new_rel 254 t rf rp) t rf rp skip

end Zk.Poseidon
