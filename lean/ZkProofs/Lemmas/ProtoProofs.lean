import ZkProofs.Lemmas.ProtoDefs
import ZkProofs.Lemmas.FieldBridge
import ZkProofs.Lemmas.BytesLemmas
import ZkProofs.Lemmas.BytesProofs
import Mathlib.Tactic.FieldSimp
import Mathlib.Tactic.Ring
/-!
# Proofs of the protocol statements of `ProtoDefs.lean` (C03, C04, C12, C01)
-/
namespace Zk.Proto
open Zk Zk.Codec Zk.Protocol Zk.Public

/-! ## C04 — published values -/

theorem px_foldPath_spec (H : List Nat → Nat) : ∀ (path : List Nat) (idx : List UInt8) (acc : Nat),
    idx.length ≤ path.length → foldPath H acc path idx = .ok (specRoot H acc path idx) := by
  intro path
  induction path with
  | nil =>
    intro idx acc h
    cases idx with
    | nil => simp [foldPath, specRoot]
    | cons b bs => simp at h
  | cons e es ih =>
    intro idx acc h
    cases idx with
    | nil => simp [foldPath, specRoot]
    | cons b bs =>
      simp only [foldPath, specRoot]
      exact ih bs _ (by simpa using h)

theorem px_foldPath_panic (H : List Nat → Nat) : ∀ (path : List Nat) (idx : List UInt8) (acc : Nat),
    idx.length > path.length → foldPath H acc path idx = .panic := by
  intro path
  induction path with
  | nil =>
    intro idx acc h
    cases idx with
    | nil => simp at h
    | cons b bs => simp [foldPath]
  | cons e es ih =>
    intro idx acc h
    cases idx with
    | nil => simp at h
    | cons b bs =>
      simp only [foldPath]
      exact ih bs _ (by simpa using h)

theorem px_foldPath_cases (H : List Nat → Nat) (path : List Nat) (idx : List UInt8) (acc : Nat) :
    (idx.length ≤ path.length ∧ foldPath H acc path idx = .ok (specRoot H acc path idx)) ∨
    (idx.length > path.length ∧ foldPath H acc path idx = .panic) := by
  by_cases h : idx.length ≤ path.length
  · exact .inl ⟨h, px_foldPath_spec H path idx acc h⟩
  · exact .inr ⟨by omega, px_foldPath_panic H path idx acc (by omega)⟩

theorem px_rangeCheck_ok {m l : Nat} (h : m < l) : messageIdRangeCheck m l = .ok () := by
  unfold messageIdRangeCheck; rw [if_neg (by omega)]

theorem px_rangeCheck_err {m l : Nat} (h : m ≥ l) : messageIdRangeCheck m l = .err := by
  unfold messageIdRangeCheck; rw [if_pos h]

theorem px_rangeCheck_cases (m l : Nat) :
    (m < l ∧ messageIdRangeCheck m l = .ok ()) ∨ (m ≥ l ∧ messageIdRangeCheck m l = .err) := by
  by_cases h : m < l
  · exact .inl ⟨h, px_rangeCheck_ok h⟩
  · exact .inr ⟨by omega, px_rangeCheck_err (by omega)⟩

theorem px_fadd_fmul (s x a : Nat) : fadd s (fmul x a) = (s + x * a) % P := by
  unfold fadd fmul; exact Nat.add_mod_mod _ _ _

theorem proofValues_spec : ProofValuesSpecStmt := by
  intro H w hm hl
  unfold proofValuesFromWitness computeTreeRoot
  rw [px_rangeCheck_ok hm]
  simp only
  rw [px_foldPath_spec H _ _ _ hl]
  simp only [specProofValues, px_fadd_fmul]

theorem proofValues_reject : ProofValuesRejectStmt := by
  intro H w
  refine ⟨fun h => ?_, fun hm hl => ?_⟩
  · unfold proofValuesFromWitness
    rw [px_rangeCheck_err h]
  · unfold proofValuesFromWitness computeTreeRoot
    rw [px_rangeCheck_ok hm]
    simp only
    rw [px_foldPath_panic H _ _ _ hl]

/-- the three possible results of `proof_values_from_witness` -/
theorem px_proofValues_cases (H : List Nat → Nat) (w : Witness) :
    (w.messageId < w.userMessageLimit ∧ w.identityPathIndex.length ≤ w.pathElements.length ∧
      proofValuesFromWitness H w = .ok (specProofValues H w)) ∨
    (w.messageId ≥ w.userMessageLimit ∧ proofValuesFromWitness H w = .err) ∨
    (w.messageId < w.userMessageLimit ∧ w.identityPathIndex.length > w.pathElements.length ∧
      proofValuesFromWitness H w = .panic) := by
  by_cases hm : w.messageId < w.userMessageLimit
  · by_cases hl : w.identityPathIndex.length ≤ w.pathElements.length
    · exact .inl ⟨hm, hl, proofValues_spec H w hm hl⟩
    · exact .inr (.inr ⟨hm, by omega, (proofValues_reject H w).2 hm (by omega)⟩)
  · exact .inr (.inl ⟨by omega, (proofValues_reject H w).1 (by omega)⟩)

/-! ## C03 — secret recovery -/

theorem recover_secret : RecoverSecretStmt := by
  intro s a x1 x2 hs ha hx1 hx2 hne
  unfold computeIdSecret
  rw [if_neg hne]
  simp only
  refine congrArg Outcome.ok ?_
  apply eq_of_cast_eq (fsub_lt _ _) hs
  have hx : (x1 : ZMod P) - (x2 : ZMod P) ≠ 0 := sub_ne_zero.mpr (cast_ne_of_ne hx1 hx2 hne)
  simp only [cast_fsub, cast_fmul, cast_fdiv, cast_fadd]
  have h1 : ((s : ZMod P) + x1 * a - (s + x2 * a)) / (x1 - x2) = a := by
    field_simp
    ring
  rw [h1]
  ring

theorem recover_degenerate : RecoverDegenerateStmt := by
  intro x y1 y2
  unfold computeIdSecret
  rw [if_pos rfl]

theorem nullifier_signal_free : NullifierSignalFreeStmt := by
  intro H w x' v v' h h'
  rcases px_proofValues_cases H w with ⟨_, _, e⟩ | ⟨_, e⟩ | ⟨_, _, e⟩ <;> rw [e] at h <;> try cases h
  rcases px_proofValues_cases H { w with x := x' } with ⟨_, _, e'⟩ | ⟨_, e'⟩ | ⟨_, _, e'⟩ <;>
    rw [e'] at h' <;> try cases h'
  simp [specProofValues]

theorem nullifier_collision : NullifierCollisionStmt := by
  intro H s e m e' m' hne heq
  by_cases hin : H [s, e, m] = H [s, e', m']
  · refine ⟨[s, e, m], [s, e', m'], ?_, hin⟩
    intro hl
    apply hne
    simp only [List.cons.injEq, and_true, true_and] at hl
    exact Prod.ext hl.1 hl.2
  · refine ⟨[H [s, e, m]], [H [s, e', m']], ?_, heq⟩
    intro hl
    apply hin
    simpa using hl

/-! ### recovery on message encodings (given the proof-values codec round trip, C10) -/

theorem px_drop128 (pb x : List UInt8) (h : pb.length = 128) : (pb ++ x).drop 128 = x := by
  rw [← h]; exact List.drop_left

theorem px_take128 (pb x : List UInt8) (h : pb.length = 128) : (pb ++ x).take 128 = pb := by
  rw [← h]; exact List.take_left

theorem px_recover_eq (hrt : ProofValuesRoundtripStmt) (v v' : ProofValues) (pb pb' : List UInt8)
    (hv : CanonV v) (hv' : CanonV v') (hp : pb.length = 128) (hp' : pb'.length = 128) :
    recoverIdSecret (pb ++ serializeProofValues v) (pb' ++ serializeProofValues v') =
      if v.externalNullifier = v'.externalNullifier then
        match computeIdSecret v.x v.y v'.x v'.y with
        | .ok s => .ok (frToBytesLe s)
        | .err => .err
        | .panic => .panic
      else .ok [] := by
  obtain ⟨hl, hd⟩ := hrt v hv
  obtain ⟨hl', hd'⟩ := hrt v' hv'
  unfold recoverIdSecret
  rw [if_neg (by rw [List.length_append, hp, hl]; omega), px_drop128 _ _ hp, hd]
  simp only
  rw [if_neg (by rw [List.length_append, hp', hl']; omega), px_drop128 _ _ hp', hd']
  rfl

theorem px_recover_different_epoch_of (hrt : ProofValuesRoundtripStmt) : RecoverDifferentEpochStmt := by
  intro v v' pb pb' hv hv' hp hp' hne
  rw [px_recover_eq hrt v v' pb pb' hv hv' hp hp', if_neg hne]

theorem px_specProofValues_canon (H : List Nat → Nat) (w : Witness) (hH : ∀ l, H l < P)
    (hx : w.x < P) (he : w.externalNullifier < P) : CanonV (specProofValues H w) := by
  refine ⟨Nat.mod_lt _ P_pos, hH _, ?_, hx, he⟩
  show specRoot H _ _ _ < P
  generalize hleaf : H [H [w.identitySecret], w.userMessageLimit] = leaf
  have hleafP : leaf < P := hleaf ▸ hH _
  clear hleaf
  generalize w.pathElements = path
  generalize w.identityPathIndex = idx
  induction path generalizing idx leaf with
  | nil => simpa [specRoot] using hleafP
  | cons e es ih =>
    cases idx with
    | nil => simpa [specRoot] using hleafP
    | cons b bs =>
      simp only [specRoot]
      apply ih
      split <;> exact hH _

theorem px_recover_from_messages_of (hrt : ProofValuesRoundtripStmt) : RecoverFromMessagesStmt := by
  intro H w x' v v' pb pb' hH hw hx' hne hp hp' h h'
  obtain ⟨hs, _, _, hx, he, _⟩ := hw
  rcases px_proofValues_cases H w with ⟨_, _, e⟩ | ⟨_, e⟩ | ⟨_, _, e⟩ <;> rw [e] at h <;> try cases h
  rcases px_proofValues_cases H { w with x := x' } with ⟨_, _, e'⟩ | ⟨_, e'⟩ | ⟨_, _, e'⟩ <;>
    rw [e'] at h' <;> try cases h'
  rw [px_recover_eq hrt _ _ pb pb' (px_specProofValues_canon H w hH hx he)
    (px_specProofValues_canon H { w with x := x' } hH hx' he) hp hp']
  simp only [specProofValues]
  rw [if_pos trivial, ← px_fadd_fmul, ← px_fadd_fmul, recover_secret _ _ _ _ hs (hH _) hx hx' hne]

/-! ## C12 — proving glue -/

theorem px_generateProof_ok {Pr : Type} (Pv : Prover Pr) (depth : Nat) (w : Witness) (p : Pr)
    (h : generateProof Pv depth w = .ok p) :
    w.messageId < w.userMessageLimit ∧ w.pathElements.length = depth ∧ w.identityPathIndex.length = depth ∧
    Pv.prove w = some p := by
  unfold generateProof inputsForWitnessCalculation at h
  rcases px_rangeCheck_cases w.messageId w.userMessageLimit with ⟨hm, e⟩ | ⟨hm, e⟩ <;> rw [e] at h
  · simp only at h
    split at h
    · cases h
    · rename_i hl
      split at h
      · rename_i p' hp; cases h; exact ⟨hm, by omega, by omega, hp⟩
      · cases h
  · cases h

theorem px_generateProof_panic {Pr : Type} (Pv : Prover Pr) (depth : Nat) (w : Witness)
    (h : generateProof Pv depth w = .panic) :
    w.pathElements.length ≠ depth ∨ w.identityPathIndex.length ≠ depth := by
  unfold generateProof inputsForWitnessCalculation at h
  rcases px_rangeCheck_cases w.messageId w.userMessageLimit with ⟨hm, e⟩ | ⟨hm, e⟩ <;> rw [e] at h
  · simp only at h
    split at h
    · assumption
    · split at h <;> cases h
  · cases h

theorem px_sat_or_open (depth : Nat) (w : Witness) (hm : w.messageId < w.userMessageLimit)
    (h1 : w.pathElements.length = depth) (h2 : w.identityPathIndex.length = depth) :
    CircuitSat depth w ∨ OpenUnsat w := by
  by_cases ha : w.messageId ≥ 2 ^ 16
  · exact .inr (.inl ha)
  by_cases hb : w.userMessageLimit > w.messageId + 2 ^ 16
  · exact .inr (.inr (.inl hb))
  by_cases hc : ∃ b ∈ w.identityPathIndex, b ≠ 0 ∧ b ≠ 1
  · exact .inr (.inr (.inr hc))
  refine .inl ⟨by omega, hm, by omega, h1, h2, fun b hb' => ?_⟩
  by_cases h0 : b = 0
  · exact .inl h0
  · by_cases h1' : b = 1
    · exact .inr h1'
    · exact absurd ⟨b, hb', h0, h1'⟩ hc

theorem prover_ok_sat : ProverOkSatStmt := by
  intro Pr Z Pv H depth bs msg h
  unfold generateRlnProofWithWitness at h
  split at h
  · cases h
  · cases h
  · rename_i w n hd
    refine ⟨w, n, hd, ?_⟩
    split at h
    · cases h
    · cases h
    · split at h
      · rename_i p hp
        obtain ⟨hm, h1, h2, _⟩ := px_generateProof_ok Pv depth w p hp
        exact px_sat_or_open depth w hm h1 h2
      · cases h
      · cases h

theorem px_prover_panic_of (htot : WitnessDecodeTotalStmt) : ProverPanicStmt := by
  intro Pr Z Pv H depth bs h
  rcases h with h | h
  · unfold generateRlnProofWithWitness at h
    split at h
    · cases h
    · rename_i hd; exact absurd hd (htot bs)
    · rename_i w n hd
      refine ⟨w, n, hd, ?_⟩
      split at h
      · cases h
      · rename_i hv
        rcases px_proofValues_cases H w with ⟨_, _, e⟩ | ⟨_, e⟩ | ⟨_, hl, e⟩ <;> rw [e] at hv <;> try cases hv
        omega
      · split at h
        · cases h
        · cases h
        · rename_i hg; exact px_generateProof_panic Pv depth w hg
  · unfold Public.prove at h
    split at h
    · cases h
    · rename_i hd; exact absurd hd (htot bs)
    · rename_i w n hd
      refine ⟨w, n, hd, ?_⟩
      split at h
      · cases h
      · cases h
      · rename_i hg; exact px_generateProof_panic Pv depth w hg

/-! ## C01 — prove, then verify -/

theorem px_fr_length (v : Nat) : (frToBytesLe v).length = 32 := natLE_length _ _

theorem px_leNat_fr (v : Nat) (h : v < P) : leNat (frToBytesLe v) = v :=
  leNat_natLE 32 v (Nat.lt_trans h P_lt)

theorem px_allCanonical_cons (n v : Nat) (rest : List UInt8) (hv : v < P) :
    allCanonical (n + 1) (frToBytesLe v ++ rest) = allCanonical n rest := by
  have h32 := px_fr_length v
  have ht : (frToBytesLe v ++ rest).take 32 = frToBytesLe v := by rw [← h32]; exact List.take_left
  have hd : (frToBytesLe v ++ rest).drop 32 = rest := by rw [← h32]; exact List.drop_left
  have hl : (frToBytesLe v ++ rest).length ≥ 32 := by rw [List.length_append, h32]; omega
  simp only [allCanonical, ht, hd, px_leNat_fr v hv, hl, hv, decide_true, Bool.true_and]

theorem px_allCanonical_ser (v : ProofValues) (hv : CanonV v) :
    allCanonical 5 (serializeProofValues v) = true := by
  obtain ⟨hy, hn, hr, hx, he⟩ := hv
  unfold serializeProofValues
  rw [← List.append_nil (frToBytesLe v.nullifier)]
  simp only [List.append_assoc]
  rw [px_allCanonical_cons _ _ _ hr, px_allCanonical_cons _ _ _ he, px_allCanonical_cons _ _ _ hx,
    px_allCanonical_cons _ _ _ hy, px_allCanonical_cons _ _ _ hn]
  rfl

/-- exact verdict of `RLN::verify` on a well-formed message -/
theorem px_verify_exact (hrt : ProofValuesRoundtripStmt) {Pr : Type} (Z : Snark Pr) (pb : List UInt8)
    (v : ProofValues) (proof : Pr) (b : Bool) (hp : pb.length = 128) (hv : CanonV v)
    (hdec : Z.decode pb = some proof) (hver : Z.verify proof (publicInputs v) = some b) :
    verify Z (pb ++ serializeProofValues v) = .ok b := by
  obtain ⟨hl, hd⟩ := hrt v hv
  unfold verify
  rw [if_neg (by rw [List.length_append, hp, hl]; simp), px_drop128 _ _ hp, px_take128 _ _ hp,
    px_allCanonical_ser v hv, hdec, hd]
  simp only [Bool.not_true, Bool.false_eq_true, if_false, verifyProof, hver]

theorem px_toUInt8_bit (n : Nat) (h : n = 0 ∨ n = 1) : (n.toUInt8 = 0 ↔ n = 0) := by
  rcases h with rfl | rfl <;> decide

theorem px_specRoot_proof (H : List Nat → Nat) : ∀ (π : List (Nat × Nat)) (leaf : Nat),
    (∀ x ∈ π, x.2 = 0 ∨ x.2 = 1) →
    specRoot H leaf (π.map (·.1)) (π.map (fun x => x.2.toUInt8)) =
      Tree.Ideal.computeRoot (fun a b => H [a, b]) leaf π := by
  intro π
  induction π with
  | nil => intro leaf _; rfl
  | cons x r ih =>
    intro leaf hb
    obtain ⟨s, b⟩ := x
    have hbit := px_toUInt8_bit b (hb (s, b) (by simp))
    simp only [List.map_cons, specRoot, Tree.Ideal.computeRoot]
    rw [ih _ (fun y hy => hb y (by simp [hy]))]
    by_cases h0 : b = 0
    · rw [if_pos (hbit.mpr h0), if_pos h0]
    · rw [if_neg (fun h => h0 (hbit.mp h)), if_neg h0]

/-- the published root is the ideal path fold (general form, any direction bytes) -/
theorem px_specRoot_zip (H : List Nat → Nat) : ∀ (path : List Nat) (idx : List UInt8) (leaf : Nat),
    specRoot H leaf path idx =
      Tree.Ideal.computeRoot (fun a b => H [a, b]) leaf (path.zip (idx.map (·.toNat))) := by
  intro path
  induction path with
  | nil => intro idx leaf; cases idx <;> rfl
  | cons e es ih =>
    intro idx leaf
    cases idx with
    | nil => rfl
    | cons b bs =>
      simp only [List.map_cons, List.zip_cons_cons, specRoot, Tree.Ideal.computeRoot]
      rw [ih]
      have hb : (b = 0) ↔ (b.toNat = 0) := by
        constructor
        · intro h; rw [h]; rfl
        · intro h; exact UInt8.toNat_inj.mp (by rw [h]; rfl)
      by_cases h0 : b = 0
      · rw [if_pos h0, if_pos (hb.mp h0)]
      · rw [if_neg h0, if_neg (fun h => h0 (hb.mpr h))]

theorem px_prove_then_verify_of (hpi : ProveInputRoundtripStmt) (hrt : ProofValuesRoundtripStmt)
    (hvr : VerifyRlnExactStmt) (hvw : VerifyRootsExactStmt) : ProveThenVerifyStmt := by
  intro Pr Z Pv H h2f depth treeProof root s i lim m e signal π hC hH hh2f hs hlim he hi hsig
    hml hm16 hlm htp hπ hbits hroot
  -- the witness
  have hin := hpi h2f treeProof s i lim m e signal π hs hlim (by omega) he hi hsig htp
  obtain ⟨w, hw⟩ : ∃ w : Witness,
      { identitySecret := s, userMessageLimit := lim, messageId := m,
        pathElements := π.map (·.1), identityPathIndex := π.map (fun x => x.2.toUInt8), x := h2f signal,
        externalNullifier := e } = w := ⟨_, rfl⟩
  rw [hw] at hin
  have hw1 : w.messageId = m := by rw [← hw]
  have hw2 : w.userMessageLimit = lim := by rw [← hw]
  have hw3 : w.pathElements = π.map (·.1) := by rw [← hw]
  have hw4 : w.identityPathIndex = π.map (fun x => x.2.toUInt8) := by rw [← hw]
  have hw5 : w.x = h2f signal := by rw [← hw]
  have hw6 : w.externalNullifier = e := by rw [← hw]
  have hw7 : w.identitySecret = s := by rw [← hw]
  -- the values
  have hvals := proofValues_spec H w (by rw [hw1, hw2]; exact hml) (by rw [hw3, hw4]; simp)
  -- satisfiable
  have hsat : CircuitSat depth w := by
    refine ⟨by rw [hw1]; exact hm16, by rw [hw1, hw2]; exact hml, by rw [hw1, hw2]; exact hlm,
      by rw [hw3, List.length_map]; exact hπ, by rw [hw4, List.length_map]; exact hπ, ?_⟩
    intro b hb
    rw [hw4, List.mem_map] at hb
    obtain ⟨x, hx, rfl⟩ := hb
    rcases hbits x hx with h | h <;> rw [h]
    · exact .inl rfl
    · exact .inr rfl
  obtain ⟨p, hprove, hver⟩ := hC.proves w hsat
  obtain ⟨henc, hdec⟩ := hC.codec p
  have hgen : generateProof Pv depth w = .ok p := by
    unfold generateProof inputsForWitnessCalculation
    rw [px_rangeCheck_ok (by rw [hw1, hw2]; exact hml)]
    simp only
    rw [if_neg (by rw [hw3, hw4, List.length_map, List.length_map]; omega), hprove]
  have hcanon : CanonV (specProofValues H w) :=
    px_specProofValues_canon H w hH (by rw [hw5]; exact hh2f _) (by rw [hw6]; exact he)
  have hvroot : (specProofValues H w).root = root := by
    show specRoot H _ _ _ = root
    rw [hw3, hw4, hw7, hw2, px_specRoot_proof H π _ hbits, hroot]
  have hvx : (specProofValues H w).x = h2f signal := hw5
  have hrootP : root < P := by rw [← hvroot]; exact hcanon.2.2.1
  refine ⟨Z.encode p ++ serializeProofValues (specProofValues H w), ?_, ?_, ?_, ?_, ?_, ?_⟩
  · unfold generateRlnProof
    rw [hin]
    simp only
    rw [hvals]
    simp only
    rw [hgen]
  · rw [List.length_append, henc, (hrt _ hcanon).1]
  · exact px_verify_exact hrt Z _ _ p true henc hcanon hdec hver
  · rw [hvr Z h2f root _ _ signal p true henc hcanon hsig hdec hver, hvroot, hvx]
    simp
  · have h := hvw Z h2f [root] _ _ signal p true henc hcanon hsig hdec hver
      (by intro r hr; rw [List.mem_singleton] at hr; rw [hr]; exact hrootP)
    simp only [List.map_cons, List.map_nil, List.flatten_cons, List.flatten_nil, List.append_nil] at h
    rw [h, hvroot, hvx]
    simp
  · have h := hvw Z h2f [] _ _ signal p true henc hcanon hsig hdec hver (by intro r hr; cases hr)
    simp only [List.map_nil, List.flatten_nil] at h
    rw [h, hvx]
    simp

/-! ## the statements, with the codec facts of `BytesProofs.lean` plugged in -/

theorem recover_from_messages : RecoverFromMessagesStmt := px_recover_from_messages_of proofValues_roundtrip

theorem recover_different_epoch : RecoverDifferentEpochStmt := px_recover_different_epoch_of proofValues_roundtrip

theorem prover_panic : ProverPanicStmt := px_prover_panic_of witness_decode_total

theorem prove_then_verify : ProveThenVerifyStmt :=
  px_prove_then_verify_of proveInput_roundtrip proofValues_roundtrip verifyRln_exact verifyRoots_exact

end Zk.Proto
