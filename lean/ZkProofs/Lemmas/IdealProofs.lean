import ZkProofs.Lemmas.TreeDefs
/-!
# Facts about the ideal Merkle tree (C07 and the executable short cuts of the driver)

Proofs of the five `Ideal.…Stmt` statements of `TreeDefs.lean`.
-/
namespace Zk.Tree

variable {α : Type}

/-! ## `nodeFast` -/

/-- a block whose leaves all read the default is the default node of its height -/
theorem Ideal.nodeAux_dflt (H : α → α → α) (dflt : α) (lf : Nat → α) :
    ∀ (k i : Nat), (∀ j, i * 2 ^ k ≤ j → j < (i + 1) * 2 ^ k → lf j = dflt) →
      Ideal.nodeAux H lf k i = Ideal.dfltAt H dflt k
  | 0, i, h => by
    simp only [Ideal.nodeAux, Ideal.dfltAt]
    exact h i (by simp) (by simp)
  | k+1, i, h => by
    simp only [Ideal.nodeAux, Ideal.dfltAt]
    have hp : 2 ^ (k+1) = 2 * 2 ^ k := by rw [Nat.pow_succ]; omega
    have e1 : 2 * i * 2 ^ k = i * 2 ^ (k+1) := by rw [hp, Nat.mul_comm 2 i, Nat.mul_assoc]
    have e2 : (2 * i + 1) * 2 ^ k = i * 2 ^ (k+1) + 2 ^ k := by rw [Nat.add_mul, e1]; simp
    have e3 : (2 * i + 1 + 1) * 2 ^ k = i * 2 ^ (k+1) + 2 ^ k + 2 ^ k := by
      rw [Nat.add_mul (2 * i + 1), e2]; simp
    have e4 : (i + 1) * 2 ^ (k+1) = i * 2 ^ (k+1) + 2 ^ k + 2 ^ k := by
      rw [Nat.add_mul i 1, hp]; omega
    have hpos := Nat.two_pow_pos k
    rw [Ideal.nodeAux_dflt H dflt lf k (2 * i), Ideal.nodeAux_dflt H dflt lf k (2 * i + 1)]
    · intro j h1 h2
      rw [e2] at h1; rw [e3] at h2
      exact h j (by omega) (by omega)
    · intro j h1 h2
      rw [e1] at h1; rw [e2] at h2
      exact h j h1 (by omega)

theorem Ideal.lookup_none_of_forall {β : Type} (ws : List (Nat × β)) (j : Nat)
    (h : ∀ w ∈ ws, w.1 ≠ j) : ws.lookup j = none := by
  induction ws with
  | nil => rfl
  | cons w r ih =>
    obtain ⟨a, b⟩ := w
    have hne : a ≠ j := h (a, b) (by simp)
    have : (j == a) = false := by simp; omega
    simp only [List.lookup, this]
    exact ih (fun w hw => h w (by simp [hw]))

theorem Ideal.nodeFastAux_eq (H : α → α → α) (dflt : α) (t : Ideal α) :
    ∀ (k i : Nat), Ideal.nodeFastAux H dflt t k i = Ideal.nodeAux H (t.leaf dflt) k i
  | 0, i => by simp [Ideal.nodeFastAux, Ideal.nodeAux]
  | k+1, i => by
    unfold Ideal.nodeFastAux
    split
    · rw [Ideal.nodeFastAux_eq H dflt t k, Ideal.nodeFastAux_eq H dflt t k]; rfl
    · rename_i hany
      symm
      apply Ideal.nodeAux_dflt
      intro j h1 h2
      unfold Ideal.leaf
      rw [Ideal.lookup_none_of_forall]
      intro w hw hj
      apply hany
      rw [List.any_eq_true]
      exact ⟨w, hw, by simp; omega⟩

theorem Ideal.nodeFast_eq [Inhabited α] (H : α → α → α) (dflt : α) : Ideal.NodeFastStmt H dflt := by
  intro t l i
  exact Ideal.nodeFastAux_eq H dflt t _ i

/-! ## `levels` -/

theorem Ideal.pairUp_map_range (H : α → α → α) :
    ∀ (m : Nat) (f : Nat → α), Ideal.pairUp H ((List.range (2 * m)).map f) =
      (List.range m).map (fun i => H (f (2 * i)) (f (2 * i + 1)))
  | 0, f => by simp [Ideal.pairUp]
  | m+1, f => by
    have h2 : 2 * (m + 1) = 2 * m + 1 + 1 := by omega
    rw [h2, List.range_succ_eq_map, List.range_succ_eq_map, List.range_succ_eq_map (n := m)]
    simp only [List.map_cons, List.map_map, Ideal.pairUp]
    rw [Ideal.pairUp_map_range H m]
    congr 1

theorem Ideal.levelsAux_getD (H : α → α → α) (lf : Nat → α) :
    ∀ (n j k : Nat), k ≤ n →
      (Ideal.levelsAux H n ((List.range (2 ^ n)).map (Ideal.nodeAux H lf j))).getD k [] =
        (List.range (2 ^ (n - k))).map (Ideal.nodeAux H lf (j + k))
  | 0, j, k, hk => by
    have : k = 0 := by omega
    subst this
    simp [Ideal.levelsAux]
  | n+1, j, 0, _ => by simp [Ideal.levelsAux]
  | n+1, j, k+1, hk => by
    have hp : 2 ^ (n+1) = 2 * 2 ^ n := by rw [Nat.pow_succ]; omega
    simp only [Ideal.levelsAux, List.getD_cons_succ]
    rw [hp, Ideal.pairUp_map_range]
    have : (fun i => H (Ideal.nodeAux H lf j (2 * i)) (Ideal.nodeAux H lf j (2 * i + 1)))
        = Ideal.nodeAux H lf (j + 1) := by
      funext i; rfl
    rw [this, Ideal.levelsAux_getD H lf n (j + 1) k (by omega)]
    have e1 : n + 1 - (k + 1) = n - k := by omega
    have e2 : j + 1 + k = j + (k + 1) := by omega
    rw [e1, e2]

theorem Ideal.levels_eq [Inhabited α] (H : α → α → α) (dflt : α) : Ideal.LevelsStmt H dflt := by
  intro t k i hk hi
  unfold Ideal.levels Ideal.cap
  have h0 : t.leaf dflt = Ideal.nodeAux H (t.leaf dflt) 0 := by funext i; rfl
  rw [h0, Ideal.levelsAux_getD H _ t.depth 0 k hk]
  unfold Ideal.node
  have e : t.depth - (t.depth - k) = k := by omega
  rw [e, Nat.zero_add]
  simp [List.getD, hi]

/-! ## `proof` (C07 completeness) -/

theorem Ideal.xor_one_eq (i : Nat) : i ^^^ 1 = if i % 2 = 0 then i + 1 else i - 1 := by
  apply Nat.eq_of_testBit_eq
  intro j
  rw [Nat.testBit_xor]
  split
  · rename_i h
    cases j with
    | zero =>
      have h1 : (i + 1) % 2 = 1 := by omega
      simp [Nat.testBit_zero, h, h1]
    | succ j => simp [Nat.testBit_succ]; congr 1; omega
  · rename_i h
    cases j with
    | zero =>
      have h0 : i % 2 = 1 := by omega
      have h1 : (i - 1) % 2 = 0 := by omega
      simp [Nat.testBit_zero, h0, h1]
    | succ j => simp [Nat.testBit_succ]; congr 1; omega

theorem Ideal.proofAux_length (H : α → α → α) (dflt : α) (t : Ideal α) :
    ∀ (k l i : Nat), (Ideal.proofAux H dflt t k l i).length = k
  | 0, _, _ => rfl
  | k+1, l, i => by
    simp only [Ideal.proofAux, List.length_cons, Ideal.proofAux_length H dflt t k]

theorem Ideal.proofAux_bits (H : α → α → α) (dflt : α) (t : Ideal α) :
    ∀ (k l i : Nat), ∀ x ∈ Ideal.proofAux H dflt t k l i, x.2 = 0 ∨ x.2 = 1
  | 0, _, _ => by simp [Ideal.proofAux]
  | k+1, l, i => by
    intro x hx
    simp only [Ideal.proofAux, List.mem_cons] at hx
    rcases hx with rfl | hx
    · simp only; omega
    · exact Ideal.proofAux_bits H dflt t k _ _ x hx

theorem Ideal.proofAux_decode (H : α → α → α) (dflt : α) (t : Ideal α) :
    ∀ (k l i : Nat), i < 2 ^ k →
      (Ideal.proofAux H dflt t k l i).foldr (fun x acc => 2 * acc + x.2) 0 = i
  | 0, _, i => by
    intro h
    simp only [Ideal.proofAux, List.foldr_nil]
    simp at h; omega
  | k+1, l, i => by
    intro h
    have hp : 2 ^ (k+1) = 2 * 2 ^ k := by rw [Nat.pow_succ]; omega
    simp only [Ideal.proofAux, List.foldr_cons]
    rw [Ideal.proofAux_decode H dflt t k (l - 1) (i / 2) (by omega)]
    omega

theorem Ideal.node_pred (H : α → α → α) (dflt : α) (t : Ideal α) (l j : Nat)
    (h1 : 1 ≤ l) (h2 : l ≤ t.depth) :
    t.node H dflt (l - 1) j = H (t.node H dflt l (2 * j)) (t.node H dflt l (2 * j + 1)) := by
  unfold Ideal.node
  have e : t.depth - (l - 1) = (t.depth - l) + 1 := by omega
  rw [e]
  rfl

theorem Ideal.computeRoot_proofAux (H : α → α → α) (dflt : α) (t : Ideal α) :
    ∀ (k l i : Nat), k ≤ l → l ≤ t.depth →
      Ideal.computeRoot H (t.node H dflt l i) (Ideal.proofAux H dflt t k l i) =
        t.node H dflt (l - k) (i / 2 ^ k)
  | 0, l, i => by
    intro _ _
    simp [Ideal.proofAux, Ideal.computeRoot]
  | k+1, l, i => by
    intro hk hl
    simp only [Ideal.proofAux, Ideal.computeRoot]
    have hstep : (if i % 2 = 0 then H (t.node H dflt l i) (t.node H dflt l (i ^^^ 1))
        else H (t.node H dflt l (i ^^^ 1)) (t.node H dflt l i)) = t.node H dflt (l - 1) (i / 2) := by
      rw [Ideal.node_pred H dflt t l (i / 2) (by omega) hl, Ideal.xor_one_eq]
      split
      · rename_i h
        have e1 : 2 * (i / 2) = i := by omega
        rw [e1]
      · rename_i h
        have e1 : 2 * (i / 2) = i - 1 := by omega
        have e2 : i - 1 + 1 = i := by omega
        rw [e1, e2]
    rw [hstep, Ideal.computeRoot_proofAux H dflt t k (l - 1) (i / 2) (by omega) (by omega)]
    have e1 : l - 1 - k = l - (k + 1) := by omega
    have e2 : i / 2 / 2 ^ k = i / 2 ^ (k + 1) := by
      rw [Nat.div_div_eq_div_mul, Nat.pow_succ, Nat.mul_comm]
    rw [e1, e2]

theorem Ideal.proof_complete [Inhabited α] (H : α → α → α) (dflt : α) :
    Ideal.ProofCompleteStmt H dflt := by
  intro t i hi
  refine ⟨?_, ?_, ?_, ?_⟩
  · exact Ideal.proofAux_length H dflt t _ _ _
  · exact Ideal.proofAux_decode H dflt t _ _ _ hi
  · exact Ideal.proofAux_bits H dflt t _ _ _
  · have h := Ideal.computeRoot_proofAux H dflt t t.depth t.depth i (Nat.le_refl _) (Nat.le_refl _)
    have e : t.node H dflt t.depth i = t.leaf dflt i := by
      unfold Ideal.node
      rw [Nat.sub_self]; rfl
    rw [e] at h
    unfold Ideal.proof Ideal.root
    rw [h, Nat.sub_self, Nat.div_eq_of_lt hi]

/-! ## binding and direction flip (C07 soundness as collision extraction) -/

/-- a collision of the two-to-one hash -/
def Ideal.Collision (H : α → α → α) : Prop :=
  ∃ a b c d : α, (a, b) ≠ (c, d) ∧ H a b = H c d

theorem Ideal.collision_of_paths (H : α → α → α) :
    ∀ (p p' : List (α × Nat)) (l l' : α),
      p.map (·.2) = p'.map (·.2) →
      Ideal.computeRoot H l p = Ideal.computeRoot H l' p' →
      (l ≠ l' ∨ p.map (·.1) ≠ p'.map (·.1)) →
      Ideal.Collision H
  | [], p', l, l' => by
    intro hd hr hne
    cases p' with
    | nil =>
      simp only [Ideal.computeRoot] at hr
      rcases hne with h | h
      · exact absurd hr h
      · exact absurd rfl h
    | cons x r => simp at hd
  | (s, b) :: r, p', l, l' => by
    intro hd hr hne
    cases p' with
    | nil => simp at hd
    | cons x r' =>
      obtain ⟨s', b'⟩ := x
      simp only [List.map_cons, List.cons.injEq] at hd
      obtain ⟨hb, hd⟩ := hd
      subst hb
      simp only [Ideal.computeRoot] at hr
      by_cases hstep : (if b = 0 then H l s else H s l) = (if b = 0 then H l' s' else H s' l')
      · by_cases hls : l = l' ∧ s = s'
        · obtain ⟨h1, h2⟩ := hls
          subst h1; subst h2
          rw [hstep] at hr
          refine Ideal.collision_of_paths H r r' _ _ hd hr (Or.inr ?_)
          rcases hne with h | h
          · exact absurd rfl h
          · intro hc
            apply h
            simp only [List.map_cons, hc]
        · by_cases hb : b = 0
          · simp only [hb, if_true] at hstep
            refine ⟨l, s, l', s', ?_, hstep⟩
            intro hc
            simp only [Prod.mk.injEq] at hc
            exact hls hc
          · simp only [hb, if_false] at hstep
            refine ⟨s, l, s', l', ?_, hstep⟩
            intro hc
            simp only [Prod.mk.injEq] at hc
            exact hls ⟨hc.2, hc.1⟩
      · exact Ideal.collision_of_paths H r r' _ _ hd hr (Or.inl hstep)

theorem Ideal.binding [Inhabited α] (H : α → α → α) : Ideal.BindingStmt H := by
  intro l l' p p' hd hr hne
  apply Ideal.collision_of_paths H p p' l l' hd hr
  by_cases h : l = l'
  · right
    intro hc
    apply hne
    rw [h, hc]
  · exact Or.inl h

theorem Ideal.computeRoot_append (H : α → α → α) :
    ∀ (p q : List (α × Nat)) (l : α),
      Ideal.computeRoot H l (p ++ q) = Ideal.computeRoot H (Ideal.computeRoot H l p) q
  | [], q, l => rfl
  | (s, b) :: r, q, l => by
    simp only [List.cons_append, Ideal.computeRoot]
    exact Ideal.computeRoot_append H r q _

theorem Ideal.dir_flip [Inhabited α] (H : α → α → α) : Ideal.DirFlipStmt H := by
  intro l pre post sib b hb hne hr
  rw [Ideal.computeRoot_append, Ideal.computeRoot_append] at hr
  generalize Ideal.computeRoot H l pre = x at hne hr
  simp only [Ideal.computeRoot] at hr
  by_cases hstep : (if b = 0 then H x sib else H sib x) = (if 1 - b = 0 then H x sib else H sib x)
  · rcases hb with hb | hb
    · subst hb
      simp only [if_true, Nat.sub_zero, Nat.one_ne_zero, if_false] at hstep
      refine ⟨x, sib, sib, x, ?_, hstep⟩
      intro hc
      simp only [Prod.mk.injEq] at hc
      exact hne hc.1
    · subst hb
      simp only [Nat.one_ne_zero, if_false, Nat.sub_self, if_true] at hstep
      refine ⟨sib, x, x, sib, ?_, hstep⟩
      intro hc
      simp only [Prod.mk.injEq] at hc
      exact hne hc.2
  · exact Ideal.collision_of_paths H post post _ _ rfl hr (Or.inl hstep)

end Zk.Tree
