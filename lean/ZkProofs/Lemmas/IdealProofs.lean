import ZkProofs.Lemmas.TreeDefs
/-!
# Facts about the ideal Merkle tree (C07 and the executable short cuts of the driver)

Proofs of the five `Ideal.…Stmt` statements of `TreeDefs.lean`.
-/
namespace Zk.Tree

variable {α : Type}

/-! ## `nodeFast` -/

/-- a block whose leaves all read the default is the default node of its height -/
theorem Ideal.nodeAux_dflt (H : α → α → α) (dflt : α) (lf : Nat → α) :
    ∀ (k i : Nat), (∀ j, i * 2 ^ k ≤ j → j < (i + 1) * 2 ^ k → lf j = dflt) →
      Ideal.nodeAux H lf k i = Ideal.dfltAt H dflt k
  | 0, i, h => by
    simp only [Ideal.nodeAux, Ideal.dfltAt]
    exact h i (by simp) (by simp)
  | k+1, i, h => by
    simp only [Ideal.nodeAux, Ideal.dfltAt]
    have hp : 2 ^ (k+1) = 2 * 2 ^ k := by rw [Nat.pow_succ]; omega
    have e1 : 2 * i * 2 ^ k = i * 2 ^ (k+1) := by rw [hp, Nat.mul_comm 2 i, Nat.mul_assoc]
    have e2 : (2 * i + 1) * 2 ^ k = i * 2 ^ (k+1) + 2 ^ k := by rw [Nat.add_mul, e1]; simp
    have e3 : (2 * i + 1 + 1) * 2 ^ k = i * 2 ^ (k+1) + 2 ^ k + 2 ^ k := by
      rw [Nat.add_mul (2 * i + 1), e2]; simp
    have e4 : (i + 1) * 2 ^ (k+1) = i * 2 ^ (k+1) + 2 ^ k + 2 ^ k := by
      rw [Nat.add_mul i 1, hp]; omega
    have hpos := Nat.two_pow_pos k
    rw [Ideal.nodeAux_dflt H dflt lf k (2 * i), Ideal.nodeAux_dflt H dflt lf k (2 * i + 1)]
    · intro j h1 h2
      rw [e2] at h1; rw [e3] at h2
      exact h j (by omega) (by omega)
    · intro j h1 h2
      rw [e1] at h1; rw [e2] at h2
      exact h j h1 (by omega)

theorem Ideal.lookup_none_of_forall {β : Type} (ws : List (Nat × β)) (j : Nat)
    (h : ∀ w ∈ ws, w.1 ≠ j) : ws.lookup j = none := by
  induction ws with
  | nil => rfl
  | cons w r ih =>
    obtain ⟨a, b⟩ := w
    have hne : a ≠ j := h (a, b) (by simp)
    have : (j == a) = false := by simp; omega
    simp only [List.lookup, this]
    exact ih (fun w hw => h w (by simp [hw]))

theorem Ideal.nodeFastAux_eq (H : α → α → α) (dflt : α) (t : Ideal α) :
    ∀ (k i : Nat), Ideal.nodeFastAux H dflt t k i = Ideal.nodeAux H (t.leaf dflt) k i
  | 0, i => by simp [Ideal.nodeFastAux, Ideal.nodeAux]
  | k+1, i => by
    unfold Ideal.nodeFastAux
    split
    · rw [Ideal.nodeFastAux_eq H dflt t k, Ideal.nodeFastAux_eq H dflt t k]; rfl
    · rename_i hany
      symm
      apply Ideal.nodeAux_dflt
      intro j h1 h2
      unfold Ideal.leaf
      rw [Ideal.lookup_none_of_forall]
      intro w hw hj
      apply hany
      rw [List.any_eq_true]
      exact ⟨w, hw, by simp; omega⟩

theorem Ideal.nodeFast_eq [Inhabited α] (H : α → α → α) (dflt : α) : Ideal.NodeFastStmt H dflt := by
  intro t l i
  exact Ideal.nodeFastAux_eq H dflt t _ i

/-! ## `levels` -/

theorem Ideal.pairUp_map_range (H : α → α → α) :
    ∀ (m : Nat) (f : Nat → α), Ideal.pairUp H ((List.range (2 * m)).map f) =
      (List.range m).map (fun i => H (f (2 * i)) (f (2 * i + 1)))
  | 0, f => by simp [Ideal.pairUp]
  | m+1, f => by
    have h2 : 2 * (m + 1) = 2 * m + 1 + 1 := by omega
    rw [h2, List.range_succ_eq_map, List.range_succ_eq_map, List.range_succ_eq_map (n := m)]
    simp only [List.map_cons, List.map_map, Ideal.pairUp]
    rw [Ideal.pairUp_map_range H m]
    congr 1

theorem Ideal.levelsAux_getD (H : α → α → α) (lf : Nat → α) :
    ∀ (n j k : Nat), k ≤ n →
      (Ideal.levelsAux H n ((List.range (2 ^ n)).map (Ideal.nodeAux H lf j))).getD k [] =
        (List.range (2 ^ (n - k))).map (Ideal.nodeAux H lf (j + k))
  | 0, j, k, hk => by
    have : k = 0 := by omega
    subst this
    simp [Ideal.levelsAux]
  | n+1, j, 0, _ => by simp [Ideal.levelsAux]
  | n+1, j, k+1, hk => by
    have hp : 2 ^ (n+1) = 2 * 2 ^ n := by rw [Nat.pow_succ]; omega
    simp only [Ideal.levelsAux, List.getD_cons_succ]
    rw [hp, Ideal.pairUp_map_range]
    have : (fun i => H (Ideal.nodeAux H lf j (2 * i)) (Ideal.nodeAux H lf j (2 * i + 1)))
        = Ideal.nodeAux H lf (j + 1) := by
      funext i; rfl
    rw [this, Ideal.levelsAux_getD H lf n (j + 1) k (by omega)]
    have e1 : n + 1 - (k + 1) = n - k := by omega
    have e2 : j + 1 + k = j + (k + 1) := by omega
    rw [e1, e2]

theorem Ideal.levels_eq [Inhabited α] (H : α → α → α) (dflt : α) : Ideal.LevelsStmt H dflt := by
  intro t k i hk hi
  unfold Ideal.levels Ideal.cap
  have h0 : t.leaf dflt = Ideal.nodeAux H (t.leaf dflt) 0 := by funext i; rfl
  rw [h0, Ideal.levelsAux_getD H _ t.depth 0 k hk]
  unfold Ideal.node
  have e : t.depth - (t.depth - k) = k := by omega
  rw [e, Nat.zero_add]
  simp [List.getD, hi]

end Zk.Tree
